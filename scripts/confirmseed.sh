#!/bin/bash
# usage: confirmseed.sh <dir with patch.diff + demo_test.go>
# Confirms in a scratch worktree: patch applies, builds, existing suite passes with it,
# demo fails with the patch and passes without it.  Prints one line verdict.
set -u
export GOFLAGS=-mod=mod GOPROXY=off GOSUMDB=off GOTOOLCHAIN=local
d=$1
wt=$(mktemp -d /tmp/cf.XXXXXX); rmdir $wt
git -C /repo worktree add -q --detach $wt HEAD || exit 2
res=""
cp $d/demo_test.go $wt/zz_seed_demo_test.go
( cd $wt && timeout 600 go test -vet=off -count=1 -run 'TestSeed' . >/tmp/cf_clean.log 2>&1 ); clean=$?
rm $wt/zz_seed_demo_test.go
if ! git -C $wt apply $d/patch.diff 2>/tmp/cf_apply.log; then res="APPLY-FAIL"; fi
if [ -z "$res" ]; then
  ( cd $wt && go build ./... >/tmp/cf_build.log 2>&1 ) || res="BUILD-FAIL"
fi
if [ -z "$res" ]; then
  ( cd $wt && timeout 900 go test -vet=off -count=1 ./... >/tmp/cf_suite.log 2>&1 ) || res="SUITE-FAIL"
fi
if [ -z "$res" ]; then
  cp $d/demo_test.go $wt/zz_seed_demo_test.go
  ( cd $wt && timeout 600 go test -vet=off -count=1 -run 'TestSeed' . >/tmp/cf_seeded.log 2>&1 ); seeded=$?
  if [ $clean -eq 0 ] && [ $seeded -ne 0 ]; then res="CONFIRMED"; else res="DEMO-MISMATCH clean=$clean seeded=$seeded"; fi
fi
echo "$d: $res"
git -C /repo worktree remove --force $wt
