#!/usr/bin/env python3
"""keepseed.py <Cnn>/<a|b> — after confirmseed.sh said CONFIRMED, archive the seed under /verif/seeded/<Cnn><a|b>/"""
import sys, os, shutil, json, subprocess
src = sys.argv[1]                      # e.g. C05/a
pid, v = src.split('/')
d = f"/verif/seeded/{pid}{v}"
os.makedirs(d, exist_ok=True)
for f in ("patch.diff", "demo_test.go", "notes.md"):
    shutil.copy(f"/tmp/seed/{src}/{f}", f"{d}/{f}")
notes = open(f"{d}/notes.md").read()
meta_path = f"{d}/meta.json"
meta = json.load(open(meta_path)) if os.path.exists(meta_path) else {}
meta.update({
 "property": pid,
 "origin": "independent sub-agent given only the property text and a scratch worktree",
 "needs_to_manifest": notes.strip(),
 "confirmed": "scripts/confirmseed.sh: patch applies on /repo HEAD, go build ok, full existing suite ok with the patch, demo TestSeed* fails with the patch and passes without it",
})
meta.setdefault("detected_by", {})
json.dump(meta, open(meta_path, "w"), indent=1)
print("kept", d)
