import json, re, os
def parse(path):
    out={}
    if not os.path.exists(path): return out
    for line in open(path):
        m=re.match(r'^([^:\s]+):\s*(.*)$', line.strip())
        if not m: continue
        ids=m.group(2).split()
        if ids==['NONE']: ids=[]
        if any(not re.match(r'^C\d\d$', i) for i in ids): continue
        out.setdefault(m.group(1), set()).update(ids)
        out.setdefault(m.group(1), set())
    return out
old=json.load(open('/verif/selftest/matrix.json'))
new={}
F1=parse('/tmp/F1.p'); F2=parse('/tmp/F2.p'); F3=parse('/tmp/F3.p'); F4=parse('/tmp/F4.p'); F5=parse('/tmp/F5.p'); F6=parse('/tmp/F6.p'); R4=parse('/tmp/r4.p'); F7=parse('/tmp/F7.p'); F8=parse('/tmp/F8.p'); F12=parse('/tmp/F12.p')
manual={'C03g':{'C03'},'C03h':{'C03'},'C14g':{'C14'},'C14h':{'C05'}}
items=set(old)|set(F1)|set(F3)|set(R4)|set(manual)|set(F12)
for it in sorted(items):
    if re.match(r'^b\d+-r\d', it):
        s=set()
        for src in (F1,F2,F4,F5,F8):
            s|=src.get(it,set())
        if it in F6:   # re-run with the final binary
            s.discard('C17'); s|=F6[it]
        new[it]=sorted(s)
    else:
        s=set(old.get(it,[]))
        for src in (F1,F3,R4,F7,F12,manual):
            s|=src.get(it,set())
        new[it]=sorted(s)
json.dump(new, open('/verif/selftest/matrix.json','w'), indent=1)
print(len(new), 'items')
print('benign with alarms:', {k:v for k,v in new.items() if re.match(r'^b\d+-r\d',k) and v})
print('uncaught:', [k for k,v in new.items() if not re.match(r'^b\d+-r\d',k) and not v])
# own-property misses
miss=[]
for k,v in new.items():
    d=f'/verif/seeded/{k}'
    if os.path.isdir(d):
        meta=json.load(open(d+'/meta.json'))
        meta['detected_by']={'checks': v, 'how': 'scripts/battery.sh on a scratch worktree of /repo HEAD with the patch applied; union of the runs recorded in selftest/matrix.json (fast checks and the check of the item\'s own property re-run with the final checker)'}
        json.dump(meta, open(d+'/meta.json','w'), indent=1)
        if meta.get('property') not in v: miss.append((k, meta.get('property'), v))
print('caught, but not by own check:', miss)
