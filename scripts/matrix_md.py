#!/usr/bin/env python3
"""matrix_md.py — renders /verif/selftest/matrix.json as the markdown section
"Which checks catch which changes" and splices it into DESIGN.md between the
markers <!-- MATRIX:BEGIN --> and <!-- MATRIX:END -->."""
import json, os, re

m = json.load(open('/verif/selftest/matrix.json'))

def first_line(path):
    try:
        t = open(path).read().strip().splitlines()
        s = ' '.join(t[:2])
        s = re.sub(r'\s+', ' ', s)
        return (s[:150] + '…') if len(s) > 150 else s
    except Exception:
        return ''

rows_seed, rows_mut, rows_ben = [], [], []
for item, ids in sorted(m.items()):
    d = f'/verif/seeded/{item}'
    if os.path.isdir(d):
        meta = json.load(open(f'{d}/meta.json'))
        own = meta.get('property', '')
        mark = ', '.join((f'**{i}**' if i == own else i) for i in ids) if ids else '— (missed)'
        rows_seed.append(f'| {item} | {meta.get("round", 1)} | {first_line(d + "/notes.md")} | {mark} |')
    elif re.match(r'^b\d+-r\d', item):
        rows_ben.append(f'| {item} | {"none" if not ids else "ALARM: " + ", ".join(ids)} |')
    else:
        rows_mut.append(f'| {item} | {", ".join(ids) if ids else "— (missed)"} |')

out = []
out.append('### Which checks catch which changes\n')
out.append('Produced by `scripts/battery.sh` (quick tier, each change applied to a scratch worktree of /repo HEAD) and recorded in `selftest/matrix.json` and in each `seeded/*/meta.json`. A complete run of all 18 checks over all 260 items takes more than seven hours on this machine, so the last record is composed from partial runs by `scripts/compose_matrix.py` (logs in `selftest/runs/`): with the final checker, the eleven fast checks on every item, the E3 check of its own property on every seeded change and mutant that the fast checks do not flag, and all eight E3 checks on every refactoring; for the seeded changes of rounds 1–4 the entries also keep what the E3 checks of *other* properties reported in the earlier complete runs. Round 6 (suffix k/l, sets b22/b23): the eleven fast checks and the E3 check of its own property on every seeded change; on the six refactorings the SQL-side checks on b22 and the XSS-side checks on b23 (C17 of C17l: see the note under the table). Bold = the check of the property the change was written against.\n')
out.append('**Seeded changes from sub-agents** (`seeded/`)\n')
out.append('| change | round | what it does (from its notes) | checks that report a violation |')
out.append('|---|---|---|---|')
out += rows_seed
out.append('\n**Hand mutants and reverts of the repairs** (`selftest/mutants/`)\n')
out.append('| change | checks that report a violation |')
out.append('|---|---|')
out += rows_mut
out.append('\n**Behaviour-preserving refactorings** (`selftest/benign/`) — every check must stay silent\n')
out.append('| refactoring | alarms |')
out.append('|---|---|')
out += rows_ben
text = '\n'.join(out) + '\n'

p = '/verif/DESIGN.md'
s = open(p).read()
b, e = '<!-- MATRIX:BEGIN -->', '<!-- MATRIX:END -->'
if b in s and e in s:
    s = s[:s.index(b) + len(b)] + '\n' + text + s[s.index(e):]
else:
    marker = '---\n\n## 0. Decision table'
    s = s.replace(marker, b + '\n' + text + e + '\n\n' + marker, 1)
open(p, 'w').write(s)
print('rows:', len(rows_seed), len(rows_mut), len(rows_ben))
