#!/bin/bash
# usage: battery.sh [-j N] [seed-dir-or-patch ...]
# Runs every claimed check (quick tier) against each seeded change on a scratch
# worktree of /repo's HEAD (never in /repo itself) and prints, per seed, the
# checks that reported a violation.  Output: one line "<seed>: <ids...>".
# With no arguments: all of /verif/seeded/*.  Scratch worktrees are removed.
set -u
export GOFLAGS=-mod=mod GOPROXY=off GOSUMDB=off GOTOOLCHAIN=local
J=4
if [ "${1:-}" = "-j" ]; then J=$2; shift 2; fi
props=${PROPS:-$(python3 -c "import json;print(' '.join(sorted(set(p['property_id'] for p in json.load(open('/verif/MANIFEST.json'))['checks']))))")}
# a snapshot of the checker binary, so that rebuilding it meanwhile does not mix versions
VERIF_BIN=$(mktemp /tmp/verif.snap.XXXXXX); cp /verif/bin/verif "$VERIF_BIN"; chmod +x "$VERIF_BIN"
trap 'rm -f "$VERIF_BIN"' EXIT
items=("$@")
if [ ${#items[@]} -eq 0 ]; then items=(/verif/seeded/*); fi
one() {
  item=$1
  patch=$item; name=$(basename "$item")
  if [ -d "$item" ]; then patch=$item/patch.diff; fi
  wt=$(mktemp -d /tmp/bat.XXXXXX); rmdir "$wt"
  git -C /repo worktree add -q --detach "$wt" HEAD || { echo "$name: WORKTREE-FAILED"; return; }
  ev=$(mktemp -d /tmp/batev.XXXXXX)
  if ! git -C "$wt" apply "$patch" 2>/dev/null; then
    echo "$name: PATCH-DOES-NOT-APPLY"
  else
    hit=""
    for p in $props; do
      out=$("$VERIF_BIN" check --property $p --tier ${TIER:-quick} --repo "$wt" --evidence "$ev" 2>&1); rc=$?
      if [ $rc -ne 0 ]; then
        echo "$name $p rc=$rc: $(echo "$out" | grep -v '^VIOLATION' | head -2 | cut -c1-300 | tr '\n' ' ')" >> ${FAILLOG:-/tmp/battery_fail.log}
        rules=$(echo "$out" | grep -v "^VIOLATION\|^$p " | grep -o ": [A-Za-z0-9'-]* " | sort | uniq | tr -d ': \n' | head -c 60)
        hit="$hit $p"
      fi
    done
    echo "$name:${hit:- NONE}"
    [ -n "${PROGRESS:-}" ] && echo "$name:${hit:- NONE}" >> "$PROGRESS"
  fi
  git -C /repo worktree remove --force "$wt"; rm -rf "$ev"
}
export -f one; export props PROGRESS VERIF_BIN FAILLOG
printf '%s\n' "${items[@]}" | xargs -P "$J" -I{} bash -c 'one {}' | sort
