#!/bin/bash
# usage: tryseed.sh <patch.diff> <property>...   — applies the patch on a scratch worktree of /repo's HEAD,
# runs the listed checks against it (evidence to a temp dir), prints verdicts, removes the worktree.
set -u
export GOFLAGS=-mod=mod GOPROXY=off GOSUMDB=off GOTOOLCHAIN=local
patch=$1; shift
wt=$(mktemp -d /tmp/try.XXXXXX); rmdir $wt
git -C /repo worktree add -q --detach $wt HEAD || exit 2
ev=$(mktemp -d /tmp/tryev.XXXXXX)
if ! git -C $wt apply "$patch"; then echo "PATCH DOES NOT APPLY"; git -C /repo worktree remove --force $wt; exit 2; fi
for p in "$@"; do
  out=$(/verif/bin/verif check --property $p --tier ${TIER:-quick} --repo $wt --evidence $ev 2>&1); rc=$?
  echo "== $p rc=$rc"
  echo "$out" | grep -v "^VIOLATION" | head -${LINES_MAX:-6}
done
git -C /repo worktree remove --force $wt; rm -rf $ev
