#!/usr/bin/env python3
"""record_matrix.py <battery-output-file>...

Reads lines "<item>: <ids…|NONE>" printed by scripts/battery.sh and records them:
 - /verif/selftest/matrix.json   {item: [check ids that reported a violation]}
 - /verif/seeded/<item>/meta.json  detected_by := {"checks": [...], "how": "scripts/battery.sh …"}
 - prints the items no check caught, and the items not caught by the check of their own property.
"""
import json, os, re, sys

# --union: the files are partial runs (subsets of the checks): an item's entry is the union
# of what the runs found, added to what is already recorded
union = '--union' in sys.argv
args = [a for a in sys.argv[1:] if a != '--union']
matrix = {}
for f in args:
    for line in open(f):
        m = re.match(r'^([^:\s]+):\s*(.*)$', line.strip())
        if not m:
            continue
        item, ids = m.group(1), m.group(2).split()
        if ids == ['NONE']:
            ids = []
        if any(not re.match(r'^C\d\d$', i) for i in ids):
            continue
        if union:
            matrix[item] = sorted(set(matrix.get(item, [])) | set(ids))
        else:
            matrix[item] = sorted(set(ids))

path = '/verif/selftest/matrix.json'
old = json.load(open(path)) if os.path.exists(path) else {}
if union:
    for k, v in matrix.items():
        old[k] = sorted(set(old.get(k, [])) | set(v))
else:
    old.update(matrix)
json.dump(dict(sorted(old.items())), open(path, 'w'), indent=1)

missed, notown = [], []
for item, ids in sorted(old.items()):
    d = f'/verif/seeded/{item}'
    if os.path.isdir(d):
        mp = f'{d}/meta.json'
        meta = json.load(open(mp))
        meta['detected_by'] = {'checks': ids, 'how': 'scripts/battery.sh: every claimed check, quick tier, on a scratch worktree of /repo HEAD with the patch applied'}
        json.dump(meta, open(mp, 'w'), indent=1)
        own = meta.get('property')
        if own and own not in ids and ids:
            notown.append((item, own, ids))
    if item.startswith('b') and re.match(r'^b\d+-r\d', item):
        if ids:
            print('FALSE ALARM on benign refactoring', item, ids)
        continue
    if not ids:
        missed.append(item)
print('recorded', len(matrix), 'items; total', len(old))
print('not caught by any check:', missed)
print('caught, but not by the check of their own property:')
for x in notown:
    print('  ', x)
