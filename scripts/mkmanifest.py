#!/usr/bin/env python3
"""Regenerates /verif/MANIFEST.json from the table below and validates it."""
import json, sys, os
ROOT = os.path.dirname(os.path.dirname(os.path.abspath(__file__)))
ENV = "GOFLAGS=-mod=mod GOPROXY=off GOSUMDB=off GOTOOLCHAIN=local GOWORK=off"
SETUP = f"cd /verif/tools && {ENV} go build -o /verif/bin/verif ./cmd/verif"

# id -> (level, engine, technique, text, note, design_ref)
CLAIMED = {
 "C05": ("proof", "E1-effects",
   "interprocedural effect/escape analysis over go/ssa + VTA call graph (global-derived address propagation — package variables and whatever a closure held in a package variable captured —, callee purity list, sync.Once dominance)",
   "Every API-reachable store-like instruction, external call site and package variable is an obligation; all are discharged: no reachable write to package state, no impure callee, no goroutine/channel/map-range. That is a proof of race-freedom and history-independence relative to the trusted base.",
   "Trusted: go/ssa, VTA call graph (sound without reflect/unsafe, which R3 forbids), the pure-package list, field-based heap abstraction.",
   "DESIGN.md §2.1, §3 C05"),
 "C20": ("proof", "E2-tables",
   "exhaustive constant extraction of the five table literals from the type-checked AST; per-entry well-formedness rules; per-entry comparison with the committed baseline snapshot; writer audit from E1, including package variables whose initialiser shares storage with a table",
   "Finite property, enumerated completely: 2 obligations or more per table entry and one per baseline entry, all discharged.",
   "Trusted: go/types constant evaluation, the extractor, baseline/tables.json (produced once from the pinned commit).",
   "DESIGN.md §2.2, §3 C20"),
}
EXTRA = os.path.join(ROOT, "scripts", "manifest_extra.json")
if os.path.exists(EXTRA):
    for k, v in json.load(open(EXTRA)).items():
        CLAIMED[k] = tuple(v)

NA = json.load(open(os.path.join(ROOT, "scripts", "not_applicable.json")))

checks = []
for pid in sorted(CLAIMED):
    level, engine, tech, text, note, ref = CLAIMED[pid]
    checks.append({
        "property_id": pid,
        "quick_cmd": f"bin/verif check --property {pid} --tier quick",
        "thorough_cmd": f"bin/verif check --property {pid} --tier thorough",
        "evidence_file": f"/verif/evidence/{pid}.json",
        "replay_cmd_template": "bin/verif explain {path}",
        "engine": engine,
        "level_claimed": {"category": level, "text": text, "design_ref": ref},
        "level_note": note,
        "technique": "static analysis: " + tech,
    })
props = [json.loads(l)["id"] for l in open(os.path.join(ROOT, "properties.jsonl"))]
na = [{"property_id": p, "reason": NA[p]} for p in props if p not in CLAIMED]
missing = [p for p in props if p not in CLAIMED and p not in NA]
if missing:
    sys.exit(f"no claim and no not_applicable reason for {missing}")
man = {
 "version": 1,
 "setup_cmd": SETUP,
 "hooks": {"guard": "verif", "enable": "none needed: the checks are static analyses of /repo's working tree (go/packages + go/ssa); no instrumentation is compiled into the repository",
           "baseline_off_cmd": "cd /repo && go test -vet=off -count=1 -timeout 25m ./...",
           "source_commits": [], "add_only": True},
 "engines": [
  {"name": "E1-effects", "path": "tools/internal/effects", "serves_properties": ["C05", "C20"], "kind_free_text": "effect/escape dataflow analysis on SSA + call graph"},
  {"name": "E2-tables", "path": "tools/internal/tables", "serves_properties": ["C20", "C01", "C03", "C10", "C11", "C14", "C19"], "kind_free_text": "constant extraction of table literals; closed-initialiser SSA evaluation (dispatch/accept tables, single-byte predicates)"},
  {"name": "E3-absint", "path": "tools/internal/absint", "serves_properties": ["C01", "C02", "C03", "C09", "C13", "C16", "C17", "C18", "C19"], "kind_free_text": "relational abstract interpretation of go/ssa (linear inequalities, in-checker simplex), bounds/progress/offset-base obligations"},
  {"name": "E4-symmetry", "path": "tools/internal/symmetry", "serves_properties": ["C10", "C11", "C19"], "kind_free_text": "observation-symmetry (non-interference under ASCII case swap) analysis"},
  {"name": "E5-paths", "path": "tools/internal/checks", "serves_properties": ["C03", "C04", "C08", "C12", "C13", "C14", "C15"], "kind_free_text": "CFG path rules, SCCP-by-call, HTML state-graph rules"},
 ],
 "checks": checks,
 "not_applicable": na,
 "notes": "All checks are static: they load /repo's current working tree with go/packages, build go/ssa and decide rules on that representation. Nothing runs IsSQLi/IsXSS. See DESIGN.md.",
}
json.dump(man, open(os.path.join(ROOT, "MANIFEST.json"), "w"), indent=1)
open(os.path.join(ROOT, "MANIFEST.json"), "a").write("\n")
try:
    import jsonschema
    jsonschema.validate(man, json.load(open("/root/.vp/MANIFEST.schema.json")))
    print("MANIFEST.json valid;", len(checks), "claimed,", len(na), "not applicable")
except ImportError:
    print("jsonschema not importable; written without validation")
