package libinjection

import (
	"strings"
	"testing"
	"time"
)

func TestDemoCData(t *testing.T) {
	defer func() {
		if r := recover(); r != nil {
			t.Fatalf("panic: %v", r)
		}
	}()
	IsXSS("<![CDATA[]]]")
	IsXSS("<![CDATA[x]]")
}

func TestDemoBogus2(t *testing.T) {
	// <% ... %> : first "%>" terminates.
	h := new(h5State)
	h.init("<%>%%>-<script>", html5FlagsDataState)
	var toks []string
	for h.next() {
		toks = append(toks, h.tokenStart[:h.tokenLen])
	}
	t.Logf("%q", toks)
	if len(toks) < 1 || toks[0] != ">%" {
		t.Fatalf("first token %q, want \">%%\"", toks)
	}
}

func TestDemoQString(t *testing.T) {
	a, fa := IsSQLi("q'!a!' or 1=1")
	b, fb := IsSQLi("q'\xe9a\xe9' or 1=1")
	t.Log(a, fa, b, fb)
	if a != b || fa != fb {
		t.Fatalf("delimiter byte changes verdict: %v %q vs %v %q", a, fa, b, fb)
	}
}

func TestDemoStringSelf(t *testing.T) {
	// content with a backslash-escaped quote whose tail repeats earlier
	s := new(sqliState)
	in := `'a\'a\'b' or 1=1`
	sqliInit(s, in, sqliFlagQuoteNone|sqliFlagSQLAnsi)
	s.tokenize()
	t.Logf("tok pos=%d len=%d val=%q close=%q next=%d", s.current.pos, s.current.len, s.current.val, s.current.strClose, s.pos)
}

func TestDemoQuadratic(t *testing.T) {
	for _, unit := range []string{`\'`, `''`} {
		var d [2]time.Duration
		for i, n := range []int{32000, 128000} {
			in := "'" + strings.Repeat(unit, n)
			st := time.Now()
			IsSQLi(in)
			d[i] = time.Since(st)
		}
		t.Logf("%q: %v -> %v ratio %.1f", unit, d[0], d[1], float64(d[1])/float64(d[0]))
		if float64(d[1])/float64(d[0]) > 9 {
			t.Errorf("%q: superlinear", unit)
		}
	}
}

func TestDemoStringSelf2(t *testing.T) {
	tail := `' or 1=1 -- `
	in := `'\` + tail + `\\` + tail
	ok, fp := IsSQLi(in)
	t.Logf("%q -> %v %q", in, ok, fp)
	s := new(sqliState)
	sqliInit(s, in, sqliFlagQuoteNone|sqliFlagSQLAnsi)
	s.tokenize()
	t.Logf("tok pos=%d len=%d close=%q next=%d", s.current.pos, s.current.len, s.current.strClose, s.pos)
	if s.current.strClose != '\'' {
		t.Fatalf("string literal not closed at its first unescaped quote")
	}
}
