// Package globalwrite is a known-bad fixture: every rule of the effect
// analysis (E1) must fire on it on every run, so that a rule with zero
// instances on the real tree is not vacuous.
package globalwrite

import "sync"

var lastInput string
var cache = map[string]bool{}
var pool sync.Pool
var table []int
var goodOnce sync.Once
var goodTable []int

type state struct{ buf []byte }

// R1: a cached verdict in a package-level map.
func remember(s string, v bool) { cache[s] = v; lastInput = s }

// R3: sync.Pool is shared mutable state.
func pooled() *state {
	if v := pool.Get(); v != nil {
		return v.(*state)
	}
	return &state{}
}

// R1: lazily built table without synchronisation.
func lazyTable() []int {
	if table == nil {
		table = make([]int, 256)
	}
	return table
}

func lazyRead(i int) int { return lazyTable()[i&255] }

// R4: map iteration order.
func anyKey() string {
	for k := range cache {
		return k
	}
	return ""
}

// R2: goroutine.
func spawn(s string) {
	done := make(chan bool)
	go func() { done <- len(s) > 0 }()
	<-done
}

// negative control: the accepted sync.Once idiom, read dominated by Do.
func onceGood() {
	goodOnce.Do(func() { goodTable = make([]int, 4) })
}

func useOnceGood(i int) int {
	onceGood()
	return goodTable[i&3]
}

func IsSQLi(input string) (bool, string) {
	st := pooled()
	st.buf = append(st.buf[:0], input...)
	v := lazyRead(len(input)) == 0 && useOnceGood(len(input)) == 0
	remember(input, v)
	pool.Put(st)
	return v, anyKey()
}

func IsXSS(input string) bool {
	spawn(input)
	return cache[input]
}
