module fixture/globalwrite

go 1.17
