// Command verif is the single entry point of the static checks.
//
//	verif check --property C05 --tier quick [--repo /repo] [--verif /verif] [--evidence DIR]
//	verif baseline [--repo /repo]          (re)write baseline/tables.json — done once at the pinned commit
//	verif explain <replay.json>
//	verif list
package main

import (
	"flag"
	"fmt"
	"os"
	"path/filepath"
	"runtime/debug"
	"strconv"
	"strings"
	"time"

	"verif/tools/internal/checks"
	"verif/tools/internal/core"
)

func main() {
	if len(os.Args) < 2 {
		usage()
	}
	switch os.Args[1] {
	case "check":
		os.Exit(cmdCheck(os.Args[2:]))
	case "symbols":
		// (re)write baseline/symbols.json — done once at the pinned tree
		p, err := core.Load("/repo", "", nil)
		if err != nil {
			fmt.Println(err)
			os.Exit(1)
		}
		if err := checks.WriteSymbols(p, "/verif"); err != nil {
			fmt.Println(err)
			os.Exit(1)
		}
		os.Exit(0)
	case "baseline":
		os.Exit(cmdBaseline(os.Args[2:]))
	case "explain":
		if len(os.Args) < 3 {
			usage()
		}
		b, err := os.ReadFile(os.Args[2])
		if err != nil {
			fmt.Println(err)
			os.Exit(2)
		}
		os.Stdout.Write(b)
		fmt.Println()
	case "ssa":
		repoDir := "/repo"
		if d := os.Getenv("VERIF_REPO"); d != "" {
			repoDir = d
		}
		p, err := core.Load(repoDir, "", nil)
		if err != nil {
			fmt.Println(err)
			os.Exit(1)
		}
		for _, name := range os.Args[2:] {
			if fn := p.FuncByQualName(name); fn != nil {
				fn.WriteTo(os.Stdout)
			} else {
				fmt.Println("no function", name)
			}
		}
	case "absint":
		p, err := core.Load("/repo", "", nil)
		if err != nil {
			fmt.Println(err)
			os.Exit(1)
		}
		for _, name := range os.Args[2:] {
			checks.DebugE3(&checks.Ctx{P: p, Tier: "quick", VerifDir: "/verif", Property: "DBG"}, name)
		}
	case "list":
		for _, id := range checks.IDs() {
			fmt.Println(id)
		}
	default:
		usage()
	}
}

func usage() {
	fmt.Fprintln(os.Stderr, "usage: verif check --property Cnn --tier quick|thorough [--repo DIR] [--verif DIR] [--evidence DIR] | baseline | explain FILE | list")
	os.Exit(2)
}

func cmdBaseline(args []string) int {
	fs := flag.NewFlagSet("baseline", flag.ExitOnError)
	repo := fs.String("repo", "/repo", "repository working tree")
	verifDir := fs.String("verif", "/verif", "verification directory")
	fs.Parse(args)
	p, err := core.Load(*repo, "", nil)
	if err != nil {
		fmt.Println(err)
		return 1
	}
	if err := checks.WriteBaseline(p, filepath.Join(*verifDir, "baseline", "tables.json")); err != nil {
		fmt.Println(err)
		return 1
	}
	if err := checks.WriteExtraBaselines(p, *verifDir); err != nil {
		fmt.Println(err)
		return 1
	}
	return 0
}

func cmdCheck(args []string) (code int) {
	fs := flag.NewFlagSet("check", flag.ExitOnError)
	prop := fs.String("property", "", "property id")
	tier := fs.String("tier", "quick", "quick|thorough")
	repo := fs.String("repo", "/repo", "repository working tree")
	verifDir := fs.String("verif", "/verif", "verification directory")
	evid := fs.String("evidence", "", "evidence directory (default <verif>/evidence)")
	fs.Parse(args)
	if t := os.Getenv("VERIF_TIER"); t != "" && !isFlagSet(fs, "tier") {
		*tier = t
	}
	if *evid == "" {
		*evid = filepath.Join(*verifDir, "evidence")
	}
	seed := int64(0)
	if s := os.Getenv("VERIF_SEED"); s != "" {
		seed, _ = strconv.ParseInt(s, 10, 64)
	}
	fn, level, ok := checks.Lookup(*prop)
	if !ok {
		fmt.Printf("unknown property %q (known: %s)\n", *prop, strings.Join(checks.IDs(), " "))
		return 2
	}
	start := time.Now()
	cmdline := "bin/verif " + strings.Join(os.Args[1:], " ")
	res := core.NewResult(*prop, level)
	defer func() {
		if rec := recover(); rec != nil {
			// an analyser panic is a failure, never a pass
			res = core.NewResult(*prop, level)
			res.Fail("framework", "-", "analyser panic", "-", fmt.Sprintf("%v\n%s", rec, debug.Stack()))
			code = res.Finish(*tier, seed, time.Since(start).Seconds(), *verifDir, *evid, cmdline)
		}
	}()
	p, err := core.Load(*repo, "", nil)
	if err != nil {
		res.Fail("load", "-", "packages.Load "+*repo, "-", err.Error())
		return res.Finish(*tier, seed, time.Since(start).Seconds(), *verifDir, *evid, cmdline)
	}
	ctx := &checks.Ctx{P: p, Tier: *tier, VerifDir: *verifDir, Property: *prop}
	res = fn(ctx)
	if *tier == "thorough" {
		checks.Thorough(ctx, fn, res)
	}
	return res.Finish(*tier, seed, time.Since(start).Seconds(), *verifDir, *evid, cmdline)
}

func isFlagSet(fs *flag.FlagSet, name string) bool {
	set := false
	fs.Visit(func(f *flag.Flag) {
		if f.Name == name {
			set = true
		}
	})
	return set
}
