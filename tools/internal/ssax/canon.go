package ssax

import (
	"fmt"
	"go/token"
	"go/types"
	"sort"
	"strings"

	"golang.org/x/tools/go/ssa"
)

// canon renders a value as a canonical expression string: loads of fields
// become field paths, integer arithmetic a sorted linear form.  Two Index
// instructions with equal canonical strings denote the same byte provided no
// write to a loaded field lies between them (see sameByte).
// Canon is the exported canonical rendering.
func Canon(v ssa.Value) string {
	if v == nil {
		return ""
	}
	return canonD(v, nil, 0)
}

// cenv binds the parameters of a pure expression function that is rendered in
// place of a call to it (`s.peekAt(1)` reads as `s.input[s.pos+1]`).
type cenv struct {
	bind  map[*ssa.Parameter]ssa.Value
	outer *cenv
}

// PureExprFunc: fn is a single-block function without effects whose result is
// one expression over its parameters (loads, field and index reads, slices,
// arithmetic, len): an accessor.  Returns the returned expression.
func PureExprFunc(fn *ssa.Function) (ssa.Value, bool) {
	if fn == nil || len(fn.Blocks) != 1 || fn.Synthetic != "" || len(fn.FreeVars) > 0 {
		return nil, false
	}
	var ret ssa.Value
	for _, ins := range fn.Blocks[0].Instrs {
		switch x := ins.(type) {
		case *ssa.UnOp, *ssa.FieldAddr, *ssa.Field, *ssa.IndexAddr, *ssa.Index, *ssa.Lookup, *ssa.Slice, *ssa.BinOp, *ssa.Convert, *ssa.ChangeType, *ssa.DebugRef:
			if lk, ok := x.(*ssa.Lookup); ok && lk.CommaOk {
				return nil, false
			}
		case *ssa.Call:
			b, ok := x.Common().Value.(*ssa.Builtin)
			if !ok || b.Name() != "len" {
				return nil, false
			}
		case *ssa.Return:
			if len(x.Results) != 1 {
				return nil, false
			}
			ret = x.Results[0]
		default:
			return nil, false
		}
	}
	return ret, ret != nil
}

func (e *cenv) resolve(v ssa.Value) (ssa.Value, *cenv) {
	for e != nil {
		prm, ok := v.(*ssa.Parameter)
		if !ok {
			break
		}
		a, ok := e.bind[prm]
		if !ok {
			break
		}
		v, e = a, e.outer
	}
	return v, e
}

func canonD(v ssa.Value, env *cenv, depth int) string {
	if v == nil {
		return ""
	}
	if depth > 12 {
		return "%" + v.Name()
	}
	v, env = env.resolve(v)
	switch x := v.(type) {
	case *ssa.Parameter:
		return "$" + x.Name()
	case *ssa.Const:
		if k, ok := ConstInt(x); ok {
			return fmt.Sprint(k)
		}
		if s, ok := ConstString(x); ok {
			return fmt.Sprintf("%q", s)
		}
		return x.String()
	case *ssa.Global:
		return "@" + x.Name()
	case *ssa.FreeVar:
		return "^" + x.Name()
	case *ssa.UnOp:
		if x.Op == token.MUL {
			return "*" + canonD(x.X, env, depth+1)
		}
		return x.Op.String() + "(" + canonD(x.X, env, depth+1) + ")"
	case *ssa.FieldAddr:
		st := x.X.Type().Underlying().(*types.Pointer).Elem().Underlying().(*types.Struct)
		return canonD(x.X, env, depth+1) + "." + st.Field(x.Field).Name()
	case *ssa.Field:
		st := x.X.Type().Underlying().(*types.Struct)
		return canonD(x.X, env, depth+1) + "." + st.Field(x.Field).Name()
	case *ssa.IndexAddr:
		return canonD(x.X, env, depth+1) + "[" + canonD(x.Index, env, depth+1) + "]"
	case *ssa.Index:
		return canonD(x.X, env, depth+1) + "[" + canonD(x.Index, env, depth+1) + "]"
	case *ssa.Lookup:
		return canonD(x.X, env, depth+1) + "[" + canonD(x.Index, env, depth+1) + "]"
	case *ssa.Slice:
		return "(" + canonD(x.X, env, depth+1) + "[" + canonD(x.Low, env, depth+1) + ":" + canonD(x.High, env, depth+1) + "])"
	case *ssa.Convert:
		if b, ok := x.Type().Underlying().(*types.Basic); ok && b.Info()&types.IsInteger != 0 {
			if bx, ok := x.X.Type().Underlying().(*types.Basic); ok && bx.Info()&types.IsInteger != 0 {
				return canonD(x.X, env, depth+1)
			}
		}
	case *ssa.ChangeType:
		return canonD(x.X, env, depth+1)
	case *ssa.BinOp:
		if x.Op == token.ADD || x.Op == token.SUB {
			if b, ok := x.Type().Underlying().(*types.Basic); ok && b.Info()&types.IsInteger != 0 {
				k, terms := linear(x, env, depth)
				var keys []string
				for t := range terms {
					keys = append(keys, t)
				}
				sort.Strings(keys)
				// x + 0 (an accessor called with offset 0) is x
				if k == 0 {
					var only []string
					for _, t := range keys {
						if terms[t] != 0 {
							only = append(only, t)
						}
					}
					if len(only) == 1 && terms[only[0]] == 1 {
						return only[0]
					}
				}
				var sb strings.Builder
				for _, t := range keys {
					if terms[t] == 0 {
						continue
					}
					fmt.Fprintf(&sb, "%+d·%s", terms[t], t)
				}
				if k != 0 || sb.Len() == 0 {
					fmt.Fprintf(&sb, "%+d", k)
				}
				return "(" + sb.String() + ")"
			}
		}
	}
	// stable names for values that come from source variables / calls, so that keys
	// do not depend on SSA register numbering
	switch x := v.(type) {
	case *ssa.Phi:
		if x.Comment != "" {
			return "φ" + x.Comment
		}
	case *ssa.Alloc:
		if x.Comment != "" {
			return "&" + x.Comment
		}
	case *ssa.Call:
		name := "call"
		if f := x.Common().StaticCallee(); f != nil {
			if ret, ok := PureExprFunc(f); ok && depth < 8 {
				b := map[*ssa.Parameter]ssa.Value{}
				for i, prm := range f.Params {
					if i < len(x.Common().Args) {
						b[prm] = x.Common().Args[i]
					}
				}
				return canonD(ret, &cenv{bind: b, outer: env}, depth+1)
			}
			name = f.Name()
		} else if b, ok := x.Common().Value.(*ssa.Builtin); ok {
			name = b.Name()
		}
		var args []string
		for _, a := range x.Common().Args {
			args = append(args, canonD(a, env, depth+1))
		}
		return name + "(" + strings.Join(args, ",") + ")"
	case *ssa.Extract:
		return canonD(x.Tuple, env, depth+1) + fmt.Sprintf("#%d", x.Index)
	}
	return "%" + v.Name()
}

func linear(v ssa.Value, env *cenv, depth int) (int64, map[string]int64) {
	terms := map[string]int64{}
	var k int64
	var rec func(v ssa.Value, env *cenv, sign int64, d int)
	rec = func(v ssa.Value, env *cenv, sign int64, d int) {
		v, env = env.resolve(v)
		if c, ok := ConstInt(v); ok {
			k += sign * c
			return
		}
		if bo, ok := v.(*ssa.BinOp); ok && d < 20 && (bo.Op == token.ADD || bo.Op == token.SUB) {
			rec(bo.X, env, sign, d+1)
			if bo.Op == token.ADD {
				rec(bo.Y, env, sign, d+1)
			} else {
				rec(bo.Y, env, -sign, d+1)
			}
			return
		}
		if call, ok := v.(*ssa.Call); ok && d < 8 {
			if f := call.Common().StaticCallee(); f != nil {
				if ret, ok := PureExprFunc(f); ok {
					b := map[*ssa.Parameter]ssa.Value{}
					for i, prm := range f.Params {
						if i < len(call.Common().Args) {
							b[prm] = call.Common().Args[i]
						}
					}
					rec(ret, &cenv{bind: b, outer: env}, sign, d+1)
					return
				}
			}
		}
		if cv, ok := v.(*ssa.Convert); ok {
			if bx, ok := cv.X.Type().Underlying().(*types.Basic); ok && bx.Info()&types.IsInteger != 0 {
				if b, ok := cv.Type().Underlying().(*types.Basic); ok && b.Info()&types.IsInteger != 0 {
					rec(cv.X, env, sign, d+1)
					return
				}
			}
		}
		terms[canonD(v, env, depth+1)] += sign
	}
	rec(v, env, 1, 0)
	return k, terms
}
