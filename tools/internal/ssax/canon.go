package ssax

import (
	"fmt"
	"go/token"
	"go/types"
	"sort"
	"strings"

	"golang.org/x/tools/go/ssa"
)

// canon renders a value as a canonical expression string: loads of fields
// become field paths, integer arithmetic a sorted linear form.  Two Index
// instructions with equal canonical strings denote the same byte provided no
// write to a loaded field lies between them (see sameByte).
// Canon is the exported canonical rendering.
func Canon(v ssa.Value) string {
	if v == nil {
		return ""
	}
	return canonD(v, 0)
}

func canonD(v ssa.Value, depth int) string {
	if v == nil {
		return ""
	}
	if depth > 12 {
		return "%" + v.Name()
	}
	switch x := v.(type) {
	case *ssa.Parameter:
		return "$" + x.Name()
	case *ssa.Const:
		if k, ok := ConstInt(x); ok {
			return fmt.Sprint(k)
		}
		if s, ok := ConstString(x); ok {
			return fmt.Sprintf("%q", s)
		}
		return x.String()
	case *ssa.Global:
		return "@" + x.Name()
	case *ssa.FreeVar:
		return "^" + x.Name()
	case *ssa.UnOp:
		if x.Op == token.MUL {
			return "*" + canonD(x.X, depth+1)
		}
		return x.Op.String() + "(" + canonD(x.X, depth+1) + ")"
	case *ssa.FieldAddr:
		st := x.X.Type().Underlying().(*types.Pointer).Elem().Underlying().(*types.Struct)
		return canonD(x.X, depth+1) + "." + st.Field(x.Field).Name()
	case *ssa.Field:
		st := x.X.Type().Underlying().(*types.Struct)
		return canonD(x.X, depth+1) + "." + st.Field(x.Field).Name()
	case *ssa.IndexAddr:
		return canonD(x.X, depth+1) + "[" + canonD(x.Index, depth+1) + "]"
	case *ssa.Index:
		return canonD(x.X, depth+1) + "[" + canonD(x.Index, depth+1) + "]"
	case *ssa.Lookup:
		return canonD(x.X, depth+1) + "[" + canonD(x.Index, depth+1) + "]"
	case *ssa.Slice:
		return "(" + canonD(x.X, depth+1) + "[" + canonD(x.Low, depth+1) + ":" + canonD(x.High, depth+1) + "])"
	case *ssa.Convert:
		if b, ok := x.Type().Underlying().(*types.Basic); ok && b.Info()&types.IsInteger != 0 {
			if bx, ok := x.X.Type().Underlying().(*types.Basic); ok && bx.Info()&types.IsInteger != 0 {
				return canonD(x.X, depth+1)
			}
		}
	case *ssa.ChangeType:
		return canonD(x.X, depth+1)
	case *ssa.BinOp:
		if x.Op == token.ADD || x.Op == token.SUB {
			if b, ok := x.Type().Underlying().(*types.Basic); ok && b.Info()&types.IsInteger != 0 {
				k, terms := linear(x, depth)
				var keys []string
				for t := range terms {
					keys = append(keys, t)
				}
				sort.Strings(keys)
				var sb strings.Builder
				for _, t := range keys {
					if terms[t] == 0 {
						continue
					}
					fmt.Fprintf(&sb, "%+d·%s", terms[t], t)
				}
				if k != 0 || sb.Len() == 0 {
					fmt.Fprintf(&sb, "%+d", k)
				}
				return "(" + sb.String() + ")"
			}
		}
	}
	// stable names for values that come from source variables / calls, so that keys
	// do not depend on SSA register numbering
	switch x := v.(type) {
	case *ssa.Phi:
		if x.Comment != "" {
			return "φ" + x.Comment
		}
	case *ssa.Alloc:
		if x.Comment != "" {
			return "&" + x.Comment
		}
	case *ssa.Call:
		name := "call"
		if f := x.Common().StaticCallee(); f != nil {
			name = f.Name()
		} else if b, ok := x.Common().Value.(*ssa.Builtin); ok {
			name = b.Name()
		}
		var args []string
		for _, a := range x.Common().Args {
			args = append(args, canonD(a, depth+1))
		}
		return name + "(" + strings.Join(args, ",") + ")"
	case *ssa.Extract:
		return canonD(x.Tuple, depth+1) + fmt.Sprintf("#%d", x.Index)
	}
	return "%" + v.Name()
}

func linear(v ssa.Value, depth int) (int64, map[string]int64) {
	terms := map[string]int64{}
	var k int64
	var rec func(v ssa.Value, sign int64, d int)
	rec = func(v ssa.Value, sign int64, d int) {
		if c, ok := ConstInt(v); ok {
			k += sign * c
			return
		}
		if bo, ok := v.(*ssa.BinOp); ok && d < 20 && (bo.Op == token.ADD || bo.Op == token.SUB) {
			rec(bo.X, sign, d+1)
			if bo.Op == token.ADD {
				rec(bo.Y, sign, d+1)
			} else {
				rec(bo.Y, -sign, d+1)
			}
			return
		}
		if cv, ok := v.(*ssa.Convert); ok {
			if bx, ok := cv.X.Type().Underlying().(*types.Basic); ok && bx.Info()&types.IsInteger != 0 {
				if b, ok := cv.Type().Underlying().(*types.Basic); ok && b.Info()&types.IsInteger != 0 {
					rec(cv.X, sign, d+1)
					return
				}
			}
		}
		terms[canonD(v, depth+1)] += sign
	}
	rec(v, 1, 0)
	return k, terms
}
