package ssax

import (
	"go/token"
	"go/types"

	"golang.org/x/tools/go/ssa"
)

// Abstract guard evaluation: a three-valued / finite-set evaluation of one
// function's SSA.  Byte-typed values are sets of possible bytes, bools are
// {true,false,unknown}, everything else is unknown.  The caller supplies the
// abstraction of loads and calls through hooks.  The result is the set of
// executable blocks (conditional constant propagation with sets).

type ByteSet [4]uint64

func (s *ByteSet) Add(b byte)     { s[b>>6] |= 1 << (b & 63) }
func (s ByteSet) Has(b byte) bool { return s[b>>6]&(1<<(b&63)) != 0 }
func (s ByteSet) Count() int {
	n := 0
	for i := 0; i < 256; i++ {
		if s.Has(byte(i)) {
			n++
		}
	}
	return n
}
func (s ByteSet) Union(o ByteSet) ByteSet {
	return ByteSet{s[0] | o[0], s[1] | o[1], s[2] | o[2], s[3] | o[3]}
}
func SetOf(bs ...byte) ByteSet {
	var s ByteSet
	for _, b := range bs {
		s.Add(b)
	}
	return s
}

type AVal struct {
	Kind int // 0 unknown, 1 bool, 2 byte set
	B    bool
	Set  ByteSet
}

var AUnknown = AVal{}

func ABool(b bool) AVal      { return AVal{Kind: 1, B: b} }
func ASet(s ByteSet) AVal    { return AVal{Kind: 2, Set: s} }
func (a AVal) IsTrue() bool  { return a.Kind == 1 && a.B }
func (a AVal) IsFalse() bool { return a.Kind == 1 && !a.B }

func joinA(a, b AVal) AVal {
	if a.Kind != b.Kind {
		return AUnknown
	}
	switch a.Kind {
	case 1:
		if a.B == b.B {
			return a
		}
		return AUnknown
	case 2:
		return ASet(a.Set.Union(b.Set))
	}
	return AUnknown
}

// AbsHooks customises the abstraction.
type AbsHooks struct {
	// Load abstracts `*addr` (return ok=false for "unknown").
	Load func(u *ssa.UnOp) (AVal, bool)
	// Call abstracts a call (return ok=false to let the evaluator recurse
	// into module callees with bodies, or yield unknown for others).
	Call func(c *ssa.Call) (AVal, bool)
	// Value overrides the abstraction of any value (checked first).
	Value func(v ssa.Value) (AVal, bool)
	// InModule says whether to recurse into a callee.
	InModule func(fn *ssa.Function) bool
}

type AbsEval struct {
	Hooks AbsHooks
	memo  map[*ssa.Function]*AbsResult
	depth int
	args  map[*ssa.Parameter]AVal // abstract actuals of the callee being evaluated (no memo when set)
}

type AbsResult struct {
	Fn        *ssa.Function
	Vals      map[ssa.Value]AVal
	ExecBlock map[*ssa.BasicBlock]bool
	execEdge  map[[2]*ssa.BasicBlock]bool
	Ret       AVal
	retSet    bool
}

func NewAbsEval(h AbsHooks) *AbsEval { return &AbsEval{Hooks: h, memo: map[*ssa.Function]*AbsResult{}} }

// Run evaluates fn (parameters unknown).
func (e *AbsEval) Run(fn *ssa.Function) *AbsResult {
	if r, ok := e.memo[fn]; ok {
		return r
	}
	r := &AbsResult{Fn: fn, Vals: map[ssa.Value]AVal{}, ExecBlock: map[*ssa.BasicBlock]bool{}, execEdge: map[[2]*ssa.BasicBlock]bool{}}
	e.memo[fn] = r // recursion guard: recursive calls see an empty (unknown) result
	if len(fn.Blocks) == 0 {
		return r
	}
	r.ExecBlock[fn.Blocks[0]] = true
	for changed := true; changed; {
		changed = false
		for _, b := range fn.Blocks {
			if !r.ExecBlock[b] {
				continue
			}
			for _, ins := range b.Instrs {
				switch x := ins.(type) {
				case *ssa.If:
					c := e.get(r, x.Cond)
					mark := func(i int) {
						k := [2]*ssa.BasicBlock{b, b.Succs[i]}
						if !r.execEdge[k] {
							r.execEdge[k] = true
							changed = true
						}
						if !r.ExecBlock[b.Succs[i]] {
							r.ExecBlock[b.Succs[i]] = true
							changed = true
						}
					}
					switch {
					case c.IsTrue():
						mark(0)
					case c.IsFalse():
						mark(1)
					default:
						mark(0)
						mark(1)
					}
				case *ssa.Jump:
					k := [2]*ssa.BasicBlock{b, b.Succs[0]}
					if !r.execEdge[k] {
						r.execEdge[k] = true
						changed = true
					}
					if !r.ExecBlock[b.Succs[0]] {
						r.ExecBlock[b.Succs[0]] = true
						changed = true
					}
				case *ssa.Return:
					if len(x.Results) == 1 {
						v := e.get(r, x.Results[0])
						if !r.retSet {
							r.Ret, r.retSet = v, true
							changed = true
						} else if j := joinA(r.Ret, v); j != r.Ret {
							r.Ret = j
							changed = true
						}
					}
				case ssa.Value:
					nv, ok := e.eval(r, x)
					if !ok {
						continue
					}
					old, had := r.Vals[x]
					if !had {
						r.Vals[x] = nv
						changed = true
					} else {
						j := joinA(old, nv)
						if _, isPhi := x.(*ssa.Phi); !isPhi {
							j = nv
							// monotone guard: never go from unknown back to known
							if old.Kind == 0 {
								j = old
							}
						}
						if j != old {
							r.Vals[x] = j
							changed = true
						}
					}
				}
			}
		}
	}
	return r
}

func (e *AbsEval) get(r *AbsResult, v ssa.Value) AVal {
	if c, ok := v.(*ssa.Const); ok {
		if b, ok := ConstBool(c); ok {
			return ABool(b)
		}
		if k, ok := ConstInt(c); ok {
			if bt, ok := c.Type().Underlying().(*types.Basic); ok && bt.Kind() == types.Uint8 {
				return ASet(SetOf(byte(k)))
			}
		}
		return AUnknown
	}
	if a, ok := r.Vals[v]; ok {
		return a
	}
	if prm, ok := v.(*ssa.Parameter); ok && e.args != nil {
		if a, ok := e.args[prm]; ok {
			return a
		}
	}
	return AUnknown
}

func (e *AbsEval) eval(r *AbsResult, v ssa.Value) (AVal, bool) {
	if e.Hooks.Value != nil {
		if a, ok := e.Hooks.Value(v); ok {
			return a, true
		}
	}
	switch x := v.(type) {
	case *ssa.Phi:
		var acc *AVal
		for i, ed := range x.Edges {
			if !r.execEdge[[2]*ssa.BasicBlock{x.Block().Preds[i], x.Block()}] {
				continue
			}
			if _, isConst := ed.(*ssa.Const); !isConst {
				if _, have := r.Vals[ed]; !have {
					if _, isParam := ed.(*ssa.Parameter); !isParam {
						continue // not yet evaluated: optimistic
					}
				}
			}
			l := e.get(r, ed)
			if acc == nil {
				c := l
				acc = &c
			} else {
				j := joinA(*acc, l)
				acc = &j
			}
		}
		if acc == nil {
			return AUnknown, false
		}
		return *acc, true
	case *ssa.UnOp:
		switch x.Op {
		case token.MUL:
			if e.Hooks.Load != nil {
				if a, ok := e.Hooks.Load(x); ok {
					return a, true
				}
			}
			return AUnknown, true
		case token.NOT:
			a := e.get(r, x.X)
			if a.Kind == 1 {
				return ABool(!a.B), true
			}
		}
		return AUnknown, true
	case *ssa.BinOp:
		a, b := e.get(r, x.X), e.get(r, x.Y)
		if x.Op == token.EQL || x.Op == token.NEQ {
			if a.Kind == 2 && b.Kind == 2 {
				inter := false
				for i := 0; i < 4; i++ {
					if a.Set[i]&b.Set[i] != 0 {
						inter = true
					}
				}
				if !inter {
					return ABool(x.Op == token.NEQ), true
				}
				if a.Set.Count() == 1 && b.Set.Count() == 1 {
					return ABool(x.Op == token.EQL), true
				}
				return AUnknown, true
			}
			if a.Kind == 1 && b.Kind == 1 {
				return ABool((a.B == b.B) == (x.Op == token.EQL)), true
			}
		}
		if a.Kind == 2 && b.Kind == 2 && (x.Op == token.LSS || x.Op == token.LEQ || x.Op == token.GTR || x.Op == token.GEQ) {
			// decide when the answer is the same for every pair
			var res *bool
			uniform := true
			for i := 0; i < 256 && uniform; i++ {
				if !a.Set.Has(byte(i)) {
					continue
				}
				for j := 0; j < 256; j++ {
					if !b.Set.Has(byte(j)) {
						continue
					}
					var v bool
					switch x.Op {
					case token.LSS:
						v = i < j
					case token.LEQ:
						v = i <= j
					case token.GTR:
						v = i > j
					case token.GEQ:
						v = i >= j
					}
					if res == nil {
						vv := v
						res = &vv
					} else if *res != v {
						uniform = false
						break
					}
				}
			}
			if uniform && res != nil {
				return ABool(*res), true
			}
		}
		return AUnknown, true
	case *ssa.Call:
		if e.Hooks.Call != nil {
			if a, ok := e.Hooks.Call(x); ok {
				return a, true
			}
		}
		f := x.Common().StaticCallee()
		if f != nil && f.Blocks != nil && e.Hooks.InModule != nil && e.Hooks.InModule(f) && e.depth < 4 {
			// bind byte/bool actuals to the callee's parameters (context-sensitive, unmemoised)
			sub := &AbsEval{Hooks: e.Hooks, memo: map[*ssa.Function]*AbsResult{}, depth: e.depth + 1, args: map[*ssa.Parameter]AVal{}}
			for i, arg := range x.Common().Args {
				if i < len(f.Params) {
					if av := e.get(r, arg); av.Kind != 0 {
						sub.args[f.Params[i]] = av
					}
				}
			}
			cr := sub.Run(f)
			if cr.retSet {
				return cr.Ret, true
			}
		}
		return AUnknown, true
	case *ssa.ChangeType:
		return e.get(r, x.X), true
	}
	return AUnknown, true
}

// EdgeExecutable reports whether the CFG edge a→b was found executable.
func (r *AbsResult) EdgeExecutable(a, b *ssa.BasicBlock) bool {
	return r.execEdge[[2]*ssa.BasicBlock{a, b}]
}
