package ssax

import (
	"go/token"
	"go/types"
	"sort"

	"golang.org/x/tools/go/ssa"
)

// Loop is a natural loop of a function's CFG.
type Loop struct {
	Head *ssa.BasicBlock
	Body map[*ssa.BasicBlock]bool
	// Exits are the edges leaving the body.
	Exits [][2]*ssa.BasicBlock
}

// Loops returns the natural loops of fn (one per header, back edges merged),
// ordered by header index.
func Loops(fn *ssa.Function) []*Loop {
	byHead := map[*ssa.BasicBlock]*Loop{}
	for _, b := range fn.Blocks {
		for _, s := range b.Succs {
			if s.Dominates(b) {
				l := byHead[s]
				if l == nil {
					l = &Loop{Head: s, Body: map[*ssa.BasicBlock]bool{s: true}}
					byHead[s] = l
				}
				// everything that reaches b without passing the header
				work := []*ssa.BasicBlock{b}
				for len(work) > 0 {
					x := work[len(work)-1]
					work = work[:len(work)-1]
					if l.Body[x] {
						continue
					}
					l.Body[x] = true
					work = append(work, x.Preds...)
				}
			}
		}
	}
	var out []*Loop
	for _, l := range byHead {
		for b := range l.Body {
			for _, s := range b.Succs {
				if !l.Body[s] {
					l.Exits = append(l.Exits, [2]*ssa.BasicBlock{b, s})
				}
			}
		}
		sort.Slice(l.Exits, func(i, j int) bool {
			if l.Exits[i][0].Index != l.Exits[j][0].Index {
				return l.Exits[i][0].Index < l.Exits[j][0].Index
			}
			return l.Exits[i][1].Index < l.Exits[j][1].Index
		})
		out = append(out, l)
	}
	sort.Slice(out, func(i, j int) bool { return out[i].Head.Index < out[j].Head.Index })
	return out
}

// InnermostLoop returns the smallest loop of loops containing b, or nil.
func InnermostLoop(loops []*Loop, b *ssa.BasicBlock) *Loop {
	var best *Loop
	for _, l := range loops {
		if l.Body[b] && (best == nil || len(l.Body) < len(best.Body)) {
			best = l
		}
	}
	return best
}

// ContentDependent reports whether v is computed from a byte of a string or
// byte slice (an element read), through arithmetic, comparisons, conversions,
// phis, table look-ups indexed by such a byte, or calls that receive one.
func ContentDependent(v ssa.Value) bool {
	return contentDep(v, map[ssa.Value]bool{}, 0)
}

func contentDep(v ssa.Value, seen map[ssa.Value]bool, depth int) bool {
	if v == nil || seen[v] || depth > 40 {
		return false
	}
	seen[v] = true
	isBytes := func(t types.Type) bool {
		switch u := t.Underlying().(type) {
		case *types.Basic:
			return u.Info()&types.IsString != 0
		case *types.Slice:
			if b, ok := u.Elem().Underlying().(*types.Basic); ok {
				return b.Kind() == types.Uint8
			}
		}
		return false
	}
	switch x := v.(type) {
	case *ssa.Index:
		if isBytes(x.X.Type()) {
			return true
		}
		return contentDep(x.Index, seen, depth+1)
	case *ssa.Lookup:
		if isBytes(x.X.Type()) {
			return true
		}
		return contentDep(x.Index, seen, depth+1)
	case *ssa.UnOp:
		if ia, ok := x.X.(*ssa.IndexAddr); ok {
			if isBytes(ia.X.Type()) {
				return true
			}
			return contentDep(ia.Index, seen, depth+1)
		}
		return contentDep(x.X, seen, depth+1)
	case *ssa.BinOp:
		return contentDep(x.X, seen, depth+1) || contentDep(x.Y, seen, depth+1)
	case *ssa.Convert:
		return contentDep(x.X, seen, depth+1)
	case *ssa.ChangeType:
		return contentDep(x.X, seen, depth+1)
	case *ssa.Phi:
		for _, e := range x.Edges {
			if contentDep(e, seen, depth+1) {
				return true
			}
		}
	case *ssa.Extract:
		return contentDep(x.Tuple, seen, depth+1)
	case *ssa.Call:
		if bi, ok := x.Call.Value.(*ssa.Builtin); ok && (bi.Name() == "len" || bi.Name() == "cap") {
			return false // the length of text is not its content
		}
		for _, a := range x.Call.Args {
			if isBytes(a.Type()) || contentDep(a, seen, depth+1) {
				// a call that looks at text: its result depends on content
				return true
			}
		}
	}
	return false
}

// HasContentExit reports whether some exit of the loop is taken on a
// condition computed from the bytes being scanned (an early exit).
func (l *Loop) HasContentExit() bool {
	for _, ex := range l.Exits {
		from := ex[0]
		if len(from.Instrs) == 0 {
			continue
		}
		if iff, ok := from.Instrs[len(from.Instrs)-1].(*ssa.If); ok {
			if ContentDependent(iff.Cond) {
				return true
			}
		}
	}
	return false
}

// ConstTrip: the loop is a counting loop over a range whose length is a constant of
// the program: its head tests `i < n` (or `i+1 < n`) with i a phi stepping by one
// from a constant and n an integer constant or the length of a value rooted at a
// package-level variable (a table; package-level state is not written at run time).
func (l *Loop) ConstTrip() bool {
	iff, ok := l.Head.Instrs[len(l.Head.Instrs)-1].(*ssa.If)
	if !ok {
		return false
	}
	cmp, ok := iff.Cond.(*ssa.BinOp)
	if !ok || cmp.Op != token.LSS {
		return false
	}
	// the true side stays in the loop
	if len(l.Head.Succs) != 2 || !l.Body[l.Head.Succs[0]] || l.Body[l.Head.Succs[1]] {
		return false
	}
	var ph *ssa.Phi
	switch x := cmp.X.(type) {
	case *ssa.Phi:
		ph = x
	case *ssa.BinOp:
		if k, isK := ConstInt(x.Y); isK && k == 1 && x.Op == token.ADD {
			ph, _ = x.X.(*ssa.Phi)
		}
	}
	if ph == nil || ph.Block() != l.Head || len(ph.Edges) < 2 {
		return false
	}
	// every edge is the start constant or the counter plus one (several `continue`s give several edges)
	step, start := false, false
	for _, e := range ph.Edges {
		if _, isK := ConstInt(e); isK {
			start = true
			continue
		}
		bo, ok := e.(*ssa.BinOp)
		if !ok || bo.Op != token.ADD || bo.X != ssa.Value(ph) {
			return false
		}
		if k, isK := ConstInt(bo.Y); !isK || k != 1 {
			return false
		}
		step = true
	}
	if !step || !start {
		return false
	}
	if _, isK := ConstInt(cmp.Y); isK {
		return true
	}
	if call, ok := cmp.Y.(*ssa.Call); ok {
		if b, ok := call.Common().Value.(*ssa.Builtin); ok && b.Name() == "len" && len(call.Common().Args) == 1 {
			return rootsAtGlobalValue(call.Common().Args[0], 0)
		}
	}
	return false
}

func rootsAtGlobalValue(v ssa.Value, depth int) bool {
	if depth > 8 {
		return false
	}
	switch x := v.(type) {
	case *ssa.Global:
		return true
	case *ssa.UnOp:
		return x.Op == token.MUL && rootsAtGlobalValue(x.X, depth+1)
	case *ssa.IndexAddr:
		return rootsAtGlobalValue(x.X, depth+1)
	case *ssa.FieldAddr:
		return rootsAtGlobalValue(x.X, depth+1)
	case *ssa.Index:
		return rootsAtGlobalValue(x.X, depth+1)
	case *ssa.Field:
		return rootsAtGlobalValue(x.X, depth+1)
	case *ssa.Slice:
		return rootsAtGlobalValue(x.X, depth+1)
	}
	return false
}

// EnclosingLoops lists the loops whose body contains b, innermost first.
func EnclosingLoops(loops []*Loop, b *ssa.BasicBlock) []*Loop {
	var out []*Loop
	for _, l := range loops {
		if l.Body[b] {
			out = append(out, l)
		}
	}
	// innermost = smallest body
	for i := 0; i < len(out); i++ {
		for j := i + 1; j < len(out); j++ {
			if len(out[j].Body) < len(out[i].Body) {
				out[i], out[j] = out[j], out[i]
			}
		}
	}
	return out
}
