package ssax

import (
	"go/token"
	"go/types"

	"golang.org/x/tools/go/ssa"
)

// Lat is a flat constant lattice element: Unknown (top) or a known value
// (int64 | bool | string).  Bottom (unreached) is "absent from the map".
type Lat struct {
	Known bool
	V     interface{}
}

// SCCP is sparse conditional constant propagation of one function with some
// parameters bound to constants ("SCCP-by-call").
type SCCP struct {
	Fn        *ssa.Function
	Vals      map[ssa.Value]Lat
	ExecBlock map[*ssa.BasicBlock]bool
	execEdge  map[[2]*ssa.BasicBlock]bool
	sizes     types.Sizes
}

func trunc(v int64, t types.Type, sizes types.Sizes) int64 {
	b, ok := t.Underlying().(*types.Basic)
	if !ok {
		return v
	}
	switch b.Kind() {
	case types.Uint8:
		return int64(uint8(v))
	case types.Int8:
		return int64(int8(v))
	case types.Uint16:
		return int64(uint16(v))
	case types.Int16:
		return int64(int16(v))
	case types.Uint32:
		return int64(uint32(v))
	case types.Int32:
		return int64(int32(v))
	case types.Int:
		if sizes != nil && sizes.Sizeof(b) == 4 {
			return int64(int32(v))
		}
	case types.Uint, types.Uintptr:
		if sizes != nil && sizes.Sizeof(b) == 4 {
			return int64(uint32(v))
		}
	}
	return v
}

// RunSCCP propagates constants with params bound as given.
func RunSCCP(fn *ssa.Function, params map[*ssa.Parameter]interface{}, sizes types.Sizes) *SCCP {
	pins := map[ssa.Value]interface{}{}
	for p, v := range params {
		pins[p] = v
	}
	return RunSCCPPinned(fn, pins, sizes)
}

// ValueOf returns the constant an SSA value folds to, if any.
func (s *SCCP) ValueOf(v ssa.Value) (interface{}, bool) {
	l := s.get(v)
	return l.V, l.Known
}

// RunSCCPPinned propagates constants with arbitrary SSA values (parameters, call
// results, loop phis) pinned to constants: "what does the code do when this value is c".
func RunSCCPPinned(fn *ssa.Function, pins map[ssa.Value]interface{}, sizes types.Sizes) *SCCP {
	s := &SCCP{Fn: fn, Vals: map[ssa.Value]Lat{}, ExecBlock: map[*ssa.BasicBlock]bool{}, execEdge: map[[2]*ssa.BasicBlock]bool{}, sizes: sizes}
	for _, p := range fn.Params {
		s.Vals[p] = Lat{}
	}
	pinned := map[ssa.Value]bool{}
	for v, c := range pins {
		s.Vals[v] = Lat{true, c}
		pinned[v] = true
	}
	if len(fn.Blocks) == 0 {
		return s
	}
	s.ExecBlock[fn.Blocks[0]] = true
	for changed := true; changed; {
		changed = false
		for _, b := range fn.Blocks {
			if !s.ExecBlock[b] {
				continue
			}
			for _, ins := range b.Instrs {
				switch x := ins.(type) {
				case *ssa.If:
					c := s.get(x.Cond)
					mark := func(i int) {
						e := [2]*ssa.BasicBlock{b, b.Succs[i]}
						if !s.execEdge[e] {
							s.execEdge[e] = true
							changed = true
						}
						if !s.ExecBlock[b.Succs[i]] {
							s.ExecBlock[b.Succs[i]] = true
							changed = true
						}
					}
					if c.Known {
						if c.V.(bool) {
							mark(0)
						} else {
							mark(1)
						}
					} else {
						mark(0)
						mark(1)
					}
				case *ssa.Jump:
					e := [2]*ssa.BasicBlock{b, b.Succs[0]}
					if !s.execEdge[e] {
						s.execEdge[e] = true
						changed = true
					}
					if !s.ExecBlock[b.Succs[0]] {
						s.ExecBlock[b.Succs[0]] = true
						changed = true
					}
				case ssa.Value:
					if pinned[x] {
						continue
					}
					nv, reached := s.eval(x)
					if !reached {
						continue
					}
					old, had := s.Vals[x]
					if !had || old != nv {
						// monotone: Known → Unknown only
						if had && !old.Known {
							continue
						}
						s.Vals[x] = nv
						changed = true
					}
				}
			}
		}
	}
	return s
}

func (s *SCCP) get(v ssa.Value) Lat {
	switch c := v.(type) {
	case *ssa.Const:
		if iv, ok := ConstInt(c); ok {
			if b, isB := ConstBool(c); isB {
				return Lat{true, b}
			}
			return Lat{true, trunc(iv, c.Type(), s.sizes)}
		}
		if str, ok := ConstString(c); ok {
			return Lat{true, str}
		}
		return Lat{}
	}
	if l, ok := s.Vals[v]; ok {
		return l
	}
	return Lat{}
}

// EdgeExecutable reports whether the CFG edge a→b can be taken.
func (s *SCCP) EdgeExecutable(a, b *ssa.BasicBlock) bool { return s.execEdge[[2]*ssa.BasicBlock{a, b}] }

func (s *SCCP) eval(v ssa.Value) (Lat, bool) {
	switch x := v.(type) {
	case *ssa.Phi:
		var acc *Lat
		for i, e := range x.Edges {
			if !s.EdgeExecutable(x.Block().Preds[i], x.Block()) {
				continue
			}
			l := s.get(e)
			if _, isConst := e.(*ssa.Const); !isConst {
				if _, have := s.Vals[e]; !have {
					if _, isParam := e.(*ssa.Parameter); !isParam {
						// operand not evaluated yet: optimistic skip
						continue
					}
				}
			}
			if acc == nil {
				c := l
				acc = &c
			} else if !l.Known || !acc.Known || acc.V != l.V {
				acc = &Lat{}
			}
		}
		if acc == nil {
			return Lat{}, false
		}
		return *acc, true
	case *ssa.BinOp:
		a, b := s.get(x.X), s.get(x.Y)
		if !a.Known || !b.Known {
			// x & 0 == 0 style folds are not needed here
			return Lat{}, true
		}
		return s.binop(x, a.V, b.V), true
	case *ssa.UnOp:
		a := s.get(x.X)
		if !a.Known {
			return Lat{}, true
		}
		switch x.Op {
		case token.NOT:
			return Lat{true, !a.V.(bool)}, true
		case token.SUB:
			if iv, ok := a.V.(int64); ok {
				return Lat{true, trunc(-iv, x.Type(), s.sizes)}, true
			}
		}
		return Lat{}, true
	case *ssa.Convert:
		a := s.get(x.X)
		if iv, ok := a.V.(int64); ok && a.Known {
			if b, isBasic := x.Type().Underlying().(*types.Basic); isBasic && b.Info()&types.IsInteger != 0 {
				return Lat{true, trunc(iv, x.Type(), s.sizes)}, true
			}
		}
		return Lat{}, true
	case *ssa.ChangeType:
		return s.get(x.X), true
	}
	return Lat{}, true
}

func (s *SCCP) binop(x *ssa.BinOp, a, b interface{}) Lat {
	switch av := a.(type) {
	case bool:
		bv, ok := b.(bool)
		if !ok {
			return Lat{}
		}
		switch x.Op {
		case token.EQL:
			return Lat{true, av == bv}
		case token.NEQ:
			return Lat{true, av != bv}
		}
	case string:
		bv, ok := b.(string)
		if !ok {
			return Lat{}
		}
		switch x.Op {
		case token.EQL:
			return Lat{true, av == bv}
		case token.NEQ:
			return Lat{true, av != bv}
		}
	case int64:
		bv, ok := b.(int64)
		if !ok {
			return Lat{}
		}
		t := x.Type()
		switch x.Op {
		case token.ADD:
			return Lat{true, trunc(av+bv, t, s.sizes)}
		case token.SUB:
			return Lat{true, trunc(av-bv, t, s.sizes)}
		case token.MUL:
			return Lat{true, trunc(av*bv, t, s.sizes)}
		case token.AND:
			return Lat{true, trunc(av&bv, t, s.sizes)}
		case token.OR:
			return Lat{true, trunc(av|bv, t, s.sizes)}
		case token.XOR:
			return Lat{true, trunc(av^bv, t, s.sizes)}
		case token.AND_NOT:
			return Lat{true, trunc(av&^bv, t, s.sizes)}
		case token.EQL:
			return Lat{true, av == bv}
		case token.NEQ:
			return Lat{true, av != bv}
		case token.LSS:
			return Lat{true, av < bv}
		case token.LEQ:
			return Lat{true, av <= bv}
		case token.GTR:
			return Lat{true, av > bv}
		case token.GEQ:
			return Lat{true, av >= bv}
		}
	}
	return Lat{}
}

// ReturnConst returns the unique constant returned at result index i over
// all executable returns, if there is one.
func (s *SCCP) ReturnConst(i int) (interface{}, bool) {
	var acc *Lat
	for _, r := range Returns(s.Fn) {
		if !s.ExecBlock[r.Block()] {
			continue
		}
		l := s.get(r.Results[i])
		if !l.Known {
			return nil, false
		}
		if acc == nil {
			c := l
			acc = &c
		} else if acc.V != l.V {
			return nil, false
		}
	}
	if acc == nil {
		return nil, false
	}
	return acc.V, true
}
