package ssax

import (
	"fmt"
	"go/constant"
	"go/token"
	"go/types"

	"golang.org/x/tools/go/ssa"
)

// Interprocedural path enumeration ("traces"): the acyclic paths of a function
// with selected callees expanded in place, so that a rule written against the
// shape of one function keeps working when parts of it are moved into helpers.
// Values are resolved through parameters (to the caller's argument), through
// expanded calls (to the callee's returned value on this trace) and through
// phis (to the edge this trace took).

// TFrame is one activation on a trace.
type TFrame struct {
	Fn     *ssa.Function
	Parent *TFrame
	Site   *ssa.Call
	// loop unrolling: a block that is entered again on the same path opens a new
	// frame of the same activation; Prev is the frame the path came from and Entry
	// the re-entered block (values that flow into Entry's phis live in Prev)
	Prev  *TFrame
	Entry *ssa.BasicBlock
}

// base: the first frame of an activation's chain.
func (f *TFrame) base() *TFrame {
	for f.Prev != nil {
		f = f.Prev
	}
	return f
}

func (f *TFrame) chainLen() int {
	n := 0
	for ; f.Prev != nil; f = f.Prev {
		n++
	}
	return n
}

// MaxUnroll bounds how often one activation may re-enter a block on one path.
const MaxUnroll = 48

// TraceConsts lets the enumeration read constant tables: the value at a path of
// indices / field numbers inside a package-level variable (-1 as last element asks
// for the length of the slice or array found there).
type TraceConsts func(g *ssa.Global, path []int) (interface{}, bool)

// TItem is one step of a trace: a call that was not expanded, or a branch.
type TItem struct {
	Fr   *TFrame
	Call *ssa.Call // a call that was not expanded (nil for branches)
	Ins  ssa.Instruction
	// branch: the tested value (already resolved), the frame it lives in, and the side taken
	Cond   ssa.Value
	CondFr *TFrame
	True   bool
	Branch bool
}

// Trace is one interprocedural path from the entry of the root to a return of the root.
type Trace struct {
	Items []TItem
	Root  *TFrame
	// the verdict: a constant, or decided by the last (synthetic) branch item
	RetKnown bool
	Ret      bool
	RetVal   ssa.Value // resolved returned value (first result), nil if none
	RetFr    *TFrame
	RetPos   token.Pos

	preds  map[*TFrame]map[*ssa.BasicBlock]*ssa.BasicBlock
	rets   map[*TFrame]ssa.Value
	retFrs map[*TFrame]*TFrame
	child  map[*TFrame]map[*ssa.Call]*TFrame
	consts TraceConsts
}

type traceWalker struct {
	inline func(callee *ssa.Function, depth int) bool
	max    int
	out    []Trace
	err    error
	items  []TItem
	preds  map[*TFrame]map[*ssa.BasicBlock]*ssa.BasicBlock
	rets   map[*TFrame]ssa.Value
	retFrs map[*TFrame]*TFrame
	child  map[*TFrame]map[*ssa.Call]*TFrame
	root   *TFrame
	consts TraceConsts
}

type tcont struct {
	fr  *TFrame
	b   *ssa.BasicBlock
	idx int
}

// EnumerateTraces lists the traces of root.  inline decides which static callees
// are expanded (depth = nesting of the call).  It fails on a cycle inside an
// expanded function or when more than max traces exist (undecided ⇒ caller fails).
func EnumerateTraces(root *ssa.Function, inline func(callee *ssa.Function, depth int) bool, max int) ([]Trace, error) {
	return EnumerateTracesWith(root, inline, max, nil)
}

// EnumerateTracesWith also unrolls loops whose exit tests are decided by constants of
// the trace (loop counters over constant tables read through consts).
func EnumerateTracesWith(root *ssa.Function, inline func(callee *ssa.Function, depth int) bool, max int, consts TraceConsts) ([]Trace, error) {
	w := &traceWalker{inline: inline, max: max, consts: consts, preds: map[*TFrame]map[*ssa.BasicBlock]*ssa.BasicBlock{}, rets: map[*TFrame]ssa.Value{}, retFrs: map[*TFrame]*TFrame{}, child: map[*TFrame]map[*ssa.Call]*TFrame{}}
	w.root = &TFrame{Fn: root}
	if len(root.Blocks) == 0 {
		return nil, fmt.Errorf("%s has no body", root.Name())
	}
	w.enter(w.root, nil, root.Blocks[0], nil)
	return w.out, w.err
}

func depthOf(fr *TFrame) int {
	d := 0
	for f := fr; f.Parent != nil; f = f.Parent {
		d++
	}
	return d
}

func (w *traceWalker) enter(fr *TFrame, from, b *ssa.BasicBlock, stack []tcont) {
	if w.err != nil {
		return
	}
	if w.preds[fr] == nil {
		w.preds[fr] = map[*ssa.BasicBlock]*ssa.BasicBlock{}
	}
	seen := false
	for f := fr; f != nil && !seen; f = f.Prev {
		_, seen = w.preds[f][b]
	}
	if seen {
		// a loop: go round once more in a new frame of the same activation; whether this
		// ends is up to the exit tests being decided by constants of the trace
		if w.consts == nil || fr.chainLen() >= MaxUnroll {
			w.err = fmt.Errorf("control-flow cycle through block %d of %s: path enumeration undecided", b.Index, fr.Fn.Name())
			return
		}
		nf := &TFrame{Fn: fr.Fn, Parent: fr.Parent, Site: fr.Site, Prev: fr, Entry: b}
		w.preds[nf] = map[*ssa.BasicBlock]*ssa.BasicBlock{b: from}
		w.run(nf, b, 0, stack)
		delete(w.preds, nf)
		delete(w.child, nf)
		return
	}
	w.preds[fr][b] = from
	w.run(fr, b, 0, stack)
	delete(w.preds[fr], b)
}

func (w *traceWalker) snapshot() Trace {
	t := Trace{Items: append([]TItem{}, w.items...), Root: w.root, preds: map[*TFrame]map[*ssa.BasicBlock]*ssa.BasicBlock{}, rets: map[*TFrame]ssa.Value{}, child: map[*TFrame]map[*ssa.Call]*TFrame{}}
	for f, m := range w.preds {
		c := map[*ssa.BasicBlock]*ssa.BasicBlock{}
		for k, v := range m {
			c[k] = v
		}
		t.preds[f] = c
	}
	for f, v := range w.rets {
		t.rets[f] = v
	}
	t.retFrs = map[*TFrame]*TFrame{}
	for f, v := range w.retFrs {
		t.retFrs[f] = v
	}
	t.consts = w.consts
	for f, m := range w.child {
		c := map[*ssa.Call]*TFrame{}
		for k, v := range m {
			c[k] = v
		}
		t.child[f] = c
	}
	return t
}

func (w *traceWalker) emit(t Trace) {
	w.out = append(w.out, t)
	if len(w.out) > w.max {
		w.err = fmt.Errorf("more than %d paths through %s", w.max, w.root.Fn.Name())
	}
}

func (w *traceWalker) run(fr *TFrame, b *ssa.BasicBlock, start int, stack []tcont) {
	for i := start; i < len(b.Instrs) && w.err == nil; i++ {
		switch x := b.Instrs[i].(type) {
		case *ssa.Call:
			callee := x.Call.StaticCallee()
			if callee != nil && len(callee.Blocks) > 0 && w.inline != nil && w.inline(callee, depthOf(fr)+1) {
				ch := &TFrame{Fn: callee, Parent: fr, Site: x}
				if w.child[fr] == nil {
					w.child[fr] = map[*ssa.Call]*TFrame{}
				}
				w.child[fr][x] = ch
				w.enter(ch, nil, callee.Blocks[0], append(append([]tcont{}, stack...), tcont{fr, b, i + 1}))
				delete(w.child[fr], x)
				delete(w.preds, ch)
				delete(w.rets, ch)
				delete(w.retFrs, ch)
				return
			}
			w.items = append(w.items, TItem{Fr: fr, Call: x, Ins: x})
			defer func(n int) { w.items = w.items[:n] }(len(w.items) - 1)
		case *ssa.If:
			if len(b.Succs) == 2 && b.Succs[0] == b.Succs[1] {
				w.enter(fr, b, b.Succs[0], stack)
				return
			}
			tmp := Trace{preds: w.preds, rets: w.rets, retFrs: w.retFrs, child: w.child, consts: w.consts}
			cv, cfr := tmp.Resolve(x.Cond, fr)
			k, ok := ConstBool(cv)
			if !ok && w.consts != nil {
				k, ok = tmp.ConstBoolOn(cv, cfr)
			}
			if ok {
				// decided on this trace (a helper returned a constant): not a test
				if k {
					w.enter(fr, b, b.Succs[0], stack)
				} else {
					w.enter(fr, b, b.Succs[1], stack)
				}
				return
			}
			for _, side := range []bool{true, false} {
				n := len(w.items)
				w.items = append(w.items, TItem{Fr: fr, Ins: x, Cond: cv, CondFr: cfr, True: side, Branch: true})
				if side {
					w.enter(fr, b, b.Succs[0], stack)
				} else {
					w.enter(fr, b, b.Succs[1], stack)
				}
				w.items = w.items[:n]
			}
			return
		case *ssa.Jump:
			w.enter(fr, b, b.Succs[0], stack)
			return
		case *ssa.Panic:
			return // not a return of the root: no trace
		case *ssa.Return:
			if len(x.Results) > 0 {
				w.rets[fr.base()] = x.Results[0]
			} else {
				w.rets[fr.base()] = nil
			}
			w.retFrs[fr.base()] = fr
			if len(stack) > 0 {
				c := stack[len(stack)-1]
				w.run(c.fr, c.b, c.idx, stack[:len(stack)-1])
				return
			}
			// a return of the root
			t := w.snapshot()
			t.RetPos = x.Pos()
			if len(x.Results) == 0 {
				w.emit(t)
				return
			}
			rv, rfr := t.Resolve(x.Results[0], fr)
			t.RetVal, t.RetFr = rv, rfr
			if k, ok := ConstBool(rv); ok {
				t.RetKnown, t.Ret = true, k
				w.emit(t)
				return
			}
			if isBoolType(rv) {
				// `return cond`: two traces, decided by a synthetic branch on cond
				for _, side := range []bool{true, false} {
					t2 := t
					t2.Items = append(append([]TItem{}, t.Items...), TItem{Fr: fr, Ins: x, Cond: rv, CondFr: rfr, True: side, Branch: true})
					t2.RetKnown, t2.Ret = true, side
					w.emit(t2)
				}
				return
			}
			w.emit(t)
			return
		}
	}
}

func isBoolType(v ssa.Value) bool {
	if v == nil {
		return false
	}
	if c, ok := v.(*ssa.Const); ok && c.Value != nil {
		return c.Value.Kind() == constant.Bool
	}
	return v.Type().Underlying().String() == "bool"
}

// Resolve follows parameters, expanded calls and phis of the trace.
func (t *Trace) Resolve(v ssa.Value, fr *TFrame) (ssa.Value, *TFrame) {
	for depth := 0; depth < 50 && v != nil; depth++ {
		switch x := v.(type) {
		case *ssa.Parameter:
			if fr == nil || fr.Parent == nil || x.Parent() != fr.Fn {
				return v, fr
			}
			idx := -1
			for i, p := range fr.Fn.Params {
				if p == x {
					idx = i
				}
			}
			if idx < 0 || idx >= len(fr.Site.Call.Args) {
				return v, fr
			}
			v, fr = fr.Site.Call.Args[idx], fr.Parent
		case *ssa.Call:
			var ch *TFrame
			ok := false
			for f := fr; f != nil && !ok; f = f.Prev {
				ch, ok = t.child[f][x]
			}
			if !ok {
				return v, fr
			}
			rv, has := t.rets[ch]
			if !has || rv == nil {
				return v, fr
			}
			v, fr = rv, ch
			if rf, ok := t.retFrs[ch]; ok && rf != nil {
				fr = rf
			}
		case *ssa.Phi:
			var pred *ssa.BasicBlock
			ok := false
			owner := fr
			for f := fr; f != nil && !ok; f = f.Prev {
				pred, ok = t.preds[f][x.Block()]
				owner = f
			}
			if !ok || pred == nil {
				return v, fr
			}
			// the incoming value of a re-entered block was computed in the previous frame
			if owner.Entry == x.Block() && owner.Prev != nil {
				fr = owner.Prev
			} else {
				fr = owner
			}
			found := false
			for i, p := range x.Block().Preds {
				if p == pred {
					v, found = x.Edges[i], true
					break
				}
			}
			if !found {
				return v, fr
			}
		case *ssa.ChangeType:
			v = x.X
		default:
			return v, fr
		}
	}
	return v, fr
}

// ConstInt folds v on this trace (constants, parameters bound to constants, | & + - of such).
func (t *Trace) ConstInt(v ssa.Value, fr *TFrame) (int64, bool) {
	if c, ok := t.constVal(v, fr, 0); ok {
		if k, isInt := c.(int64); isInt {
			return k, true
		}
	}
	rv, rfr := t.Resolve(v, fr)
	if k, ok := ConstInt(rv); ok {
		return k, true
	}
	switch x := rv.(type) {
	case *ssa.BinOp:
		a, ok1 := t.ConstInt(x.X, rfr)
		b, ok2 := t.ConstInt(x.Y, rfr)
		if !ok1 || !ok2 {
			return 0, false
		}
		switch x.Op {
		case token.OR:
			return a | b, true
		case token.AND:
			return a & b, true
		case token.ADD:
			return a + b, true
		case token.SUB:
			return a - b, true
		case token.XOR:
			return a ^ b, true
		}
	case *ssa.Convert:
		return t.ConstInt(x.X, rfr)
	}
	return 0, false
}

// ---- constants of a trace (loop counters, entries of constant tables)

// tabRef is a place inside a package-level variable or a local table literal.
type tabRef struct {
	g    *ssa.Global
	al   *ssa.Alloc
	path []int
}

func (r tabRef) with(i int) tabRef {
	return tabRef{g: r.g, al: r.al, path: append(append([]int{}, r.path...), i)}
}

func isLeafType(t types.Type) bool {
	switch t.Underlying().(type) {
	case *types.Basic, *types.Signature:
		return true
	}
	return false
}

// ConstVal folds v on this trace: int64, string, bool, *ssa.Function, or a reference
// into a constant table.
func (t *Trace) ConstVal(v ssa.Value, fr *TFrame) (interface{}, bool) {
	return t.constVal(v, fr, 0)
}

func (t *Trace) leafOf(r tabRef, fr *TFrame, depth int) (interface{}, bool) {
	if r.g != nil {
		if t.consts == nil {
			return nil, false
		}
		return t.consts(r.g, r.path)
	}
	if r.al == nil {
		return nil, false
	}
	// a local table literal: the unique store to this constant place
	var val ssa.Value
	n := 0
	var walk func(addr ssa.Value, path []int, d int) bool
	walk = func(addr ssa.Value, path []int, d int) bool {
		if d > 6 || addr.Referrers() == nil {
			return true
		}
		for _, ref := range *addr.Referrers() {
			switch x := ref.(type) {
			case *ssa.IndexAddr:
				if x.X != addr {
					continue
				}
				k, ok := ConstInt(x.Index)
				if !ok {
					// a read at a variable index is fine; a write is not a literal any more
					if storedThrough(x, 0) {
						return false
					}
					continue
				}
				if !walk(x, append(append([]int{}, path...), int(k)), d+1) {
					return false
				}
			case *ssa.FieldAddr:
				if !walk(x, append(append([]int{}, path...), x.Field), d+1) {
					return false
				}
			case *ssa.Slice:
				if x.X == addr && x.Low == nil && x.High == nil {
					if !walk(x, path, d+1) {
						return false
					}
				}
			case *ssa.Store:
				if x.Addr == addr && samePath(path, r.path) {
					n++
					val = x.Val
				}
			}
		}
		return true
	}
	if !walk(r.al, nil, 0) || n != 1 {
		return nil, false
	}
	return t.constVal(val, fr, depth+1)
}

func storedThrough(addr ssa.Value, depth int) bool {
	if depth > 4 || addr.Referrers() == nil {
		return false
	}
	for _, ref := range *addr.Referrers() {
		switch r := ref.(type) {
		case *ssa.Store:
			if r.Addr == addr {
				return true
			}
		case *ssa.FieldAddr:
			if storedThrough(r, depth+1) {
				return true
			}
		case *ssa.IndexAddr:
			if r.X == addr && storedThrough(r, depth+1) {
				return true
			}
		}
	}
	return false
}

func samePath(a, b []int) bool {
	if len(a) != len(b) {
		return false
	}
	for i := range a {
		if a[i] != b[i] {
			return false
		}
	}
	return true
}

func (t *Trace) constVal(v ssa.Value, fr *TFrame, depth int) (interface{}, bool) {
	if v == nil || depth > 24 {
		return nil, false
	}
	rv, rfr := t.Resolve(v, fr)
	switch x := rv.(type) {
	case *ssa.Const:
		if k, ok := ConstInt(x); ok {
			return k, true
		}
		if s, ok := ConstString(x); ok {
			return s, true
		}
		if b, ok := ConstBool(x); ok {
			return b, true
		}
		return nil, false
	case *ssa.Function:
		return x, true
	case *ssa.Global:
		return tabRef{g: x}, true
	case *ssa.Alloc:
		if _, isArr := x.Type().(*types.Pointer).Elem().Underlying().(*types.Array); isArr {
			return tabRef{al: x}, true
		}
		return nil, false
	case *ssa.ChangeType:
		return t.constVal(x.X, rfr, depth+1)
	case *ssa.Convert:
		return t.constVal(x.X, rfr, depth+1)
	case *ssa.MakeClosure:
		if f, ok := x.Fn.(*ssa.Function); ok && len(x.Bindings) <= 1 {
			return Unwrap(f), true
		}
	case *ssa.Slice:
		if x.Low == nil && x.High == nil {
			return t.constVal(x.X, rfr, depth+1)
		}
	case *ssa.IndexAddr, *ssa.Index:
		var base, index ssa.Value
		if ia, ok := x.(*ssa.IndexAddr); ok {
			base, index = ia.X, ia.Index
		} else {
			ix := x.(*ssa.Index)
			base, index = ix.X, ix.Index
		}
		bv, ok := t.constVal(base, rfr, depth+1)
		if !ok {
			return nil, false
		}
		iv, ok := t.constVal(index, rfr, depth+1)
		k, isInt := iv.(int64)
		if !ok || !isInt {
			return nil, false
		}
		switch b := bv.(type) {
		case tabRef:
			r := b.with(int(k))
			if _, isVal := x.(*ssa.Index); isVal && isLeafType(x.Type()) {
				return t.leafOf(r, rfr, depth)
			}
			return r, true
		case string:
			if k >= 0 && int(k) < len(b) {
				return int64(b[k]), true
			}
		}
		return nil, false
	case *ssa.FieldAddr:
		bv, ok := t.constVal(x.X, rfr, depth+1)
		if r, isRef := bv.(tabRef); ok && isRef {
			return r.with(x.Field), true
		}
		return nil, false
	case *ssa.Field:
		bv, ok := t.constVal(x.X, rfr, depth+1)
		if r, isRef := bv.(tabRef); ok && isRef {
			if isLeafType(x.Type()) {
				return t.leafOf(r.with(x.Field), rfr, depth)
			}
			return r.with(x.Field), true
		}
		return nil, false
	case *ssa.UnOp:
		switch x.Op {
		case token.MUL:
			bv, ok := t.constVal(x.X, rfr, depth+1)
			r, isRef := bv.(tabRef)
			if !ok || !isRef {
				return nil, false
			}
			if isLeafType(x.Type()) {
				return t.leafOf(r, rfr, depth)
			}
			return r, true
		case token.NOT:
			if b, ok := t.constVal(x.X, rfr, depth+1); ok {
				if bb, isB := b.(bool); isB {
					return !bb, true
				}
			}
		case token.SUB:
			if b, ok := t.constVal(x.X, rfr, depth+1); ok {
				if k, isI := b.(int64); isI {
					return -k, true
				}
			}
		}
		return nil, false
	case *ssa.Call:
		if b, ok := x.Common().Value.(*ssa.Builtin); ok && b.Name() == "len" && len(x.Common().Args) == 1 {
			av, ok := t.constVal(x.Common().Args[0], rfr, depth+1)
			if !ok {
				return nil, false
			}
			switch a := av.(type) {
			case string:
				return int64(len(a)), true
			case tabRef:
				if a.al != nil && len(a.path) == 0 {
					if arr, ok := a.al.Type().(*types.Pointer).Elem().Underlying().(*types.Array); ok {
						return arr.Len(), true
					}
				}
				return t.leafOf(a.with(-1), rfr, depth)
			}
		}
		return nil, false
	case *ssa.BinOp:
		a, ok1 := t.constVal(x.X, rfr, depth+1)
		b, ok2 := t.constVal(x.Y, rfr, depth+1)
		if !ok1 || !ok2 {
			return nil, false
		}
		switch av := a.(type) {
		case int64:
			bvv, ok := b.(int64)
			if !ok {
				return nil, false
			}
			switch x.Op {
			case token.ADD:
				return av + bvv, true
			case token.SUB:
				return av - bvv, true
			case token.MUL:
				return av * bvv, true
			case token.OR:
				return av | bvv, true
			case token.AND:
				return av & bvv, true
			case token.XOR:
				return av ^ bvv, true
			case token.EQL:
				return av == bvv, true
			case token.NEQ:
				return av != bvv, true
			case token.LSS:
				return av < bvv, true
			case token.LEQ:
				return av <= bvv, true
			case token.GTR:
				return av > bvv, true
			case token.GEQ:
				return av >= bvv, true
			}
		case string:
			bvv, ok := b.(string)
			if !ok {
				return nil, false
			}
			switch x.Op {
			case token.EQL:
				return av == bvv, true
			case token.NEQ:
				return av != bvv, true
			case token.ADD:
				return av + bvv, true
			}
		case bool:
			bvv, ok := b.(bool)
			if !ok {
				return nil, false
			}
			switch x.Op {
			case token.EQL:
				return av == bvv, true
			case token.NEQ:
				return av != bvv, true
			}
		}
	}
	return nil, false
}

// ConstBoolOn: the condition is decided by constants of the trace.
func (t *Trace) ConstBoolOn(v ssa.Value, fr *TFrame) (bool, bool) {
	if c, ok := t.constVal(v, fr, 0); ok {
		if b, isB := c.(bool); isB {
			return b, true
		}
	}
	return false, false
}
