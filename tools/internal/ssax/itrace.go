package ssax

import (
	"fmt"
	"go/constant"
	"go/token"

	"golang.org/x/tools/go/ssa"
)

// Interprocedural path enumeration ("traces"): the acyclic paths of a function
// with selected callees expanded in place, so that a rule written against the
// shape of one function keeps working when parts of it are moved into helpers.
// Values are resolved through parameters (to the caller's argument), through
// expanded calls (to the callee's returned value on this trace) and through
// phis (to the edge this trace took).

// TFrame is one activation on a trace.
type TFrame struct {
	Fn     *ssa.Function
	Parent *TFrame
	Site   *ssa.Call
}

// TItem is one step of a trace: a call that was not expanded, or a branch.
type TItem struct {
	Fr   *TFrame
	Call *ssa.Call // a call that was not expanded (nil for branches)
	Ins  ssa.Instruction
	// branch: the tested value (already resolved), the frame it lives in, and the side taken
	Cond   ssa.Value
	CondFr *TFrame
	True   bool
	Branch bool
}

// Trace is one interprocedural path from the entry of the root to a return of the root.
type Trace struct {
	Items []TItem
	Root  *TFrame
	// the verdict: a constant, or decided by the last (synthetic) branch item
	RetKnown bool
	Ret      bool
	RetVal   ssa.Value // resolved returned value (first result), nil if none
	RetFr    *TFrame
	RetPos   token.Pos

	preds map[*TFrame]map[*ssa.BasicBlock]*ssa.BasicBlock
	rets  map[*TFrame]ssa.Value
	child map[*TFrame]map[*ssa.Call]*TFrame
}

type traceWalker struct {
	inline func(callee *ssa.Function, depth int) bool
	max    int
	out    []Trace
	err    error
	items  []TItem
	preds  map[*TFrame]map[*ssa.BasicBlock]*ssa.BasicBlock
	rets   map[*TFrame]ssa.Value
	child  map[*TFrame]map[*ssa.Call]*TFrame
	root   *TFrame
}

type tcont struct {
	fr  *TFrame
	b   *ssa.BasicBlock
	idx int
}

// EnumerateTraces lists the traces of root.  inline decides which static callees
// are expanded (depth = nesting of the call).  It fails on a cycle inside an
// expanded function or when more than max traces exist (undecided ⇒ caller fails).
func EnumerateTraces(root *ssa.Function, inline func(callee *ssa.Function, depth int) bool, max int) ([]Trace, error) {
	w := &traceWalker{inline: inline, max: max, preds: map[*TFrame]map[*ssa.BasicBlock]*ssa.BasicBlock{}, rets: map[*TFrame]ssa.Value{}, child: map[*TFrame]map[*ssa.Call]*TFrame{}}
	w.root = &TFrame{Fn: root}
	if len(root.Blocks) == 0 {
		return nil, fmt.Errorf("%s has no body", root.Name())
	}
	w.enter(w.root, nil, root.Blocks[0], nil)
	return w.out, w.err
}

func depthOf(fr *TFrame) int {
	d := 0
	for f := fr; f.Parent != nil; f = f.Parent {
		d++
	}
	return d
}

func (w *traceWalker) enter(fr *TFrame, from, b *ssa.BasicBlock, stack []tcont) {
	if w.err != nil {
		return
	}
	if w.preds[fr] == nil {
		w.preds[fr] = map[*ssa.BasicBlock]*ssa.BasicBlock{}
	}
	if _, seen := w.preds[fr][b]; seen {
		w.err = fmt.Errorf("control-flow cycle through block %d of %s: path enumeration undecided", b.Index, fr.Fn.Name())
		return
	}
	w.preds[fr][b] = from
	w.run(fr, b, 0, stack)
	delete(w.preds[fr], b)
}

func (w *traceWalker) snapshot() Trace {
	t := Trace{Items: append([]TItem{}, w.items...), Root: w.root, preds: map[*TFrame]map[*ssa.BasicBlock]*ssa.BasicBlock{}, rets: map[*TFrame]ssa.Value{}, child: map[*TFrame]map[*ssa.Call]*TFrame{}}
	for f, m := range w.preds {
		c := map[*ssa.BasicBlock]*ssa.BasicBlock{}
		for k, v := range m {
			c[k] = v
		}
		t.preds[f] = c
	}
	for f, v := range w.rets {
		t.rets[f] = v
	}
	for f, m := range w.child {
		c := map[*ssa.Call]*TFrame{}
		for k, v := range m {
			c[k] = v
		}
		t.child[f] = c
	}
	return t
}

func (w *traceWalker) emit(t Trace) {
	w.out = append(w.out, t)
	if len(w.out) > w.max {
		w.err = fmt.Errorf("more than %d paths through %s", w.max, w.root.Fn.Name())
	}
}

func (w *traceWalker) run(fr *TFrame, b *ssa.BasicBlock, start int, stack []tcont) {
	for i := start; i < len(b.Instrs) && w.err == nil; i++ {
		switch x := b.Instrs[i].(type) {
		case *ssa.Call:
			callee := x.Call.StaticCallee()
			if callee != nil && len(callee.Blocks) > 0 && w.inline != nil && w.inline(callee, depthOf(fr)+1) {
				ch := &TFrame{Fn: callee, Parent: fr, Site: x}
				if w.child[fr] == nil {
					w.child[fr] = map[*ssa.Call]*TFrame{}
				}
				w.child[fr][x] = ch
				w.enter(ch, nil, callee.Blocks[0], append(append([]tcont{}, stack...), tcont{fr, b, i + 1}))
				delete(w.child[fr], x)
				delete(w.preds, ch)
				delete(w.rets, ch)
				return
			}
			w.items = append(w.items, TItem{Fr: fr, Call: x, Ins: x})
			defer func(n int) { w.items = w.items[:n] }(len(w.items) - 1)
		case *ssa.If:
			if len(b.Succs) == 2 && b.Succs[0] == b.Succs[1] {
				w.enter(fr, b, b.Succs[0], stack)
				return
			}
			tmp := Trace{preds: w.preds, rets: w.rets, child: w.child}
			cv, cfr := tmp.Resolve(x.Cond, fr)
			if k, ok := ConstBool(cv); ok {
				// decided on this trace (a helper returned a constant): not a test
				if k {
					w.enter(fr, b, b.Succs[0], stack)
				} else {
					w.enter(fr, b, b.Succs[1], stack)
				}
				return
			}
			for _, side := range []bool{true, false} {
				n := len(w.items)
				w.items = append(w.items, TItem{Fr: fr, Ins: x, Cond: cv, CondFr: cfr, True: side, Branch: true})
				if side {
					w.enter(fr, b, b.Succs[0], stack)
				} else {
					w.enter(fr, b, b.Succs[1], stack)
				}
				w.items = w.items[:n]
			}
			return
		case *ssa.Jump:
			w.enter(fr, b, b.Succs[0], stack)
			return
		case *ssa.Panic:
			return // not a return of the root: no trace
		case *ssa.Return:
			if len(x.Results) > 0 {
				w.rets[fr] = x.Results[0]
			} else {
				w.rets[fr] = nil
			}
			if len(stack) > 0 {
				c := stack[len(stack)-1]
				w.run(c.fr, c.b, c.idx, stack[:len(stack)-1])
				return
			}
			// a return of the root
			t := w.snapshot()
			t.RetPos = x.Pos()
			if len(x.Results) == 0 {
				w.emit(t)
				return
			}
			rv, rfr := t.Resolve(x.Results[0], fr)
			t.RetVal, t.RetFr = rv, rfr
			if k, ok := ConstBool(rv); ok {
				t.RetKnown, t.Ret = true, k
				w.emit(t)
				return
			}
			if isBoolType(rv) {
				// `return cond`: two traces, decided by a synthetic branch on cond
				for _, side := range []bool{true, false} {
					t2 := t
					t2.Items = append(append([]TItem{}, t.Items...), TItem{Fr: fr, Ins: x, Cond: rv, CondFr: rfr, True: side, Branch: true})
					t2.RetKnown, t2.Ret = true, side
					w.emit(t2)
				}
				return
			}
			w.emit(t)
			return
		}
	}
}

func isBoolType(v ssa.Value) bool {
	if v == nil {
		return false
	}
	if c, ok := v.(*ssa.Const); ok && c.Value != nil {
		return c.Value.Kind() == constant.Bool
	}
	return v.Type().Underlying().String() == "bool"
}

// Resolve follows parameters, expanded calls and phis of the trace.
func (t *Trace) Resolve(v ssa.Value, fr *TFrame) (ssa.Value, *TFrame) {
	for depth := 0; depth < 50 && v != nil; depth++ {
		switch x := v.(type) {
		case *ssa.Parameter:
			if fr == nil || fr.Parent == nil || x.Parent() != fr.Fn {
				return v, fr
			}
			idx := -1
			for i, p := range fr.Fn.Params {
				if p == x {
					idx = i
				}
			}
			if idx < 0 || idx >= len(fr.Site.Call.Args) {
				return v, fr
			}
			v, fr = fr.Site.Call.Args[idx], fr.Parent
		case *ssa.Call:
			ch, ok := t.child[fr][x]
			if !ok {
				return v, fr
			}
			rv, has := t.rets[ch]
			if !has || rv == nil {
				return v, fr
			}
			v, fr = rv, ch
		case *ssa.Phi:
			pred, ok := t.preds[fr][x.Block()]
			if !ok || pred == nil {
				return v, fr
			}
			found := false
			for i, p := range x.Block().Preds {
				if p == pred {
					v, found = x.Edges[i], true
					break
				}
			}
			if !found {
				return v, fr
			}
		case *ssa.ChangeType:
			v = x.X
		default:
			return v, fr
		}
	}
	return v, fr
}

// ConstInt folds v on this trace (constants, parameters bound to constants, | & + - of such).
func (t *Trace) ConstInt(v ssa.Value, fr *TFrame) (int64, bool) {
	rv, rfr := t.Resolve(v, fr)
	if k, ok := ConstInt(rv); ok {
		return k, true
	}
	switch x := rv.(type) {
	case *ssa.BinOp:
		a, ok1 := t.ConstInt(x.X, rfr)
		b, ok2 := t.ConstInt(x.Y, rfr)
		if !ok1 || !ok2 {
			return 0, false
		}
		switch x.Op {
		case token.OR:
			return a | b, true
		case token.AND:
			return a & b, true
		case token.ADD:
			return a + b, true
		case token.SUB:
			return a - b, true
		case token.XOR:
			return a ^ b, true
		}
	case *ssa.Convert:
		return t.ConstInt(x.X, rfr)
	}
	return 0, false
}
