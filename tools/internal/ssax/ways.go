package ssax

import (
	"go/token"

	"golang.org/x/tools/go/ssa"
)

// Way is one way a boolean function answers true: the branch facts that hold
// on it.  Facts that stem from a helper function the answer was delegated to
// carry a binding of the helper's parameters to the caller's arguments.
type Way struct {
	Pos   token.Pos
	Facts []Fact
}

// edgeFactSets: one fact set per way of reaching block b (a block shared by
// `case A, B:` / `a || b` has one predecessor per disjunct).
func edgeFactSets(b *ssa.BasicBlock) [][]Fact {
	if len(b.Preds) <= 1 {
		return [][]Fact{Facts(b)}
	}
	var out [][]Fact
	for _, pb := range b.Preds {
		fs := append([]Fact{}, Facts(pb)...)
		if iff, ok := pb.Instrs[len(pb.Instrs)-1].(*ssa.If); ok && pb.Succs[0] != pb.Succs[1] {
			fs = append(fs, ExpandCond(iff.Cond, pb.Succs[0] == b)...)
		}
		out = append(out, fs)
	}
	return out
}

// TrueWays lists the ways fn returns true.  expand decides which boolean
// helpers are looked into (their ways replace the fact "helper(...) is true");
// every other condition stays an atomic fact.
func TrueWays(fn *ssa.Function, expand func(*ssa.Function) bool, depth int) []Way {
	var out []Way
	if depth > 3 {
		return nil
	}
	for _, ret := range Returns(fn) {
		if len(ret.Results) != 1 {
			continue
		}
		for _, fs := range edgeFactSets(ret.Block()) {
			out = append(out, waysOfValue(ret.Results[0], fs, ret.Pos(), expand, depth)...)
		}
	}
	// facts "helper(...) is true" are replaced by the helper's own ways
	changed := true
	for round := 0; round < 4 && changed; round++ {
		changed = false
		var next []Way
		for _, w := range out {
			idx := -1
			var callee *ssa.Function
			var call *ssa.Call
			for i, f := range w.Facts {
				if c, ok := f.Cond.(*ssa.Call); ok && f.True {
					if h := c.Call.StaticCallee(); h != nil && expand != nil && expand(h) {
						idx, callee, call = i, h, c
						break
					}
				}
			}
			if idx < 0 {
				next = append(next, w)
				continue
			}
			changed = true
			outer := w.Facts[idx]
			rest := append(append([]Fact{}, w.Facts[:idx]...), w.Facts[idx+1:]...)
			for _, hw := range TrueWays(callee, expand, depth+1) {
				facts := append([]Fact{}, rest...)
				for _, hf := range hw.Facts {
					facts = append(facts, bindFact(hf, callee, call, outer))
				}
				next = append(next, Way{Pos: w.Pos, Facts: facts})
			}
		}
		out = next
	}
	return out
}

// bindFact attaches to a helper's fact the binding parameter → argument of the
// call (arguments themselves resolved through the binding of the outer fact).
func bindFact(hf Fact, callee *ssa.Function, call *ssa.Call, outer Fact) Fact {
	b := map[*ssa.Parameter]ssa.Value{}
	for k, v := range hf.Bind {
		b[k] = v
	}
	for i, prm := range callee.Params {
		if i < len(call.Call.Args) {
			b[prm] = outer.Arg(call.Call.Args[i])
		}
	}
	// values bound by deeper helpers may be parameters of this callee
	for k, v := range b {
		if prm, ok := v.(*ssa.Parameter); ok {
			if a, ok := b[prm]; ok && prm.Parent() == callee {
				b[k] = a
			}
		}
	}
	return Fact{Cond: hf.Cond, True: hf.True, Bind: b}
}

func waysOfValue(v ssa.Value, fs []Fact, pos token.Pos, expand func(*ssa.Function) bool, depth int) []Way {
	if b, ok := ConstBool(v); ok {
		if b {
			return []Way{{Pos: pos, Facts: fs}}
		}
		return nil
	}
	if ph, ok := v.(*ssa.Phi); ok && depth < 6 {
		// `a || b`, or a verdict variable: one way per incoming edge that can be true
		var out []Way
		for i, e := range ph.Edges {
			pb := ph.Block().Preds[i]
			efs := append([]Fact{}, Facts(pb)...)
			if iff, ok := pb.Instrs[len(pb.Instrs)-1].(*ssa.If); ok && pb.Succs[0] != pb.Succs[1] {
				efs = append(efs, ExpandCond(iff.Cond, pb.Succs[0] == ph.Block())...)
			}
			out = append(out, waysOfValue(e, efs, pos, expand, depth+1)...)
		}
		return out
	}
	// any other boolean expression: true under the conjunction it expands to
	facts := append(append([]Fact{}, fs...), ExpandCond(v, true)...)
	return []Way{{Pos: pos, Facts: facts}}
}
