package ssax

import (
	"go/token"

	"golang.org/x/tools/go/ssa"
)

// A read of a place inside a table: `table[i].field`, `row := table[i]; row.field`,
// `for _, row := range table { row.field }`, with the table a package-level variable
// or a local array literal.

// PathElem is one step from the table to the place: an index (constant or the
// variable Var) or a field number.
type PathElem struct {
	Field bool
	K     int       // constant index / field number
	Var   ssa.Value // variable index (nil when constant)
}

// TableRead decomposes v into (root, path); root is a *ssa.Global or a *ssa.Alloc of
// array type.  A local copy of a row (an Alloc with one whole-value store) is looked through.
func TableRead(v ssa.Value) (ssa.Value, []PathElem, bool) {
	var rev []PathElem
	cur := v
	for d := 0; d < 16; d++ {
		switch x := cur.(type) {
		case *ssa.UnOp:
			if x.Op != token.MUL {
				return nil, nil, false
			}
			cur = x.X
		case *ssa.IndexAddr:
			rev = append(rev, idxElem(x.Index))
			cur = x.X
		case *ssa.Index:
			rev = append(rev, idxElem(x.Index))
			cur = x.X
		case *ssa.FieldAddr:
			rev = append(rev, PathElem{Field: true, K: x.Field})
			cur = x.X
		case *ssa.Field:
			rev = append(rev, PathElem{Field: true, K: x.Field})
			cur = x.X
		case *ssa.Slice:
			if x.Low != nil || x.High != nil {
				return nil, nil, false
			}
			cur = x.X
		case *ssa.ChangeType:
			cur = x.X
		case *ssa.Global:
			return x, reversed(rev), len(rev) > 0
		case *ssa.Alloc:
			if isArrayAlloc(x) {
				return x, reversed(rev), len(rev) > 0
			}
			// a local copy of a row
			var val ssa.Value
			n := 0
			if x.Referrers() == nil {
				return nil, nil, false
			}
			for _, ref := range *x.Referrers() {
				if st, ok := ref.(*ssa.Store); ok && st.Addr == ssa.Value(x) {
					n++
					val = st.Val
				}
			}
			if n != 1 {
				return nil, nil, false
			}
			cur = val
		default:
			return nil, nil, false
		}
	}
	return nil, nil, false
}

func idxElem(v ssa.Value) PathElem {
	if k, ok := ConstInt(v); ok {
		return PathElem{K: int(k)}
	}
	return PathElem{Var: v}
}

func reversed(p []PathElem) []PathElem {
	out := make([]PathElem, len(p))
	for i := range p {
		out[len(p)-1-i] = p[i]
	}
	return out
}

func isArrayAlloc(al *ssa.Alloc) bool {
	return IsArrayPtr(al.Type())
}

// LocalTableStores: for a local array literal (every store goes through constant
// indices), the stored value per constant place; ok=false when the array is written
// at a variable index or twice at the same place.
func LocalTableStores(al *ssa.Alloc) (map[string]ssa.Value, bool) {
	out := map[string]ssa.Value{}
	ok := true
	var walk func(addr ssa.Value, key string, d int)
	walk = func(addr ssa.Value, key string, d int) {
		if d > 6 || addr.Referrers() == nil || !ok {
			return
		}
		for _, ref := range *addr.Referrers() {
			switch x := ref.(type) {
			case *ssa.IndexAddr:
				if x.X != addr {
					continue
				}
				k, isK := ConstInt(x.Index)
				if !isK {
					if storedThrough(x, 0) {
						ok = false
					}
					continue
				}
				walk(x, key+pathKey(PathElem{K: int(k)}), d+1)
			case *ssa.FieldAddr:
				walk(x, key+pathKey(PathElem{Field: true, K: x.Field}), d+1)
			case *ssa.Slice:
				if x.X == addr && x.Low == nil && x.High == nil {
					walk(x, key, d+1)
				}
			case *ssa.Store:
				if x.Addr == addr {
					if _, dup := out[key]; dup {
						ok = false
					}
					out[key] = x.Val
				}
			}
		}
	}
	walk(al, "", 0)
	return out, ok
}

func pathKey(e PathElem) string {
	if e.Field {
		return "." + itoa(e.K)
	}
	return "[" + itoa(e.K) + "]"
}

func itoa(k int) string {
	if k == 0 {
		return "0"
	}
	neg := k < 0
	if neg {
		k = -k
	}
	var b []byte
	for k > 0 {
		b = append([]byte{byte('0' + k%10)}, b...)
		k /= 10
	}
	if neg {
		b = append([]byte{'-'}, b...)
	}
	return string(b)
}

// LocalColumn: the values stored at the place `path` of a local table literal, one per
// row when the path has a variable index (rows in order), else the single value.
// rowVar is the variable index (nil if none).
func LocalColumn(al *ssa.Alloc, path []PathElem) (vals []ssa.Value, rowVar ssa.Value, ok bool) {
	stores, lit := LocalTableStores(al)
	if !lit {
		return nil, nil, false
	}
	n, isArr := ArrayLen(al.Type())
	if !isArr {
		return nil, nil, false
	}
	nvar := 0
	for _, e := range path {
		if !e.Field && e.Var != nil {
			nvar++
			rowVar = e.Var
		}
	}
	if nvar > 1 {
		return nil, nil, false
	}
	// only the first element of the path can be the row (a variable index deeper down is not supported)
	rows := []int{-1}
	if nvar == 1 {
		if len(path) == 0 || path[0].Field || path[0].Var == nil {
			return nil, nil, false
		}
		rows = nil
		for i := 0; i < int(n); i++ {
			rows = append(rows, i)
		}
	}
	for _, r := range rows {
		key := ""
		for i, e := range path {
			if i == 0 && r >= 0 {
				key += pathKey(PathElem{K: r})
				continue
			}
			key += pathKey(e)
		}
		v, has := stores[key]
		if !has {
			return nil, nil, false // a zero entry of the literal: not supported
		}
		vals = append(vals, v)
	}
	return vals, rowVar, true
}
