// Package ssax holds small SSA/CFG utilities shared by the path rules (E5):
// edge dominance, acyclic path enumeration, constant propagation through a
// call (SCCP-by-call), field access recognition.
package ssax

import (
	"fmt"
	"go/constant"
	"go/token"
	"go/types"

	"golang.org/x/tools/go/ssa"
)

// ConstInt returns the integer value of an SSA constant.
func ConstInt(v ssa.Value) (int64, bool) {
	c, ok := v.(*ssa.Const)
	if !ok || c.Value == nil {
		return 0, false
	}
	if c.Value.Kind() == constant.Bool {
		if constant.BoolVal(c.Value) {
			return 1, true
		}
		return 0, true
	}
	iv := constant.ToInt(c.Value)
	if iv.Kind() != constant.Int {
		return 0, false
	}
	x, ok := constant.Int64Val(iv)
	return x, ok
}

// ConstBool returns the value of a bool constant.
func ConstBool(v ssa.Value) (bool, bool) {
	c, ok := v.(*ssa.Const)
	if !ok || c.Value == nil || c.Value.Kind() != constant.Bool {
		return false, false
	}
	return constant.BoolVal(c.Value), true
}

// ConstString returns the value of a string constant.
func ConstString(v ssa.Value) (string, bool) {
	c, ok := v.(*ssa.Const)
	if !ok || c.Value == nil || c.Value.Kind() != constant.String {
		return "", false
	}
	return constant.StringVal(c.Value), true
}

// Callee returns the static callee of a call value/instruction, or nil.
func Callee(v interface{}) *ssa.Function {
	if ci, ok := v.(ssa.CallInstruction); ok {
		return ci.Common().StaticCallee()
	}
	return nil
}

// EdgeDominates: does every path from the entry of fn to target use the CFG
// edge from→from.Succs[succ]?  (Reachability with the edge removed.)
func EdgeDominates(from *ssa.BasicBlock, succ int, target *ssa.BasicBlock) bool {
	fn := from.Parent()
	if succ >= len(from.Succs) {
		return false
	}
	seen := map[*ssa.BasicBlock]bool{}
	var walk func(b *ssa.BasicBlock) bool
	walk = func(b *ssa.BasicBlock) bool {
		if b == target {
			return true
		}
		if seen[b] {
			return false
		}
		seen[b] = true
		for i, s := range b.Succs {
			if b == from && i == succ {
				// removed edge; but a two-way branch to the same block keeps the other edge
				continue
			}
			if walk(s) {
				return true
			}
		}
		return false
	}
	if target == fn.Blocks[0] {
		return false
	}
	// target reachable at all?
	reach := reachable(fn.Blocks[0], target)
	if !reach {
		return false
	}
	return !walk(fn.Blocks[0])
}

func reachable(from, to *ssa.BasicBlock) bool {
	seen := map[*ssa.BasicBlock]bool{}
	var walk func(b *ssa.BasicBlock) bool
	walk = func(b *ssa.BasicBlock) bool {
		if b == to {
			return true
		}
		if seen[b] {
			return false
		}
		seen[b] = true
		for _, s := range b.Succs {
			if walk(s) {
				return true
			}
		}
		return false
	}
	return walk(from)
}

// Reachable reports CFG reachability inside one function.
func Reachable(from, to *ssa.BasicBlock) bool { return reachable(from, to) }

// DominatingEdges lists, for target, every If-edge (block, succ index) that
// edge-dominates it.
type CondEdge struct {
	If   *ssa.If
	Succ int // 0 = true edge, 1 = false edge
}

func DominatingEdges(target *ssa.BasicBlock) []CondEdge {
	var out []CondEdge
	for _, b := range target.Parent().Blocks {
		if len(b.Instrs) == 0 {
			continue
		}
		iff, ok := b.Instrs[len(b.Instrs)-1].(*ssa.If)
		if !ok {
			continue
		}
		if b.Succs[0] == b.Succs[1] {
			continue
		}
		for s := 0; s < 2; s++ {
			if EdgeDominates(b, s, target) {
				out = append(out, CondEdge{iff, s})
			}
		}
	}
	return out
}

// Path is one entry→return path of an acyclic CFG.
type Path struct {
	Blocks []*ssa.BasicBlock
}

// Edge returns the successor index taken out of Blocks[i].
func (p Path) Edge(i int) int {
	if i+1 >= len(p.Blocks) {
		return -1
	}
	b := p.Blocks[i]
	// if both successors are the same block, report 0
	for j, s := range b.Succs {
		if s == p.Blocks[i+1] {
			return j
		}
	}
	return -1
}

// EnumeratePaths lists all entry→exit paths; it fails on a cyclic CFG or when
// more than max paths exist (undecided ⇒ caller fails).
func EnumeratePaths(fn *ssa.Function, max int) ([]Path, error) {
	var out []Path
	onStack := map[*ssa.BasicBlock]bool{}
	var cur []*ssa.BasicBlock
	var err error
	var walk func(b *ssa.BasicBlock)
	walk = func(b *ssa.BasicBlock) {
		if err != nil {
			return
		}
		if onStack[b] {
			err = fmt.Errorf("control-flow cycle through block %d of %s: path enumeration undecided", b.Index, fn.Name())
			return
		}
		onStack[b] = true
		cur = append(cur, b)
		if len(b.Succs) == 0 {
			out = append(out, Path{append([]*ssa.BasicBlock{}, cur...)})
			if len(out) > max {
				err = fmt.Errorf("more than %d paths in %s", max, fn.Name())
			}
		} else if len(b.Succs) == 2 && b.Succs[0] == b.Succs[1] {
			walk(b.Succs[0])
		} else {
			for _, s := range b.Succs {
				walk(s)
			}
		}
		cur = cur[:len(cur)-1]
		onStack[b] = false
	}
	walk(fn.Blocks[0])
	return out, err
}

// FieldRef describes p.f where p points to a named struct.
type FieldRef struct {
	Struct string
	Field  string
	Index  int
	Base   ssa.Value
}

// AsFieldAddr recognises a FieldAddr and names struct and field.
func AsFieldAddr(v ssa.Value) (FieldRef, bool) {
	fa, ok := v.(*ssa.FieldAddr)
	if !ok {
		return FieldRef{}, false
	}
	pt, ok := fa.X.Type().Underlying().(*types.Pointer)
	if !ok {
		return FieldRef{}, false
	}
	st, ok := pt.Elem().Underlying().(*types.Struct)
	if !ok {
		return FieldRef{}, false
	}
	name := pt.Elem().String()
	if n, ok := pt.Elem().(*types.Named); ok {
		name = n.Obj().Name()
	}
	ref := FieldRef{Struct: name, Field: st.Field(fa.Field).Name(), Index: fa.Field, Base: fa.X}
	// a field of an embedded struct is a (promoted) field of the struct that embeds it
	if outer, ok := fa.X.(*ssa.FieldAddr); ok {
		if opt, ok := outer.X.Type().Underlying().(*types.Pointer); ok {
			if ost, ok := opt.Elem().Underlying().(*types.Struct); ok && ost.Field(outer.Field).Embedded() {
				if oref, ok := AsFieldAddr(outer); ok {
					ref.Struct, ref.Base = oref.Struct, oref.Base
				}
			}
		}
	}
	return ref, true
}

// LoadedField recognises `*(&p.f)`.
func LoadedField(v ssa.Value) (FieldRef, bool) {
	u, ok := v.(*ssa.UnOp)
	if !ok || u.Op != token.MUL {
		return FieldRef{}, false
	}
	return AsFieldAddr(u.X)
}

// Calls lists the call instructions of fn in block order.
func Calls(fn *ssa.Function) []ssa.CallInstruction {
	var out []ssa.CallInstruction
	for _, b := range fn.Blocks {
		for _, ins := range b.Instrs {
			if ci, ok := ins.(ssa.CallInstruction); ok {
				out = append(out, ci)
			}
		}
	}
	return out
}

// Returns lists the return instructions of fn.
func Returns(fn *ssa.Function) []*ssa.Return {
	var out []*ssa.Return
	for _, b := range fn.Blocks {
		if len(b.Instrs) == 0 {
			continue
		}
		if r, ok := b.Instrs[len(b.Instrs)-1].(*ssa.Return); ok {
			out = append(out, r)
		}
	}
	return out
}

// InstrIndex returns the index of ins in its block.
func InstrIndex(ins ssa.Instruction) int {
	for i, x := range ins.Block().Instrs {
		if x == ins {
			return i
		}
	}
	return -1
}

// Dominates: instruction a dominates instruction b (same function).
func Dominates(a, b ssa.Instruction) bool {
	if a.Block() == b.Block() {
		return InstrIndex(a) < InstrIndex(b)
	}
	return a.Block().Dominates(b.Block())
}

// Fact is a branch condition known to hold (True) or not on every path to a block.
type Fact struct {
	Cond ssa.Value
	True bool
	// Bind maps parameters of the helper function the condition lives in to the
	// caller's arguments (set when a fact was obtained by looking into a helper)
	Bind map[*ssa.Parameter]ssa.Value
}

// Arg maps v through the fact's binding: a parameter of the helper the fact
// comes from stands for the caller's argument.
func (f Fact) Arg(v ssa.Value) ssa.Value {
	for i := 0; i < 4; i++ {
		prm, ok := v.(*ssa.Parameter)
		if !ok || f.Bind == nil {
			return v
		}
		a, ok := f.Bind[prm]
		if !ok || a == v {
			return v
		}
		v = a
	}
	return v
}

// Facts lists the atomic conditions implied at block target by the If-edges
// that edge-dominate it.  Short-circuit conditions materialised as bool phis
// (`case a && b && c:` in a tagless switch, `x || y` operands) are expanded
// into their conjuncts/disjuncts; `!x` is unfolded.
func Facts(target *ssa.BasicBlock) []Fact {
	var out []Fact
	for _, ce := range DominatingEdges(target) {
		expandCond(ce.If.Cond, ce.Succ == 0, &out, 0)
	}
	return out
}

// ExpandCond expands one (condition, truth) pair into atomic facts.
func ExpandCond(v ssa.Value, truth bool) []Fact {
	var out []Fact
	expandCond(v, truth, &out, 0)
	return out
}

func expandCond(v ssa.Value, truth bool, out *[]Fact, depth int) {
	if depth > 12 {
		*out = append(*out, Fact{Cond: v, True: truth})
		return
	}
	switch x := v.(type) {
	case *ssa.UnOp:
		if x.Op == token.NOT {
			expandCond(x.X, !truth, out, depth+1)
			return
		}
	case *ssa.Phi:
		// all-but-one edges constant == !truth  ⇒ short-circuit chain
		var rest []int
		allConst := true
		for i, e := range x.Edges {
			if b, ok := ConstBool(e); ok {
				if b == truth {
					allConst = false // an edge that directly yields `truth` without a condition: not a pure chain
				}
			} else {
				rest = append(rest, i)
			}
		}
		if allConst && len(rest) == 1 {
			for i, e := range x.Edges {
				if _, ok := ConstBool(e); !ok {
					continue
				}
				pred := x.Block().Preds[i]
				iff, ok := pred.Instrs[len(pred.Instrs)-1].(*ssa.If)
				if !ok {
					// unconditional jump into the phi with the short-circuit constant: cannot expand
					*out = append(*out, Fact{Cond: v, True: truth})
					return
				}
				// the edge into the phi block carries the constant; the other edge continues the chain
				if pred.Succs[0] == x.Block() && pred.Succs[1] != x.Block() {
					expandCond(iff.Cond, false, out, depth+1) // taking succ 0 would end the chain ⇒ cond is false
				} else if pred.Succs[1] == x.Block() && pred.Succs[0] != x.Block() {
					expandCond(iff.Cond, true, out, depth+1)
				}
			}
			expandCond(x.Edges[rest[0]], truth, out, depth+1)
			return
		}
	}
	*out = append(*out, Fact{Cond: v, True: truth})
}

// Unwrap maps a synthetic wrapper of a declared function or method — the thunk
// of a method expression (*T).m, the $bound closure of a method value — to the
// declared function; anything else is returned unchanged.
func Unwrap(fn *ssa.Function) *ssa.Function {
	if fn == nil || fn.Synthetic == "" || fn.Prog == nil {
		return fn
	}
	if obj, ok := fn.Object().(*types.Func); ok && obj != nil {
		if f := fn.Prog.FuncValue(obj); f != nil && f != fn {
			return f
		}
	}
	return fn
}

// IsArrayPtr: t is a pointer to an array.
func IsArrayPtr(t types.Type) bool {
	_, ok := ArrayLen(t)
	return ok
}

// ArrayLen: the length of the array t points to.
func ArrayLen(t types.Type) (int64, bool) {
	pt, ok := t.Underlying().(*types.Pointer)
	if !ok {
		return 0, false
	}
	arr, ok := pt.Elem().Underlying().(*types.Array)
	if !ok {
		return 0, false
	}
	return arr.Len(), true
}
