package core

import (
	"encoding/json"
	"fmt"
	"go/constant"
	"go/types"
	"os"
	"path/filepath"
	"sort"
	"strings"
)

func constInt64(c *types.Const) (int64, bool) {
	v := constant.ToInt(c.Val())
	if v.Kind() != constant.Int {
		return 0, false
	}
	return constant.Int64Val(v)
}

// Violation is one construct that breaks one rule.
type Violation struct {
	Property string   `json:"property"`
	Rule     string   `json:"rule"`
	Func     string   `json:"function"`
	Expr     string   `json:"construct"`
	Pos      string   `json:"position"`
	Msg      string   `json:"message"`
	Facts    []string `json:"facts,omitempty"`
}

// Key identifies a violation independent of line numbers.
func (v Violation) Key() string { return v.Rule + "|" + v.Func + "|" + v.Expr }

// Obligation is one decided rule instance (for evidence samples).
type Obligation struct {
	Rule   string `json:"rule"`
	Func   string `json:"function"`
	Expr   string `json:"construct"`
	Pos    string `json:"position,omitempty"`
	Status string `json:"status"` // discharged | residual | violated | exempt
	Why    string `json:"why,omitempty"`
}

// Result accumulates what one property check decided.
type Result struct {
	Property    string
	Level       string
	Violations  []Violation
	Obligations []Obligation
	RuleCounts  map[string]int
	Notes       []string
	Extra       map[string]interface{}
	Explanation string
	Trusted     []string
	Assumptions []string
	Analysed    []string // functions analysed
}

func NewResult(prop, level string) *Result {
	return &Result{Property: prop, Level: level, RuleCounts: map[string]int{}, Extra: map[string]interface{}{}}
}

// OK records a discharged obligation.
func (r *Result) OK(rule, fn, expr, pos, why string) {
	r.RuleCounts[rule]++
	r.Obligations = append(r.Obligations, Obligation{Rule: rule, Func: fn, Expr: expr, Pos: pos, Status: "discharged", Why: why})
}

// Residual records an obligation that is assumed with a reviewed reason.
func (r *Result) Residual(rule, fn, expr, pos, why string) {
	r.RuleCounts[rule]++
	r.Obligations = append(r.Obligations, Obligation{Rule: rule, Func: fn, Expr: expr, Pos: pos, Status: "residual", Why: why})
}

// Exempt records an instance that the property statement itself exempts.
func (r *Result) Exempt(rule, fn, expr, pos, why string) {
	r.RuleCounts[rule]++
	r.Obligations = append(r.Obligations, Obligation{Rule: rule, Func: fn, Expr: expr, Pos: pos, Status: "exempt", Why: why})
}

// Fail records a violated obligation.
func (r *Result) Fail(rule, fn, expr, pos, msg string, facts ...string) {
	r.RuleCounts[rule]++
	r.Obligations = append(r.Obligations, Obligation{Rule: rule, Func: fn, Expr: expr, Pos: pos, Status: "violated", Why: msg})
	r.Violations = append(r.Violations, Violation{Property: r.Property, Rule: rule, Func: fn, Expr: expr, Pos: pos, Msg: msg, Facts: facts})
}

func (r *Result) Note(format string, a ...interface{}) {
	r.Notes = append(r.Notes, fmt.Sprintf(format, a...))
}

// Merge folds another result (same property) into r.
func (r *Result) Merge(o *Result) {
	r.Violations = append(r.Violations, o.Violations...)
	r.Obligations = append(r.Obligations, o.Obligations...)
	for k, v := range o.RuleCounts {
		r.RuleCounts[k] += v
	}
	r.Notes = append(r.Notes, o.Notes...)
	for k, v := range o.Extra {
		r.Extra[k] = v
	}
	r.Analysed = append(r.Analysed, o.Analysed...)
}

// KnownFindings is the committed /verif/known_findings.json.
type KnownFindings struct {
	Findings []struct {
		Property string `json:"property"`
		Rule     string `json:"rule"`
		Func     string `json:"function"`
		Expr     string `json:"construct"`
		What     string `json:"what"`
	} `json:"findings"`
	Fixed []string `json:"fixed"`
}

func LoadKnown(path string) (*KnownFindings, error) {
	k := &KnownFindings{}
	b, err := os.ReadFile(path)
	if err != nil {
		if os.IsNotExist(err) {
			return k, nil
		}
		return nil, err
	}
	if err := json.Unmarshal(b, k); err != nil {
		return nil, fmt.Errorf("%s: %w", path, err)
	}
	return k, nil
}

// Finish prints the report, writes evidence + replay files, and returns the
// process exit code.
func (r *Result) Finish(tier string, seed int64, wall float64, verifDir, evidenceDir string, cmdline string) int {
	known, err := LoadKnown(filepath.Join(verifDir, "known_findings.json"))
	if err != nil {
		r.Fail("framework", "-", "known_findings.json", "-", err.Error())
		known = &KnownFindings{}
	}
	// dedupe violations by key
	seen := map[string]bool{}
	var uniq []Violation
	for _, v := range r.Violations {
		if !seen[v.Key()] {
			seen[v.Key()] = true
			uniq = append(uniq, v)
		}
	}
	sort.Slice(uniq, func(i, j int) bool { return uniq[i].Key() < uniq[j].Key() })
	var live []Violation
	knownHit := 0
	for _, v := range uniq {
		matched := false
		for _, k := range known.Findings {
			if k.Property == r.Property && k.Rule == v.Rule && k.Func == v.Func && k.Expr == v.Expr {
				fmt.Printf("KNOWN-FINDING: property=%s %s %s %s: %s\n", r.Property, v.Rule, v.Func, v.Expr, k.What)
				matched = true
				knownHit++
				break
			}
		}
		if !matched {
			live = append(live, v)
		}
	}
	replayDir := filepath.Join(evidenceDir, "replay")
	os.MkdirAll(replayDir, 0o755)
	// remove stale replay files of this property
	if old, _ := filepath.Glob(filepath.Join(replayDir, r.Property+"-*.json")); old != nil {
		for _, f := range old {
			os.Remove(f)
		}
	}
	for i, v := range live {
		path := filepath.Join(replayDir, fmt.Sprintf("%s-%d.json", r.Property, i+1))
		b, _ := json.MarshalIndent(v, "", " ")
		os.WriteFile(path, b, 0o644)
		fmt.Printf("%s %s: %s %s: %s\n", v.Pos, v.Func, v.Rule, v.Expr, v.Msg)
		for _, f := range v.Facts {
			fmt.Printf("    fact: %s\n", f)
		}
		fmt.Printf("VIOLATION property=%s replay=%s\n", r.Property, path)
	}

	// evidence
	nOb := len(r.Obligations)
	nDis, nRes, nEx, nViol := 0, 0, 0, 0
	var residuals []Obligation
	for _, o := range r.Obligations {
		switch o.Status {
		case "discharged":
			nDis++
		case "residual":
			nRes++
			residuals = append(residuals, o)
		case "exempt":
			nEx++
		case "violated":
			nViol++
		}
	}
	samples := sampleObligations(r.Obligations, 14)
	cov := map[string]interface{}{
		"obligations":          nOb,
		"discharged":           nDis,
		"residual_assumed":     nRes,
		"exempt_by_statement":  nEx,
		"violated":             nViol,
		"rule_instance_counts": r.RuleCounts,
		"samples":              samples,
		"explanation":          r.Explanation,
		"checker_cmd":          cmdline,
		"trusted_base":         r.Trusted,
		"functions_analysed":   dedupSorted(r.Analysed),
		"notes":                r.Notes,
		"known_findings_hit":   knownHit,
	}
	if len(residuals) > 0 {
		cov["residuals"] = residuals
	}
	if r.Level == "proof" {
		cov["exhaustive"] = nOb == nDis
	}
	for k, v := range r.Extra {
		cov[k] = v
	}
	ev := map[string]interface{}{
		"property_id": r.Property,
		"tier":        tier,
		"seed":        seed,
		"level":       r.Level,
		"coverage":    cov,
		"assumptions": r.Assumptions,
		"wall_s":      wall,
		"violations":  len(live),
	}
	if r.Assumptions == nil {
		ev["assumptions"] = []string{}
	}
	os.MkdirAll(evidenceDir, 0o755)
	b, _ := json.MarshalIndent(ev, "", " ")
	if err := os.WriteFile(filepath.Join(evidenceDir, r.Property+".json"), append(b, '\n'), 0o644); err != nil {
		fmt.Printf("cannot write evidence: %v\n", err)
		return 1
	}
	fmt.Printf("%s %s: %d obligations, %d discharged, %d residual, %d exempt, %d violated (%d known), %.1fs\n",
		r.Property, tier, nOb, nDis, nRes, nEx, nViol, knownHit, wall)
	if len(live) > 0 {
		return 1
	}
	return 0
}

func sampleObligations(obs []Obligation, n int) []Obligation {
	if len(obs) <= n {
		return obs
	}
	// one per rule first, then evenly spaced
	var out []Obligation
	seenRule := map[string]bool{}
	for _, o := range obs {
		if !seenRule[o.Rule] {
			seenRule[o.Rule] = true
			out = append(out, o)
		}
	}
	step := len(obs) / n
	if step < 1 {
		step = 1
	}
	for i := 0; i < len(obs) && len(out) < n+len(seenRule); i += step {
		out = append(out, obs[i])
	}
	if len(out) > 40 {
		out = out[:40]
	}
	return out
}

func dedupSorted(in []string) []string {
	m := map[string]bool{}
	for _, s := range in {
		m[s] = true
	}
	out := make([]string, 0, len(m))
	for s := range m {
		out = append(out, s)
	}
	sort.Strings(out)
	return out
}

// Short trims long expressions for report lines.
func Short(s string) string {
	s = strings.Join(strings.Fields(s), " ")
	if len(s) > 160 {
		return s[:157] + "..."
	}
	return s
}
