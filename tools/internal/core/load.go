// Package core loads /repo's current working tree (type-checked AST + SSA +
// VTA call graph) and offers the lookups every rule needs.
package core

import (
	"fmt"
	"go/ast"
	"go/token"
	"go/types"
	"os"
	"sort"
	"strings"

	"golang.org/x/tools/go/callgraph"
	"golang.org/x/tools/go/callgraph/cha"
	"golang.org/x/tools/go/callgraph/vta"
	"golang.org/x/tools/go/packages"
	"golang.org/x/tools/go/ssa"
	"golang.org/x/tools/go/ssa/ssautil"
)

// Program is the resolved program all analyses share.
type Program struct {
	Dir    string
	GOARCH string
	Tags   []string

	Fset  *token.FileSet
	Pkg   *packages.Package // the library package
	Info  *types.Info
	Types *types.Package
	Files []*ast.File

	SSA    *ssa.Program
	SSAPkg *ssa.Package
	Graph  *callgraph.Graph

	// reachable SSA functions per API root name ("IsSQLi", "IsXSS") and union.
	ReachFrom map[string]map[*ssa.Function]bool
	Reach     map[*ssa.Function]bool

	funcDecls map[*types.Func]*ast.FuncDecl
}

// Load type-checks dir and builds SSA and the call graph.  Any load or type
// error is returned: undecided is never a pass.
func Load(dir, goarch string, tags []string) (*Program, error) {
	env := append(os.Environ(), "GOFLAGS=-mod=mod", "GOPROXY=off", "GOSUMDB=off", "GOTOOLCHAIN=local", "GOWORK=off")
	if goarch != "" {
		env = append(env, "GOARCH="+goarch)
	}
	cfg := &packages.Config{
		Mode:  packages.LoadAllSyntax,
		Dir:   dir,
		Env:   env,
		Tests: false,
	}
	if len(tags) > 0 {
		cfg.BuildFlags = []string{"-tags=" + strings.Join(tags, ",")}
	}
	pkgs, err := packages.Load(cfg, ".")
	if err != nil {
		return nil, fmt.Errorf("packages.Load: %w", err)
	}
	if len(pkgs) != 1 {
		return nil, fmt.Errorf("expected exactly one package in %s, got %d", dir, len(pkgs))
	}
	var errs []string
	packages.Visit(pkgs, nil, func(p *packages.Package) {
		for _, e := range p.Errors {
			errs = append(errs, e.Error())
		}
	})
	if len(errs) > 0 {
		return nil, fmt.Errorf("load/type errors: %s", strings.Join(errs, "; "))
	}
	pkg := pkgs[0]
	if pkg.Types == nil || pkg.TypesInfo == nil || len(pkg.Syntax) == 0 {
		return nil, fmt.Errorf("package %s has no syntax/types", pkg.PkgPath)
	}
	p := &Program{Dir: dir, GOARCH: goarch, Tags: tags, Fset: pkg.Fset, Pkg: pkg, Info: pkg.TypesInfo, Types: pkg.Types, Files: pkg.Syntax}

	prog, ssapkgs := ssautil.AllPackages(pkgs, ssa.InstantiateGenerics)
	prog.Build()
	p.SSA = prog
	for _, sp := range ssapkgs {
		if sp != nil && sp.Pkg == pkg.Types {
			p.SSAPkg = sp
		}
	}
	if p.SSAPkg == nil {
		return nil, fmt.Errorf("no SSA package for %s", pkg.PkgPath)
	}
	all := ssautil.AllFunctions(prog)
	p.Graph = vta.CallGraph(all, cha.CallGraph(prog))

	p.ReachFrom = map[string]map[*ssa.Function]bool{}
	p.Reach = map[*ssa.Function]bool{}
	for _, root := range []string{"IsSQLi", "IsXSS"} {
		f := p.SSAPkg.Func(root)
		if f == nil {
			return nil, fmt.Errorf("API root %s not found (unresolved anchor)", root)
		}
		set := map[*ssa.Function]bool{}
		p.reachFrom(f, set)
		p.ReachFrom[root] = set
		for fn := range set {
			p.Reach[fn] = true
		}
	}
	p.funcDecls = map[*types.Func]*ast.FuncDecl{}
	for _, f := range p.Files {
		for _, d := range f.Decls {
			if fd, ok := d.(*ast.FuncDecl); ok {
				if obj, ok := p.Info.Defs[fd.Name].(*types.Func); ok {
					p.funcDecls[obj] = fd
				}
			}
		}
	}
	return p, nil
}

func (p *Program) reachFrom(f *ssa.Function, set map[*ssa.Function]bool) {
	if f == nil || set[f] {
		return
	}
	set[f] = true
	// anonymous functions defined inside are reachable if referenced; be
	// conservative and include them.
	for _, an := range f.AnonFuncs {
		p.reachFrom(an, set)
	}
	if n := p.Graph.Nodes[f]; n != nil {
		for _, e := range n.Out {
			p.reachFrom(e.Callee.Func, set)
		}
	}
	// bound-method wrappers and function values referenced as operands.
	for _, b := range f.Blocks {
		for _, ins := range b.Instrs {
			for _, op := range ins.Operands(nil) {
				if op == nil || *op == nil {
					continue
				}
				switch v := (*op).(type) {
				case *ssa.Function:
					p.reachFrom(v, set)
				case *ssa.MakeClosure:
					if fn, ok := v.Fn.(*ssa.Function); ok {
						p.reachFrom(fn, set)
					}
				}
			}
		}
	}
}

// ReachOf returns the functions reachable from f (f included).
func (p *Program) ReachOf(f *ssa.Function) map[*ssa.Function]bool {
	set := map[*ssa.Function]bool{}
	p.reachFrom(f, set)
	return set
}

// InModule reports whether fn is declared in the analysed library package
// (bound/thunk wrappers of its methods included).
func (p *Program) InModule(fn *ssa.Function) bool {
	if fn == nil {
		return false
	}
	if fn.Pkg == p.SSAPkg {
		return true
	}
	if o := fn.Object(); o != nil && o.Pkg() == p.Types {
		return true
	}
	if fn.Parent() != nil {
		return p.InModule(fn.Parent())
	}
	return false
}

// IsWrapper reports synthetic wrappers ($bound, $thunk).
func IsWrapper(fn *ssa.Function) bool {
	return fn.Synthetic != "" && (strings.HasSuffix(fn.Name(), "$bound") || strings.HasSuffix(fn.Name(), "$thunk") || strings.HasPrefix(fn.Synthetic, "wrapper") || strings.HasPrefix(fn.Synthetic, "bound"))
}

// Func returns the package-level function with this name, or nil.
func (p *Program) Func(name string) *ssa.Function { return p.SSAPkg.Func(name) }

// Method returns method (recv).name where recv is a named type of the library.
func (p *Program) Method(recv, name string) *ssa.Function {
	obj := p.Types.Scope().Lookup(recv)
	if obj == nil {
		return nil
	}
	tn, ok := obj.(*types.TypeName)
	if !ok {
		return nil
	}
	for _, t := range []types.Type{tn.Type(), types.NewPointer(tn.Type())} {
		ms := p.SSA.MethodSets.MethodSet(t)
		for i := 0; i < ms.Len(); i++ {
			if ms.At(i).Obj().Name() == name {
				return p.SSA.MethodValue(ms.At(i))
			}
		}
	}
	return nil
}

// FuncByQualName resolves "name" or "Recv.name".
func (p *Program) FuncByQualName(q string) *ssa.Function {
	if i := strings.IndexByte(q, '.'); i >= 0 {
		return p.Method(q[:i], q[i+1:])
	}
	return p.Func(q)
}

// QualName renders fn as "name" or "Recv.name" (wrappers map to the method).
func QualName(fn *ssa.Function) string {
	if fn == nil {
		return "<nil>"
	}
	if fn.Signature != nil && fn.Signature.Recv() != nil {
		t := fn.Signature.Recv().Type()
		if pt, ok := t.(*types.Pointer); ok {
			t = pt.Elem()
		}
		if n, ok := t.(*types.Named); ok {
			return n.Obj().Name() + "." + fn.Name()
		}
	}
	if o, ok := fn.Object().(*types.Func); ok && o != nil {
		if sig, ok := o.Type().(*types.Signature); ok && sig.Recv() != nil {
			t := sig.Recv().Type()
			if pt, ok := t.(*types.Pointer); ok {
				t = pt.Elem()
			}
			if n, ok := t.(*types.Named); ok {
				return n.Obj().Name() + "." + o.Name()
			}
		}
	}
	if fn.Parent() != nil {
		return QualName(fn.Parent()) + "$" + fn.Name()
	}
	return fn.Name()
}

// Decl returns the AST declaration of a source function.
func (p *Program) Decl(fn *ssa.Function) *ast.FuncDecl {
	if o, ok := fn.Object().(*types.Func); ok {
		return p.funcDecls[o]
	}
	return nil
}

// Pos renders a position as file:line:col relative to the repo dir.
func (p *Program) Pos(pos token.Pos) string {
	if !pos.IsValid() {
		return "-"
	}
	ps := p.Fset.Position(pos)
	f := ps.Filename
	if strings.HasPrefix(f, p.Dir+"/") {
		f = f[len(p.Dir)+1:]
	}
	return fmt.Sprintf("%s:%d:%d", f, ps.Line, ps.Column)
}

// SourceFuncs returns the library's source-level functions (no wrappers,
// no init), sorted by name; restricted to reachable ones when reach != nil.
func (p *Program) SourceFuncs(reach map[*ssa.Function]bool) []*ssa.Function {
	var out []*ssa.Function
	seen := map[*ssa.Function]bool{}
	add := func(fn *ssa.Function) {
		if fn == nil || seen[fn] || fn.Blocks == nil || fn.Synthetic != "" {
			return
		}
		if reach != nil && !reach[fn] {
			return
		}
		seen[fn] = true
		out = append(out, fn)
	}
	if reach != nil {
		for fn := range reach {
			if p.InModule(fn) {
				add(fn)
			}
		}
	} else {
		for fn := range ssautil.AllFunctions(p.SSA) {
			if p.InModule(fn) {
				add(fn)
			}
		}
	}
	sort.Slice(out, func(i, j int) bool { return QualName(out[i]) < QualName(out[j]) })
	return out
}

// GlobalVar returns the SSA global with this name, or nil.
func (p *Program) GlobalVar(name string) *ssa.Global {
	if m, ok := p.SSAPkg.Members[name]; ok {
		if g, ok := m.(*ssa.Global); ok {
			return g
		}
	}
	return nil
}

// Globals returns all package-level variables of the library (no init guards).
func (p *Program) Globals() []*ssa.Global {
	var gs []*ssa.Global
	for _, m := range p.SSAPkg.Members {
		if g, ok := m.(*ssa.Global); ok && !strings.HasPrefix(g.Name(), "init$") {
			gs = append(gs, g)
		}
	}
	sort.Slice(gs, func(i, j int) bool { return gs[i].Name() < gs[j].Name() })
	return gs
}

// ConstInt returns the value of a package-level integer/byte constant.
func (p *Program) ConstInt(name string) (int64, bool) {
	obj := p.Types.Scope().Lookup(name)
	c, ok := obj.(*types.Const)
	if !ok {
		return 0, false
	}
	return constInt64(c)
}
