// Package symmetry is E4: the observation-symmetry analysis.  It decides
// whether every observation the program makes of input bytes has the same
// outcome on x and on σ(x), σ being any change of ASCII letter case.
package symmetry

import (
	"go/token"

	"golang.org/x/tools/go/ssa"

	"verif/tools/internal/ssax"
)

func canon(v ssa.Value) string { return ssax.Canon(v) }

// loadedFields lists the (struct, field) pairs loaded inside v's expression tree.
func loadedFields(v ssa.Value, out map[string]bool, depth int) {
	if v == nil || depth > 14 {
		return
	}
	switch x := v.(type) {
	case *ssa.UnOp:
		if x.Op == token.MUL {
			if fr, ok := ssax.AsFieldAddr(x.X); ok {
				out[fr.Struct+"."+fr.Field] = true
			} else if _, ok := x.X.(*ssa.IndexAddr); ok {
				out["elem:"+x.X.Type().String()] = true
			}
		}
		loadedFields(x.X, out, depth+1)
	case *ssa.FieldAddr:
		loadedFields(x.X, out, depth+1)
	case *ssa.Field:
		loadedFields(x.X, out, depth+1)
	case *ssa.IndexAddr:
		loadedFields(x.X, out, depth+1)
		loadedFields(x.Index, out, depth+1)
	case *ssa.Index:
		loadedFields(x.X, out, depth+1)
		loadedFields(x.Index, out, depth+1)
	case *ssa.Lookup:
		loadedFields(x.X, out, depth+1)
		loadedFields(x.Index, out, depth+1)
	case *ssa.Slice:
		loadedFields(x.X, out, depth+1)
		loadedFields(x.Low, out, depth+1)
		loadedFields(x.High, out, depth+1)
	case *ssa.Convert:
		loadedFields(x.X, out, depth+1)
	case *ssa.ChangeType:
		loadedFields(x.X, out, depth+1)
	case *ssa.BinOp:
		loadedFields(x.X, out, depth+1)
		loadedFields(x.Y, out, depth+1)
	case *ssa.Call:
		// an accessor (`s.peekAt(1)`): the fields its expression loads, and its arguments
		if f := x.Common().StaticCallee(); f != nil {
			if ret, ok := ssax.PureExprFunc(f); ok {
				loadedFields(ret, out, depth+1)
				for _, arg := range x.Common().Args {
					loadedFields(arg, out, depth+1)
				}
			}
		}
	}
}

// instrReaches: can control flow from instruction a reach instruction b
// (a strictly before b on some path)?
func instrReaches(a, b ssa.Instruction) bool {
	if a.Block() == b.Block() {
		if ssax.InstrIndex(a) < ssax.InstrIndex(b) {
			return true
		}
		// around a loop
		for _, s := range a.Block().Succs {
			if ssax.Reachable(s, b.Block()) {
				return true
			}
		}
		return false
	}
	return ssax.Reachable(a.Block(), b.Block())
}

// reachAvoid: is there a control-flow path that starts right after `from`,
// reaches `to`, and does not execute `avoid` on the way?
func reachAvoid(from, to, avoid ssa.Instruction) bool {
	type pos struct {
		b *ssa.BasicBlock
		i int
	}
	seen := map[*ssa.BasicBlock]bool{}
	var scan func(b *ssa.BasicBlock, start int) bool
	scan = func(b *ssa.BasicBlock, start int) bool {
		for i := start; i < len(b.Instrs); i++ {
			ins := b.Instrs[i]
			if ins == to {
				return true
			}
			if ins == avoid {
				return false
			}
		}
		for _, s := range b.Succs {
			if seen[s] {
				continue
			}
			seen[s] = true
			if scan(s, 0) {
				return true
			}
		}
		return false
	}
	return scan(from.Block(), ssax.InstrIndex(from)+1)
}
