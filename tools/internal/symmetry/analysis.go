package symmetry

import (
	"fmt"
	"go/token"
	"go/types"
	"os"
	"sort"
	"strings"

	"golang.org/x/tools/go/ssa"

	"verif/tools/internal/core"
	"verif/tools/internal/ssax"
	"verif/tools/internal/tables"
)

type ByteSet = ssax.ByteSet

func fullSet() ByteSet { return ByteSet{^uint64(0), ^uint64(0), ^uint64(0), ^uint64(0)} }

func isLetter(b int) bool { return (b >= 'a' && b <= 'z') || (b >= 'A' && b <= 'Z') }
func swapCase(b int) int  { return b ^ 0x20 }

// Source is one input byte (or a scalar carrying one) as seen by one function.
type Source struct {
	ID      int
	Fn      *ssa.Function
	Def     ssa.Value // *ssa.Index / *ssa.Lookup / *ssa.Parameter / *ssa.Call / *ssa.Extract
	Key     string
	Kind    string  // index | param | result
	Variant bool    // carries case-variant data (false: clean value with a known mask)
	Mask    ByteSet // every value the source can hold
	VMask   ByteSet // parameters: values arriving as case-variant data
	fields  map[string]bool
	reach   map[int]map[*ssa.BasicBlock]bool // value → blocks reachable while the byte is v
}

// Site is one observation (or escape) of case-variant data.
type Site struct {
	Rule   string
	Fn     *ssa.Function
	Pos    token.Pos
	Expr   string
	Status string // ok | violation | exempt
	Why    string
}

// Exemption is one observation the property statement itself exempts.
type Exemption struct {
	Property string `json:"property"`
	Func     string `json:"function"`
	Rule     string `json:"rule"`
	Contains string `json:"contains"`
	Reason   string `json:"reason"`
	used     bool
}

type Analysis struct {
	pairNeedle *ssa.Parameter // set while the accept sets of a (set, byte) helper are collected
	P          *core.Program
	Root       *ssa.Function
	Scope      map[*ssa.Function]bool
	funcs      []*ssa.Function

	Tabs     *tables.Tables
	Disp     *tables.Dispatch
	byteTabs map[string][]int64 // global name → table contents

	varStr    map[ssa.Value]bool
	varFields map[string]bool
	retVar    map[*ssa.Function]map[int]bool // result index → variant string

	srcOf    map[ssa.Value]*Source // derived scalar → its source
	multi    map[ssa.Value]bool    // scalar depending on variant data in a way we cannot tabulate
	sources  []*Source
	byKey    map[string][]*Source
	paramSrc map[*ssa.Parameter]*Source
	cleansed map[ssa.Value]bool
	varCells map[string]bool // scalar struct fields holding un-cleansed variant bytes

	entryMask map[*ssa.Function]ByteSet // mask of input[pos] at entry of a lexer
	posField  string
	inputFld  string
	stateName string
	writers   map[string]map[*ssa.Function]bool

	Sites      []Site
	Exemptions []*Exemption
	Notes      []string
	ev         *tables.Evaluator
	sbMemo     map[sbKey]bool

	rowMemo map[ssa.Value]*rowConst
	curRow  map[ssa.Value]int // row index value → row, while the sites of one function are decided
}

// Config names the per-detector anchors E4 needs.
type Config struct {
	Root       *ssa.Function
	StateType  string // struct holding the input and cursor
	InputField string
	PosField   string
	Exemptions []*Exemption
}

func Run(p *core.Program, cfg Config, tabs *tables.Tables, disp *tables.Dispatch) *Analysis {
	a := &Analysis{P: p, Root: cfg.Root, Scope: map[*ssa.Function]bool{}, Tabs: tabs, Disp: disp, byteTabs: map[string][]int64{},
		varStr: map[ssa.Value]bool{}, varFields: map[string]bool{}, retVar: map[*ssa.Function]map[int]bool{},
		srcOf: map[ssa.Value]*Source{}, multi: map[ssa.Value]bool{}, byKey: map[string][]*Source{}, paramSrc: map[*ssa.Parameter]*Source{},
		cleansed: map[ssa.Value]bool{}, varCells: map[string]bool{}, entryMask: map[*ssa.Function]ByteSet{},
		posField: cfg.PosField, inputFld: cfg.InputField, stateName: cfg.StateType, writers: map[string]map[*ssa.Function]bool{},
		Exemptions: cfg.Exemptions}
	a.ev = tables.NewEvaluator(p.Pkg.TypesSizes)
	a.sbMemo = map[sbKey]bool{}
	// scope: module functions reachable from the root
	var walk func(fn *ssa.Function)
	walk = func(fn *ssa.Function) {
		if fn == nil || a.Scope[fn] || fn.Blocks == nil || !p.InModule(fn) {
			return
		}
		a.Scope[fn] = true
		if n := p.Graph.Nodes[fn]; n != nil {
			for _, e := range n.Out {
				walk(e.Callee.Func)
			}
		}
		for _, an := range fn.AnonFuncs {
			walk(an)
		}
		for _, b := range fn.Blocks {
			for _, ins := range b.Instrs {
				for _, op := range ins.Operands(nil) {
					if f, ok := (*op).(*ssa.Function); ok {
						walk(f)
					}
					if mc, ok := (*op).(*ssa.MakeClosure); ok {
						if f, ok := mc.Fn.(*ssa.Function); ok {
							walk(f)
						}
					}
				}
			}
		}
	}
	walk(cfg.Root)
	for fn := range a.Scope {
		a.funcs = append(a.funcs, fn)
	}
	sort.Slice(a.funcs, func(i, j int) bool { return a.funcs[i].String() < a.funcs[j].String() })
	a.loadByteTables()
	a.computeEntryMasks()
	for round := 0; round < 6; round++ {
		before := len(a.varStr) + len(a.srcOf) + len(a.varFields) + len(a.varCells) + len(a.cleansed) + len(a.multi)
		a.taintStrings()
		a.classifyScalars()
		a.refineMasks()
		after := len(a.varStr) + len(a.srcOf) + len(a.varFields) + len(a.varCells) + len(a.cleansed) + len(a.multi)
		if after == before && round > 0 {
			break
		}
	}
	a.checkSites()
	return a
}

func (a *Analysis) note(format string, args ...interface{}) {
	a.Notes = append(a.Notes, fmt.Sprintf(format, args...))
}

// ---------------------------------------------------------------- tables

func (a *Analysis) loadByteTables() {
	if a.Tabs != nil && len(a.Tabs.HexMap) > 0 {
		a.byteTabs[a.Tabs.HexMapVar] = a.Tabs.HexMap
	}
	for name, init := range tables.PackageVars(a.P) {
		if init == nil {
			continue
		}
		g := a.P.GlobalVar(name)
		if g == nil {
			continue
		}
		pt, ok := g.Type().Underlying().(*types.Pointer)
		if !ok {
			continue
		}
		var el types.Type
		switch u := pt.Elem().Underlying().(type) {
		case *types.Slice:
			el = u.Elem()
		case *types.Array:
			el = u.Elem()
		default:
			continue
		}
		if b, ok := el.Underlying().(*types.Basic); ok && b.Kind() == types.Uint8 {
			if vals, err := tables.EvalByteTable(a.P, name); err == nil {
				a.byteTabs[name] = vals
			}
		}
	}
}

// ---------------------------------------------------------------- helpers

func isStringT(t types.Type) bool {
	b, ok := t.Underlying().(*types.Basic)
	return ok && b.Info()&types.IsString != 0
}

func isByteSlice(t types.Type) bool {
	s, ok := t.Underlying().(*types.Slice)
	if !ok {
		return false
	}
	b, ok := s.Elem().Underlying().(*types.Basic)
	return ok && b.Kind() == types.Uint8
}

func isIntT(t types.Type) bool {
	b, ok := t.Underlying().(*types.Basic)
	return ok && b.Info()&types.IsInteger != 0
}

func isBoolT(t types.Type) bool {
	b, ok := t.Underlying().(*types.Basic)
	return ok && b.Info()&types.IsBoolean != 0
}

func fieldKey(addr ssa.Value) (string, bool) {
	if fr, ok := ssax.AsFieldAddr(addr); ok {
		return fr.Struct + "." + fr.Field, true
	}
	return "", false
}

func (a *Analysis) callees(fn *ssa.Function, ci ssa.CallInstruction) []*ssa.Function {
	var out []*ssa.Function
	if sc := ci.Common().StaticCallee(); sc != nil {
		return []*ssa.Function{sc}
	}
	if n := a.P.Graph.Nodes[fn]; n != nil {
		for _, e := range n.Out {
			if e.Site == ci {
				out = append(out, e.Callee.Func)
			}
		}
	}
	return out
}

// ---------------------------------------------------------------- string taint

func (a *Analysis) taintStrings() {
	mark := func(v ssa.Value) bool {
		if v == nil || a.varStr[v] {
			return false
		}
		a.varStr[v] = true
		return true
	}
	for _, prm := range a.Root.Params {
		if isStringT(prm.Type()) {
			mark(prm)
		}
	}
	for changed := true; changed; {
		changed = false
		for _, fn := range a.funcs {
			for _, b := range fn.Blocks {
				for _, ins := range b.Instrs {
					switch x := ins.(type) {
					case *ssa.Store:
						if a.varStr[x.Val] {
							if k, ok := fieldKey(x.Addr); ok {
								if !a.varFields[k] {
									a.varFields[k] = true
									changed = true
								}
							} else if al := rootAlloc(x.Addr); al != nil {
								changed = mark(al) || changed
							}
						}
						// variant byte stored into a local array/slice element
						if a.isVariantScalar(x.Val) {
							if ia, ok := x.Addr.(*ssa.IndexAddr); ok {
								if al := rootAlloc(ia.X); al != nil {
									changed = mark(al) || changed
								}
							}
						}
						// whole-struct copies carry variant fields with them (field-based: nothing to do)
					case *ssa.Return:
						for i, res := range x.Results {
							if a.varStr[res] {
								if a.retVar[fn] == nil {
									a.retVar[fn] = map[int]bool{}
								}
								if !a.retVar[fn][i] {
									a.retVar[fn][i] = true
									changed = true
								}
							}
						}
					}
					if ci, ok := ins.(ssa.CallInstruction); ok {
						com := ci.Common()
						for _, callee := range a.callees(fn, ci) {
							if callee.Blocks != nil && a.Scope[callee] {
								for i, arg := range com.Args {
									if i < len(callee.Params) && a.varStr[arg] {
										changed = mark(callee.Params[i]) || changed
									}
								}
								if v, ok := ins.(ssa.Value); ok && a.retVar[callee] != nil {
									if a.retVar[callee][0] && callee.Signature.Results().Len() == 1 {
										changed = mark(v) || changed
									}
								}
							}
						}
					}
					v, ok := ins.(ssa.Value)
					if !ok {
						continue
					}
					switch x := v.(type) {
					case *ssa.Slice:
						if a.varStr[x.X] {
							changed = mark(v) || changed
						}
					case *ssa.Phi:
						for _, e := range x.Edges {
							if a.varStr[e] {
								changed = mark(v) || changed
							}
						}
					case *ssa.BinOp:
						if x.Op == token.ADD && isStringT(v.Type()) && (a.varStr[x.X] || a.varStr[x.Y]) {
							changed = mark(v) || changed
						}
					case *ssa.UnOp:
						if x.Op == token.MUL && (isStringT(v.Type()) || isByteSlice(v.Type())) {
							if k, ok := fieldKey(x.X); ok && a.varFields[k] {
								changed = mark(v) || changed
							}
							if al := rootAlloc(x.X); al != nil && a.varStr[al] {
								changed = mark(v) || changed
							}
						}
					case *ssa.Extract:
						if c, ok := x.Tuple.(*ssa.Call); ok {
							for _, callee := range a.callees(fn, c) {
								if a.retVar[callee] != nil && a.retVar[callee][x.Index] {
									changed = mark(v) || changed
								}
							}
						}
					case *ssa.Convert:
						if (isStringT(v.Type()) || isByteSlice(v.Type())) && (a.varStr[x.X] || a.isVariantScalar(x.X)) {
							changed = mark(v) || changed
						}
					case *ssa.ChangeType:
						if a.varStr[x.X] {
							changed = mark(v) || changed
						}
					case *ssa.Call:
						name := ""
						if f := x.Common().StaticCallee(); f != nil {
							name = f.String()
						}
						args := x.Common().Args
						switch name {
						case "strings.ReplaceAll", "strings.Replace", "strings.TrimLeftFunc", "strings.TrimRightFunc", "strings.TrimFunc", "strings.TrimSpace", "strings.Trim", "strings.TrimLeft", "strings.TrimRight", "strings.TrimPrefix", "strings.TrimSuffix", "strings.Repeat", "strings.Clone":
							if len(args) > 0 && a.varStr[args[0]] {
								changed = mark(v) || changed
							}
						case "(*strings.Builder).String":
							if al := rootAlloc(args[0]); al != nil && a.varStr[al] {
								changed = mark(v) || changed
							}
						case "(*strings.Builder).WriteByte", "(*strings.Builder).WriteString", "(*strings.Builder).WriteRune":
							if al := rootAlloc(args[0]); al != nil && (a.varStr[args[1]] || a.isVariantScalar(args[1])) {
								changed = mark(al) || changed
							}
						}
						if bi, ok := x.Common().Value.(*ssa.Builtin); ok && bi.Name() == "append" {
							if a.varStr[args[0]] || (len(args) > 1 && (a.varStr[args[1]] || a.isVariantScalar(args[1]))) {
								changed = mark(v) || changed
							}
						}
					}
				}
			}
		}
	}
}

func rootAlloc(v ssa.Value) *ssa.Alloc {
	for i := 0; i < 10 && v != nil; i++ {
		switch x := v.(type) {
		case *ssa.Alloc:
			return x
		case *ssa.IndexAddr:
			v = x.X
		case *ssa.FieldAddr:
			v = x.X
		case *ssa.Slice:
			v = x.X
		default:
			return nil
		}
	}
	return nil
}

// isVariantScalar: v is a scalar that still carries a case-variant byte.
func (a *Analysis) isVariantScalar(v ssa.Value) bool {
	if a.cleansed[v] {
		return false
	}
	if a.multi[v] {
		return true
	}
	s := a.srcOf[v]
	if s == nil || !s.Variant {
		return false
	}
	// letter-free image ⇒ effectively clean
	return a.imageHasAsymmetry(v, s, blockOf(v))
}

func blockOf(v ssa.Value) *ssa.BasicBlock {
	if ins, ok := v.(ssa.Instruction); ok {
		return ins.Block()
	}
	return nil
}

// ---------------------------------------------------------------- scalars

func (a *Analysis) newSource(fn *ssa.Function, def ssa.Value, key, kind string, variant bool) *Source {
	s := &Source{ID: len(a.sources), Fn: fn, Def: def, Key: key, Kind: kind, Variant: variant, Mask: fullSet(), fields: map[string]bool{}, reach: map[int]map[*ssa.BasicBlock]bool{}}
	loadedFields(def, s.fields, 0)
	a.sources = append(a.sources, s)
	a.byKey[fn.String()+"|"+key] = append(a.byKey[fn.String()+"|"+key], s)
	return s
}

// mayWrite: may instruction ins write one of the fields the source's key loads?
func (a *Analysis) mayWrite(ins ssa.Instruction, s *Source) bool {
	switch x := ins.(type) {
	case *ssa.Store:
		if k, ok := fieldKey(x.Addr); ok {
			return s.fields[k]
		}
		if _, ok := x.Addr.(*ssa.IndexAddr); ok && s.fields["elem:"+x.Addr.Type().String()] {
			return true
		}
		// store through a pointer to a struct: whole struct / token
		if pt, ok := x.Addr.Type().Underlying().(*types.Pointer); ok {
			if n, ok := pt.Elem().(*types.Named); ok {
				for f := range s.fields {
					if strings.HasPrefix(f, n.Obj().Name()+".") {
						return true
					}
				}
			}
		}
	case ssa.CallInstruction:
		if len(s.fields) == 0 {
			return false
		}
		f := x.Common().StaticCallee()
		if f == nil {
			if _, isBuiltin := x.Common().Value.(*ssa.Builtin); isBuiltin {
				return false
			}
			return true
		}
		if !a.P.InModule(f) {
			return false
		}
		for fk := range s.fields {
			w := a.writers[fk]
			if w == nil {
				w = a.fieldWriters(fk)
				a.writers[fk] = w
			}
			if w[f] {
				return true
			}
		}
	}
	return false
}

func (a *Analysis) fieldWriters(fk string) map[*ssa.Function]bool {
	direct := map[*ssa.Function]bool{}
	parts := strings.SplitN(fk, ".", 2)
	for _, fn := range a.P.SourceFuncs(nil) {
		for _, b := range fn.Blocks {
			for _, ins := range b.Instrs {
				st, ok := ins.(*ssa.Store)
				if !ok {
					continue
				}
				if k, ok := fieldKey(st.Addr); ok {
					if k == fk {
						direct[fn] = true
					}
					continue
				}
				if pt, ok := st.Addr.Type().Underlying().(*types.Pointer); ok && len(parts) == 2 {
					if n, ok := pt.Elem().(*types.Named); ok && n.Obj().Name() == parts[0] {
						direct[fn] = true
					}
				}
			}
		}
	}
	w := map[*ssa.Function]bool{}
	for f := range direct {
		w[f] = true
	}
	for changed := true; changed; {
		changed = false
		for fn, n := range a.P.Graph.Nodes {
			if w[fn] || !a.P.InModule(fn) {
				continue
			}
			for _, e := range n.Out {
				if w[e.Callee.Func] {
					w[fn] = true
					changed = true
					break
				}
			}
		}
	}
	return w
}

// sameByte: does the Index instruction idx read the same byte as source s?
func (a *Analysis) sameByte(s *Source, idx ssa.Value) bool {
	if s.Def == idx {
		return true
	}
	k := sbKey{s, idx}
	if r, ok := a.sbMemo[k]; ok {
		return r
	}
	r := a.sameByte1(s, idx)
	a.sbMemo[k] = r
	return r
}

type sbKey struct {
	s   *Source
	idx ssa.Value
}

func (a *Analysis) sameByte1(s *Source, idx ssa.Value) bool {
	if s.Kind != "index" {
		return false
	}
	ii, ok := idx.(ssa.Instruction)
	if !ok || ii.Parent() != s.Fn || canon(idx) != s.Key {
		return false
	}
	di := s.Def.(ssa.Instruction)
	// the defining read must precede every execution of idx …
	if !ssax.Dominates(di, ii) {
		return false
	}
	if len(s.fields) == 0 {
		return true
	}
	// … and no write may lie on a path def → w → idx that does not re-execute the defining read
	for _, b := range s.Fn.Blocks {
		for _, w := range b.Instrs {
			if !a.mayWrite(w, s) {
				continue
			}
			if reachAvoid(di, w, di) && reachAvoid(w, ii, di) {
				return false
			}
		}
	}
	return true
}

func (a *Analysis) sourceForIndex(fn *ssa.Function, idx ssa.Value) *Source {
	key := canon(idx)
	for _, s := range a.byKey[fn.String()+"|"+key] {
		if a.sameByte(s, idx) {
			return s
		}
	}
	s := a.newSource(fn, idx, key, "index", true)
	// entry mask of a lexer: input[pos] before pos is written
	if m, ok := a.entryMask[fn]; ok && a.isEntryByte(fn, idx) {
		s.Mask = m
	}
	return s
}

// classifyScalars finds every scalar derived from exactly one source.
// effClean: v carries no case-variant information at its own program point
// (never derived, cleansed, or derived with an image that is equal for both
// cases of every feasible letter).
func (a *Analysis) effClean(v ssa.Value) bool {
	if _, ok := v.(*ssa.Const); ok {
		return true
	}
	if a.cleansed[v] {
		return true
	}
	if a.multi[v] {
		return false
	}
	s := a.srcOf[v]
	if s == nil || !s.Variant {
		return true
	}
	return !a.imageHasAsymmetry(v, s, blockOf(v))
}

func (a *Analysis) classifyScalars() {
	// recompute from scratch with the current masks (sources themselves persist)
	a.srcOf = map[ssa.Value]*Source{}
	a.multi = map[ssa.Value]bool{}
	for prm, ps := range a.paramSrc {
		a.srcOf[prm] = ps
	}
	set := func(v ssa.Value, s *Source) bool {
		if s == nil || a.srcOf[v] == s || a.multi[v] {
			return false
		}
		if old := a.srcOf[v]; old != nil && old != s {
			if os.Getenv("VERIF_DBGROWS") != "" {
				fmt.Fprintf(os.Stderr, "set conflict %s: old=%s/%s(%d) new=%s/%s(%d)\n", v.Name(), old.Kind, old.Key, old.ID, s.Kind, s.Key, s.ID)
			}
			a.multi[v] = true
			return true
		}
		a.srcOf[v] = s
		return true
	}
	for changed := true; changed; {
		changed = false
		for _, fn := range a.funcs {
			// dominators first: a byte read that dominates a later read of the same byte
			// must become the source both belong to, whatever the block numbering is
			for _, b := range fn.DomPreorder() {
				for _, ins := range b.Instrs {
					// parameters of module callees
					if ci, ok := ins.(ssa.CallInstruction); ok {
						com := ci.Common()
						for _, callee := range a.callees(fn, ci) {
							if callee.Blocks == nil || !a.Scope[callee] {
								continue
							}
							for i, arg := range com.Args {
								if i >= len(callee.Params) || !isIntT(callee.Params[i].Type()) {
									continue
								}
								prm := callee.Params[i]
								ps := a.paramSrc[prm]
								if ps == nil {
									ps = a.newSource(callee, prm, "$"+prm.Name(), "param", false)
									ps.Mask = ByteSet{}
									a.paramSrc[prm] = ps
									a.srcOf[prm] = ps
									changed = true
								}
								if (a.srcOf[arg] != nil && a.srcOf[arg].Variant || a.multi[arg]) && !a.cleansed[arg] && !ps.Variant {
									ps.Variant = true
									changed = true
								}
							}
						}
						// anonymous predicates handed to an external function together with variant data
						if f := com.StaticCallee(); f != nil && !a.P.InModule(f) {
							variantArg := false
							for _, arg := range com.Args {
								if a.varStr[arg] {
									variantArg = true
								}
							}
							for _, arg := range com.Args {
								var lit *ssa.Function
								switch x := arg.(type) {
								case *ssa.Function:
									lit = x
								case *ssa.MakeClosure:
									lit, _ = x.Fn.(*ssa.Function)
								}
								if lit == nil || !variantArg || !a.Scope[lit] {
									continue
								}
								for _, prm := range lit.Params {
									if isIntT(prm.Type()) && a.paramSrc[prm] == nil {
										ps := a.newSource(lit, prm, "$"+prm.Name(), "param", true)
										ps.VMask = fullSet()
										a.paramSrc[prm] = ps
										a.srcOf[prm] = ps
										changed = true
									}
								}
							}
						}
					}
					v, ok := ins.(ssa.Value)
					if !ok {
						continue
					}
					switch x := v.(type) {
					case *ssa.Index:
						if a.varStr[x.X] && a.srcOf[v] == nil {
							changed = set(v, a.sourceForIndex(fn, v)) || changed
						}
					case *ssa.Lookup:
						if a.varStr[x.X] && isIntT(v.Type()) && a.srcOf[v] == nil {
							changed = set(v, a.sourceForIndex(fn, v)) || changed
						}
					case *ssa.UnOp:
						if x.Op == token.MUL && isIntT(v.Type()) {
							// element of a variant byte slice / array
							if ia, ok := x.X.(*ssa.IndexAddr); ok {
								if al := rootAlloc(ia.X); (al != nil && a.varStr[al]) || a.varStr[ia.X] {
									if a.srcOf[v] == nil {
										changed = set(v, a.sourceForIndex(fn, v)) || changed
									}
								}
							}
							// scalar field holding an un-cleansed variant byte
							if k, ok := fieldKey(x.X); ok && a.varCells[k] && a.srcOf[v] == nil {
								s := a.newSource(fn, v, canon(v), "index", true)
								changed = set(v, s) || changed
							}
						} else if x.Op == token.NOT || x.Op == token.SUB || x.Op == token.XOR {
							if s := a.srcOf[x.X]; s != nil {
								changed = set(v, s) || changed
							} else if a.multi[x.X] && !a.multi[v] {
								a.multi[v] = true
								changed = true
							}
						}
					case *ssa.Convert:
						if isIntT(v.Type()) && isIntT(x.X.Type()) {
							if s := a.srcOf[x.X]; s != nil {
								changed = set(v, s) || changed
							} else if a.multi[x.X] && !a.multi[v] {
								a.multi[v] = true
								changed = true
							}
						}
					case *ssa.ChangeType:
						if s := a.srcOf[x.X]; s != nil {
							changed = set(v, s) || changed
						}
					case *ssa.BinOp:
						if isStringT(x.X.Type()) {
							continue
						}
						sx, sy := a.srcOf[x.X], a.srcOf[x.Y]
						_, cx := x.X.(*ssa.Const)
						_, cy := x.Y.(*ssa.Const)
						if rc := a.rowConstOf(x.X); !cx && rc != nil && !rc.str {
							cx = true
						}
						if rc := a.rowConstOf(x.Y); !cy && rc != nil && !rc.str {
							cy = true
						}
						vx, vy := !a.effClean(x.X), !a.effClean(x.Y)
						switch {
						case (a.multi[x.X] && vx) || (a.multi[x.Y] && vy):
							if !a.multi[v] && !a.cleansed[v] {
								a.multi[v] = true
								changed = true
							}
						case sx != nil && (cy || sy == sx):
							changed = set(v, sx) || changed
						case sy != nil && (cx || sx == sy):
							changed = set(v, sy) || changed
						case vx && vy:
							// two different variant sources: comparisons are O7 sites, arithmetic is untabulatable
							if !isBoolT(v.Type()) && !a.multi[v] {
								a.multi[v] = true
								changed = true
							}
						default:
							// variant ⊕ clean non-constant: a mix site decides; the result is not a
							// function of one byte, and is clean unless that site fails.
						}
					case *ssa.Phi:
						var s *Source
						mixed := false
						for _, e := range x.Edges {
							if a.effClean(e) && a.srcOf[e] != nil && a.srcOf[e] != s && s != nil {
								// a clean edge from another source: the phi is no function of one byte
								continue
							}
							if a.multi[e] && !a.cleansed[e] {
								mixed = true
							}
							if es := a.srcOf[e]; es != nil {
								if s == nil {
									s = es
								} else if s != es && !a.effClean(e) {
									mixed = true
								}
							}
						}
						if !(isIntT(v.Type()) || isBoolT(v.Type())) {
							continue
						}
						if mixed {
							if !a.multi[v] && !a.cleansed[v] {
								a.multi[v] = true
								changed = true
							}
						} else if s != nil {
							// all derived edges must share the source for the phi to be tabulatable
							uniform := true
							for _, e := range x.Edges {
								if es := a.srcOf[e]; es != nil && es != s {
									uniform = false
								}
							}
							if uniform {
								changed = set(v, s) || changed
							}
						}
					case *ssa.Call:
						// an accessor that reads one byte of variant data (`s.peekAt(k)`): the same
						// source as the read it stands for
						if f := x.Common().StaticCallee(); f != nil && a.Scope[f] && isIntT(v.Type()) {
							if ret, ok := ssax.PureExprFunc(f); ok {
								isRead := false
								switch rx := ret.(type) {
								case *ssa.Index:
									isRead = a.varStr[rx.X]
								case *ssa.Lookup:
									isRead = a.varStr[rx.X]
								}
								if isRead {
									if a.srcOf[v] == nil {
										changed = set(v, a.sourceForIndex(fn, v)) || changed
									}
									continue
								}
							}
						}
						// result of a module function that returns a derived scalar
						for _, callee := range a.callees(fn, x) {
							if callee.Blocks == nil || !a.Scope[callee] || callee.Signature.Results().Len() != 1 || !isIntT(v.Type()) && !isBoolT(v.Type()) {
								continue
							}
							if a.returnsVariantScalar(callee, 0) && a.srcOf[v] == nil && !a.cleansed[v] {
								if t, ok := a.callTable(x, callee); ok {
									_ = t
									// tabulatable predicate of one derived argument: stays attached to the argument's source
									for _, arg := range x.Common().Args {
										if s := a.srcOf[arg]; s != nil {
											changed = set(v, s) || changed
										}
									}
								} else {
									s := a.newSource(fn, v, "%"+v.Name(), "result", true)
									changed = set(v, s) || changed
								}
							}
						}
					case *ssa.Extract:
						if c, ok := x.Tuple.(*ssa.Call); ok && (isIntT(v.Type()) || isBoolT(v.Type())) {
							for _, callee := range a.callees(fn, c) {
								if callee.Blocks != nil && a.Scope[callee] && a.returnsVariantScalar(callee, x.Index) && a.srcOf[v] == nil {
									s := a.newSource(fn, v, "%"+v.Name(), "result", true)
									changed = set(v, s) || changed
								}
							}
						}
					}
				}
			}
		}
	}
}

// returnsVariantScalar: does result i of fn carry an un-cleansed variant scalar?
func (a *Analysis) returnsVariantScalar(fn *ssa.Function, i int) bool {
	for _, ret := range ssax.Returns(fn) {
		if i < len(ret.Results) && a.isVariantScalar(ret.Results[i]) {
			return true
		}
	}
	return false
}

// callTable: is call c a pure one-scalar predicate we can evaluate concretely?
func (a *Analysis) callTable(c *ssa.Call, callee *ssa.Function) (bool, bool) {
	if len(callee.Params) != 1 || !isIntT(callee.Params[0].Type()) {
		return false, false
	}
	ev := tables.NewEvaluator(a.P.Pkg.TypesSizes)
	if _, err := ev.Call(callee, int64(0)); err != nil {
		return false, false
	}
	return true, true
}
