package symmetry

import (
	"fmt"
	"go/token"
	"go/types"
	"os"
	"sort"
	"strings"

	"golang.org/x/tools/go/ssa"

	"verif/tools/internal/core"
	"verif/tools/internal/ssax"
	"verif/tools/internal/tables"
)

func (a *Analysis) site(rule string, fn *ssa.Function, pos token.Pos, expr, status, why string) {
	if status == "violation" {
		for _, e := range a.Exemptions {
			if (e.Func == core.QualName(fn) || a.helperOf(fn, e.Func, 0)) && e.Rule == rule && strings.Contains(expr, e.Contains) {
				e.used = true
				status, why = "exempt", e.Reason
				break
			}
		}
	}
	a.Sites = append(a.Sites, Site{Rule: rule, Fn: fn, Pos: pos, Expr: expr, Status: status, Why: why})
}

// helperOf: fn is a private helper of the function called name — every call of
// fn in the module comes from that function or from another private helper of
// it (a block extracted from the exempted function keeps its exemption).
func (a *Analysis) helperOf(fn *ssa.Function, name string, depth int) bool {
	n := a.P.Graph.Nodes[fn]
	if n == nil || depth > 3 || len(n.In) == 0 {
		return false
	}
	for _, e := range n.In {
		c := e.Caller.Func
		if c == fn || !a.P.InModule(c) {
			continue
		}
		if core.QualName(c) != name && !a.helperOf(c, name, depth+1) {
			return false
		}
	}
	return true
}

// needleVariantAt: at this call of fn, is the argument bound to the paired needle
// parameter a case-variant input value?
func (a *Analysis) needleVariantAt(site ssa.CallInstruction, fn *ssa.Function) bool {
	for i, p := range fn.Params {
		if p != a.pairNeedle {
			continue
		}
		args := site.Common().Args
		if i >= len(args) {
			return true
		}
		src := a.srcOf[args[i]]
		return src == nil && a.varStr[args[i]] || src != nil && src.Variant && !a.cleansed[args[i]]
	}
	return true
}

// UnusedExemptions lists exemptions that matched no site (noted, never an alarm).
func (a *Analysis) UnusedExemptions() []*Exemption {
	var out []*Exemption
	for _, e := range a.Exemptions {
		if !e.used {
			out = append(out, e)
		}
	}
	return out
}

func lettersOf(m ByteSet) string {
	var sb strings.Builder
	for v := 0; v < 256; v++ {
		if isLetter(v) && m.Has(byte(v)) {
			sb.WriteByte(byte(v))
		}
	}
	return sb.String()
}

func constNoLetters(v ssa.Value) (string, bool, bool) { // value, isConst, letterFree
	if s, ok := ssax.ConstString(v); ok {
		for i := 0; i < len(s); i++ {
			if isLetter(int(s[i])) {
				return s, true, false
			}
		}
		return s, true, true
	}
	if k, ok := ssax.ConstInt(v); ok {
		return string(rune(k)), true, !(k >= 0 && k < 256 && isLetter(int(k)))
	}
	return "", false, false
}

// constStringsOf: the constant strings a value can be (through phis and parameters' call sites).
func (a *Analysis) constStringsOf(v ssa.Value, seen map[ssa.Value]bool, out *[]string) bool {
	if seen[v] {
		return true
	}
	seen[v] = true
	if s, ok := ssax.ConstString(v); ok {
		*out = append(*out, s)
		return true
	}
	switch x := v.(type) {
	case *ssa.UnOp, *ssa.Field:
		// an entry of a constant table: every value of that column
		if col, ok := tables.ColumnValues(a.P, v); ok && len(col) > 0 {
			for _, cv := range col {
				sv, isS := cv.(string)
				if !isS {
					return false
				}
				*out = append(*out, sv)
			}
			return true
		}
		return false
	case *ssa.Phi:
		for _, e := range x.Edges {
			if !a.constStringsOf(e, seen, out) {
				return false
			}
		}
		return true
	case *ssa.Call:
		// a helper that answers with one of several constants (`switch ch { case 'x': return "0123…" }`)
		f := x.Common().StaticCallee()
		if f == nil || !a.P.InModule(f) || len(f.Blocks) == 0 {
			return false
		}
		for _, ret := range ssax.Returns(f) {
			if len(ret.Results) != 1 || !a.constStringsOf(ret.Results[0], seen, out) {
				return false
			}
		}
		return true
	case *ssa.Parameter:
		fn := x.Parent()
		idx := -1
		for i, p := range fn.Params {
			if p == x {
				idx = i
			}
		}
		n := a.P.Graph.Nodes[fn]
		if n == nil || idx < 0 || len(n.In) == 0 {
			return false
		}
		for _, e := range n.In {
			if !a.Scope[e.Caller.Func] {
				continue
			}
			if a.pairNeedle != nil && a.pairNeedle.Parent() == fn && !a.needleVariantAt(e.Site, fn) {
				continue // at this call the byte looked up is not case-variant input: its set is not judged
			}
			args := e.Site.Common().Args
			if idx >= len(args) || !a.constStringsOf(args[idx], seen, out) {
				return false
			}
		}
		return true
	}
	return false
}

func sigmaClosed(s string) bool {
	var set [256]bool
	for i := 0; i < len(s); i++ {
		set[s[i]] = true
	}
	for v := 0; v < 256; v++ {
		if set[v] && isLetter(v) && !set[swapCase(v)] {
			return false
		}
	}
	return true
}

// tableOf resolves the contents of a byte/int table value (global, or parameter fed by globals).
func (a *Analysis) tableOf(v ssa.Value, seen map[ssa.Value]bool) ([][]int64, []string, bool) {
	if seen[v] {
		return nil, nil, true
	}
	seen[v] = true
	// a table that is an array is addressed directly (&table[i]); a slice is loaded first
	if g, isG := v.(*ssa.Global); isG {
		v = &ssa.UnOp{X: g}
	}
	switch x := v.(type) {
	case *ssa.UnOp:
		if g, ok := x.X.(*ssa.Global); ok {
			if t, ok := a.byteTabs[g.Name()]; ok {
				return [][]int64{t}, []string{g.Name()}, true
			}
			if a.Disp != nil && g.Name() == a.Disp.Var {
				// dispatch table: encode targets as small integers
				ids := map[*ssa.Function]int64{}
				var t []int64
				for _, f := range a.Disp.Table {
					if _, ok := ids[f]; !ok {
						ids[f] = int64(len(ids))
					}
					t = append(t, ids[f])
				}
				return [][]int64{t}, []string{g.Name()}, true
			}
		}
	case *ssa.Phi:
		var ts [][]int64
		var ns []string
		for _, e := range x.Edges {
			t, n, ok := a.tableOf(e, seen)
			if !ok {
				return nil, nil, false
			}
			ts = append(ts, t...)
			ns = append(ns, n...)
		}
		return ts, ns, true
	case *ssa.Parameter:
		fn := x.Parent()
		idx := -1
		for i, p := range fn.Params {
			if p == x {
				idx = i
			}
		}
		n := a.P.Graph.Nodes[fn]
		if n == nil || idx < 0 {
			return nil, nil, false
		}
		var ts [][]int64
		var ns []string
		for _, e := range n.In {
			if !a.Scope[e.Caller.Func] {
				continue
			}
			args := e.Site.Common().Args
			if idx >= len(args) {
				return nil, nil, false
			}
			t, nn, ok := a.tableOf(args[idx], seen)
			if !ok {
				return nil, nil, false
			}
			ts = append(ts, t...)
			ns = append(ns, nn...)
		}
		return ts, ns, len(ts) > 0
	}
	return nil, nil, false
}

func isPureInstr(ins ssa.Instruction) bool {
	switch x := ins.(type) {
	case *ssa.Store, *ssa.MapUpdate, *ssa.Go, *ssa.Defer, *ssa.Send, *ssa.Return, *ssa.Panic, *ssa.RunDefers:
		return false
	case *ssa.Call:
		if _, ok := x.Common().Value.(*ssa.Builtin); ok {
			return x.Common().Value.(*ssa.Builtin).Name() == "len" || x.Common().Value.(*ssa.Builtin).Name() == "cap"
		}
		if f := x.Common().StaticCallee(); f != nil {
			switch f.String() {
			case "strings.IndexByte", "strings.Index", "strings.Contains", "strings.ToUpper", "strings.ToLower", "strings.ReplaceAll":
				return true
			}
			// tiny module predicates over scalars only
			if f.Blocks != nil && len(f.Blocks) < 40 {
				for _, p := range f.Params {
					if !isIntT(p.Type()) && !isBoolT(p.Type()) {
						return false
					}
				}
				for _, b := range f.Blocks {
					for _, i2 := range b.Instrs {
						switch i2.(type) {
						case *ssa.Store, *ssa.MapUpdate, *ssa.Call, *ssa.Go, *ssa.Defer:
							return false
						}
					}
				}
				return true
			}
		}
		return false
	}
	return true
}

// regionExit simulates from the branch at block b0 with the byte = v through
// blocks that only compute, and returns a signature of where it leaves.
func (a *Analysis) regionExit(s *Source, b0 *ssa.BasicBlock, v int64) string {
	st := &evalState{a: a, s: s, v: v, memo: map[ssa.Value]*int64{}, busy: map[ssa.Value]bool{}}
	b := b0
	var from *ssa.BasicBlock
	for steps := 0; steps < 200; steps++ {
		if b != b0 {
			pure := true
			for _, ins := range b.Instrs[:len(b.Instrs)-1] {
				if _, isPhi := ins.(*ssa.Phi); isPhi {
					continue
				}
				if !isPureInstr(ins) {
					pure = false
				}
			}
			_, isIf := b.Instrs[len(b.Instrs)-1].(*ssa.If)
			_, isJump := b.Instrs[len(b.Instrs)-1].(*ssa.Jump)
			if !pure || (!isIf && !isJump) {
				return a.exitSig(st, from, b)
			}
		}
		var next *ssa.BasicBlock
		switch t := b.Instrs[len(b.Instrs)-1].(type) {
		case *ssa.Jump:
			next = b.Succs[0]
		case *ssa.If:
			c, ok := st.eval(t.Cond)
			if !ok {
				return a.exitSig(st, from, b) + "?cond"
			}
			if c != 0 {
				next = b.Succs[0]
			} else {
				next = b.Succs[1]
			}
		}
		if next == nil {
			return a.exitSig(st, from, b)
		}
		if start, _ := s.startBlock(); next == start && s.Kind == "index" {
			return fmt.Sprintf("reread@%d", next.Index)
		}
		from, b = b, next
	}
	return "steps"
}

func (a *Analysis) exitSig(st *evalState, from, b *ssa.BasicBlock) string {
	sig := fmt.Sprintf("B%d", b.Index)
	if from == nil {
		return sig
	}
	for _, ins := range b.Instrs {
		ph, ok := ins.(*ssa.Phi)
		if !ok {
			break
		}
		for i, p := range b.Preds {
			if p != from {
				continue
			}
			e := ph.Edges[i]
			if r, ok := st.eval(e); ok {
				sig += fmt.Sprintf(",%s=%d", ph.Name(), r)
			} else if a.srcOf[e] == st.s || a.multi[e] {
				sig += fmt.Sprintf(",%s=?%d", ph.Name(), st.v) // depends on the byte in an unknown way
			} else {
				sig += fmt.Sprintf(",%s=%s", ph.Name(), e.Name())
			}
		}
	}
	return sig
}

// checkSites enumerates all observation and escape sites and decides them.
func (a *Analysis) checkSites() {
	for _, fn := range a.funcs {
		rows := a.rowIndices(fn)
		if len(rows) == 0 {
			a.checkSitesOf(fn)
			continue
		}
		// one pass per row assignment; a site is a violation if it is one in any row
		var idxs []ssa.Value
		total := 1
		for iv, n := range rows {
			idxs = append(idxs, iv)
			total *= n
		}
		sort.Slice(idxs, func(i, j int) bool { return idxs[i].Name() < idxs[j].Name() })
		if total > 64 {
			a.site("O1", fn, fn.Pos(), "row constants of "+fn.Name(), "violation", "too many combinations of table rows to decide the sites of this function (undecided ⇒ reported)")
			continue
		}
		base := len(a.Sites)
		var acc []Site
		at := map[string]int{}
		rank := map[string]int{"ok": 0, "exempt": 1, "violation": 2}
		for combo := 0; combo < total; combo++ {
			a.curRow = map[ssa.Value]int{}
			c := combo
			for _, iv := range idxs {
				a.curRow[iv] = c % rows[iv]
				c /= rows[iv]
			}
			for _, s := range a.sources {
				if s.Fn == fn {
					s.reach = map[int]map[*ssa.BasicBlock]bool{}
				}
			}
			a.Sites = a.Sites[:base]
			a.checkSitesOf(fn)
			// merge this row's sites into the function's: violation > exempt > ok
			for _, st := range a.Sites[base:] {
				key := st.Rule + "|" + fmt.Sprint(st.Pos) + "|" + st.Expr
				if i, had := at[key]; had {
					if rank[st.Status] > rank[acc[i].Status] {
						acc[i] = st
					}
					continue
				}
				at[key] = len(acc)
				acc = append(acc, st)
			}
		}
		a.Sites = append(a.Sites[:base], acc...)
		a.curRow = nil
		for _, s := range a.sources {
			if s.Fn == fn {
				s.reach = map[int]map[*ssa.BasicBlock]bool{}
			}
		}
	}
}

// checkSitesOf enumerates the observation and escape sites of one function and decides them.
func (a *Analysis) checkSitesOf(fn *ssa.Function) {
	{
		for _, b := range fn.Blocks {
			for _, ins := range b.Instrs {
				switch x := ins.(type) {
				case *ssa.If:
					a.checkBranch(fn, x)
				case *ssa.Store:
					a.checkStore(fn, x)
				case *ssa.Return:
					if fn == a.Root {
						for i, res := range x.Results {
							if a.varStr[res] || a.isVariantScalar(res) {
								a.site("O6", fn, x.Pos(), fmt.Sprintf("API result %d", i), "violation", "a case-variant value is returned by the API: changing letter case changes the result")
							}
						}
					}
				case *ssa.MapUpdate:
					if a.varStr[x.Key] {
						a.site("O5", fn, x.Pos(), "map update with case-variant key", "violation", "map keyed by un-normalised input")
					}
				}
				v, ok := ins.(ssa.Value)
				if !ok {
					continue
				}
				switch x := v.(type) {
				case *ssa.BinOp:
					a.checkBinOp(fn, x)
				case *ssa.Index:
					a.checkTableIndex(fn, x, x.X, x.Index)
				case *ssa.IndexAddr:
					a.checkTableIndex(fn, x, x.X, x.Index)
				case *ssa.Lookup:
					if _, isMap := x.X.Type().Underlying().(*types.Map); isMap {
						if a.varStr[x.Index] {
							a.site("O5", fn, x.Pos(), "map lookup "+canon(x.X)+"["+x.Index.Name()+"]", "violation", "a map is indexed with a string that still carries the input's letter case (no ToUpper/ToLower): only one case variant can hit")
						} else if isStringT(x.Index.Type()) {
							a.site("O5", fn, x.Pos(), "map lookup "+canon(x.X)+"[normalised key]", "ok", "key is case-folded or not derived from input")
						} else {
							a.checkTableIndex(fn, x, x.X, x.Index)
						}
					} else {
						a.checkTableIndex(fn, x, x.X, x.Index)
					}
				case *ssa.Call:
					a.checkCall(fn, x)
				}
			}
		}
	}
}

func (a *Analysis) leafSources(v ssa.Value, seen map[ssa.Value]bool, out map[*Source]bool, unknown *bool, depth int) {
	if seen[v] || depth > 30 {
		return
	}
	seen[v] = true
	if _, ok := v.(*ssa.Const); ok {
		return
	}
	if a.cleansed[v] {
		return
	}
	if s := a.srcOf[v]; s != nil {
		if s.Def == v || a.sameByte(s, v) {
			out[s] = true
			return
		}
	}
	switch x := v.(type) {
	case *ssa.BinOp:
		if isStringT(x.X.Type()) {
			*unknown = true
			return
		}
		a.leafSources(x.X, seen, out, unknown, depth+1)
		a.leafSources(x.Y, seen, out, unknown, depth+1)
	case *ssa.UnOp:
		if x.Op == token.MUL {
			*unknown = true
			return
		}
		a.leafSources(x.X, seen, out, unknown, depth+1)
	case *ssa.Convert:
		a.leafSources(x.X, seen, out, unknown, depth+1)
	case *ssa.ChangeType:
		a.leafSources(x.X, seen, out, unknown, depth+1)
	case *ssa.Phi:
		for _, e := range x.Edges {
			a.leafSources(e, seen, out, unknown, depth+1)
		}
	case *ssa.Call:
		if a.srcOf[v] != nil {
			for _, arg := range x.Common().Args {
				a.leafSources(arg, seen, out, unknown, depth+1)
			}
			return
		}
		*unknown = true
	default:
		*unknown = true
	}
}

func (a *Analysis) condVariant(c ssa.Value) bool {
	if a.multi[c] {
		return true
	}
	s := a.srcOf[c]
	return s != nil && s.Variant
}

func (a *Analysis) checkBranch(fn *ssa.Function, iff *ssa.If) {
	c := iff.Cond
	if a.cleansed[c] {
		return
	}
	if a.multi[c] {
		if os.Getenv("VERIF_DBGROWS") != "" {
			if bo, ok := c.(*ssa.BinOp); ok {
				fmt.Fprintf(os.Stderr, "multi cond %s in %s: X=%s multi=%v src=%v ; Y=%s multi=%v src=%v row=%v\n", c.Name(), fn.Name(), bo.X.Name(), a.multi[bo.X], a.srcOf[bo.X] != nil, bo.Y.Name(), a.multi[bo.Y], a.srcOf[bo.Y] != nil, a.rowConstOf(bo.Y) != nil)
			}
		}
		a.site("O1", fn, iff.Pos(), "branch on "+describeCond(c), "violation", "the condition depends on case-variant data in a way that cannot be tabulated as a function of one input byte (undecided ⇒ reported)")
		return
	}
	s := a.srcOf[c]
	if s == nil || !s.Variant {
		return
	}
	b0 := iff.Block()
	f := a.feasible(s, b0)
	letters := lettersOf(f)
	expr := "branch on " + describeCond(c) + " [byte " + s.Key + "]"
	if letters == "" {
		a.site("O1", fn, iff.Pos(), expr, "ok", "no letter can reach this test (mask "+maskStr(f)+")")
		return
	}
	// cheap: the condition alone is symmetric
	selfSym := true
	for v := 0; v < 256 && selfSym; v++ {
		if !isLetter(v) || !f.Has(byte(v)) {
			continue
		}
		r1, ok1 := a.eval(c, s, int64(v))
		r2, ok2 := a.eval(c, s, int64(swapCase(v)))
		if !ok1 || !ok2 || r1 != r2 || !s.vmask().Has(byte(swapCase(v))) {
			selfSym = false
		}
	}
	if selfSym {
		a.site("O1", fn, iff.Pos(), expr, "ok", "outcome equal for both cases of every letter")
		return
	}
	// region: follow the tests of this byte until computation leaves them
	var bad []string
	defBlock, _ := s.startBlock()
	for v := 0; v < 256; v++ {
		if !isLetter(v) || !f.Has(byte(v)) {
			continue
		}
		w := swapCase(v)
		if !s.vmask().Has(byte(w)) {
			bad = append(bad, fmt.Sprintf("%q reaches this test but %q cannot", byte(v), byte(w)))
			continue
		}
		from := b0
		if !f.Has(byte(w)) {
			// the partner left the chain at an earlier test of the same byte:
			// compare the whole chain from where the byte is read
			from = defBlock
		}
		e1 := a.regionExit(s, from, int64(v))
		e2 := a.regionExit(s, from, int64(w))
		if e1 != e2 || strings.Contains(e1, "=?") {
			bad = append(bad, fmt.Sprintf("%q→%s but %q→%s", byte(v), e1, byte(w), e2))
		}
	}
	if len(bad) == 0 {
		a.site("O1", fn, iff.Pos(), expr, "ok", "asymmetric alone, but the chain of tests of this byte leaves through the same exit for both cases of every letter")
		return
	}
	if len(bad) > 4 {
		bad = append(bad[:4], "…")
	}
	a.site("O1", fn, iff.Pos(), expr, "violation", "the two cases of a letter take different paths: "+strings.Join(bad, "; "))
}

func describeCond(c ssa.Value) string {
	if bo, ok := c.(*ssa.BinOp); ok {
		return fmt.Sprintf("%s %s %s", operandStr(bo.X), bo.Op, operandStr(bo.Y))
	}
	if cl, ok := c.(*ssa.Call); ok {
		if f := cl.Common().StaticCallee(); f != nil {
			return f.Name() + "(…)"
		}
	}
	return c.Name()
}

func operandStr(v ssa.Value) string {
	if k, ok := ssax.ConstInt(v); ok {
		if k >= 32 && k < 127 {
			return fmt.Sprintf("%q", byte(k))
		}
		return fmt.Sprint(k)
	}
	if s, ok := ssax.ConstString(v); ok {
		return fmt.Sprintf("%q", s)
	}
	c := canon(v)
	if len(c) > 60 {
		c = c[:57] + "..."
	}
	return c
}

func maskStr(m ByteSet) string {
	n := m.Count()
	if n > 12 {
		return fmt.Sprintf("%d values", n)
	}
	var sb strings.Builder
	for v := 0; v < 256; v++ {
		if m.Has(byte(v)) {
			fmt.Fprintf(&sb, "%q", byte(v))
		}
	}
	return sb.String()
}

// checkBinOp: O3 (string comparison), O7 (two bytes), mix sites.
func (a *Analysis) checkBinOp(fn *ssa.Function, x *ssa.BinOp) {
	if isStringT(x.X.Type()) {
		switch x.Op {
		case token.EQL, token.NEQ, token.LSS, token.LEQ, token.GTR, token.GEQ:
		default:
			return
		}
		vx, vy := a.varStrRow(x.X), a.varStrRow(x.Y)
		if !vx && !vy {
			return
		}
		other := x.Y
		if !vx {
			other = x.X
		}
		expr := fmt.Sprintf("string compare %s %s %s", operandStr(x.X), x.Op, operandStr(x.Y))
		// compared with an entry of a constant table: the string of the current row
		if rs, isRow := a.rowString(other); isRow && !(vx && vy) {
			free := true
			for i := 0; i < len(rs); i++ {
				if isLetter(int(rs[i])) {
					free = false
				}
			}
			expr = fmt.Sprintf("string compare %s %s %q (row of a constant table)", operandStr(map[bool]ssa.Value{true: x.X, false: x.Y}[vx]), x.Op, rs)
			if free {
				a.site("O3", fn, x.Pos(), expr, "ok", "table entry without letters")
			} else {
				a.site("O3", fn, x.Pos(), expr, "violation", fmt.Sprintf("un-normalised input is compared with the table entry %q, which contains letters: only one case variant matches", rs))
			}
			return
		}
		if vx && vy {
			a.site("O3", fn, x.Pos(), expr, "violation", "two case-variant strings are compared with each other")
			return
		}
		if cs, isC, free := constNoLetters(other); isC {
			if free {
				a.site("O3", fn, x.Pos(), expr, "ok", "constant without letters")
			} else {
				a.site("O3", fn, x.Pos(), expr, "violation", fmt.Sprintf("un-normalised input is compared with the constant %q, which contains letters: only one case variant matches", cs))
			}
			return
		}
		a.site("O3", fn, x.Pos(), expr, "violation", "un-normalised input is compared with a non-constant clean string (undecided ⇒ reported)")
		return
	}
	sx, sy := a.srcOf[x.X], a.srcOf[x.Y]
	if a.cleansed[x.X] {
		sx = nil
	}
	if a.cleansed[x.Y] {
		sy = nil
	}
	isCmp := false
	switch x.Op {
	case token.EQL, token.NEQ, token.LSS, token.LEQ, token.GTR, token.GEQ:
		isCmp = true
	}
	_, cx := x.X.(*ssa.Const)
	_, cy := x.Y.(*ssa.Const)
	// (an entry of a constant table is a constant within one row assignment)
	if rc := a.rowConstOf(x.X); !cx && rc != nil && !rc.str {
		cx = true
	}
	if rc := a.rowConstOf(x.Y); !cy && rc != nil && !rc.str {
		cy = true
	}
	// two different sources
	if sx != nil && sy != nil && sx != sy && (sx.Variant || sy.Variant) {
		fx, fy := a.imageLetters(x.X, sx, x.Block()), a.imageLetters(x.Y, sy, x.Block())
		expr := fmt.Sprintf("%s %s %s", operandStr(x.X), x.Op, operandStr(x.Y))
		if isCmp && x.Op != token.EQL && x.Op != token.NEQ {
			a.site("O7", fn, x.Pos(), expr, "violation", "ordering comparison between two input-derived bytes")
			return
		}
		if fx == "" || fy == "" {
			a.site("O7", fn, x.Pos(), expr, "ok", "one side can never be a letter")
			a.cleansed[x] = true
		} else {
			verb := "compared"
			if !isCmp {
				verb = "combined"
			}
			a.site("O7", fn, x.Pos(), expr, "violation", fmt.Sprintf("two input-derived values are %s and both can differ between the cases of a letter (%s / %s): re-casing one input byte changes the outcome", verb, short(fx), short(fy)))
		}
		return
	}
	// derived ⊕ clean non-constant value
	var s *Source
	var dv, ov ssa.Value
	switch {
	case sx != nil && sx.Variant && sy == nil && !cy:
		s, dv, ov = sx, x.X, x.Y
	case sy != nil && sy.Variant && sx == nil && !cx:
		s, dv, ov = sy, x.Y, x.X
	default:
		return
	}
	if a.multi[ov] {
		return
	}
	expr := fmt.Sprintf("%s %s %s", operandStr(x.X), x.Op, operandStr(x.Y))
	if a.imageHasAsymmetry(dv, s, x.Block()) {
		a.site("O6", fn, x.Pos(), expr, "violation", fmt.Sprintf("an input byte that can be a letter (%s) is combined with other data without case folding", short(lettersOf(a.feasible(s, x.Block())))))
		a.multi[x] = true
	} else {
		a.site("O6", fn, x.Pos(), expr, "ok", "the byte-derived operand is the same for both cases of every feasible letter")
		a.cleansed[x] = true
	}
}

func short(s string) string {
	if len(s) > 16 {
		return s[:13] + "..."
	}
	return s
}

// imageLetters: letters the value can take at block X.
func (a *Analysis) imageLetters(v ssa.Value, s *Source, X *ssa.BasicBlock) string {
	im, ok := a.imageAll(v, s, X)
	if !ok {
		return "any"
	}
	return lettersOf(im)
}

// checkTableIndex: O2.
func (a *Analysis) checkTableIndex(fn *ssa.Function, at ssa.Value, tab, idx ssa.Value) {
	s := a.srcOf[idx]
	if a.multi[idx] {
		a.site("O2", fn, at.Pos(), "index "+canon(tab)+"["+idx.Name()+"]", "violation", "table indexed by a value that depends on case-variant data in an untabulatable way")
		return
	}
	if s == nil || !s.Variant || a.cleansed[idx] {
		return
	}
	if a.varStr[tab] {
		return // indexing the input itself is a byte read, not a table
	}
	if isStringT(tab.Type()) {
		if cs, ok := ssax.ConstString(tab); ok {
			_ = cs
		}
	}
	expr := "table " + canon(tab) + "[" + operandStr(idx) + "]"
	ts, names, ok := a.tableOf(tab, map[ssa.Value]bool{})
	if !ok || len(ts) == 0 {
		if !a.imageHasAsymmetry(idx, s, blockOf(at)) {
			a.site("O2", fn, at.Pos(), expr, "ok", "index is the same for both cases of every feasible letter")
			return
		}
		a.site("O2", fn, at.Pos(), expr, "violation", "a table whose contents cannot be evaluated is indexed by an input byte (undecided ⇒ reported)")
		return
	}
	f := a.feasible(s, blockOf(at))
	for ti, t := range ts {
		for v := 0; v < 256; v++ {
			if !isLetter(v) || !f.Has(byte(v)) {
				continue
			}
			i1, ok1 := a.eval(idx, s, int64(v))
			i2, ok2 := a.eval(idx, s, int64(swapCase(v)))
			if !ok1 || !ok2 || i1 < 0 || i2 < 0 || int(i1) >= len(t) || int(i2) >= len(t) {
				a.site("O2", fn, at.Pos(), expr, "violation", "index not tabulatable / out of table range")
				return
			}
			if t[i1] != t[i2] {
				a.site("O2", fn, at.Pos(), expr, "violation", fmt.Sprintf("table %s treats %q and %q differently (%d vs %d)", names[ti], byte(v), byte(swapCase(v)), t[i1], t[i2]))
				return
			}
		}
	}
	a.site("O2", fn, at.Pos(), expr, "ok", fmt.Sprintf("table(s) %v agree on both cases of every feasible letter", names))
	// the loaded element is clean
	a.cleansed[at] = true
	if ia, ok := at.(*ssa.IndexAddr); ok {
		for _, ref := range *ia.Referrers() {
			if u, ok := ref.(*ssa.UnOp); ok && u.Op == token.MUL {
				a.cleansed[u] = true
			}
		}
	}
}

// checkStore: O6 — a variant scalar stored into memory.
func (a *Analysis) checkStore(fn *ssa.Function, st *ssa.Store) {
	v := st.Val
	if !isIntT(v.Type()) && !isBoolT(v.Type()) {
		return
	}
	if a.cleansed[v] {
		return
	}
	s := a.srcOf[v]
	if a.multi[v] {
		a.site("O6", fn, st.Pos(), "store "+canon(st.Addr)+" = "+v.Name(), "violation", "a value depending on case-variant data in an untabulatable way is stored")
		return
	}
	if s == nil || !s.Variant {
		return
	}
	// storing into a local byte buffer keeps the taint on the buffer (handled by string taint)
	if ia, ok := st.Addr.(*ssa.IndexAddr); ok && rootAlloc(ia.X) != nil {
		return
	}
	expr := "store " + canon(st.Addr) + " = " + operandStr(v)
	if a.imageHasAsymmetry(v, s, st.Block()) {
		if k, ok := fieldKey(st.Addr); ok {
			a.varCells[k] = true
		}
		a.site("O6", fn, st.Pos(), expr, "violation", fmt.Sprintf("an input byte that can be a letter (%s) is stored without case folding", short(lettersOf(a.feasible(s, st.Block())))))
	} else {
		a.site("O6", fn, st.Pos(), expr, "ok", "stored value is the same for both cases of every feasible letter (mask "+maskStr(a.feasible(s, st.Block()))+")")
	}
}

// checkCall: O4 (search/compare calls) and escapes into external callees.
func (a *Analysis) checkCall(fn *ssa.Function, c *ssa.Call) {
	com := c.Common()
	if bi, ok := com.Value.(*ssa.Builtin); ok {
		_ = bi
		return
	}
	f := com.StaticCallee()
	if f == nil {
		return // dynamic dispatch: arguments become parameter sources of the targets
	}
	if a.P.InModule(f) {
		return
	}
	name := f.String()
	args := com.Args
	anyVariant := false
	for _, arg := range args {
		if a.varStr[arg] || a.isVariantScalar(arg) {
			anyVariant = true
		}
	}
	if !anyVariant {
		// clean haystack searched for a variant byte handled below; otherwise nothing
		if !(len(args) == 2 && a.srcOf[args[1]] != nil) {
			return
		}
	}
	needleOK := func(n ssa.Value) (bool, string) {
		if _, isC, free := constNoLetters(n); isC {
			if free {
				return true, "constant needle without letters"
			}
			return false, "the needle is a constant with letters and the haystack is not case-folded"
		}
		if isStringT(n.Type()) {
			if a.varStr[n] {
				return false, "the needle itself is un-normalised input"
			}
			return false, "non-constant needle (undecided)"
		}
		s := a.srcOf[n]
		if s == nil {
			// an entry of a constant table: every value of that column must be letter-free
			if col, ok := tables.ColumnValues(a.P, n); ok && len(col) > 0 {
				for _, cv := range col {
					switch x := cv.(type) {
					case int64:
						if x >= 0 && x < 256 && isLetter(int(x)) {
							return false, fmt.Sprintf("the needle is an entry of a constant table that holds the letter %q and the haystack is not case-folded", byte(x))
						}
					default:
						return false, "needle from a constant table with non-byte entries (undecided)"
					}
				}
				return true, "entry of a constant table without letters"
			}
			return false, "needle byte of unknown origin (undecided)"
		}
		l := a.imageLetters(n, s, c.Block())
		if l == "" {
			return true, "needle byte can never be a letter (mask " + maskStr(a.feasible(s, c.Block())) + ")"
		}
		return false, "the needle byte can be a letter (" + short(l) + ")"
	}
	switch name {
	case "strings.Index", "strings.Contains", "strings.IndexByte", "strings.LastIndex", "strings.LastIndexByte", "strings.Count", "strings.HasPrefix", "strings.HasSuffix", "strings.IndexRune", "strings.ContainsRune",
		"bytes.Index", "bytes.Contains", "bytes.IndexByte", "bytes.HasPrefix":
		expr := fmt.Sprintf("%s(%s, %s)", f.Name(), operandStr(args[0]), operandStr(args[1]))
		if a.varStr[args[0]] {
			ok, why := needleOK(args[1])
			if ok {
				a.site("O4", fn, c.Pos(), expr, "ok", why)
			} else {
				a.site("O4", fn, c.Pos(), expr, "violation", "search in un-normalised input: "+why)
			}
			return
		}
		// clean haystack, variant needle byte: haystack must be a σ-closed constant set
		if s := a.srcOf[args[1]]; s != nil && s.Variant && !a.cleansed[args[1]] {
			if a.imageLetters(args[1], s, c.Block()) == "" {
				a.site("O4", fn, c.Pos(), expr, "ok", "needle byte can never be a letter")
				a.cleansed[c] = true
				return
			}
			var consts []string
			// a set and a byte that are both parameters of this helper are paired per call site
			a.pairNeedle = nil
			if np, ok := args[1].(*ssa.Parameter); ok {
				if _, ok := args[0].(*ssa.Parameter); ok {
					a.pairNeedle = np
				}
			}
			okSets := a.constStringsOf(args[0], map[ssa.Value]bool{}, &consts)
			a.pairNeedle = nil
			if okSets && len(consts) > 0 {
				for _, cs := range consts {
					if !sigmaClosed(cs) {
						a.site("O4", fn, c.Pos(), expr, "violation", fmt.Sprintf("an input byte is looked up in the accept set %q, which contains a letter without its other case", cs))
						return
					}
				}
				a.site("O4", fn, c.Pos(), expr, "ok", fmt.Sprintf("accept set(s) %q closed under case swap", consts))
				a.cleansed[c] = true
				return
			}
			a.site("O4", fn, c.Pos(), expr, "violation", "an input byte is looked up in a set that is not a known constant (undecided ⇒ reported)")
		}
		return
	case "strings.ToUpper", "strings.ToLower", "strings.EqualFold", "strings.TrimLeftFunc", "strings.TrimRightFunc", "strings.TrimFunc", "strings.TrimSpace":
		return // normalisers / predicates analysed through their function literal
	case "strings.ReplaceAll", "strings.Replace":
		expr := fmt.Sprintf("%s(%s, %s, %s)", f.Name(), operandStr(args[0]), operandStr(args[1]), operandStr(args[2]))
		_, c1, f1 := constNoLetters(args[1])
		if c1 && f1 {
			a.site("O4", fn, c.Pos(), expr, "ok", "pattern without letters")
		} else {
			a.site("O4", fn, c.Pos(), expr, "violation", "replacement pattern with letters (or non-constant) applied to un-normalised input")
		}
		return
	case "(*strings.Builder).WriteByte", "(*strings.Builder).WriteString", "(*strings.Builder).WriteRune", "(*strings.Builder).Grow", "(*strings.Builder).String", "(*strings.Builder).Len":
		return // handled as string taint on the builder
	}
	a.site("O6", fn, c.Pos(), "call "+name+" with case-variant argument", "violation", "un-normalised input reaches an external function this analysis has no model for (undecided ⇒ reported)")
}
