package symmetry

import (
	"fmt"
	"os"
	"golang.org/x/tools/go/ssa"

	"verif/tools/internal/tables"
)

// Row constants.  A scalar read from a constant table through a variable row index
// (`prefix.upper` inside `for _, prefix := range prefixes`) is not a constant, but it
// is one for each row, and all reads through the same index value belong to the same
// row.  E4 treats such reads like constants when it classifies scalars, and decides
// the sites of a function once per row assignment (a violation in any row counts).

type rowConst struct {
	idx  ssa.Value // the row index value
	vals []int64   // value per row
}

func (a *Analysis) rowConstOf(v ssa.Value) *rowConst {
	if a.rowMemo == nil {
		a.rowMemo = map[ssa.Value]*rowConst{}
	}
	if rc, ok := a.rowMemo[v]; ok {
		return rc
	}
	a.rowMemo[v] = nil
	if !isIntT(v.Type()) {
		return nil
	}
	switch v.(type) {
	case *ssa.UnOp, *ssa.Field:
	default:
		return nil
	}
	idx, col, ok := tables.RowColumn(a.P, v)
	if os.Getenv("VERIF_DBGROWS") != "" {
		fmt.Fprintf(os.Stderr, "rowConstOf %s in %s: ok=%v col=%v\n", v.Name(), v.Parent().Name(), ok, col)
	}
	if !ok || len(col) == 0 || len(col) > 16 {
		return nil
	}
	rc := &rowConst{idx: idx}
	for _, c := range col {
		k, isInt := c.(int64)
		if !isInt {
			return nil
		}
		rc.vals = append(rc.vals, k)
	}
	a.rowMemo[v] = rc
	return rc
}

// rowIndices: the row index values used by row constants in fn, with the number of rows.
func (a *Analysis) rowIndices(fn *ssa.Function) map[ssa.Value]int {
	out := map[ssa.Value]int{}
	for _, b := range fn.Blocks {
		for _, ins := range b.Instrs {
			v, ok := ins.(ssa.Value)
			if !ok {
				continue
			}
			if rc := a.rowConstOf(v); rc != nil {
				if n, had := out[rc.idx]; !had || len(rc.vals) < n {
					out[rc.idx] = len(rc.vals)
				}
			}
		}
	}
	return out
}
