package symmetry

import (
	"fmt"
	"golang.org/x/tools/go/ssa"
	"os"

	"verif/tools/internal/tables"
)

// Row constants.  A scalar read from a constant table through a variable row index
// (`prefix.upper` inside `for _, prefix := range prefixes`) is not a constant, but it
// is one for each row, and all reads through the same index value belong to the same
// row.  E4 treats such reads like constants when it classifies scalars, and decides
// the sites of a function once per row assignment (a violation in any row counts).

type rowConst struct {
	idx  ssa.Value // the row index value
	vals []int64   // value per row (integers; booleans as 0/1)
	strs []string  // value per row (strings)
	str  bool
}

func (a *Analysis) rowConstOf(v ssa.Value) *rowConst {
	if a.rowMemo == nil {
		a.rowMemo = map[ssa.Value]*rowConst{}
	}
	if rc, ok := a.rowMemo[v]; ok {
		return rc
	}
	a.rowMemo[v] = nil
	isStr := isStringT(v.Type())
	if !isIntT(v.Type()) && !isBoolT(v.Type()) && !isStr {
		return nil
	}
	switch v.(type) {
	case *ssa.UnOp, *ssa.Field:
	default:
		return nil
	}
	idx, col, ok := tables.RowColumn(a.P, v)
	if os.Getenv("VERIF_DBGROWS") != "" {
		fmt.Fprintf(os.Stderr, "rowConstOf %s in %s: ok=%v col=%v\n", v.Name(), v.Parent().Name(), ok, col)
	}
	if !ok || len(col) == 0 || len(col) > 16 {
		return nil
	}
	rc := &rowConst{idx: idx, str: isStr}
	for _, c := range col {
		switch x := c.(type) {
		case int64:
			if isStr {
				return nil
			}
			rc.vals = append(rc.vals, x)
		case bool:
			if isStr {
				return nil
			}
			if x {
				rc.vals = append(rc.vals, 1)
			} else {
				rc.vals = append(rc.vals, 0)
			}
		case string:
			if !isStr {
				return nil
			}
			rc.strs = append(rc.strs, x)
		default:
			return nil
		}
	}
	a.rowMemo[v] = rc
	return rc
}

// rowIndices: the row index values used by row constants in fn, with the number of rows.
func (a *Analysis) rowIndices(fn *ssa.Function) map[ssa.Value]int {
	out := map[ssa.Value]int{}
	for _, b := range fn.Blocks {
		for _, ins := range b.Instrs {
			v, ok := ins.(ssa.Value)
			if !ok {
				continue
			}
			if rc := a.rowConstOf(v); rc != nil {
				rows := len(rc.vals)
				if rc.str {
					rows = len(rc.strs)
				}
				if n, had := out[rc.idx]; !had || rows < n {
					out[rc.idx] = rows
				}
			}
		}
	}
	return out
}

// rowString: the string a row constant stands for in the current row assignment.
func (a *Analysis) rowString(v ssa.Value) (string, bool) {
	rc := a.rowConstOf(v)
	if rc == nil || !rc.str {
		return "", false
	}
	k, ok := a.curRow[rc.idx]
	if !ok || k < 0 || k >= len(rc.strs) {
		return "", false
	}
	return rc.strs[k], true
}

// varStrRow: is the string value case-variant in the current row assignment?  A φ whose
// choice is made by a row constant (`if row.ignoreCase { got = ToLower(got) }`) takes the
// edge that row selects.
func (a *Analysis) varStrRow(v ssa.Value) bool {
	ph, ok := v.(*ssa.Phi)
	if !ok || a.curRow == nil || len(ph.Edges) != 2 {
		return a.varStr[v]
	}
	b := ph.Block()
	idom := b.Idom()
	if idom == nil {
		return a.varStr[v]
	}
	iff, ok := idom.Instrs[len(idom.Instrs)-1].(*ssa.If)
	if !ok {
		return a.varStr[v]
	}
	rc := a.rowConstOf(iff.Cond)
	if rc == nil || rc.str {
		return a.varStr[v]
	}
	k, ok := a.curRow[rc.idx]
	if !ok || k < 0 || k >= len(rc.vals) {
		return a.varStr[v]
	}
	taken := idom.Succs[1]
	if rc.vals[k] != 0 {
		taken = idom.Succs[0]
	}
	// the edge that comes from the taken side
	for i, pb := range b.Preds {
		fromTaken := pb == taken || taken.Dominates(pb) || (taken == b && pb == idom)
		if fromTaken {
			return a.varStr[ph.Edges[i]]
		}
	}
	return a.varStr[v]
}
