package symmetry

import (
	"go/token"
	"go/types"

	"golang.org/x/tools/go/ssa"

	"verif/tools/internal/ssax"
	"verif/tools/internal/tables"
)

func (a *Analysis) truncT(v int64, t types.Type) int64 {
	b, ok := t.Underlying().(*types.Basic)
	if !ok {
		return v
	}
	switch b.Kind() {
	case types.Uint8:
		return int64(uint8(v))
	case types.Int8:
		return int64(int8(v))
	case types.Uint16:
		return int64(uint16(v))
	case types.Int16:
		return int64(int16(v))
	case types.Uint32:
		return int64(uint32(v))
	case types.Int32:
		return int64(int32(v))
	case types.Int:
		if a.P.Pkg.TypesSizes != nil && a.P.Pkg.TypesSizes.Sizeof(b) == 4 {
			return int64(int32(v))
		}
	case types.Uint, types.Uintptr:
		if a.P.Pkg.TypesSizes != nil && a.P.Pkg.TypesSizes.Sizeof(b) == 4 {
			return int64(uint32(v))
		}
	}
	return v
}

type evalState struct {
	a     *Analysis
	s     *Source
	v     int64
	memo  map[ssa.Value]*int64
	busy  map[ssa.Value]bool
	depth int
}

// eval computes value V as a function of source s holding byte v.
// ok=false: V is not a function of that byte alone.
func (a *Analysis) eval(V ssa.Value, s *Source, v int64) (int64, bool) {
	st := &evalState{a: a, s: s, v: v, memo: map[ssa.Value]*int64{}, busy: map[ssa.Value]bool{}}
	return st.eval(V)
}

func (st *evalState) eval(V ssa.Value) (int64, bool) {
	if r, ok := st.memo[V]; ok {
		if r == nil {
			return 0, false
		}
		return *r, true
	}
	if st.busy[V] || st.depth > 60 {
		return 0, false
	}
	st.busy[V] = true
	st.depth++
	r, ok := st.eval1(V)
	st.depth--
	st.busy[V] = false
	if ok {
		rr := r
		st.memo[V] = &rr
	} else {
		st.memo[V] = nil
	}
	return r, ok
}

func (st *evalState) eval1(V ssa.Value) (int64, bool) {
	a := st.a
	if V == st.s.Def {
		return st.v, true
	}
	if k, ok := ssax.ConstInt(V); ok {
		return a.truncT(k, V.Type()), true
	}
	if rc := a.rowConstOf(V); rc != nil && !rc.str {
		if k, ok := a.curRow[rc.idx]; ok && k >= 0 && k < len(rc.vals) {
			return a.truncT(rc.vals[k], V.Type()), true
		}
		return 0, false
	}
	switch x := V.(type) {
	case *ssa.Index, *ssa.Lookup:
		if a.sameByte(st.s, V) {
			return st.v, true
		}
		return 0, false
	case *ssa.UnOp:
		switch x.Op {
		case token.MUL:
			if a.srcOf[V] == st.s && a.sameByte(st.s, V) {
				return st.v, true
			}
			return 0, false
		case token.NOT:
			r, ok := st.eval(x.X)
			if !ok {
				return 0, false
			}
			return 1 - r, true
		case token.SUB:
			r, ok := st.eval(x.X)
			return a.truncT(-r, x.Type()), ok
		case token.XOR:
			r, ok := st.eval(x.X)
			return a.truncT(^r, x.Type()), ok
		}
	case *ssa.Convert:
		if isIntT(x.Type()) && isIntT(x.X.Type()) {
			r, ok := st.eval(x.X)
			return a.truncT(r, x.Type()), ok
		}
	case *ssa.ChangeType:
		return st.eval(x.X)
	case *ssa.BinOp:
		if isStringT(x.X.Type()) {
			return 0, false
		}
		l, ok1 := st.eval(x.X)
		r, ok2 := st.eval(x.Y)
		if !ok1 || !ok2 {
			return 0, false
		}
		unsigned := false
		if bt, ok := x.X.Type().Underlying().(*types.Basic); ok && bt.Info()&types.IsUnsigned != 0 {
			unsigned = true
		}
		b2i := func(b bool) int64 {
			if b {
				return 1
			}
			return 0
		}
		switch x.Op {
		case token.ADD:
			return a.truncT(l+r, x.Type()), true
		case token.SUB:
			return a.truncT(l-r, x.Type()), true
		case token.MUL:
			return a.truncT(l*r, x.Type()), true
		case token.AND:
			return a.truncT(l&r, x.Type()), true
		case token.OR:
			return a.truncT(l|r, x.Type()), true
		case token.XOR:
			return a.truncT(l^r, x.Type()), true
		case token.AND_NOT:
			return a.truncT(l&^r, x.Type()), true
		case token.SHL:
			if r < 0 || r > 62 {
				return 0, false
			}
			return a.truncT(l<<uint(r), x.Type()), true
		case token.SHR:
			if r < 0 || r > 62 {
				return 0, false
			}
			return a.truncT(l>>uint(r), x.Type()), true
		case token.QUO:
			if r == 0 {
				return 0, false
			}
			return a.truncT(l/r, x.Type()), true
		case token.REM:
			if r == 0 {
				return 0, false
			}
			return a.truncT(l%r, x.Type()), true
		case token.EQL:
			return b2i(l == r), true
		case token.NEQ:
			return b2i(l != r), true
		case token.LSS:
			if unsigned {
				return b2i(uint64(l) < uint64(r)), true
			}
			return b2i(l < r), true
		case token.LEQ:
			if unsigned {
				return b2i(uint64(l) <= uint64(r)), true
			}
			return b2i(l <= r), true
		case token.GTR:
			if unsigned {
				return b2i(uint64(l) > uint64(r)), true
			}
			return b2i(l > r), true
		case token.GEQ:
			if unsigned {
				return b2i(uint64(l) >= uint64(r)), true
			}
			return b2i(l >= r), true
		}
	case *ssa.Call:
		callee := x.Common().StaticCallee()
		if callee == nil || callee.Blocks == nil || !a.P.InModule(callee) {
			return 0, false
		}
		var args []tables.Val
		for _, arg := range x.Common().Args {
			r, ok := st.eval(arg)
			if !ok {
				return 0, false
			}
			if isBoolT(arg.Type()) {
				args = append(args, r != 0)
			} else {
				args = append(args, r)
			}
		}
		ev := tables.NewEvaluator(a.P.Pkg.TypesSizes)
		ev.MaxStep = 100000
		res, err := ev.Call(callee, args...)
		if err != nil || len(res) != 1 {
			return 0, false
		}
		switch rv := res[0].(type) {
		case int64:
			return rv, true
		case bool:
			if rv {
				return 1, true
			}
			return 0, true
		}
		return 0, false
	case *ssa.Phi:
		return st.evalPhi(x)
	}
	return 0, false
}

// startBlock: where the byte becomes known.
func (s *Source) startBlock() (*ssa.BasicBlock, int) {
	if ins, ok := s.Def.(ssa.Instruction); ok {
		return ins.Block(), ssax.InstrIndex(ins)
	}
	return s.Fn.Blocks[0], -1
}

// evalPhi: walk from the source's definition, following the branches the byte
// decides (both on undecided ones), and see through which edge(s) the phi's
// block is entered.
func (st *evalState) evalPhi(ph *ssa.Phi) (int64, bool) {
	start, _ := st.s.startBlock()
	var result *int64
	fail := false
	seen := map[*ssa.BasicBlock]bool{}
	var walk func(b *ssa.BasicBlock)
	arrive := func(from, to *ssa.BasicBlock) {
		if to == ph.Block() {
			for i, p := range to.Preds {
				if p == from {
					r, ok := st.eval(ph.Edges[i])
					if !ok {
						fail = true
						return
					}
					if result == nil {
						rr := r
						result = &rr
					} else if *result != r {
						fail = true
					}
				}
			}
			return
		}
		if to == start {
			return // the byte is re-read: a different byte from here on
		}
		walk(to)
	}
	walk = func(b *ssa.BasicBlock) {
		if fail || seen[b] {
			return
		}
		seen[b] = true
		if len(b.Instrs) == 0 {
			return
		}
		switch t := b.Instrs[len(b.Instrs)-1].(type) {
		case *ssa.Jump:
			arrive(b, b.Succs[0])
		case *ssa.If:
			c, ok := st.eval(t.Cond)
			if ok {
				if c != 0 {
					arrive(b, b.Succs[0])
				} else {
					arrive(b, b.Succs[1])
				}
			} else {
				arrive(b, b.Succs[0])
				arrive(b, b.Succs[1])
			}
		}
	}
	if start == ph.Block() {
		// phi in the block that reads the byte (loop header): only back-edge values matter; undecidable here
		return 0, false
	}
	walk(start)
	if fail || result == nil {
		return 0, false
	}
	return *result, true
}

// reachOf: blocks reachable while source s holds byte v (conditions decided by
// the byte are followed, undecided ones both ways; stops when the byte is re-read).
func (a *Analysis) reachOf(s *Source, v int) map[*ssa.BasicBlock]bool {
	if r, ok := s.reach[v]; ok {
		return r
	}
	st := &evalState{a: a, s: s, v: int64(v), memo: map[ssa.Value]*int64{}, busy: map[ssa.Value]bool{}}
	start, _ := s.startBlock()
	seen := map[*ssa.BasicBlock]bool{}
	var walk func(b *ssa.BasicBlock)
	walk = func(b *ssa.BasicBlock) {
		if seen[b] {
			return
		}
		seen[b] = true
		if len(b.Instrs) == 0 {
			return
		}
		next := func(to *ssa.BasicBlock) {
			if to == start && s.Kind == "index" {
				return
			}
			walk(to)
		}
		switch t := b.Instrs[len(b.Instrs)-1].(type) {
		case *ssa.Jump:
			next(b.Succs[0])
		case *ssa.If:
			c, ok := st.eval(t.Cond)
			if ok {
				if c != 0 {
					next(b.Succs[0])
				} else {
					next(b.Succs[1])
				}
			} else {
				next(b.Succs[0])
				next(b.Succs[1])
			}
		}
	}
	walk(start)
	s.reach[v] = seen
	return seen
}

// feasible: the byte values of s with which block X can be reached.
func (a *Analysis) feasible(s *Source, X *ssa.BasicBlock) ByteSet {
	var out ByteSet
	m := s.vmask()
	for v := 0; v < 256; v++ {
		if !m.Has(byte(v)) {
			continue
		}
		if X == nil || a.reachOf(s, v)[X] {
			out.Add(byte(v))
		}
	}
	return out
}

// imageHasAsymmetry: is there a letter v (feasible at X) for which V differs
// between v and its case partner, or is not a function of the byte?
func (a *Analysis) imageHasAsymmetry(V ssa.Value, s *Source, X *ssa.BasicBlock) bool {
	f := a.feasible(s, X)
	for v := 0; v < 256; v++ {
		if !isLetter(v) || !f.Has(byte(v)) {
			continue
		}
		r1, ok1 := a.eval(V, s, int64(v))
		r2, ok2 := a.eval(V, s, int64(swapCase(v)))
		if !ok1 || !ok2 || r1 != r2 || !s.vmask().Has(byte(swapCase(v))) {
			return true
		}
	}
	return false
}

// image: the set of values V takes over the feasible bytes (ok=false if not tabulatable or out of byte range).
func (a *Analysis) image(V ssa.Value, s *Source, X *ssa.BasicBlock) (ByteSet, bool) {
	var out ByteSet
	f := a.feasible(s, X)
	for v := 0; v < 256; v++ {
		if !f.Has(byte(v)) {
			continue
		}
		r, ok := a.eval(V, s, int64(v))
		if !ok || r < 0 || r > 255 {
			return fullSet(), false
		}
		out.Add(byte(r))
	}
	return out, true
}

// vmask: the values that can arrive in s as case-variant data.
func (s *Source) vmask() ByteSet {
	if s.Kind == "param" && s.Variant {
		return s.VMask
	}
	return s.Mask
}

// imageAll: like image but over every value the source can hold (clean call sites included).
func (a *Analysis) imageAll(V ssa.Value, s *Source, X *ssa.BasicBlock) (ByteSet, bool) {
	var out ByteSet
	for v := 0; v < 256; v++ {
		if !s.Mask.Has(byte(v)) {
			continue
		}
		if X != nil && !a.reachOf(s, v)[X] {
			continue
		}
		r, ok := a.eval(V, s, int64(v))
		if !ok || r < 0 || r > 255 {
			return fullSet(), false
		}
		out.Add(byte(r))
	}
	return out, true
}

// retMask: the byte values a module function can return (constants only; anything else ⇒ full).
func (a *Analysis) retMask(fn *ssa.Function, depth int) ByteSet {
	var out ByteSet
	if fn == nil || fn.Blocks == nil || depth > 3 {
		return fullSet()
	}
	for _, ret := range ssax.Returns(fn) {
		if len(ret.Results) != 1 {
			return fullSet()
		}
		if k, ok := ssax.ConstInt(ret.Results[0]); ok && k >= 0 && k <= 255 {
			out.Add(byte(k))
			continue
		}
		if c, ok := ret.Results[0].(*ssa.Call); ok {
			if f := c.Common().StaticCallee(); f != nil && a.P.InModule(f) {
				out = out.Union(a.retMask(f, depth+1))
				continue
			}
		}
		return fullSet()
	}
	return out
}

// ---------------------------------------------------------------- masks

func (a *Analysis) stateParam(fn *ssa.Function) *ssa.Parameter {
	for _, prm := range fn.Params {
		if pt, ok := prm.Type().Underlying().(*types.Pointer); ok {
			if n, ok := pt.Elem().(*types.Named); ok && n.Obj().Name() == a.stateName {
				return prm
			}
		}
	}
	return nil
}

func (a *Analysis) entryKey(fn *ssa.Function) string {
	sp := a.stateParam(fn)
	if sp == nil {
		return ""
	}
	return "*$" + sp.Name() + "." + a.inputFld + "[*$" + sp.Name() + "." + a.posField + "]"
}

// isEntryByte: idx reads input[pos] before anything in fn may have written pos.
func (a *Analysis) isEntryByte(fn *ssa.Function, idx ssa.Value) bool {
	k := a.entryKey(fn)
	if k == "" || canon(idx) != k {
		return false
	}
	ii := idx.(ssa.Instruction)
	probe := &Source{Fn: fn, fields: map[string]bool{a.stateName + "." + a.posField: true, a.stateName + "." + a.inputFld: true}}
	for _, b := range fn.Blocks {
		for _, w := range b.Instrs {
			if a.mayWrite(w, probe) && instrReaches(w, ii) {
				return false
			}
		}
	}
	return true
}

func (a *Analysis) computeEntryMasks() {
	if a.Disp == nil || len(a.Disp.Table) != 256 {
		return
	}
	for ch, f := range a.Disp.Table {
		if f == nil {
			continue
		}
		m := a.entryMask[f]
		m.Add(byte(ch))
		a.entryMask[f] = m
	}
	// coarse propagation to lexers called directly by other lexers
	for changed := true; changed; {
		changed = false
		for _, q := range a.funcs {
			mq, ok := a.entryMask[q]
			if !ok {
				continue
			}
			for _, ci := range ssax.Calls(q) {
				p := ci.Common().StaticCallee()
				if p == nil || !a.Scope[p] || a.stateParam(p) == nil || len(p.Params) != 1 {
					continue
				}
				old := a.entryMask[p]
				nw := old.Union(mq)
				if nw != old {
					a.entryMask[p] = nw
					changed = true
				}
			}
		}
	}
}

// refineMasks recomputes parameter masks (union over call sites) and lexer
// entry masks (what byte is under the cursor when a lexer calls another one).
func (a *Analysis) refineMasks() {
	// entry masks, precise version
	if a.Disp != nil && len(a.Disp.Table) == 256 {
		for iter := 0; iter < 4; iter++ {
			nm := map[*ssa.Function]ByteSet{}
			for ch, f := range a.Disp.Table {
				if f != nil {
					m := nm[f]
					m.Add(byte(ch))
					nm[f] = m
				}
			}
			for _, q := range a.funcs {
				if _, ok := a.entryMask[q]; !ok {
					continue
				}
				for _, ci := range ssax.Calls(q) {
					p := ci.Common().StaticCallee()
					if p == nil || !a.Scope[p] || a.stateParam(p) == nil || len(p.Params) != 1 {
						continue
					}
					nm[p] = nm[p].Union(a.maskAtCall(q, ci))
				}
			}
			same := true
			for f, m := range nm {
				if a.entryMask[f] != m {
					same = false
				}
			}
			a.entryMask = nm
			for _, s := range a.sources {
				if s.Kind == "index" && a.isEntryByte(s.Fn, s.Def) {
					if m, ok := a.entryMask[s.Fn]; ok && s.Mask != m {
						s.Mask = m
						s.reach = map[int]map[*ssa.BasicBlock]bool{}
					}
				}
			}
			if same {
				break
			}
		}
	}
	// parameter masks: Mask = every value that can arrive, VMask = values arriving as case-variant data
	for iter := 0; iter < 4; iter++ {
		nm := map[*Source]ByteSet{}
		nv := map[*Source]ByteSet{}
		known := map[*Source]bool{}
		for _, fn := range a.funcs {
			for _, ci := range ssax.Calls(fn) {
				com := ci.Common()
				for _, callee := range a.callees(fn, ci) {
					if callee.Blocks == nil || !a.Scope[callee] {
						continue
					}
					for i, arg := range com.Args {
						if i >= len(callee.Params) {
							continue
						}
						ps := a.paramSrc[callee.Params[i]]
						if ps == nil {
							continue
						}
						known[ps] = true
						var m, vm ByteSet
						if k, ok := ssax.ConstInt(arg); ok && k >= 0 && k <= 255 {
							m.Add(byte(k))
						} else if s := a.srcOf[arg]; s != nil && !a.multi[arg] {
							im, ok := a.imageAll(arg, s, ci.Block())
							if ok {
								m = im
							} else {
								m = fullSet()
							}
							if s.Variant && !a.cleansed[arg] {
								iv, ok := a.image(arg, s, ci.Block())
								if ok {
									vm = iv
								} else {
									vm = fullSet()
								}
							}
						} else if c, ok := arg.(*ssa.Call); ok && c.Common().StaticCallee() != nil && a.P.InModule(c.Common().StaticCallee()) {
							m = a.retMask(c.Common().StaticCallee(), 0)
						} else if col, ok := a.columnBytes(arg); ok {
							// an entry of a constant table: the values of that column
							m = col
						} else {
							m = fullSet()
							if a.multi[arg] {
								vm = fullSet()
							}
						}
						nm[ps] = nm[ps].Union(m)
						nv[ps] = nv[ps].Union(vm)
					}
				}
			}
		}
		same := true
		for ps, m := range nm {
			if ps.Mask != m || ps.VMask != nv[ps] {
				same = false
				ps.Mask = m
				ps.VMask = nv[ps]
				ps.reach = map[int]map[*ssa.BasicBlock]bool{}
			}
		}
		for _, ps := range a.paramSrc {
			if !known[ps] && ps.Mask == (ByteSet{}) {
				ps.Mask = fullSet()
				ps.VMask = fullSet()
			}
		}
		if same {
			break
		}
	}
}

// maskAtCall: possible values of input[pos] when lexer q calls another lexer at ci.
func (a *Analysis) maskAtCall(q *ssa.Function, ci ssa.CallInstruction) ByteSet {
	sp := a.stateParam(q)
	probe := &Source{Fn: q, fields: map[string]bool{a.stateName + "." + a.posField: true}}
	var stores []*ssa.Store
	unknown := false
	for _, b := range q.Blocks {
		for _, w := range b.Instrs {
			if w == ci.(ssa.Instruction) || !a.mayWrite(w, probe) || !instrReaches(w, ci) {
				continue
			}
			if st, ok := w.(*ssa.Store); ok {
				stores = append(stores, st)
			} else {
				unknown = true
			}
		}
	}
	if unknown || sp == nil {
		return fullSet()
	}
	restrict := func(s *Source) ByteSet {
		var out ByteSet
		for v := 0; v < 256; v++ {
			if s.Mask.Has(byte(v)) && a.reachOf(s, v)[ci.Block()] {
				out.Add(byte(v))
			}
		}
		return out
	}
	if len(stores) == 0 {
		for _, s := range a.byKey[q.String()+"|"+a.entryKey(q)] {
			if a.isEntryByte(q, s.Def) {
				return restrict(s)
			}
		}
		return a.entryMask[q]
	}
	if len(stores) == 1 && ssax.Dominates(stores[0], ci) {
		want := "*$" + sp.Name() + "." + a.inputFld + "[" + canon(stores[0].Val) + "]"
		for _, s := range a.byKey[q.String()+"|"+want] {
			if di, ok := s.Def.(ssa.Instruction); ok && ssax.Dominates(di, stores[0]) {
				return restrict(s)
			}
		}
	}
	return fullSet()
}

// columnBytes: arg reads a byte-valued place of a constant table; the set of values of that column.
func (a *Analysis) columnBytes(arg ssa.Value) (ByteSet, bool) {
	var out ByteSet
	if !isIntT(arg.Type()) {
		return out, false
	}
	col, ok := tables.ColumnValues(a.P, arg)
	if !ok || len(col) == 0 {
		return out, false
	}
	for _, cv := range col {
		k, isInt := cv.(int64)
		if !isInt || k < 0 || k > 255 {
			return ByteSet{}, false
		}
		out.Add(byte(k))
	}
	return out, true
}
