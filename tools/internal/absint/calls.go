package absint

import (
	"fmt"
	"go/types"
	"os"
	"sort"
	"strings"
	"time"

	"golang.org/x/tools/go/ssa"
)

func (e *Engine) call(st *State, fr *Frame, x *ssa.Call) []*State {
	set := func(s *State, a AVal) { s.vals[vkey{fr.id, x}] = a }
	cc := x.Call
	var args []AVal
	for _, a := range cc.Args {
		args = append(args, e.val(st, fr, a))
	}
	if b, ok := cc.Value.(*ssa.Builtin); ok {
		switch b.Name() {
		case "len", "cap":
			switch a := args[0].(type) {
			case StrV:
				set(st, IntV{strLen(a)})
			case SliceV:
				set(st, IntV{a.Len})
			default:
				s := e.newSym("len?")
				st.addLE(K(0), V(s))
				set(st, IntV{V(s)})
			}
		case "append":
			// result length = len(a) + number of appended elements (unknown for spread)
			base, _ := args[0].(SliceV)
			n := e.newSym("applen")
			st.addLE(K(0), V(n))
			if base.Name != "" {
				st.addLE(base.Len, V(n))
			}
			el := base.Elem
			if el == nil {
				if sl, ok := x.Type().Underlying().(*types.Slice); ok {
					el = sl.Elem()
				}
			}
			set(st, SliceV{Name: fmt.Sprintf("app%d:%s", fr.id, x.Name()), Len: V(n), Elem: el})
		case "copy", "min", "max":
			set(st, e.freshOfType(st, x.Type(), b.Name()))
		case "delete", "print", "println", "clear":
			set(st, e.unk())
		default:
			set(st, e.freshOfType(st, x.Type(), b.Name()))
		}
		return []*State{st}
	}
	callee := cc.StaticCallee()
	var bound AVal
	if callee == nil {
		switch fv := e.val(st, fr, cc.Value).(type) {
		case FuncV:
			if fv.Fn == nil {
				e.Check(st, fr, x.Pos(), "B-nil", "call "+canonExpr(x), false, "call of a nil function value")
				return nil
			}
			callee, bound = fv.Fn, fv.Bound
		case GElem:
			return e.dispatchCall(st, fr, x, fv, args)
		}
	}
	if callee == nil {
		// unresolved dynamic call: summaries may handle it (state-function boundary)
		if sum, ok := e.Cfg.Summaries[nil]; ok {
			if out, handled := sum(e, st, fr, x, nil, args); handled {
				return out
			}
		}
		e.Check(st, fr, x.Pos(), "B-call", "dynamic call "+canonExpr(x), false, "dynamic call whose target set is unknown")
		set(st, e.freshOfType(st, x.Type(), "dyn"))
		return []*State{st}
	}
	if bound != nil && callee.Synthetic != "" { // bound-method wrapper: call the method with the bound receiver
		if obj, ok := callee.Object().(*types.Func); ok && obj != nil {
			if m := e.P.SSA.FuncValue(obj); m != nil {
				callee = m
				args = append([]AVal{bound}, args...)
			}
		}
	}
	if !e.P.InModule(callee) || callee.Blocks == nil {
		e.model(st, fr, x, callee, args)
		return []*State{st}
	}
	if e.Cfg.Hooks.BeforeCall != nil {
		e.Cfg.Hooks.BeforeCall(e, st, fr, x, callee, args)
	}
	if sum, ok := e.Cfg.Summaries[callee]; ok {
		if out, handled := sum(e, st, fr, x, callee, args); handled {
			return out
		}
	}
	rs := e.inline(st, fr, x, callee, args)
	var out []*State
	for _, r := range rs {
		set(r.st, r.ret)
		if e.Cfg.Hooks.AfterCall != nil {
			e.curFr, e.curIns = fr, x
			e.Cfg.Hooks.AfterCall(e, r.st, fr, x, callee, args, r.ret)
		}
		out = append(out, r.st)
	}
	return out
}

// dispatchCall: byteParsers[ch](s) — one inlining per distinct target, with
// the dispatched byte's mask restricted to that target's bytes.
func (e *Engine) dispatchCall(st *State, fr *Frame, x *ssa.Call, g GElem, args []AVal) []*State {
	var org ByteV
	haveOrg := false
	if len(g.Idx.T) == 1 && g.Idx.T[0].K == 1 && g.Idx.C == 0 {
		org, haveOrg = e.byteOrig[g.Idx.T[0].S]
	}
	groups := map[*ssa.Function][]int{}
	for b := 0; b < 256; b++ {
		f := e.Cfg.Dispatch[b]
		groups[f] = append(groups[f], b)
	}
	var fns []*ssa.Function
	for f := range groups {
		fns = append(fns, f)
	}
	sort.Slice(fns, func(i, j int) bool {
		if fns[i] == nil || fns[j] == nil {
			return fns[j] != nil
		}
		return fns[i].Name() < fns[j].Name()
	})
	var out []*State
	for _, f := range fns {
		if only := os.Getenv("VERIF_PARSERS"); only != "" && f != nil && !strings.Contains(","+only+",", ","+f.Name()+",") {
			continue
		}
		s2 := st.clone()
		if haveOrg {
			var m Mask
			for _, b := range groups[f] {
				m.set(b)
			}
			nm := e.mask(s2, org).and(m)
			if nm.empty() {
				continue
			}
			e.setMask(s2, org, nm)
		}
		if f == nil {
			e.Check(s2, fr, x.Pos(), "B-nil", "dispatch "+canonExpr(x), false, fmt.Sprintf("dispatch table has a nil entry (bytes %v)", groups[f]))
			continue
		}
		if e.Cfg.Hooks.BeforeCall != nil {
			e.Cfg.Hooks.BeforeCall(e, s2, fr, x, f, args)
		}
		for _, r := range e.inline(s2, fr, x, f, args) {
			r.st.vals[vkey{fr.id, x}] = r.ret
			if e.Cfg.Hooks.AfterCall != nil {
				e.curFr, e.curIns = fr, x
				e.Cfg.Hooks.AfterCall(e, r.st, fr, x, f, args, r.ret)
			}
			out = append(out, r.st)
		}
	}
	return e.capDisjuncts(out, fr, "dispatch:"+x.Name())
}

type Result struct {
	st   *State
	ret  AVal
	site *ssa.Return
}

func (r Result) State() *State { return r.st }
func (r Result) Ret() AVal     { return r.ret }

func (e *Engine) inline(st *State, caller *Frame, site *ssa.Call, fn *ssa.Function, args []AVal) []Result {
	if caller.depth+1 > e.Cfg.MaxDepth {
		e.Check(st, caller, site.Pos(), "R-depth", "call of "+fn.Name(), false, "inlining depth cap reached: unbounded recursion through this call chain?")
		return []Result{{st: st, ret: e.freshOfType(st, site.Type(), "depthcap")}}
	}
	// recursion: a function may sit on the call chain a few times (the benign cycles die
	// out in refined contexts); more re-entries mean unbounded state-to-state recursion
	occ := 0
	var chain []string
	for f := caller; f != nil; f = f.caller {
		if f.fn == fn {
			occ++
		}
		if len(chain) < 6 {
			chain = append(chain, f.fn.Name())
		}
	}
	if occ >= 2 {
		e.Check(st, caller, site.Pos(), "R-depth", "recursive call of "+fn.Name(), false, "unbounded recursion: "+fn.Name()+" is re-entered while already active twice (chain … "+strings.Join(chain, " ← ")+")")
		return []Result{{st: st, ret: e.freshOfType(st, site.Type(), "recursion")}}
	}
	if !e.Cfg.Deadline.IsZero() && time.Now().After(e.Cfg.Deadline) {
		e.Check(st, caller, site.Pos(), "R-depth", "time budget at call of "+fn.Name(), false, "the time budget of a repeated (escalated) analysis is exhausted — undecided; the result of the run with fewer disjuncts is kept")
		return []Result{{st: st, ret: e.freshOfType(st, site.Type(), "budget")}}
	}
	if e.Cfg.MaxLP > 0 && e.LP.Calls > e.Cfg.MaxLP {
		e.Check(st, caller, site.Pos(), "R-depth", "solver budget at call of "+fn.Name(), false, "the analysis budget (number of entailment queries) is exhausted: call structure too deep or recursive — undecided")
		return []Result{{st: st, ret: e.freshOfType(st, site.Type(), "budget")}}
	}
	if e.Inlined > e.Cfg.MaxInline && e.Cfg.MaxInline > 0 {
		e.Check(st, caller, site.Pos(), "R-depth", "inlining budget at call of "+fn.Name(), false, "the analysis budget (number of inlined calls) is exhausted: call structure too deep or recursive")
		return []Result{{st: st, ret: e.freshOfType(st, site.Type(), "budget")}}
	}
	e.Inlined++
	if e.Cfg.Trace {
		fmt.Fprintf(os.Stderr, "%*sinline %s (depth %d) lp=%d\n", caller.depth*2, "", fn.Name(), caller.depth+1, e.LP.Calls)
	}
	saveFr, saveIns := e.curFr, e.curIns
	fr := e.newFrame(caller, fn, site)
	for i, p := range fn.Params {
		if i < len(args) && args[i] != nil {
			st.vals[vkey{fr.id, p}] = args[i]
		}
	}
	rs := e.analyse(fr, []*State{st})
	for _, r := range rs {
		for k := range r.st.vals {
			if k.f == fr.id {
				delete(r.st.vals, k)
			}
		}
		e.gc(r.st, r.ret)
	}
	e.curFr, e.curIns = saveFr, saveIns
	return rs
}

func (e *Engine) capDisjuncts(ss []*State, fr *Frame, where string) []*State {
	if len(ss) <= e.Cfg.K {
		return ss
	}
	return []*State{e.joinAll(ss, fr, where, false)}
}

// model: effects of library functions.
func (e *Engine) model(st *State, fr *Frame, x *ssa.Call, callee *ssa.Function, args []AVal) {
	set := func(a AVal) { st.vals[vkey{fr.id, x}] = a }
	name := callee.String()
	freshStr := func(n string) StrV {
		r := e.newSym(n)
		st.addLE(K(0), V(r))
		return StrV{Root: r, Lo: K(0), Hi: V(r)}
	}
	if e.Cfg.Hooks.OnScan != nil && name != "strings.IndexByte" && name != "strings.Index" {
		for _, a := range args {
			if sv, ok := a.(StrV); ok && sv.Const == nil {
				e.curFr, e.curIns = fr, x
				e.Cfg.Hooks.OnScan(e, st, fr, x, sv)
			}
		}
	}
	switch name {
	case "strings.IndexByte", "strings.LastIndexByte", "bytes.IndexByte":
		r := e.newSym("idxb")
		st.addLE(K(-1), V(r))
		if h, ok := args[0].(StrV); ok {
			st.addLT(V(r), strLen(h))
			if h.Const != nil && name == "strings.IndexByte" {
				// membership test in a constant set of bytes
				if bv, okb := args[1].(ByteV); okb && bv.Root >= 0 && bv.Tab == nil {
					var set Mask
					for i := 0; i < len(*h.Const); i++ {
						set.set(int((*h.Const)[i]))
					}
					b2 := bv
					st.hits[r] = searchHit{h: h, c: -1, mask: set, org: x, member: &b2}
				}
			}
			if h.Const == nil && name == "strings.IndexByte" {
				if c, okc := constOf(args[1]); okc {
					e.addHit(st, fr, x, r, searchHit{h: h, c: int(c), mask: maskOf(int(c) & 0xff), org: x})
				} else if bv, okb := args[1].(ByteV); okb {
					e.addHit(st, fr, x, r, searchHit{h: h, c: -1, mask: func() Mask {
						if bv.Tab != nil {
							return fullMask()
						}
						return e.mask(st, bv)
					}(), org: x})
				}
			}
		} else if h, ok := args[0].(SliceV); ok {
			st.addLT(V(r), h.Len)
		}
		set(IntV{V(r)})
	case "strings.Index", "strings.LastIndex":
		r := e.newSym("idx")
		st.addLE(K(-1), V(r))
		h, ok := args[0].(StrV)
		n, okn := args[1].(StrV)
		if ok && okn {
			st.addLE(V(r), strLen(h).Sub(strLen(n)))
			st.addLE(V(r), strLen(h))
			if h.Const == nil && name == "strings.Index" {
				e.addHit(st, fr, x, r, searchHit{h: h, c: -1, mask: fullMask(), nlen: strLen(n), org: x})
			}
			if n.Const == nil && h.Const == nil && n.Root == h.Root && e.proveLE(st, h.Lo, n.Lo) && e.proveLE(st, n.Hi, h.Hi) {
				// needle is a substring of the haystack itself: always found, at or before its own offset
				st.addLE(K(0), V(r))
				st.addLE(V(r), n.Lo.Sub(h.Lo))
				e.Check(st, fr, x.Pos(), "S-self", canonExpr(x), false, "strings.Index searches a string for a substring of itself: it finds the FIRST copy, which need not be the one at the known offset")
			} else {
				e.Check(st, fr, x.Pos(), "S-self", canonExpr(x), true, "")
			}
		} else if ok {
			st.addLE(V(r), strLen(h))
		}
		set(IntV{V(r)})
	case "strings.Contains", "strings.HasPrefix", "strings.HasSuffix":
		// false when the haystack is provably shorter than the needle
		if len(args) == 2 {
			h, ok1 := args[0].(StrV)
			n, ok2 := args[1].(StrV)
			if ok1 && ok2 && e.proveLE(st, strLen(h).AddK(1), strLen(n)) {
				set(BoolV{Known: 2})
				break
			}
		}
		set(BoolV{})
	case "strings.EqualFold", "strings.ContainsRune", "strings.ContainsAny":
		set(BoolV{})
	case "strings.ToUpper", "strings.ToLower", "strings.ReplaceAll", "strings.Replace", "strings.TrimLeftFunc", "strings.TrimRightFunc", "strings.TrimFunc", "strings.TrimSpace", "strings.Trim", "strings.TrimLeft", "strings.TrimRight", "strings.TrimPrefix", "strings.TrimSuffix", "strings.Repeat", "strings.Title", "strings.Map":
		set(freshStr(callee.Name()))
	case "(*strings.Builder).String":
		if p, ok := args[0].(PtrV); ok {
			if c, ok := st.cells[p.Key+".#n"]; ok {
				if iv, ok := c.V.(IntV); ok {
					r := e.newSym("built")
					st.addEQ(V(r), iv.L)
					st.addLE(K(0), V(r))
					set(StrV{Root: r, Lo: K(0), Hi: V(r)})
					break
				}
			}
		}
		set(freshStr("built"))
	case "(*strings.Builder).Grow":
		l, ok := e.asInt(st, args[1])
		e.Check(st, fr, x.Pos(), "B-lib", "Grow("+canonExpr(x)+")", ok && e.proveLE(st, K(0), l), "strings.Builder.Grow panics on a negative count")
		set(e.unk())
	case "(*strings.Builder).WriteByte", "(*strings.Builder).WriteString", "(*strings.Builder).WriteRune":
		if p, ok := args[0].(PtrV); ok {
			cur := K(0)
			known := true
			if c, ok := st.cells[p.Key+".#n"]; ok {
				if iv, ok := c.V.(IntV); ok {
					cur = iv.L
				} else {
					known = false
				}
			} else if _, zeroed := st.cells[p.Key+".#fresh"]; !zeroed {
				known = false
			}
			if known {
				add := K(1)
				if name == "(*strings.Builder).WriteString" {
					if s, ok := args[1].(StrV); ok {
						add = strLen(s)
					} else {
						known = false
					}
				} else if name == "(*strings.Builder).WriteRune" {
					known = false
				}
				if known {
					st.cells[p.Key+".#n"] = Cell{p, "#n", IntV{cur.Add(add)}}
				}
			}
			if !known {
				delete(st.cells, p.Key+".#n")
			}
		}
		set(e.freshOfType(st, x.Type(), "wb"))
	default:
		pure := false
		if callee.Pkg != nil {
			switch callee.Pkg.Pkg.Path() {
			case "strings", "bytes", "unicode", "unicode/utf8", "strconv", "math", "math/bits", "sort", "slices", "errors":
				pure = true
			}
		}
		e.Check(st, fr, x.Pos(), "M-unmodelled", "call "+name, pure, "external function without a model")
		set(e.freshOfType(st, x.Type(), callee.Name()))
	}
}

// applySearchAxioms: when a branch establishes r ≥ 0 for r = IndexByte(h, c),
// the byte h[r] has the needle's mask; r == 0 is impossible when h[0] cannot
// be the needle.
func (e *Engine) applySearchAxioms(st *State) {
	if len(st.hits) == 0 {
		return
	}
	var rs []Sym
	for r := range st.hits {
		rs = append(rs, r)
	}
	sortSyms(rs)
	for _, r := range rs {
		h := st.hits[r]
		used := false
		for _, c := range st.cons {
			if c.Has(r) {
				used = true
				break
			}
		}
		if !used {
			continue
		}
		if h.member != nil {
			switch {
			case e.proveLE(st, K(0), V(r)):
				e.setMask(st, *h.member, e.mask(st, *h.member).and(h.mask))
			case e.proveLE(st, V(r), K(-1)):
				e.setMask(st, *h.member, e.mask(st, *h.member).and(h.mask.not()))
			}
			continue
		}
		if e.proveLE(st, K(0), V(r)) {
			bv := ByteV{Root: h.h.Root, Idx: h.h.Lo.Add(V(r))}
			m := e.mask(st, bv).and(h.mask)
			e.setMask(st, bv, m)
			// bytes before the hit are not the needle — only the first one is tracked
			first := ByteV{Root: h.h.Root, Idx: h.h.Lo}
			if mm, ok := st.masks[e.findByteKey(st, first)]; ok && mm.M.and(h.mask).empty() {
				st.addLE(K(1), V(r))
			}
		}
	}
}
