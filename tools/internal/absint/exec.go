package absint

import (
	"fmt"
	"go/token"
	"go/types"
	"strings"

	"golang.org/x/tools/go/ssa"

	"verif/tools/internal/ssax"
)

// canonExpr renders the checked construct independent of line numbers.
func canonExpr(ins ssa.Instruction) string {
	switch x := ins.(type) {
	case *ssa.Index:
		return ssax.Canon(x.X) + "[" + ssax.Canon(x.Index) + "]"
	case *ssa.IndexAddr:
		return "&" + ssax.Canon(x.X) + "[" + ssax.Canon(x.Index) + "]"
	case *ssa.Slice:
		return ssax.Canon(x.X) + "[" + ssax.Canon(x.Low) + ":" + ssax.Canon(x.High) + "]"
	case *ssa.Lookup:
		return ssax.Canon(x.X) + "[" + ssax.Canon(x.Index) + "]"
	case ssa.Value:
		return ssax.Canon(x)
	}
	return ins.String()
}

// exec executes a non-terminator instruction on one disjunct; may split it.
func (e *Engine) exec(st *State, fr *Frame, instr ssa.Instruction) []*State {
	if st.dead {
		return nil
	}
	set := func(v ssa.Value, a AVal) { st.vals[vkey{fr.id, v}] = a }
	switch x := instr.(type) {
	case *ssa.DebugRef:
	case *ssa.Alloc:
		p := PtrV{Key: fmt.Sprintf("A%d:%s", fr.id, x.Name()), T: x.Type().(*types.Pointer).Elem()}
		set(x, p)
		if s := fieldsOf(p.T); s != nil {
			e.storePtr(st, p, zeroStruct(s))
			delete(st.dirty, p.Key)
		} else if z := zeroOf(p.T); z != nil {
			e.storePtr(st, p, z)
		}
	case *ssa.FieldAddr:
		base, ok := e.val(st, fr, x.X).(PtrV)
		if !ok {
			set(x, e.unk())
			break
		}
		if base.Key == "nil" {
			e.Check(st, fr, x.Pos(), "B-nil", canonExpr(x), false, "field address of a nil pointer")
		}
		stt := x.X.Type().Underlying().(*types.Pointer).Elem().Underlying().(*types.Struct)
		f := stt.Field(x.Field)
		if f.Embedded() {
			if _, isStruct := f.Type().Underlying().(*types.Struct); isStruct {
				// the fields of an embedded struct are (promoted) fields of the object itself
				set(x, PtrV{Key: base.Key, T: f.Type(), Obj: base.Obj, Field: base.Field, Arr: base.Arr, Idx: base.Idx})
				break
			}
		}
		bb := base
		set(x, PtrV{Key: base.Key + "." + f.Name(), T: f.Type(), Obj: &bb, Field: f.Name()})
	case *ssa.IndexAddr:
		idx, iok := e.asInt(st, e.val(st, fr, x.Index))
		// a small constant table indexed by a variable: one state per row
		if n, isTab := e.tableRows(st, fr, x, e.val(st, fr, x.X)); isTab && iok {
			if k, isK := e.constIndex(st, idx, n); isK {
				idx = K(k)
			} else if e.proveLE(st, K(0), idx) && e.proveLT(st, idx, K(int64(n))) {
				var out []*State
				for k := 0; k < n; k++ {
					s2 := st.clone()
					s2.addEQ(idx, K(int64(k)))
					if !e.feasible(s2) {
						continue
					}
					e.indexAddr(s2, fr, x, K(int64(k)), true)
					out = append(out, s2)
				}
				return out
			}
		}
		e.indexAddr(st, fr, x, idx, iok)
	case *ssa.Index:
		idx, iok := e.asInt(st, e.val(st, fr, x.Index))
		switch s := e.val(st, fr, x.X).(type) {
		case StrV:
			if !iok {
				e.Check(st, fr, x.Pos(), "B-idx", canonExpr(x), false, "unknown index")
				set(x, e.unk())
				break
			}
			ok := e.proveLE(st, K(0), idx) && e.proveLT(st, idx, strLen(s))
			e.Check(st, fr, x.Pos(), "B-idx", canonExpr(x), ok, fmt.Sprintf("cannot show 0 ≤ %s < %s", e.LinStr(idx), e.LinStr(strLen(s))))
			if s.Const != nil {
				if idx.IsConst() && idx.C >= 0 && int(idx.C) < len(*s.Const) {
					set(x, ByteV{Root: -1, C: int((*s.Const)[idx.C])})
				} else {
					set(x, e.freshByte(st, "constidx"))
				}
				break
			}
			if !ok {
				// keep going with the byte (reported once)
			}
			set(x, ByteV{Root: s.Root, Idx: s.Lo.Add(idx)})
			if e.Cfg.Hooks.OnRead != nil {
				e.Cfg.Hooks.OnRead(e, st, fr, x, s, idx)
			}
		case ArrV:
			ok := iok && e.proveLE(st, K(0), idx) && e.proveLT(st, idx, K(s.Len))
			e.Check(st, fr, x.Pos(), "B-idx", canonExpr(x), ok, fmt.Sprintf("cannot show 0 ≤ %s < %d", e.LinStr(idx), s.Len))
			if !iok {
				set(x, e.freshOfType(st, x.Type(), "elem"))
				break
			}
			// a row of a small constant table: one state per row
			rowsN, isTab := 0, false
			if sl, isClosed := e.closedContainer(s.Ptr.Key); isClosed && len(sl.Elems) <= smallTable {
				rowsN, isTab = len(sl.Elems), true
			} else if ld, isLd := x.X.(*ssa.UnOp); isLd {
				// a copy of a local table literal
				if al, isAl := ld.X.(*ssa.Alloc); isAl {
					rowsN, isTab = e.localTable(al)
				}
			}
			if isTab && ok {
				if k, isK := e.constIndex(st, idx, rowsN); isK {
					idx = K(k)
				} else {
					var out []*State
					for k := 0; k < rowsN; k++ {
						s2 := st.clone()
						s2.addEQ(idx, K(int64(k)))
						if !e.feasible(s2) {
							continue
						}
						s2.vals[vkey{fr.id, x}] = e.loadPtr(s2, PtrV{Key: s.Ptr.Key + "[" + K(int64(k)).Key() + "]", Arr: s.Ptr.Key, Idx: K(int64(k)), T: x.Type()})
						out = append(out, s2)
					}
					return out
				}
			}
			set(x, e.loadPtr(st, PtrV{Key: s.Ptr.Key + "[" + idx.Key() + "]", Arr: s.Ptr.Key, Idx: idx, T: x.Type()}))
		default:
			e.Check(st, fr, x.Pos(), "B-idx", canonExpr(x), false, "unknown indexed value")
			set(x, e.unk())
		}
	case *ssa.Slice:
		e.execSlice(st, fr, x)
	case *ssa.UnOp:
		switch x.Op {
		case token.MUL:
			p, ok := e.val(st, fr, x.X).(PtrV)
			if !ok {
				set(x, e.freshOfType(st, x.Type(), "load"))
				break
			}
			if p.Key == "nil" {
				e.Check(st, fr, x.Pos(), "B-nil", canonExpr(x), false, "load through a nil pointer")
			}
			set(x, e.loadPtr(st, p))
		case token.NOT:
			if b, ok := e.val(st, fr, x.X).(BoolV); ok {
				set(x, negBool(b))
			} else {
				set(x, BoolV{})
			}
		case token.SUB:
			if l, ok := e.asInt(st, e.val(st, fr, x.X)); ok {
				set(x, IntV{l.Neg()})
			} else {
				set(x, e.unk())
			}
		default:
			set(x, e.freshOfType(st, x.Type(), "unop"))
		}
	case *ssa.Store:
		p, ok := e.val(st, fr, x.Addr).(PtrV)
		if !ok {
			break
		}
		if p.Key == "nil" {
			e.Check(st, fr, x.Pos(), "B-nil", canonExpr(x), false, "store through a nil pointer")
		}
		v := e.val(st, fr, x.Val)
		e.storePtr(st, p, v)
		if e.Cfg.Hooks.OnStore != nil {
			e.Cfg.Hooks.OnStore(e, st, fr, x, p, v)
		}
	case *ssa.BinOp:
		set(x, e.binop(st, fr, x))
	case *ssa.Convert:
		v := e.val(st, fr, x.X)
		tb, _ := x.Type().Underlying().(*types.Basic)
		switch a := v.(type) {
		case ByteV:
			if tb != nil && tb.Info()&types.IsInteger != 0 {
				set(x, a) // widening a byte keeps its value
				break
			}
			if tb != nil && tb.Kind() == types.String {
				// string(byte) UTF-8 encodes: length 1 or 2
				r := e.newSym("convstr")
				st.addLE(K(1), V(r))
				st.addLE(V(r), K(4))
				set(x, StrV{Root: r, Lo: K(0), Hi: V(r)})
				break
			}
			set(x, e.freshOfType(st, x.Type(), "conv"))
		case IntV:
			if tb != nil && tb.Info()&types.IsInteger != 0 {
				sz := e.P.Pkg.TypesSizes.Sizeof(tb)
				fb, _ := x.X.Type().Underlying().(*types.Basic)
				if fb != nil && e.P.Pkg.TypesSizes.Sizeof(fb) <= sz && (fb.Info()&types.IsUnsigned == 0) == (tb.Info()&types.IsUnsigned == 0) {
					set(x, a)
					break
				}
				// narrowing / sign change: value preserved only if provably in range
				lo, hi := rangeOf(tb, sz)
				if e.proveLE(st, K(lo), a.L) && e.proveLE(st, a.L, K(hi)) {
					if tb.Kind() == types.Uint8 {
						set(x, a)
					} else {
						set(x, a)
					}
					break
				}
				s := e.newSym("trunc")
				st.addLE(K(lo), V(s))
				st.addLE(V(s), K(hi))
				set(x, IntV{V(s)})
				break
			}
			if tb != nil && tb.Kind() == types.String {
				r := e.newSym("convstr")
				st.addLE(K(1), V(r))
				st.addLE(V(r), K(4))
				set(x, StrV{Root: r, Lo: K(0), Hi: V(r)})
				break
			}
			set(x, e.freshOfType(st, x.Type(), "conv"))
		case SliceV:
			if tb != nil && tb.Kind() == types.String {
				r := e.newSym("convstr")
				st.addEQ(V(r), a.Len)
				st.addLE(K(0), V(r))
				set(x, StrV{Root: r, Lo: K(0), Hi: V(r)})
				break
			}
			set(x, e.freshOfType(st, x.Type(), "conv"))
		case StrV:
			if _, isSlice := x.Type().Underlying().(*types.Slice); isSlice {
				set(x, SliceV{Name: fmt.Sprintf("conv%d:%s", fr.id, x.Name()), Len: strLen(a), Elem: types.Typ[types.Uint8]})
				break
			}
			set(x, a)
		default:
			set(x, e.freshOfType(st, x.Type(), "conv"))
		}
	case *ssa.ChangeType:
		set(x, e.val(st, fr, x.X))
	case *ssa.MakeClosure:
		fn := x.Fn.(*ssa.Function)
		var b AVal
		if len(x.Bindings) > 0 {
			b = e.val(st, fr, x.Bindings[0])
		}
		set(x, FuncV{Fn: fn, Bound: b})
	case *ssa.Extract:
		if t, ok := e.val(st, fr, x.Tuple).(TupleV); ok && x.Index < len(t.E) && t.E[x.Index] != nil {
			set(x, t.E[x.Index])
		} else {
			set(x, e.freshOfType(st, x.Type(), "extract"))
		}
	case *ssa.Lookup:
		if tup, ok := x.Type().(*types.Tuple); ok {
			tv := TupleV{}
			for i := 0; i < tup.Len(); i++ {
				tv.E = append(tv.E, e.freshOfType(st, tup.At(i).Type(), "lookup"))
			}
			set(x, tv)
		} else if _, isMap := x.X.Type().Underlying().(*types.Map); isMap {
			set(x, e.freshOfType(st, x.Type(), "lookup"))
		} else {
			// string index via Lookup
			idx, iok := e.asInt(st, e.val(st, fr, x.Index))
			if s, ok := e.val(st, fr, x.X).(StrV); ok && iok {
				good := e.proveLE(st, K(0), idx) && e.proveLT(st, idx, strLen(s))
				e.Check(st, fr, x.Pos(), "B-idx", canonExpr(x), good, "string index")
				if s.Const == nil {
					set(x, ByteV{Root: s.Root, Idx: s.Lo.Add(idx)})
					if e.Cfg.Hooks.OnRead != nil {
						e.Cfg.Hooks.OnRead(e, st, fr, x, s, idx)
					}
					break
				}
			}
			set(x, e.freshOfType(st, x.Type(), "lookup"))
		}
	case *ssa.MakeSlice:
		n, ok := e.asInt(st, e.val(st, fr, x.Len))
		e.Check(st, fr, x.Pos(), "B-lib", "make "+canonExpr(x), ok && e.proveLE(st, K(0), n), "MakeSlice size must be ≥ 0")
		if !ok {
			s := e.newSym("mklen")
			st.addLE(K(0), V(s))
			n = V(s)
		}
		set(x, SliceV{Name: fmt.Sprintf("M%d:%s", fr.id, x.Name()), Len: n, Elem: x.Type().Underlying().(*types.Slice).Elem()})
	case *ssa.TypeAssert:
		if !x.CommaOk {
			e.Check(st, fr, x.Pos(), "B-lib", "type assertion "+canonExpr(x), false, "non-comma-ok type assertion can panic")
		}
		set(x, e.unk())
	case *ssa.Panic:
		e.Check(st, fr, x.Pos(), "B-lib", "panic", false, "reachable panic")
		return nil
	case *ssa.MakeMap, *ssa.MakeInterface, *ssa.Range, *ssa.Next, *ssa.MakeChan, *ssa.Field:
		if v, ok := instr.(ssa.Value); ok {
			set(v, e.freshOfType(st, v.Type(), "val"))
		}
	case *ssa.Call:
		return e.call(st, fr, x)
	case *ssa.Go, *ssa.Defer, *ssa.Send, *ssa.Select, *ssa.RunDefers, *ssa.MapUpdate:
		if _, isRD := instr.(*ssa.RunDefers); !isRD {
			e.Check(st, fr, instr.Pos(), "M-unmodelled", instr.String(), false, "instruction not modelled")
		}
	default:
		if v, ok := instr.(ssa.Value); ok {
			set(v, e.freshOfType(st, v.Type(), "val"))
		}
	}
	return []*State{st}
}

func rangeOf(tb *types.Basic, size int64) (int64, int64) {
	if tb.Info()&types.IsUnsigned != 0 {
		if size >= 8 {
			return 0, 1 << 62
		}
		return 0, (int64(1) << (8 * uint(size))) - 1
	}
	if size >= 8 {
		return -(1 << 62), 1 << 62
	}
	h := int64(1) << (8*uint(size) - 1)
	return -h, h - 1
}

func (e *Engine) freshByte(st *State, name string) AVal {
	r := e.newSym("byteroot:" + name)
	return ByteV{Root: r, Idx: K(0)}
}

func (e *Engine) freshOfType(st *State, t types.Type, name string) AVal {
	if tup, ok := t.(*types.Tuple); ok {
		tv := TupleV{}
		for i := 0; i < tup.Len(); i++ {
			tv.E = append(tv.E, e.freshOfType(st, tup.At(i).Type(), name))
		}
		return tv
	}
	switch u := t.Underlying().(type) {
	case *types.Basic:
		switch {
		case u.Kind() == types.Uint8:
			return e.freshByte(st, name)
		case u.Info()&types.IsInteger != 0:
			s := e.newSym(name)
			if u.Info()&types.IsUnsigned != 0 {
				st.addLE(K(0), V(s))
			}
			return IntV{V(s)}
		case u.Kind() == types.String:
			r := e.newSym("str:" + name)
			st.addLE(K(0), V(r))
			return StrV{Root: r, Lo: K(0), Hi: V(r)}
		case u.Kind() == types.Bool:
			return BoolV{}
		}
	case *types.Slice:
		s := e.newSym("len:" + name)
		st.addLE(K(0), V(s))
		return SliceV{Name: fmt.Sprintf("?%s%d", name, int(s)), Len: V(s), Elem: u.Elem()}
	}
	return e.unk()
}

func (e *Engine) execSlice(st *State, fr *Frame, x *ssa.Slice) {
	set := func(a AVal) { st.vals[vkey{fr.id, x}] = a }
	bounds := func(length Lin) (Lin, Lin, bool) {
		lo, hi := K(0), length
		ok := true
		if x.Low != nil {
			l, o := e.asInt(st, e.val(st, fr, x.Low))
			lo, ok = l, ok && o
		}
		if x.High != nil {
			h, o := e.asInt(st, e.val(st, fr, x.High))
			hi, ok = h, ok && o
		}
		return lo, hi, ok
	}
	switch s := e.val(st, fr, x.X).(type) {
	case StrV:
		lo, hi, ok := bounds(strLen(s))
		good := ok && e.proveLE(st, K(0), lo) && e.proveLE(st, lo, hi) && e.proveLE(st, hi, strLen(s))
		e.Check(st, fr, x.Pos(), "B-slice", canonExpr(x), good, fmt.Sprintf("cannot show 0 ≤ %s ≤ %s ≤ %s", e.LinStr(lo), e.LinStr(hi), e.LinStr(strLen(s))))
		if s.Const != nil {
			if ok && lo.IsConst() && hi.IsConst() && lo.C >= 0 && hi.C <= int64(len(*s.Const)) && lo.C <= hi.C {
				c := (*s.Const)[lo.C:hi.C]
				set(StrV{Root: -1, Lo: K(0), Hi: K(int64(len(c))), Const: &c})
			} else {
				r := e.newSym("constslice")
				st.addLE(K(0), V(r))
				set(StrV{Root: r, Lo: K(0), Hi: V(r)})
			}
			return
		}
		if !ok {
			r := e.newSym("slice?")
			st.addLE(K(0), V(r))
			set(StrV{Root: r, Lo: K(0), Hi: V(r)})
			return
		}
		set(StrV{Root: s.Root, Lo: s.Lo.Add(lo), Hi: s.Lo.Add(hi)})
	case PtrV:
		if arr, ok := s.T.Underlying().(*types.Array); ok {
			lo, hi, okb := bounds(K(arr.Len()))
			good := okb && e.proveLE(st, K(0), lo) && e.proveLE(st, lo, hi) && e.proveLE(st, hi, K(arr.Len()))
			e.Check(st, fr, x.Pos(), "B-slice", canonExpr(x), good, "array slice bounds")
			if lo.IsConst() && lo.C == 0 {
				set(SliceV{Name: s.Key, Len: hi, Elem: arr.Elem()})
			} else {
				set(e.freshOfType(st, x.Type(), "slice"))
			}
			return
		}
		e.Check(st, fr, x.Pos(), "B-slice", canonExpr(x), false, "unknown base")
		set(e.unk())
	case SliceV:
		lo, hi, ok := bounds(s.Len)
		good := ok && e.proveLE(st, K(0), lo) && e.proveLE(st, lo, hi) && e.proveLE(st, hi, s.Len)
		// slicing up to capacity is legal; we only know len, so demand ≤ len unless it is an append idiom (s[:0])
		e.Check(st, fr, x.Pos(), "B-slice", canonExpr(x), good, "slice bounds")
		if ok && lo.IsConst() && lo.C == 0 {
			set(SliceV{Name: s.Name, Len: hi, Elem: s.Elem})
		} else {
			set(e.freshOfType(st, x.Type(), "slice"))
		}
	default:
		e.Check(st, fr, x.Pos(), "B-slice", canonExpr(x), false, "unknown base")
		set(e.freshOfType(st, x.Type(), "slice"))
	}
}

func cmpBool(op token.Token, a, b Lin) BoolV {
	d := a.Sub(b)
	switch op {
	case token.LSS:
		return BoolV{Rel: 1, L: d.AddK(1)}
	case token.LEQ:
		return BoolV{Rel: 1, L: d}
	case token.GTR:
		return BoolV{Rel: 1, L: d.Neg().AddK(1)}
	case token.GEQ:
		return BoolV{Rel: 1, L: d.Neg()}
	case token.EQL:
		return BoolV{Rel: 2, L: d}
	case token.NEQ:
		return BoolV{Rel: 3, L: d}
	}
	return BoolV{}
}

// negWeak: the negation of a one-sided fact whose own negation is the fact.
func negWeak(w BoolV) BoolV { return BoolV{NegOf: &w} }

func negBool(b BoolV) BoolV {
	if b.NegOf != nil {
		return *b.NegOf
	}
	switch b.Known {
	case 1:
		return BoolV{Known: 2}
	case 2:
		return BoolV{Known: 1}
	}
	if b.IsB {
		if b.Weak {
			return BoolV{}
		}
		b.BTrue = b.BTrue.not()
		return b
	}
	switch b.Rel {
	case 1:
		return BoolV{Rel: 1, L: b.L.Neg().AddK(1)}
	case 2:
		return BoolV{Rel: 3, L: b.L}
	case 3:
		return BoolV{Rel: 2, L: b.L}
	}
	return BoolV{}
}

// assume refines st with b being true; false if that is infeasible.
func (e *Engine) assume(st *State, b BoolV) bool {
	switch b.Known {
	case 1:
		return true
	case 2:
		return false
	}
	if b.IsB {
		bv := ByteV{Root: b.BRoot, Idx: b.BIdx}
		m := e.mask(st, bv).and(b.BTrue)
		if m.empty() {
			return false
		}
		e.setMask(st, bv, m)
		e.maskAxioms(st, bv)
		return !st.dead
	}
	switch b.Rel {
	case 1:
		st.add(b.L)
	case 2:
		st.add(b.L)
		st.add(b.L.Neg())
	case 3:
		if e.proveLE(st, b.L, K(0)) {
			st.add(b.L.AddK(1))
		} else if e.proveLE(st, K(0), b.L) {
			st.add(b.L.Neg().AddK(1))
		} else {
			return true
		}
	default:
		return true
	}
	return e.feasible(st)
}

func cmpInt(op token.Token, a, b int64) bool {
	switch op {
	case token.EQL:
		return a == b
	case token.NEQ:
		return a != b
	case token.LSS:
		return a < b
	case token.LEQ:
		return a <= b
	case token.GTR:
		return a > b
	case token.GEQ:
		return a >= b
	}
	return false
}

func (e *Engine) binop(st *State, fr *Frame, x *ssa.BinOp) AVal {
	a, b := e.val(st, fr, x.X), e.val(st, fr, x.Y)
	isCmp := false
	switch x.Op {
	case token.EQL, token.NEQ, token.LSS, token.LEQ, token.GTR, token.GEQ:
		isCmp = true
	}
	// function values against nil (`if parse != nil { parse(s) }`): both sides are known functions
	if fa, ok := a.(FuncV); ok && (x.Op == token.EQL || x.Op == token.NEQ) {
		if fb, ok := b.(FuncV); ok && (fa.Fn == nil || fb.Fn == nil) {
			eq := fa.Fn == fb.Fn
			if eq == (x.Op == token.EQL) {
				return BoolV{Known: 1}
			}
			return BoolV{Known: 2}
		}
	}
	// constant on the left: swap for byte tests
	if _, okc := constOf(a); okc {
		if bb, ok := b.(ByteV); ok && bb.Root >= 0 && isCmp {
			sw := map[token.Token]token.Token{token.EQL: token.EQL, token.NEQ: token.NEQ, token.LSS: token.GTR, token.LEQ: token.GEQ, token.GTR: token.LSS, token.GEQ: token.LEQ}
			a, b = b, a
			return e.byteTest(st, a.(ByteV), b, sw[x.Op], x)
		}
	}
	if ab, ok := a.(ByteV); ok && ab.Root >= 0 {
		if c, ok := constOf(b); ok {
			if isCmp {
				return e.byteTest(st, ab, b, x.Op, x)
			}
			tb, _ := x.Type().Underlying().(*types.Basic)
			tab := new([256]int)
			okop := true
			for v := 0; v < 256; v++ {
				val := v
				if ab.Tab != nil {
					val = ab.Tab[v]
				}
				var r int
				switch x.Op {
				case token.SUB:
					r = val - int(c)
				case token.ADD:
					r = val + int(c)
				case token.OR:
					r = val | int(c)
				case token.AND:
					r = val & int(c)
				case token.XOR:
					r = val ^ int(c)
				default:
					okop = false
				}
				if tb != nil && tb.Kind() == types.Uint8 {
					r &= 0xff
				}
				tab[v] = r
			}
			if okop {
				return ByteV{Root: ab.Root, Idx: ab.Idx, Tab: tab}
			}
		}
		if bb, ok := b.(ByteV); ok && isCmp && bb.Root >= 0 && ab.Tab == nil && bb.Tab == nil && (x.Op == token.EQL || x.Op == token.NEQ) {
			ma, mb := e.mask(st, ab), e.mask(st, bb)
			if ma.and(mb).empty() {
				if x.Op == token.EQL {
					return BoolV{Known: 2}
				}
				return BoolV{Known: 1}
			}
			// equal bytes: the right one takes a value the left one can have (one-sided)
			w := BoolV{IsB: true, BRoot: bb.Root, BIdx: bb.Idx, BTrue: ma, Weak: true}
			if x.Op == token.NEQ {
				return negWeak(w)
			}
			return w
		}
	}
	if _, isStr := a.(StrV); !isStr {
		la, oka := e.asInt(st, a)
		lb, okb := e.asInt(st, b)
		if oka && okb {
			switch x.Op {
			case token.ADD:
				return IntV{la.Add(lb)}
			case token.SUB:
				return IntV{la.Sub(lb)}
			case token.MUL:
				if la.IsConst() {
					return IntV{lb.Scale(la.C)}
				}
				if lb.IsConst() {
					return IntV{la.Scale(lb.C)}
				}
			case token.REM:
				if lb.IsConst() && lb.C > 0 {
					s := e.newSym("rem")
					st.addLE(K(-lb.C+1), V(s))
					st.addLE(V(s), K(lb.C-1))
					if e.proveLE(st, K(0), la) {
						st.addLE(K(0), V(s))
					}
					return IntV{V(s)}
				}
				e.Check(st, fr, x.Pos(), "B-lib", "division "+canonExpr(x), lb.IsConst() && lb.C != 0 || e.proveLE(st, K(1), lb) || e.proveLE(st, lb, K(-1)), "divisor may be zero")
			case token.QUO:
				e.Check(st, fr, x.Pos(), "B-lib", "division "+canonExpr(x), lb.IsConst() && lb.C != 0 || e.proveLE(st, K(1), lb) || e.proveLE(st, lb, K(-1)), "divisor may be zero")
			case token.AND:
				// x & mask with a non-negative constant mask is within [0, mask]
				if lb.IsConst() && lb.C >= 0 {
					s := e.newSym("and")
					st.addLE(K(0), V(s))
					st.addLE(V(s), K(lb.C))
					return IntV{V(s)}
				}
			}
			if isCmp {
				return cmpBool(x.Op, la, lb)
			}
			return IntV{V(e.newSym("binop" + x.Op.String()))}
		}
	}
	if sa, ok := a.(StrV); ok {
		if sb, ok := b.(StrV); ok && x.Op == token.ADD {
			r := e.newSym("concat")
			st.addEQ(V(r), strLen(sa).Add(strLen(sb)))
			st.addLE(K(0), V(r))
			return StrV{Root: r, Lo: K(0), Hi: V(r)}
		}
		if isCmp {
			return BoolV{}
		}
	}
	if isCmp {
		// comparisons of bools / funcs / pointers
		if ba, ok := a.(BoolV); ok {
			if bb, ok := b.(BoolV); ok && ba.Known != 0 && bb.Known != 0 {
				eq := ba.Known == bb.Known
				if x.Op == token.NEQ {
					eq = !eq
				}
				if eq {
					return BoolV{Known: 1}
				}
				return BoolV{Known: 2}
			}
		}
		return BoolV{}
	}
	return e.freshOfType(st, x.Type(), "binop")
}

func (e *Engine) byteTest(st *State, ab ByteV, b AVal, op token.Token, x *ssa.BinOp) AVal {
	c, _ := constOf(b)
	var m Mask
	// unsigned comparison semantics for uint8 operands; ints compare as ints
	for v := 0; v < 256; v++ {
		val := v
		if ab.Tab != nil {
			val = ab.Tab[v]
		}
		if cmpInt(op, int64(val), c) {
			m.set(v)
		}
	}
	return BoolV{IsB: true, BRoot: ab.Root, BIdx: ab.Idx, BTrue: m}
}

var _ = strings.HasPrefix

// maskAxioms: two bytes of the same root whose masks are disjoint sit at
// different offsets; when their order is known the gap is at least one.
func (e *Engine) maskAxioms(st *State, b ByteV) {
	k := e.findByteKey(st, b)
	me, ok := st.masks[k]
	if !ok {
		return
	}
	for _, k2 := range sortedMaskKeys(st) {
		o := st.masks[k2]
		if k2 == k || o.Root != me.Root || !o.M.and(me.M).empty() {
			continue
		}
		d := me.Idx.Sub(o.Idx)
		if d.IsConst() {
			if d.C == 0 {
				st.dead = true
			}
			continue
		}
		if e.proveLE(st, o.Idx, me.Idx) {
			st.addLE(o.Idx.AddK(1), me.Idx)
		} else if e.proveLE(st, me.Idx, o.Idx) {
			st.addLE(me.Idx.AddK(1), o.Idx)
		}
	}
}

// indexAddr executes &X[idx] on one state.
func (e *Engine) indexAddr(st *State, fr *Frame, x *ssa.IndexAddr, idx Lin, iok bool) {
	set := func(v ssa.Value, a AVal) { st.vals[vkey{fr.id, v}] = a }
	switch b := e.val(st, fr, x.X).(type) {
	case PtrV: // pointer to array
		arr, isArr := b.T.Underlying().(*types.Array)
		if !isArr {
			e.Check(st, fr, x.Pos(), "B-idx", canonExpr(x), false, "unknown array base")
			set(x, e.unk())
			break
		}
		ok := iok && e.proveLE(st, K(0), idx) && e.proveLT(st, idx, K(arr.Len()))
		e.Check(st, fr, x.Pos(), "B-idx", canonExpr(x), ok, fmt.Sprintf("cannot show 0 ≤ %s < %d", e.LinStr(idx), arr.Len()))
		set(x, PtrV{Key: b.Key + "[" + idx.Key() + "]", Arr: b.Key, Idx: idx, T: arr.Elem()})
	case SliceV:
		ok := iok && e.proveLE(st, K(0), idx) && e.proveLT(st, idx, b.Len)
		e.Check(st, fr, x.Pos(), "B-idx", canonExpr(x), ok, fmt.Sprintf("cannot show 0 ≤ %s < %s (len of %s)", e.LinStr(idx), e.LinStr(b.Len), b.Name))
		set(x, PtrV{Key: b.Name + "[" + idx.Key() + "]", Arr: b.Name, Idx: idx, T: x.Type().(*types.Pointer).Elem()})
	default:
		e.Check(st, fr, x.Pos(), "B-idx", canonExpr(x), false, "unknown slice/array base")
		set(x, e.unk())
	}
}
