package absint

import (
	"math/big"
	"math/bits"
	"sort"
	"strings"
)

// Exact rational simplex (phase 1 only: feasibility of {L_i ≤ 0}).  Fractions
// of int64 with overflow detection; on overflow the query is re-run with
// math/big.  Entailment S ⊨ g is decided as infeasibility of S ∧ ¬g, with
// ¬(L ≤ 0) tightened to L ≥ 1 (integers), over the constraints connected to g.

type LP struct {
	cache     map[string]bool
	Calls     int
	CacheHits int
	BigRuns   int
	SumCons   int
	MaxCons   int
	Tag       string
	ByTag     map[string]int
}

func NewLP() *LP { return &LP{cache: map[string]bool{}, ByTag: map[string]int{}} }

type frac struct{ n, d int64 } // d > 0

type fracCtx struct{ ovf bool }

func abs64(a int64) int64 {
	if a < 0 {
		return -a
	}
	return a
}

func (c *fracCtx) mul(a, b int64) int64 {
	if a == 0 || b == 0 {
		return 0
	}
	hi, lo := bits.Mul64(uint64(abs64(a)), uint64(abs64(b)))
	if hi != 0 || lo > 1<<62 {
		c.ovf = true
		return 0
	}
	r := int64(lo)
	if (a < 0) != (b < 0) {
		r = -r
	}
	return r
}

func (c *fracCtx) add(a, b int64) int64 {
	r := a + b
	if (a > 0 && b > 0 && r < 0) || (a < 0 && b < 0 && r >= 0) || abs64(r) > 1<<62 {
		c.ovf = true
		return 0
	}
	return r
}

func (c *fracCtx) norm(n, d int64) frac {
	if d < 0 {
		n, d = -n, -d
	}
	if n == 0 {
		return frac{0, 1}
	}
	g := gcd64(abs64(n), d)
	return frac{n / g, d / g}
}

func (c *fracCtx) fsub(a, b frac) frac { // a - b
	if b.n == 0 {
		return a
	}
	return c.norm(c.add(c.mul(a.n, b.d), -c.mul(b.n, a.d)), c.mul(a.d, b.d))
}

func (c *fracCtx) fmul(a, b frac) frac {
	if a.n == 0 || b.n == 0 {
		return frac{0, 1}
	}
	return c.norm(c.mul(a.n, b.n), c.mul(a.d, b.d))
}

func (c *fracCtx) fdiv(a, b frac) frac { // b != 0
	if a.n == 0 {
		return frac{0, 1}
	}
	return c.norm(c.mul(a.n, b.d), c.mul(a.d, b.n))
}

func fcmp(c *fracCtx, a, b frac) int { // sign(a - b)
	l, r := c.mul(a.n, b.d), c.mul(b.n, a.d)
	switch {
	case l < r:
		return -1
	case l > r:
		return 1
	}
	return 0
}

func consKey(cons []Lin) string {
	ks := make([]string, len(cons))
	for i, c := range cons {
		ks[i] = c.Key()
	}
	sort.Strings(ks)
	return strings.Join(ks, ";")
}

// Feasible: is there a rational point with every L ≤ 0?
func (lp *LP) Feasible(cons []Lin) bool {
	// trivial constants
	var live []Lin
	for _, c := range cons {
		if c.IsConst() {
			if c.C > 0 {
				return false
			}
			continue
		}
		live = append(live, c)
	}
	if len(live) == 0 {
		return true
	}
	k := consKey(live)
	if v, ok := lp.cache[k]; ok {
		lp.CacheHits++
		return v
	}
	lp.Calls++
	lp.ByTag[lp.Tag]++
	lp.SumCons += len(live)
	if len(live) > lp.MaxCons {
		lp.MaxCons = len(live)
	}
	v, ok := feasibleFrac(live)
	if !ok {
		lp.BigRuns++
		v = feasibleBig(live)
	}
	lp.cache[k] = v
	return v
}

// slice keeps the constraints connected to the symbols of goal, following at
// most `rounds` hops (rounds < 0: the whole connected component).  Dropping
// premises is always sound for entailment.
func slice(cons []Lin, goal Lin, rounds int) ([]Lin, bool) {
	if len(cons) <= 3 {
		return cons, true
	}
	want := map[Sym]bool{}
	for _, t := range goal.T {
		want[t.S] = true
	}
	used := make([]bool, len(cons))
	var out []Lin
	complete := true
	for r := 0; ; r++ {
		if rounds >= 0 && r >= rounds {
			// is anything still connectable?
			for i, c := range cons {
				if used[i] {
					continue
				}
				for _, t := range c.T {
					if want[t.S] {
						complete = false
					}
				}
			}
			break
		}
		var add []Sym
		changed := false
		for i, c := range cons {
			if used[i] {
				continue
			}
			hit := false
			for _, t := range c.T {
				if want[t.S] {
					hit = true
					break
				}
			}
			if hit {
				used[i] = true
				changed = true
				out = append(out, c)
				for _, t := range c.T {
					if !want[t.S] {
						add = append(add, t.S)
					}
				}
			}
		}
		for _, s := range add {
			want[s] = true
		}
		if !changed {
			break
		}
	}
	return out, complete
}

// Entails: cons ⊨ goal ≤ 0 (integer semantics for the negation).
func (lp *LP) Entails(cons []Lin, goal Lin) bool { return lp.entails(cons, goal, true) }

// EntailsQuick uses a bounded-depth premise slice only (sound, less complete):
// meant for the many candidate tests of joins, most of which fail.
func (lp *LP) EntailsQuick(cons []Lin, goal Lin) bool { return lp.entails(cons, goal, false) }

func (lp *LP) entails(cons []Lin, goal Lin, full bool) bool {
	if goal.IsConst() {
		return goal.C <= 0
	}
	neg := goal.Neg().AddK(1) // -L + 1 ≤ 0
	rel, complete := slice(cons, goal, 6)
	q := make([]Lin, 0, len(rel)+1)
	q = append(q, rel...)
	q = append(q, neg)
	if !lp.Feasible(q) {
		return true
	}
	if complete || !full {
		return false
	}
	rel, _ = slice(cons, goal, -1)
	q = q[:0]
	q = append(q, rel...)
	q = append(q, neg)
	return !lp.Feasible(q)
}

// feasibleFrac: simplex over int64 fractions; ok=false on overflow.
func feasibleFrac(cons []Lin) (bool, bool) {
	ctx := &fracCtx{}
	idx := map[Sym]int{}
	for _, c := range cons {
		for _, t := range c.T {
			if _, ok := idx[t.S]; !ok {
				idx[t.S] = len(idx)
			}
		}
	}
	n := len(idx)
	m := len(cons)
	// columns: 2n structural, m slack, artificial for rows with negative rhs, then rhs
	var art []int
	rhs := make([]int64, m)
	for i, c := range cons {
		rhs[i] = -c.C
		if rhs[i] < 0 {
			art = append(art, i)
		}
	}
	if len(art) == 0 {
		return true, true
	}
	nv := 2*n + m
	na := len(art)
	tot := nv + na
	zero := frac{0, 1}
	T := make([][]frac, m)
	basis := make([]int, m)
	for i, c := range cons {
		row := make([]frac, tot+1)
		for j := range row {
			row[j] = zero
		}
		for _, t := range c.T {
			row[idx[t.S]] = frac{t.K, 1}
			row[n+idx[t.S]] = frac{-t.K, 1}
		}
		row[2*n+i] = frac{1, 1}
		row[tot] = frac{rhs[i], 1}
		T[i] = row
		basis[i] = 2*n + i
	}
	for k, i := range art {
		for j := 0; j <= tot; j++ {
			T[i][j].n = -T[i][j].n
		}
		T[i][nv+k] = frac{1, 1}
		basis[i] = nv + k
	}
	z := make([]frac, tot+1)
	for j := range z {
		z[j] = zero
	}
	for _, i := range art {
		for j := 0; j <= tot; j++ {
			if j >= nv && j < tot {
				continue
			}
			z[j] = ctx.fsub(z[j], T[i][j])
		}
	}
	for iter := 0; iter < 5000; iter++ {
		if ctx.ovf {
			return false, false
		}
		e := -1
		for j := 0; j < tot; j++ {
			if z[j].n < 0 {
				e = j
				break
			}
		}
		if e < 0 {
			break
		}
		l := -1
		var best frac
		for i := 0; i < m; i++ {
			if T[i][e].n > 0 {
				r := ctx.fdiv(T[i][tot], T[i][e])
				if l < 0 {
					l, best = i, r
				} else {
					cm := fcmp(ctx, r, best)
					if cm < 0 || (cm == 0 && basis[i] < basis[l]) {
						l, best = i, r
					}
				}
			}
		}
		if l < 0 {
			break
		}
		p := T[l][e]
		for j := 0; j <= tot; j++ {
			if T[l][j].n != 0 {
				T[l][j] = ctx.fdiv(T[l][j], p)
			}
		}
		for i := 0; i < m; i++ {
			if i != l && T[i][e].n != 0 {
				f := T[i][e]
				for j := 0; j <= tot; j++ {
					if T[l][j].n != 0 {
						T[i][j] = ctx.fsub(T[i][j], ctx.fmul(f, T[l][j]))
					}
				}
			}
		}
		if z[e].n != 0 {
			f := z[e]
			for j := 0; j <= tot; j++ {
				if T[l][j].n != 0 {
					z[j] = ctx.fsub(z[j], ctx.fmul(f, T[l][j]))
				}
			}
		}
		basis[l] = e
		if iter == 4999 {
			return false, false
		}
	}
	if ctx.ovf {
		return false, false
	}
	return z[tot].n == 0, true
}

// feasibleBig: the same algorithm over math/big (fallback).
func feasibleBig(cons []Lin) bool {
	idx := map[Sym]int{}
	for _, c := range cons {
		for _, t := range c.T {
			if _, ok := idx[t.S]; !ok {
				idx[t.S] = len(idx)
			}
		}
	}
	n := len(idx)
	m := len(cons)
	var art []int
	for i, c := range cons {
		if -c.C < 0 {
			art = append(art, i)
		}
	}
	if len(art) == 0 {
		return true
	}
	nv := 2*n + m
	na := len(art)
	tot := nv + na
	T := make([][]*big.Rat, m)
	basis := make([]int, m)
	for i, c := range cons {
		row := make([]*big.Rat, tot+1)
		for j := range row {
			row[j] = new(big.Rat)
		}
		for _, t := range c.T {
			row[idx[t.S]].SetInt64(t.K)
			row[n+idx[t.S]].SetInt64(-t.K)
		}
		row[2*n+i].SetInt64(1)
		row[tot].SetInt64(-c.C)
		T[i] = row
		basis[i] = 2*n + i
	}
	for k, i := range art {
		for j := 0; j <= tot; j++ {
			T[i][j].Neg(T[i][j])
		}
		T[i][nv+k].SetInt64(1)
		basis[i] = nv + k
	}
	z := make([]*big.Rat, tot+1)
	for j := range z {
		z[j] = new(big.Rat)
	}
	for _, i := range art {
		for j := 0; j <= tot; j++ {
			if j >= nv && j < tot {
				continue
			}
			z[j].Sub(z[j], T[i][j])
		}
	}
	tmp := new(big.Rat)
	for iter := 0; iter < 20000; iter++ {
		e := -1
		for j := 0; j < tot; j++ {
			if z[j].Sign() < 0 {
				e = j
				break
			}
		}
		if e < 0 {
			break
		}
		l := -1
		var best *big.Rat
		for i := 0; i < m; i++ {
			if T[i][e].Sign() > 0 {
				r := new(big.Rat).Quo(T[i][tot], T[i][e])
				if l < 0 || r.Cmp(best) < 0 || (r.Cmp(best) == 0 && basis[i] < basis[l]) {
					l, best = i, r
				}
			}
		}
		if l < 0 {
			break
		}
		p := new(big.Rat).Set(T[l][e])
		for j := 0; j <= tot; j++ {
			T[l][j].Quo(T[l][j], p)
		}
		for i := 0; i < m; i++ {
			if i != l && T[i][e].Sign() != 0 {
				f := new(big.Rat).Set(T[i][e])
				for j := 0; j <= tot; j++ {
					tmp.Mul(f, T[l][j])
					T[i][j].Sub(T[i][j], tmp)
				}
			}
		}
		if z[e].Sign() != 0 {
			f := new(big.Rat).Set(z[e])
			for j := 0; j <= tot; j++ {
				tmp.Mul(f, T[l][j])
				z[j].Sub(z[j], tmp)
			}
		}
		basis[l] = e
	}
	return z[tot].Sign() == 0
}
