// Package absint is E3: a relational abstract interpreter over go/ssa with a
// linear-inequality domain (entailment by an exact rational simplex), byte
// masks, string descriptors and a field-sensitive heap.  It discharges
// bounds / progress / span obligations for every input at once.
package absint

import (
	"sort"
	"strconv"
)

// Sym is a symbol (an unknown integer).
type Sym int32

type term struct {
	S Sym
	K int64
}

// Lin is C + Σ K_i·S_i with terms sorted by symbol, no zero coefficients.
type Lin struct {
	C int64
	T []term
}

func K(c int64) Lin { return Lin{C: c} }
func V(s Sym) Lin   { return Lin{T: []term{{s, 1}}} }

func (a Lin) IsConst() bool { return len(a.T) == 0 }

func (a Lin) Add(b Lin) Lin {
	r := Lin{C: a.C + b.C}
	if len(a.T)+len(b.T) > 0 {
		r.T = make([]term, 0, len(a.T)+len(b.T))
	}
	i, j := 0, 0
	for i < len(a.T) && j < len(b.T) {
		switch {
		case a.T[i].S < b.T[j].S:
			r.T = append(r.T, a.T[i])
			i++
		case a.T[i].S > b.T[j].S:
			r.T = append(r.T, b.T[j])
			j++
		default:
			if k := a.T[i].K + b.T[j].K; k != 0 {
				r.T = append(r.T, term{a.T[i].S, k})
			}
			i++
			j++
		}
	}
	r.T = append(r.T, a.T[i:]...)
	r.T = append(r.T, b.T[j:]...)
	return r
}

func (a Lin) Scale(k int64) Lin {
	if k == 0 {
		return Lin{}
	}
	r := Lin{C: a.C * k}
	if len(a.T) > 0 {
		r.T = make([]term, len(a.T))
		for i, t := range a.T {
			r.T[i] = term{t.S, t.K * k}
		}
	}
	return r
}

func (a Lin) Sub(b Lin) Lin    { return a.Add(b.Scale(-1)) }
func (a Lin) AddK(k int64) Lin { return Lin{C: a.C + k, T: a.T} }
func (a Lin) Neg() Lin         { return a.Scale(-1) }

func (a Lin) Coef(s Sym) int64 {
	for _, t := range a.T {
		if t.S == s {
			return t.K
		}
	}
	return 0
}

func (a Lin) Has(s Sym) bool { return a.Coef(s) != 0 }

// Subst replaces s by e.
func (a Lin) Subst(s Sym, e Lin) Lin {
	k := a.Coef(s)
	if k == 0 {
		return a
	}
	r := Lin{C: a.C}
	r.T = make([]term, 0, len(a.T))
	for _, t := range a.T {
		if t.S != s {
			r.T = append(r.T, t)
		}
	}
	return r.Add(e.Scale(k))
}

func (a Lin) Key() string {
	buf := make([]byte, 0, 8+12*len(a.T))
	buf = strconv.AppendInt(buf, a.C, 10)
	return string(appendTerms(buf, a.T))
}

// TermsKey identifies the linear part (without the constant).
func (a Lin) TermsKey() string {
	return string(appendTerms(make([]byte, 0, 12*len(a.T)), a.T))
}

func appendTerms(buf []byte, ts []term) []byte {
	for _, t := range ts {
		if t.K >= 0 {
			buf = append(buf, '+')
		}
		buf = strconv.AppendInt(buf, t.K, 10)
		buf = append(buf, '*', 'x')
		buf = strconv.AppendInt(buf, int64(t.S), 10)
	}
	return buf
}

func (a Lin) Equal(b Lin) bool {
	if a.C != b.C || len(a.T) != len(b.T) {
		return false
	}
	for i := range a.T {
		if a.T[i] != b.T[i] {
			return false
		}
	}
	return true
}

// Syms lists the symbols of a.
func (a Lin) Syms() []Sym {
	out := make([]Sym, len(a.T))
	for i, t := range a.T {
		out[i] = t.S
	}
	return out
}

// normalise divides by the gcd of the coefficients (for constraints L ≤ 0
// over integers: floor the constant).
func (a Lin) normLE() Lin {
	if len(a.T) == 0 {
		return a
	}
	g := int64(0)
	for _, t := range a.T {
		k := t.K
		if k < 0 {
			k = -k
		}
		g = gcd64(g, k)
	}
	if g <= 1 {
		return a
	}
	r := Lin{T: make([]term, len(a.T))}
	for i, t := range a.T {
		r.T[i] = term{t.S, t.K / g}
	}
	// Σ ≤ -C  ⇒  Σ/g ≤ floor(-C/g)  ⇒ const = -floor(-C/g) = ceil(C/g)
	r.C = ceilDiv(a.C, g)
	return r
}

func gcd64(a, b int64) int64 {
	for b != 0 {
		a, b = b, a%b
	}
	return a
}

func ceilDiv(a, b int64) int64 { // b > 0
	q := a / b
	if a%b != 0 && a > 0 {
		q++
	}
	return q
}

func sortSyms(s []Sym) { sort.Slice(s, func(i, j int) bool { return s[i] < s[j] }) }
