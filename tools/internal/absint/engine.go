package absint

import (
	"fmt"
	"go/constant"
	"go/token"
	"go/types"
	"sort"
	"strings"
	"time"

	"golang.org/x/tools/go/ssa"

	"verif/tools/internal/core"
	"verif/tools/internal/ssax"
	"verif/tools/internal/tables"
)

// Ob is one obligation, aggregated over all contexts in which it was met.
type Ob struct {
	Rule, Fn, Expr, Pos string
	OK, Bad             int
	Why                 string
}

func (o *Ob) Key() string { return o.Rule + "|" + o.Fn + "|" + o.Expr }

// StructInv is a declared invariant `0 ≤ len ≤ Max ∧ len ≤ len(val)` of a struct type.
type StructInv struct {
	Type     string
	LenField string
	ValField string
	Max      int64
}

// Summary replaces the inlining of a call by an interface invariant.
type Summary func(e *Engine, st *State, fr *Frame, call *ssa.Call, callee *ssa.Function, args []AVal) ([]*State, bool)

// Hooks let property rules observe calls and returns.
type Hooks struct {
	BeforeCall func(e *Engine, st *State, fr *Frame, call *ssa.Call, callee *ssa.Function, args []AVal)
	AfterCall  func(e *Engine, st *State, fr *Frame, call *ssa.Call, callee *ssa.Function, args []AVal, ret AVal)
	OnReturn   func(e *Engine, st *State, fr *Frame, ret *ssa.Return, val AVal)
	OnStore    func(e *Engine, st *State, fr *Frame, store *ssa.Store, p PtrV, v AVal)
	// OnSearch fires when a forward search (strings.IndexByte / strings.Index) on a
	// non-constant haystack is modelled; prev is the live result of an earlier
	// execution of the same call in this state (nil if none).
	OnSearch func(e *Engine, st *State, fr *Frame, call *ssa.Call, prev *Hit, cur Hit)
	// OnHeadEdge fires (final pass) for every state that reaches a loop head, before
	// it is joined with the others: from outside the loop (back = false) or round the loop.
	OnHeadEdge func(e *Engine, st *State, fr *Frame, from, head *ssa.BasicBlock, back bool)
	// OnScan fires for every other library call that receives a non-constant string
	// (it may look at all of it).
	OnScan func(e *Engine, st *State, fr *Frame, call *ssa.Call, s StrV)
	// Templates supplies linear forms L (read: L ≤ 0) over a freshly joined state
	// that should survive the join whenever every joined side entails them.
	Templates func(e *Engine, joined *State, fr *Frame) []Lin
	// OnRead fires when a byte s[idx] of a non-constant string is read.
	OnRead func(e *Engine, st *State, fr *Frame, at ssa.Instruction, s StrV, idx Lin)
}

type Config struct {
	K         int
	MaxDepth  int
	MaxInline int
	MaxLP     int                 // entailment-query budget per root (0: default 150000)
	Deadline  time.Time           // wall-clock limit of this run (zero: none); only set for escalated re-runs, exceeding it is an R-depth failure
	TableLens map[string]int64    // global slice name → length
	TableRng  map[string][2]int64 // global int table → value range
	TableVals map[string][]int64  // global byte/int table → contents (from E2)
	Dispatch  map[int]*ssa.Function
	DispVar   string
	Inv       []StructInv
	Summaries map[*ssa.Function]Summary
	Hooks     Hooks
	Trace     bool
	Peel      bool // peel the first iteration of loops (functions ≤ 60 blocks)
	// GhostDefault gives the value a ghost cell (object key "GHOST:…") stands for
	// when a path never wrote it; joins complete missing cells with it.
	GhostDefault func(obj, field string) (AVal, bool)
	ResultCap    int // outcomes of an inlined callee kept apart before coarse merging (default K)
	// Closed gives the value of a package-level variable whose initialiser is closed
	// (evaluated by the E2 closed evaluator); see closed.go.
	Closed func(name string) (tables.Val, bool)
}

type Frame struct {
	id     int
	fn     *ssa.Function
	depth  int
	path   string
	occ    map[string]int
	caller *Frame
	site   ssa.Instruction
}

func (fr *Frame) Fn() *ssa.Function { return fr.fn }
func (fr *Frame) Depth() int        { return fr.depth }
func (fr *Frame) ID() int           { return fr.id }
func (fr *Frame) Caller() *Frame    { return fr.caller }

// Logging reports whether obligations are being recorded (the final pass).
func (e *Engine) Logging() bool { return e.logging }

// Root returns the outermost frame.
func (fr *Frame) Root() *Frame {
	for fr.caller != nil {
		fr = fr.caller
	}
	return fr
}

// InCallChain reports whether fn is this frame or one of its callers.
func (fr *Frame) InCallChain(fn *ssa.Function) bool {
	for f := fr; f != nil; f = f.caller {
		if f.fn == fn {
			return true
		}
	}
	return false
}

type Engine struct {
	P   *core.Program
	Cfg Config
	LP  *LP

	symNames  []string
	symIntern map[string]Sym
	frameIDs  map[string]int
	joinSyms  map[string]Sym
	byteOrig  map[Sym]ByteV // int symbol introduced for a byte value → the byte

	Pinned  map[Sym]bool // symbols hooks refer to from outside the state
	Obs     map[string]*Ob
	logging bool
	curFr   *Frame
	curIns  interface{}
	unkCtr  int
	Inlined int
	Loops   []LoopInfo

	closedCache map[string]closedEntry
	closedNames map[string]*tables.Slice
	localTabs   map[*ssa.Alloc]int
}

func NewEngine(p *core.Program, cfg Config) *Engine {
	if cfg.K == 0 {
		cfg.K = 8
	}
	if cfg.MaxDepth == 0 {
		cfg.MaxDepth = 14
	}
	if cfg.MaxLP == 0 {
		cfg.MaxLP = 150000
	}
	if cfg.MaxInline == 0 {
		cfg.MaxInline = 20000
	}
	return &Engine{P: p, Cfg: cfg, LP: NewLP(), symIntern: map[string]Sym{}, frameIDs: map[string]int{}, joinSyms: map[string]Sym{}, byteOrig: map[Sym]ByteV{}, Obs: map[string]*Ob{}, logging: true, Pinned: map[Sym]bool{}}
}

func (e *Engine) unk() AVal { e.unkCtr++; return UnkV{e.unkCtr} }

// newSym returns a symbol named deterministically by (frame path, current
// instruction, name, occurrence within the current pass of that frame).
func (e *Engine) newSym(name string) Sym {
	if e.curFr == nil {
		e.symNames = append(e.symNames, name)
		return Sym(len(e.symNames) - 1)
	}
	k := fmt.Sprintf("%p|%s", e.curIns, name)
	n := e.curFr.occ[k]
	e.curFr.occ[k] = n + 1
	full := fmt.Sprintf("%s|%s#%d", e.curFr.path, k, n)
	if s, ok := e.symIntern[full]; ok {
		return s
	}
	e.symNames = append(e.symNames, name)
	s := Sym(len(e.symNames) - 1)
	e.symIntern[full] = s
	return s
}

func (e *Engine) SymName(s Sym) string {
	if int(s) < len(e.symNames) && s >= 0 {
		return fmt.Sprintf("%s#%d", e.symNames[s], int(s))
	}
	return fmt.Sprintf("x%d", int(s))
}

// LinStr renders a linear form with symbol names.
func (e *Engine) LinStr(a Lin) string {
	var parts []string
	for _, t := range a.T {
		n := e.SymName(t.S)
		switch {
		case t.K == 1:
			parts = append(parts, "+"+n)
		case t.K == -1:
			parts = append(parts, "-"+n)
		default:
			parts = append(parts, fmt.Sprintf("%+d*%s", t.K, n))
		}
	}
	if a.C != 0 || len(parts) == 0 {
		parts = append(parts, fmt.Sprintf("%+d", a.C))
	}
	return strings.TrimPrefix(strings.Join(parts, ""), "+")
}

func (e *Engine) jsym(key, name string) Sym {
	if s, ok := e.joinSyms[key]; ok {
		return s
	}
	e.symNames = append(e.symNames, name)
	s := Sym(len(e.symNames) - 1)
	e.joinSyms[key] = s
	return s
}

func (e *Engine) newFrame(caller *Frame, fn *ssa.Function, site ssa.Instruction) *Frame {
	var path string
	depth := 0
	if caller == nil {
		path = "root:" + fn.String()
	} else {
		pk := fmt.Sprintf("%p|%s", site, fn.Name())
		n := caller.occ["call|"+pk]
		caller.occ["call|"+pk] = n + 1
		path = fmt.Sprintf("%s/%s#%d", caller.path, pk, n)
		depth = caller.depth + 1
	}
	id, ok := e.frameIDs[path]
	if !ok {
		id = len(e.frameIDs) + 1
		e.frameIDs[path] = id
	}
	return &Frame{id: id, fn: fn, depth: depth, path: path, occ: map[string]int{}, caller: caller, site: site}
}

// ---------------------------------------------------------------- obligations

// Check records one obligation instance.
func (e *Engine) Check(st *State, fr *Frame, pos token.Pos, rule, expr string, ok bool, why string) {
	if !e.logging {
		return
	}
	fn := core.QualName(fr.fn)
	k := rule + "|" + fn + "|" + expr
	o := e.Obs[k]
	if o == nil {
		o = &Ob{Rule: rule, Fn: fn, Expr: expr, Pos: e.P.Pos(pos)}
		e.Obs[k] = o
	}
	if !ok && st != nil && !e.feasible(st) {
		ok = true // unreachable context
		st.dead = true
	}
	if ok {
		o.OK++
	} else {
		o.Bad++
		if o.Why == "" {
			o.Why = why
		}
	}
}

// SortedObs returns the obligations sorted by key.
func (e *Engine) SortedObs() []*Ob {
	var out []*Ob
	for _, o := range e.Obs {
		out = append(out, o)
	}
	sort.Slice(out, func(i, j int) bool { return out[i].Key() < out[j].Key() })
	return out
}

// ---------------------------------------------------------------- proving

func (e *Engine) proveLE(s *State, a, b Lin) bool {
	d := a.Sub(b)
	if d.IsConst() {
		return d.C <= 0
	}
	return e.LP.Entails(s.cons, d.normLE())
}
func (e *Engine) proveLT(s *State, a, b Lin) bool { return e.proveLE(s, a.AddK(1), b) }
func (e *Engine) proveEQ(s *State, a, b Lin) bool { return e.proveLE(s, a, b) && e.proveLE(s, b, a) }

// ProveLE / ProveEQ are exported for rule hooks.
func (e *Engine) ProveLE(s *State, a, b Lin) bool { return e.proveLE(s, a, b) }
func (e *Engine) ProveEQ(s *State, a, b Lin) bool { return e.proveEQ(s, a, b) }

func (e *Engine) feasible(s *State) bool {
	if s.dead {
		return false
	}
	defer func(t string) { e.LP.Tag = t }(e.LP.Tag)
	e.LP.Tag = "feasible"
	for _, m := range s.masks {
		if m.M.empty() {
			s.dead = true
			return false
		}
	}
	if !e.LP.Feasible(s.cons) {
		s.dead = true
		return false
	}
	return true
}

// ---------------------------------------------------------------- byte masks

func (e *Engine) findByteKey(s *State, b ByteV) string {
	defer func(t string) { e.LP.Tag = t }(e.LP.Tag)
	e.LP.Tag = "bytekey"
	k := b.bkey()
	if _, ok := s.masks[k]; ok {
		return k
	}
	for _, k2 := range sortedMaskKeys(s) {
		m := s.masks[k2]
		if m.Root == b.Root && e.proveEQ(s, m.Idx, b.Idx) {
			return k2
		}
	}
	return k
}

func (e *Engine) mask(s *State, b ByteV) Mask {
	if b.Root < 0 {
		return maskOf(b.C & 0xff)
	}
	// intersect every recorded fact about this byte: the exact key and all
	// entries whose index is provably the same
	out := fullMask()
	k := b.bkey()
	if m, ok := s.masks[k]; ok {
		out = m.M
	}
	defer func(t string) { e.LP.Tag = t }(e.LP.Tag)
	e.LP.Tag = "bytekey"
	for k2, m := range s.masks {
		if k2 == k || m.Root != b.Root {
			continue
		}
		if e.proveEQ(s, m.Idx, b.Idx) {
			out = out.and(m.M)
		}
	}
	return out
}

func (e *Engine) setMask(s *State, b ByteV, m Mask) {
	k := e.findByteKey(s, b)
	if old, ok := s.masks[k]; ok {
		old.M = m
		s.masks[k] = old
		return
	}
	s.masks[k] = maskEnt{b.Root, b.Idx, m}
}

// valueMask: the possible values of a (possibly mapped) byte value.
func (e *Engine) valueMask(s *State, b ByteV) (lo, hi int, vals map[int]bool) {
	vals = map[int]bool{}
	lo, hi = 1<<30, -(1 << 30)
	if b.Root < 0 {
		return b.C, b.C, map[int]bool{b.C: true}
	}
	m := e.mask(s, b)
	for x := 0; x < 256; x++ {
		if m.has(x) {
			v := x
			if b.Tab != nil {
				v = b.Tab[x]
			}
			vals[v] = true
			if v < lo {
				lo = v
			}
			if v > hi {
				hi = v
			}
		}
	}
	return
}

// ---------------------------------------------------------------- values

func (e *Engine) val(st *State, fr *Frame, v ssa.Value) AVal {
	switch c := v.(type) {
	case *ssa.Const:
		return e.constVal(c)
	case *ssa.Global:
		return PtrV{Key: "G:" + c.Name(), T: c.Type().(*types.Pointer).Elem()}
	case *ssa.Function:
		return FuncV{Fn: c}
	case *ssa.Builtin:
		return e.unk()
	}
	if a, ok := st.vals[vkey{fr.id, v}]; ok && a != nil {
		return a
	}
	return e.unk()
}

// Val is the exported accessor for hooks.
func (e *Engine) Val(st *State, fr *Frame, v ssa.Value) AVal { return e.val(st, fr, v) }

func (e *Engine) constVal(c *ssa.Const) AVal {
	t := c.Type().Underlying()
	if c.Value == nil {
		switch u := t.(type) {
		case *types.Struct:
			return zeroStruct(u)
		case *types.Signature:
			return FuncV{}
		case *types.Pointer:
			return PtrV{Key: "nil", T: u.Elem()}
		case *types.Slice:
			// the nil slice: length 0
			return SliceV{Name: "nil", Len: K(0), Elem: u.Elem()}
		}
		return e.unk()
	}
	switch c.Value.Kind() {
	case constant.Int:
		n, _ := constant.Int64Val(constant.ToInt(c.Value))
		if b, ok := t.(*types.Basic); ok && b.Kind() == types.Uint8 {
			return ByteV{Root: -1, C: int(n)}
		}
		return IntV{K(n)}
	case constant.String:
		s := constant.StringVal(c.Value)
		return StrV{Root: -1, Lo: K(0), Hi: K(int64(len(s))), Const: &s}
	case constant.Bool:
		if constant.BoolVal(c.Value) {
			return BoolV{Known: 1}
		}
		return BoolV{Known: 2}
	}
	return e.unk()
}

func zeroOf(t types.Type) AVal {
	switch u := t.Underlying().(type) {
	case *types.Basic:
		switch {
		case u.Kind() == types.Uint8:
			return ByteV{Root: -1, C: 0}
		case u.Info()&types.IsInteger != 0:
			return IntV{K(0)}
		case u.Kind() == types.String:
			s := ""
			return StrV{Root: -1, Lo: K(0), Hi: K(0), Const: &s}
		case u.Kind() == types.Bool:
			return BoolV{Known: 2}
		}
	case *types.Struct:
		return zeroStruct(u)
	case *types.Signature:
		return FuncV{}
	case *types.Pointer:
		return PtrV{Key: "nil", T: u.Elem()}
	}
	return nil
}

func zeroStruct(st *types.Struct) AVal {
	sv := StructV{F: map[string]AVal{}, T: st}
	for i := 0; i < st.NumFields(); i++ {
		sv.F[st.Field(i).Name()] = zeroOf(st.Field(i).Type())
	}
	return sv
}

// asInt converts a value to a linear form (a fresh bounded symbol for bytes).
func (e *Engine) asInt(st *State, v AVal) (Lin, bool) {
	switch x := v.(type) {
	case IntV:
		return x.L, true
	case ByteV:
		if x.Root < 0 {
			return K(int64(x.C)), true
		}
		s := e.newSym("byteval")
		e.byteOrig[s] = x
		lo, hi, _ := e.valueMask(st, x)
		if lo <= hi {
			st.addLE(K(int64(lo)), V(s))
			st.addLE(V(s), K(int64(hi)))
		}
		return V(s), true
	}
	return Lin{}, false
}

// AsInt is exported for hooks.
func (e *Engine) AsInt(st *State, v AVal) (Lin, bool) { return e.asInt(st, v) }

func constOf(v AVal) (int64, bool) {
	switch x := v.(type) {
	case ByteV:
		if x.Root < 0 {
			return int64(x.C), true
		}
	case IntV:
		if x.L.IsConst() {
			return x.L.C, true
		}
	}
	return 0, false
}

func namedOf(t types.Type) string {
	if n, ok := t.(*types.Named); ok {
		return n.Obj().Name()
	}
	return ""
}

// invFor returns the declared invariant for a pointee type, if any.
func (e *Engine) invFor(t types.Type) *StructInv {
	n := namedOf(t)
	for i := range e.Cfg.Inv {
		if e.Cfg.Inv[i].Type == n && n != "" {
			return &e.Cfg.Inv[i]
		}
	}
	return nil
}

var _ = ssax.ConstInt

// ValStr renders an abstract value for diagnostics.
func (e *Engine) ValStr(v AVal) string {
	switch x := v.(type) {
	case IntV:
		return e.LinStr(x.L)
	case nil:
		return "<none>"
	}
	return fmt.Sprintf("%T", v)
}
