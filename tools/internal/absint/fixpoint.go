package absint

import (
	"fmt"
	"os"
	"sort"
	"strconv"
	"strings"

	"golang.org/x/tools/go/ssa"
)

const maxPass = 12
const widenFrom = 7

type edge struct{ from, to *ssa.BasicBlock }

// LoopInfo records what the ranking rule found for one loop head.
type LoopInfo struct {
	Fn     *ssa.Function
	Head   *ssa.BasicBlock
	Ranked bool
	Why    string
}

func rpo(fn *ssa.Function) []*ssa.BasicBlock {
	seen := map[*ssa.BasicBlock]bool{}
	var post []*ssa.BasicBlock
	var dfs func(b *ssa.BasicBlock)
	dfs = func(b *ssa.BasicBlock) {
		seen[b] = true
		for _, s := range b.Succs {
			if !seen[s] {
				dfs(s)
			}
		}
		post = append(post, b)
	}
	dfs(fn.Blocks[0])
	for i, j := 0, len(post)-1; i < j; i, j = i+1, j-1 {
		post[i], post[j] = post[j], post[i]
	}
	return post
}

type pendDef struct {
	z   Sym
	exp []Lin
}

type passCtx struct {
	fr      *Frame
	order   []*ssa.BasicBlock
	pos     map[*ssa.BasicBlock]int
	isHead  map[*ssa.BasicBlock]bool
	entry   []*State
	back    map[edge][]*State
	heads   map[*ssa.BasicBlock]map[int]*State
	results []Result
	rank    map[*ssa.BasicBlock]rankInfo
}

type rankInfo struct {
	ok    bool
	why   string
	backs int
}

// analyse runs the function of frame fr from the given entry disjuncts to a
// fixpoint and returns the (≤ K) result disjuncts with their return values.
func (e *Engine) analyse(fr *Frame, entry []*State) []Result {
	fn := fr.fn
	if len(fn.Blocks) == 0 {
		return []Result{{st: entry[0], ret: e.unk()}}
	}
	pc := &passCtx{fr: fr, order: rpo(fn), pos: map[*ssa.BasicBlock]int{}, isHead: map[*ssa.BasicBlock]bool{}, entry: entry,
		back: map[edge][]*State{}, heads: map[*ssa.BasicBlock]map[int]*State{}, rank: map[*ssa.BasicBlock]rankInfo{}}
	for i, b := range pc.order {
		pc.pos[b] = i
	}
	hasLoop := false
	for _, b := range pc.order {
		for _, p := range b.Preds {
			if pp, ok := pc.pos[p]; ok && pp >= pc.pos[b] {
				pc.isHead[b] = true
				hasLoop = true
			}
		}
	}
	saveLog := e.logging
	if !hasLoop {
		// single pass, logging as the caller wants
		fr.occ = map[string]int{}
		e.runPass(pc, 0, true)
		e.logging = saveLog
		return e.finishResults(fr, pc.results)
	}
	for pass := 0; ; pass++ {
		e.logging = false
		fr.occ = map[string]int{}
		stable := e.runPass(pc, pass, false)
		if stable || pass >= maxPass {
			if !stable && saveLog {
				e.logging = true
				e.Check(nil, fr, fn.Pos(), "F-converge", "fixpoint of "+fn.Name(), false, "loop invariants did not stabilise within the pass limit")
			}
			// final pass with fixed heads: record obligations
			e.logging = saveLog
			fr.occ = map[string]int{}
			e.runPass(pc, pass+1, true)
			break
		}
	}
	e.logging = saveLog
	return e.finishResults(fr, pc.results)
}

func (e *Engine) finishResults(fr *Frame, results []Result) []Result {
	var live []Result
	for _, r := range results {
		if !r.st.dead {
			live = append(live, r)
		}
	}
	results = live
	// loop lineages of this activation (and of its callees) mean nothing to the caller
	for _, r := range results {
		for k := range r.st.lins {
			if k[0] >= fr.id {
				delete(r.st.lins, k)
			}
		}
	}
	// one disjunct per (return site, known bool result): duplicates produced by
	// loop lineages are merged, semantic distinctions are kept
	// group joins results with equal keys; with limit > 0 it joins only as many
	// groups (largest first) as it takes to get down to limit results
	group := func(keyOf func(r Result) string, tag string, limit int) []Result {
		groups := map[string][]Result{}
		var order []string
		for _, r := range results {
			k := keyOf(r)
			if _, ok := groups[k]; !ok {
				order = append(order, k)
			}
			groups[k] = append(groups[k], r)
		}
		joinG := func(gi int) {
			g := groups[order[gi]]
			var ss []*State
			for _, r := range g {
				r.st.vals[vkey{-fr.id, nil}] = r.ret
				ss = append(ss, r.st)
			}
			j := e.joinAll(ss, fr, fmt.Sprintf("r%d.%s.%d", fr.id, tag, gi), false)
			ret := j.vals[vkey{-fr.id, nil}]
			delete(j.vals, vkey{-fr.id, nil})
			if ret == nil {
				ret = e.unk()
			}
			groups[order[gi]] = []Result{{j, ret, g[0].site}}
		}
		if limit > 0 && len(order) <= limit {
			total := len(results)
			for total > limit {
				best := -1
				for gi, k := range order {
					if n := len(groups[k]); n > 1 && (best < 0 || n > len(groups[order[best]])) {
						best = gi
					}
				}
				total -= len(groups[order[best]]) - 1
				joinG(best)
			}
		} else {
			for gi, k := range order {
				if len(groups[k]) > 1 {
					joinG(gi)
				}
			}
		}
		var out []Result
		for _, k := range order {
			out = append(out, groups[k]...)
		}
		return out
	}
	boolKey := func(r Result) string {
		if b, ok := r.ret.(BoolV); ok && b.Known != 0 {
			return fmt.Sprint(b.Known)
		}
		return "?"
	}
	sites := map[*ssa.Return]bool{}
	for _, r := range results {
		sites[r.site] = true
	}
	if fr.Depth() == 0 {
		return results // nobody consumes a root's results
	}
	K := e.Cfg.K
	if len(results) > len(sites) && len(results) > K/2 {
		results = group(func(r Result) string {
			return fmt.Sprintf("%p|%s|%s|%s", r.site, boolKey(r), partitionKey(r.st), shapeKey(r.st))
		}, "site", 0)
	}
	if e.Cfg.ResultCap > K {
		K = e.Cfg.ResultCap
	}
	if len(results) > K {
		results = group(func(r Result) string {
			return fmt.Sprintf("%p|%s|%s|%s", r.site, boolKey(r), partitionKey(r.st), shapeKeyM(r.st, false))
		}, "site0", K)
	}
	if len(results) > K {
		results = group(func(r Result) string { return fmt.Sprintf("%p|%s|%s", r.site, boolKey(r), partitionKey(r.st)) }, "site1", K)
	}
	if len(results) > K {
		results = group(func(r Result) string { return fmt.Sprintf("%p|%s", r.site, boolKey(r)) }, "site2", K)
	}
	if len(results) > K {
		results = group(func(r Result) string { return boolKey(r) + "|" + partitionKey(r.st) + "|" + shapeKeyM(r.st, false) }, "shape", K)
	}
	if len(results) > K {
		results = group(boolKey, "bool", K)
	}
	return results
}

// runPass executes all blocks once in reverse post-order.  final=true uses the
// stabilised head states as they are (no re-join) and logs obligations.
func (e *Engine) runPass(pc *passCtx, pass int, final bool) bool {
	fr := pc.fr
	fn := fr.fn
	stable := true
	pc.results = nil
	fwd := map[edge][]*State{}
	newBack := map[edge][]*State{}
	put := func(from, to *ssa.BasicBlock, st *State) {
		if len(st.dirty) > 0 {
			// declared invariants are re-proved at every block boundary (before any join)
			last := from.Instrs[len(from.Instrs)-1]
			e.curFr, e.curIns = fr, last
			e.checkDirty(st, fr, func(obj PtrV, ok bool, why string) {
				e.Check(st, fr, last.Pos(), "I-inv", "declared invariant of "+namedOf(obj.T)+" in "+fn.Name(), ok, why)
			})
		}
		if len(st.cons) > 40 {
			e.gc(st)
		}
		ed := edge{from, to}
		if pc.isHead[to] && e.logging && e.Cfg.Hooks.OnHeadEdge != nil && !st.dead {
			e.curFr, e.curIns = fr, from.Instrs[len(from.Instrs)-1]
			e.Cfg.Hooks.OnHeadEdge(e, st, fr, from, to, pc.pos[from] >= pc.pos[to])
		}
		if pc.pos[from] >= pc.pos[to] {
			newBack[ed] = append(newBack[ed], st)
		} else {
			fwd[ed] = append(fwd[ed], st)
		}
	}
	for _, b := range pc.order {
		var ins []*State
		if pc.isHead[b] {
			ins = e.headStates(pc, b, fwd, pass, final, &stable)
		} else {
			if b == fn.Blocks[0] {
				for _, en := range pc.entry {
					ins = append(ins, en.clone())
				}
			}
			for _, p := range b.Preds {
				for _, st := range fwd[edge{p, b}] {
					s2 := st.clone()
					e.curFr, e.curIns = fr, b
					e.bindPhis(s2, fr, p, b, false, 0, nil)
					ins = append(ins, s2)
				}
			}
			if len(ins) > e.Cfg.K {
				ins = e.mergeToK(ins, fr, fmt.Sprintf("m%d.%d", fr.id, b.Index))
			}
		}
		if len(ins) == 0 {
			continue
		}
		cur := ins
		for ii, instr := range b.Instrs {
			switch t := instr.(type) {
			case *ssa.Phi:
				continue
			case *ssa.If:
				for _, st := range cur {
					c, _ := e.val(st, fr, t.Cond).(BoolV)
					ts := st.clone()
					e.curFr, e.curIns = fr, instr
					if e.assume(ts, c) {
						e.applySearchAxioms(ts)
						if !ts.dead {
							put(b, b.Succs[0], ts)
						}
					}
					if e.assume(st, negBool(c)) {
						e.applySearchAxioms(st)
						if !st.dead {
							put(b, b.Succs[1], st)
						}
					}
				}
				cur = nil
			case *ssa.Jump:
				for _, st := range cur {
					put(b, b.Succs[0], st)
				}
				cur = nil
			case *ssa.Return:
				for _, st := range cur {
					e.curFr, e.curIns = fr, instr
					var r AVal = e.unk()
					if len(t.Results) == 1 {
						r = e.val(st, fr, t.Results[0])
					} else if len(t.Results) > 1 {
						tv := TupleV{}
						for _, x := range t.Results {
							tv.E = append(tv.E, e.val(st, fr, x))
						}
						r = tv
					}
					e.checkDirty(st, fr, func(obj PtrV, ok bool, why string) {
						e.Check(st, fr, t.Pos(), "I-inv", "declared invariant of "+namedOf(obj.T)+" in "+fn.Name(), ok, why)
					})
					if e.Cfg.Hooks.OnReturn != nil {
						e.Cfg.Hooks.OnReturn(e, st, fr, t, r)
					}
					pc.results = append(pc.results, Result{st, r, t})
				}
				cur = nil
			default:
				var nxt []*State
				for _, st := range cur {
					e.curFr, e.curIns = fr, instr
					nxt = append(nxt, e.exec(st, fr, instr)...)
				}
				cur = nxt
				// no merge on a straight line to a return: nothing multiplies there
				retNext := false
				if _, isRet := b.Instrs[len(b.Instrs)-1].(*ssa.Return); isRet {
					retNext = true
					for _, rest := range b.Instrs[ii+1:] {
						if _, isCall := rest.(ssa.CallInstruction); isCall {
							retNext = false
						}
					}
				}
				if len(cur) > e.Cfg.K && !retNext {
					cur = e.mergeToK(cur, fr, fmt.Sprintf("i%d.%d.%s", fr.id, b.Index, nameOf(instr)))
				}
			}
		}
	}
	if !final {
		pc.back = newBack
	}
	return stable
}

func nameOf(ins ssa.Instruction) string {
	if v, ok := ins.(ssa.Value); ok {
		return v.Name()
	}
	return "x"
}

// mergeToK reduces a set of disjuncts to at most K by joining the ones that
// agree on their partition key (function-valued cells, known bools are not
// part of states, so the key is the set of func-valued cells).
func (e *Engine) mergeToK(ss []*State, fr *Frame, where string) []*State {
	ss = e.dedupe(ss)
	var live []*State
	for _, s := range ss {
		if !s.dead {
			live = append(live, s)
		}
	}
	if len(live) <= e.Cfg.K {
		return live
	}
	// look-alikes first: states that agree on the partition key (function values,
	// loop lineages), on every constant cell and on the number of live search hits
	// lose the least when joined
	type cluster struct {
		pk  string
		sts []*State
	}
	// states that differ only in what is known about the same input bytes (exit of a
	// scan loop for different reasons) join without loss: their byte sets are united
	{
		groups := map[string][]*State{}
		var order []string
		for _, s := range live {
			k := stateSigM(s, false)
			if _, ok := groups[k]; !ok {
				order = append(order, k)
			}
			groups[k] = append(groups[k], s)
		}
		if len(order) < len(live) {
			var nl []*State
			for gi, k := range order {
				if g := groups[k]; len(g) == 1 {
					nl = append(nl, g[0])
				} else {
					nl = append(nl, e.joinAll(g, fr, fmt.Sprintf("%s.u%d", where, gi), false))
				}
			}
			live = nl
			if len(live) <= e.Cfg.K {
				return live
			}
		}
	}
	var cls []*cluster
	// the finest notion of "look-alike" that gives at most K clusters
	for level := 0; level < 3; level++ {
		cls = nil
		idx := map[string]*cluster{}
		for _, s := range live {
			pk := partitionKey(s)
			var sk string
			switch level {
			case 0:
				sk = shapeKeyP(s, true, nil)
			case 1:
				sk = shapeKeyP(s, true, e.Pinned)
			default:
				sk = shapeKeyP(s, false, nil)
			}
			k := pk + "\x00" + sk
			c := idx[k]
			if c == nil {
				c = &cluster{pk: pk}
				idx[k] = c
				cls = append(cls, c)
			}
			c.sts = append(c.sts, s)
		}
		if len(cls) <= e.Cfg.K {
			break
		}
	}
	total := len(live)
	joinCl := func(ci int) {
		c := cls[ci]
		total -= len(c.sts) - 1
		c.sts = []*State{e.joinAll(c.sts, fr, fmt.Sprintf("%s.s%d", where, ci), false)}
	}
	if len(cls) <= e.Cfg.K {
		for total > e.Cfg.K {
			best := -1
			for ci, c := range cls {
				if len(c.sts) > 1 && (best < 0 || len(c.sts) > len(cls[best].sts)) {
					best = ci
				}
			}
			joinCl(best)
		}
		var out []*State
		for _, c := range cls {
			out = append(out, c.sts...)
		}
		return out
	}
	for ci, c := range cls {
		if len(c.sts) > 1 {
			joinCl(ci)
		}
	}
	// still too many shapes: per partition keep at most `quota` disjuncts, the
	// first quota-1 as they are, the rest joined
	groups := map[string][]*State{}
	var order []string
	for _, c := range cls {
		if _, ok := groups[c.pk]; !ok {
			order = append(order, c.pk)
		}
		groups[c.pk] = append(groups[c.pk], c.sts...)
	}
	quota := e.Cfg.K / len(order)
	if quota < 1 {
		quota = 1
	}
	var out []*State
	for i, k := range order {
		g := groups[k]
		if len(g) <= quota {
			out = append(out, g...)
			continue
		}
		out = append(out, g[:quota-1]...)
		out = append(out, e.joinAll(g[quota-1:], fr, fmt.Sprintf("%s.g%d", where, i), false))
	}
	return out
}

// shapeKey summarises the constant part of a state.
func shapeKey(s *State) string { return shapeKeyM(s, true) }

func shapeKeyM(s *State, withMasks bool) string { return shapeKeyP(s, withMasks, nil) }

// shapeKeyP: with entry != nil only the byte facts whose index is made of entry
// symbols count (what is known about the bytes the step started at).
func shapeKeyP(s *State, withMasks bool, entry map[Sym]bool) string {
	var ks []string
	for k, c := range s.cells {
		if cv, ok := constOf(c.V); ok {
			ks = append(ks, k+"="+strconv.FormatInt(cv, 10))
		}
	}
	// what is known about individual input bytes is a finite fact like a constant
	if withMasks {
		for k, m := range s.masks {
			if m.M.isFull() {
				continue
			}
			if entry != nil {
				ok := true
				for _, t := range m.Idx.T {
					if !entry[t.S] {
						ok = false
					}
				}
				if !ok {
					continue
				}
			}
			ks = append(ks, "M"+k+"="+m.M.String())
		}
	}
	sort.Strings(ks)
	return strings.Join(ks, ";") + fmt.Sprintf("|h%d", len(s.hits))
}

func partitionKey(s *State) string {
	var ks []string
	for k, c := range s.cells {
		if f, ok := c.V.(FuncV); ok {
			ks = append(ks, k+"="+f.key())
		}
	}
	for k, l := range s.lins {
		ks = append(ks, fmt.Sprintf("L%d.%d=%d", k[0], k[1], l))
	}
	sort.Strings(ks)
	return strings.Join(ks, ";")
}

// headStates computes the state(s) at loop head b: one per lineage (entry disjunct).
func (e *Engine) headStates(pc *passCtx, b *ssa.BasicBlock, fwd map[edge][]*State, pass int, final bool, stable *bool) []*State {
	fr := pc.fr
	if final {
		if ri, ok := pc.rank[b]; ok {
			e.curFr, e.curIns = fr, b
			pos := b.Instrs[0].Pos()
			for _, ins := range b.Instrs {
				if ins.Pos().IsValid() {
					pos = ins.Pos()
					break
				}
			}
			e.Check(nil, fr, pos, "P-rank", fmt.Sprintf("loop #%d of %s (%s)", loopOrdinal(pc, b), fr.fn.Name(), loopLabel(b)), ri.ok, ri.why)
		}
		var out []*State
		var ls []int
		for l := range pc.heads[b] {
			ls = append(ls, l)
		}
		sort.Ints(ls)
		for _, l := range ls {
			out = append(out, pc.heads[b][l].clone())
		}
		return out
	}
	type incoming struct {
		st      *State
		pred    *ssa.BasicBlock
		foreign bool // first trip round the loop of a peeled lineage: not an iteration of this head
	}
	hk := [2]int{fr.id, b.Index}
	maxLin := e.Cfg.K / 2
	if len(fr.fn.Blocks) > 60 {
		maxLin = 1 // very large bodies (the folding loop): one invariant per head
	}
	if maxLin < 1 {
		maxLin = 1
	}
	// peeling: the states that come round the loop get head states of their own
	// (lineage + maxLin), so "first time here" and "came round" stay distinguishable
	peel := e.Cfg.Peel && len(fr.fn.Blocks) <= 60
	byLin := map[int][]incoming{}
	var lins []int
	nEntry := 0
	addIn := func(l int, in incoming) {
		if _, ok := byLin[l]; !ok {
			lins = append(lins, l)
		}
		byLin[l] = append(byLin[l], in)
	}
	if b == fr.fn.Blocks[0] {
		for _, en := range pc.entry {
			s2 := en.clone()
			l := nEntry
			if l >= maxLin {
				l = maxLin - 1
			}
			nEntry++
			s2.lins[hk] = l
			addIn(l, incoming{s2, nil, false})
		}
	}
	for _, p := range b.Preds {
		if pc.pos[p] >= pc.pos[b] {
			continue
		}
		for _, st := range fwd[edge{p, b}] {
			s2 := st.clone()
			l := nEntry
			if l >= maxLin {
				l = maxLin - 1
			}
			nEntry++
			s2.lins[hk] = l
			addIn(l, incoming{s2, p, false})
		}
	}
	for _, p := range b.Preds {
		if pc.pos[p] < pc.pos[b] {
			continue
		}
		for _, st := range pc.back[edge{p, b}] {
			s2 := st.clone()
			l := s2.lins[hk]
			if peel {
				foreign := false
				if l < maxLin {
					l += maxLin
					foreign = true
				}
				if _, ok := byLin[l-maxLin]; ok || !foreign {
					s2.lins[hk] = l
					addIn(l, incoming{s2, p, foreign})
					continue
				}
				l -= maxLin
			}
			if _, ok := byLin[l]; !ok {
				// back-edge state of a lineage that has no entry this pass: attach to the first lineage
				if len(lins) > 0 {
					l = lins[0]
					s2.lins[hk] = l
				}
			}
			addIn(l, incoming{s2, p, false})
		}
	}
	sort.Ints(lins)
	if pc.heads[b] == nil {
		pc.heads[b] = map[int]*State{}
	}
	var out []*State
	seenLin := map[int]bool{}
	allRanked := rankInfo{ok: true, why: "no feasible back edge"}
	defer func() {
		pc.rank[b] = allRanked
	}()
	for _, l := range lins {
		seenLin[l] = true
		ins := byLin[l]
		var pend []pendDef
		var sts []*State
		var isBack []bool
		var isForeign []bool
		var phiSteps [][]phiStep
		for _, in := range ins {
			isForeign = append(isForeign, in.foreign)
			if in.pred != nil {
				e.curFr, e.curIns = fr, b
				steps := e.bindPhis(in.st, fr, in.pred, b, true, l, &pend)
				phiSteps = append(phiSteps, steps)
				isBack = append(isBack, pc.pos[in.pred] >= pc.pos[b])
				if pc.pos[in.pred] >= pc.pos[b] {
					// back edge: values computed inside the loop body are dead at the head
					for k := range in.st.vals {
						if k.f != fr.id || k.v == nil {
							continue
						}
						ins, ok := k.v.(ssa.Instruction)
						if !ok || ins.Block() == nil {
							continue
						}
						if ins.Block() == b {
							if _, isPhi := k.v.(*ssa.Phi); isPhi {
								continue
							}
						}
						if b.Dominates(ins.Block()) {
							delete(in.st.vals, k)
						}
					}
					var keep []AVal
					for _, sp := range steps {
						keep = append(keep, IntV{V(sp.old)})
					}
					// the previous head values (join symbols of cells) must survive until the join relates them to the new ones
					if oldHead := pc.heads[b][l]; oldHead != nil {
						for _, c := range oldHead.cells {
							if c.V != nil {
								keep = append(keep, c.V)
							}
						}
					}
					e.gc(in.st, keep...)
				}
			} else {
				phiSteps = append(phiSteps, nil)
				isBack = append(isBack, false)
			}
			sts = append(sts, in.st)
		}
		where := fmt.Sprintf("h%d.%d.L%d", fr.id, b.Index, l)
		if len(sts) > 4 {
			for _, s := range sts {
				if len(fr.fn.Blocks) > 60 {
					// very large bodies (the folding loop): contents of invariant-carrying objects are
					// not part of the loop invariant; they are re-created on demand under the invariant
					e.forgetInvObjects(s)
				}
				var keep []AVal
				for _, sps := range phiSteps {
					for _, sp := range sps {
						keep = append(keep, IntV{V(sp.old)})
					}
				}
				if oldHead := pc.heads[b][l]; oldHead != nil {
					for _, c := range oldHead.cells {
						if c.V != nil {
							keep = append(keep, c.V)
						}
					}
				}
				e.gc(s, keep...)
			}
			// identical incoming states (same constraints, cells, values): keep one
			seen := map[string]bool{}
			var keepIdx []int
			for i, s := range sts {
				k := stateSig(s)
				if !seen[k] {
					seen[k] = true
					keepIdx = append(keepIdx, i)
				}
			}
			if len(keepIdx) < len(sts) {
				var ns []*State
				var nb, nf []bool
				var nps [][]phiStep
				for _, i := range keepIdx {
					ns = append(ns, sts[i])
					nb = append(nb, isBack[i])
					nf = append(nf, isForeign[i])
					nps = append(nps, phiSteps[i])
				}
				isBack, isForeign, phiSteps = nb, nf, nps
				for pi := range pend {
					if len(pend[pi].exp) == len(sts) {
						var ne []Lin
						for _, i := range keepIdx {
							ne = append(ne, pend[pi].exp[i])
						}
						pend[pi].exp = ne
					}
				}
				sts = ns
			}
		}
		if false {
			// big fan-in (the folding loop): contents of invariant-carrying objects are not
			// part of the loop invariant; they are re-created on demand under the declared invariant
			for _, s := range sts {
				e.forgetInvObjects(s)
				e.gc(s)
			}
		}
		if os.Getenv("VERIF_DBGIN") == fmt.Sprintf("%s.%d", fr.fn.Name(), b.Index) && len(sts) > 20 {
			sort.Slice(sts, func(i, j int) bool { return len(sts[i].cons) > len(sts[j].cons) })
			for i, s := range sts[:1] {
				fmt.Fprintf(os.Stderr, "IN %d cons=%d cells=%d vals=%d masks=%d\n", i, len(s.cons), len(s.cells), len(s.vals), len(s.masks))
				for _, c := range s.cons {
					fmt.Fprintf(os.Stderr, "      %s <= 0\n", e.LinStr(c))
				}
				for k := range s.cells {
					fmt.Fprintf(os.Stderr, "      cell %s\n", k)
				}
				for k, v := range s.vals {
					if v != nil && k.v != nil {
						fmt.Fprintf(os.Stderr, "      val f%d %s = %s\n", k.f, k.v.Name(), v.key())
					}
				}
			}
			os.Exit(0)
		}
		info := &joinInfo{}
		j := e.joinAllDefs(sts, fr, where, true, pend, info)
		j.lins[hk] = l
		var backs []backStep
		for wi, oi := range info.kept {
			if oi < len(isBack) && isBack[oi] && wi < len(info.work) {
				if isForeign[oi] {
					continue // the peeled first trip: finitely many, no ranking needed
				}
				if e.exitsAtHead(info.work[wi], fr, b) {
					continue // this back-edge state leaves the loop at the header test: not an iteration
				}
				steps := append(append([]phiStep{}, phiSteps[oi]...), info.steps[wi]...)
				backs = append(backs, backStep{info.work[wi], steps})
			}
		}
		if len(info.kept) == 0 && len(sts) == 1 {
			// single state: no join happened, no back edge
		}
		if ri := e.rankLoop(backs); !ri.ok {
			allRanked = ri
		} else if allRanked.ok && ri.backs > 0 {
			allRanked = ri
		}
		if old := pc.heads[b][l]; old != nil {
			if pass >= widenFrom {
				j = e.widen(old, j)
			}
			if !sameCons(old, j) {
				*stable = false
			}
		} else {
			*stable = false
		}
		pc.heads[b][l] = j
		if os.Getenv("VERIF_DBGHEAD") == fr.fn.Name() {
			fmt.Fprintf(os.Stderr, "HEAD %s b%d L%d pass %d nin=%d cons=%d cells=%d vals=%d\n", fr.fn.Name(), b.Index, l, pass, len(sts), len(j.cons), len(j.cells), len(j.vals))
			for _, c := range j.cons {
				fmt.Fprintf(os.Stderr, "      %s <= 0\n", e.LinStr(c))
			}
			for _, s := range sts {
				for k, m := range s.masks {
					fmt.Fprintf(os.Stderr, "      in-mask %s idx=%s %s\n", k, e.LinStr(m.Idx), m.M)
				}
				fmt.Fprintln(os.Stderr, "      --")
			}
			for k, m := range j.masks {
				fmt.Fprintf(os.Stderr, "      out-mask %s idx=%s %s\n", k, e.LinStr(m.Idx), m.M)
			}
		}
		out = append(out, j.clone())
	}
	for l := range pc.heads[b] {
		if !seenLin[l] {
			delete(pc.heads[b], l)
		}
	}
	return out
}

func sameCons(a, b *State) bool {
	if a.dead != b.dead || len(a.cons) != len(b.cons) {
		return false
	}
	for k := range a.ckeys {
		if !b.ckeys[k] {
			return false
		}
	}
	if len(a.masks) != len(b.masks) {
		return false
	}
	for k, m := range a.masks {
		if m2, ok := b.masks[k]; !ok || m2.M != m.M {
			return false
		}
	}
	return true
}

func (e *Engine) widen(old, nw *State) *State {
	r := nw.clone()
	r.cons = nil
	r.ckeys = map[string]bool{}
	r.tight = map[string]int{}
	for _, c := range nw.cons {
		if old.ckeys[c.Key()] {
			r.add(c)
		}
	}
	return r
}

// bindPhis assigns the phis of block b for the edge p→b.  At loop heads the
// integer / string phis are bound to per-(head,lineage) join symbols.
type phiStep struct {
	z, old Sym
	name   string
}

type backStep struct {
	st    *State
	steps []phiStep
}

func (e *Engine) bindPhis(st *State, fr *Frame, p, b *ssa.BasicBlock, head bool, lin int, pend *[]pendDef) []phiStep {
	var steps []phiStep
	idx := -1
	for i, q := range b.Preds {
		if q == p {
			idx = i
		}
	}
	if idx < 0 {
		return nil
	}
	type bind struct {
		phi *ssa.Phi
		v   AVal
	}
	var bs []bind
	for _, instr := range b.Instrs {
		phi, ok := instr.(*ssa.Phi)
		if !ok {
			break
		}
		bs = append(bs, bind{phi, e.val(st, fr, phi.Edges[idx])})
	}
	addPend := func(z Sym, ex Lin) {
		if pend == nil {
			return
		}
		for i := range *pend {
			if (*pend)[i].z == z {
				(*pend)[i].exp = append((*pend)[i].exp, ex)
				return
			}
		}
		*pend = append(*pend, pendDef{z, []Lin{ex}})
	}
	for _, bd := range bs {
		v := bd.v
		if head {
			switch x := v.(type) {
			case IntV:
				z := e.jsym(fmt.Sprintf("phi%d.%s.L%d", fr.id, bd.phi.Name(), lin), "φ"+bd.phi.Comment+"."+bd.phi.Name())
				tmp := e.newSym("old" + bd.phi.Name())
				st.renameSym(z, tmp)
				ne := x.L.Subst(z, V(tmp))
				st.addEQ(V(z), ne)
				addPend(z, ne)
				steps = append(steps, phiStep{z, tmp, bd.phi.Comment})
				v = IntV{V(z)}
			case StrV:
				if x.Const == nil {
					zl := e.jsym(fmt.Sprintf("philo%d.%s.L%d", fr.id, bd.phi.Name(), lin), "φlo."+bd.phi.Name())
					zh := e.jsym(fmt.Sprintf("phihi%d.%s.L%d", fr.id, bd.phi.Name(), lin), "φhi."+bd.phi.Name())
					t1, t2 := e.newSym("oldlo"), e.newSym("oldhi")
					st.renameSym(zl, t1)
					st.renameSym(zh, t2)
					nl := x.Lo.Subst(zl, V(t1)).Subst(zh, V(t2))
					nh := x.Hi.Subst(zl, V(t1)).Subst(zh, V(t2))
					st.addEQ(V(zl), nl)
					st.addEQ(V(zh), nh)
					addPend(zl, nl)
					addPend(zh, nh)
					steps = append(steps, phiStep{zl, t1, bd.phi.Comment + ".lo"}, phiStep{zh, t2, bd.phi.Comment + ".hi"})
					v = StrV{Root: x.Root, Lo: V(zl), Hi: V(zh)}
				}
			}
		}
		st.vals[vkey{fr.id, bd.phi}] = v
	}
	return steps
}

func (e *Engine) joinAll(ss []*State, fr *Frame, where string, head bool) *State {
	return e.joinAllDefs(ss, fr, where, head, nil, nil)
}

// joinInfo exposes, for loop heads, the per-side states after merging and the
// (join symbol, previous value) pairs introduced for merged cells and values.
type joinInfo struct {
	work  []*State
	steps [][]phiStep
	kept  []int // indices of the input states that survived (feasible)
}

// joinAllDefs: generic join.  Values/cells that differ are merged into join
// symbols; a constraint is kept iff every side entails it.  Candidates: every
// side's constraints, constraints rewritten through join-symbol definitions,
// threshold templates on join symbols (loop heads), entry-relative templates,
// and the declared struct invariant on merged cells.
func (e *Engine) joinAllDefs(ss []*State, fr *Frame, where string, head bool, pend []pendDef, info *joinInfo) *State {
	defer func(t string) { e.LP.Tag = t }(e.LP.Tag)
	e.LP.Tag = "join"
	var live []*State
	var keptIdx []int
	for i, s := range ss {
		if e.feasible(s) {
			live = append(live, s)
			keptIdx = append(keptIdx, i)
		}
	}
	if len(live) == 0 {
		d := newState()
		d.dead = true
		return d
	}
	if len(pend) > 0 && len(live) < len(ss) {
		// keep the pending definitions aligned with the surviving states
		for pi := range pend {
			if len(pend[pi].exp) == len(ss) {
				var ne []Lin
				for _, i := range keptIdx {
					ne = append(ne, pend[pi].exp[i])
				}
				pend[pi].exp = ne
			}
		}
	}
	ss = live
	if len(pend) == 0 && info == nil {
		ss = e.dedupe(ss)
	}
	if len(ss) == 1 && len(pend) == 0 {
		return ss[0]
	}
	R := newState()
	for k, v := range ss[0].lins {
		R.lins[k] = v
	}
	work := make([]*State, len(ss))
	for i, s := range ss {
		work[i] = s.clone()
	}
	if info != nil {
		info.work = work
		info.steps = make([][]phiStep, len(ss))
		info.kept = keptIdx
	}
	type def struct {
		z   Sym
		exp []Lin
	}
	var defs []def
	mergeInt := func(tag string, ls []Lin) Lin {
		z := e.jsym(where+"|"+tag, "j:"+tag)
		for i, w := range work {
			tmp := e.newSym("jold")
			w.renameSym(z, tmp)
			ls[i] = ls[i].Subst(z, V(tmp))
			w.addEQ(V(z), ls[i])
			if info != nil {
				info.steps[i] = append(info.steps[i], phiStep{z, tmp, tag})
			}
		}
		defs = append(defs, def{z, ls})
		return V(z)
	}
	var mergeVal func(tag string, vs []AVal) AVal
	mergeVal = func(tag string, vs []AVal) AVal {
		same := true
		for _, v := range vs {
			if v == nil {
				return nil
			}
		}
		k0 := vs[0].key()
		for _, v := range vs[1:] {
			if v.key() != k0 {
				same = false
				break
			}
		}
		if same {
			if _, isUnk := vs[0].(UnkV); isUnk {
				return nil
			}
			return vs[0]
		}
		allInt, allStr, allT, allB, allByte, allSl := true, true, true, true, true, true
		var root Sym = -2
		n := -1
		for _, v := range vs {
			if _, ok := v.(IntV); !ok {
				allInt = false
			}
			if s, ok := v.(StrV); ok && s.Const == nil {
				if root == -2 {
					root = s.Root
				} else if root != s.Root {
					allStr = false
				}
			} else {
				allStr = false
			}
			if t, ok := v.(TupleV); !ok || (n >= 0 && len(t.E) != n) {
				allT = false
			} else {
				n = len(t.E)
			}
			if _, ok := v.(BoolV); !ok {
				allB = false
			}
			if _, ok := v.(ByteV); !ok {
				allByte = false
			}
			if _, ok := v.(SliceV); !ok {
				allSl = false
			}
		}
		switch {
		case allInt:
			ls := make([]Lin, len(vs))
			for i, v := range vs {
				ls[i] = v.(IntV).L
			}
			return IntV{mergeInt(tag, ls)}
		case allStr:
			lo := make([]Lin, len(vs))
			hi := make([]Lin, len(vs))
			for i, v := range vs {
				lo[i], hi[i] = v.(StrV).Lo, v.(StrV).Hi
			}
			return StrV{Root: root, Lo: mergeInt(tag+".lo", lo), Hi: mergeInt(tag+".hi", hi)}
		case allT && n > 0:
			out := TupleV{}
			for el := 0; el < n; el++ {
				es := make([]AVal, len(vs))
				for i, v := range vs {
					es[i] = v.(TupleV).E[el]
				}
				m := mergeVal(fmt.Sprintf("%s.%d", tag, el), es)
				out.E = append(out.E, m)
			}
			return out
		case allB:
			return BoolV{}
		case allByte:
			// different bytes / constants: a fresh byte whose mask is the union of the sides' value sets
			var m Mask
			okm := true
			for i, v := range vs {
				_, _, vals := e.valueMask(ss[i], v.(ByteV))
				for x := range vals {
					if x < 0 || x > 255 {
						okm = false
					} else {
						m.set(x)
					}
				}
			}
			r := e.jsym(where+"|byte|"+tag, "jb:"+tag)
			nb := ByteV{Root: r, Idx: K(0)}
			if okm {
				R.masks[nb.bkey()] = maskEnt{r, K(0), m}
			}
			return nb
		case allSl:
			s0 := vs[0].(SliceV)
			ls := make([]Lin, len(vs))
			for i, v := range vs {
				ls[i] = v.(SliceV).Len
				if v.(SliceV).Name != s0.Name {
					s0.Name = "?" + tag
				}
			}
			return SliceV{Name: s0.Name, Len: mergeInt(tag+".len", ls), Elem: s0.Elem}
		}
		// mixed string (const vs substring etc.): a fresh root with merged length
		allStrish := true
		for _, v := range vs {
			if _, ok := v.(StrV); !ok {
				allStrish = false
			}
		}
		if allStrish {
			ls := make([]Lin, len(vs))
			for i, v := range vs {
				ls[i] = strLen(v.(StrV))
			}
			r := e.jsym(where+"|str|"+tag, "js:"+tag)
			lenz := mergeInt(tag+".len", ls)
			for _, w := range work {
				w.addEQ(V(r), lenz)
			}
			R.addEQ(V(r), lenz)
			return StrV{Root: r, Lo: K(0), Hi: V(r)}
		}
		return nil
	}
	// vals
	var vks []vkey
	for k := range ss[0].vals {
		vks = append(vks, k)
	}
	sort.Slice(vks, func(i, j int) bool {
		if vks[i].f != vks[j].f {
			return vks[i].f < vks[j].f
		}
		ni, nj := "", ""
		if vks[i].v != nil {
			ni = vks[i].v.Name()
		}
		if vks[j].v != nil {
			nj = vks[j].v.Name()
		}
		return ni < nj
	})
	for _, k := range vks {
		vs := make([]AVal, len(ss))
		ok := true
		for i, s := range ss {
			v, has := s.vals[k]
			if !has || v == nil {
				ok = false
				break
			}
			vs[i] = v
		}
		if !ok {
			continue
		}
		nm := "ret"
		if k.v != nil {
			nm = k.v.Name()
		}
		if m := mergeVal(fmt.Sprintf("v%d.%s", k.f, nm), vs); m != nil {
			R.vals[k] = m
		}
	}
	// ghost cells with a declared default ("nothing recorded yet") are completed on
	// the sides that lack them, so that one path without the event does not erase
	// what the other paths recorded
	if e.Cfg.GhostDefault != nil {
		union := map[string]Cell{}
		for _, s := range ss {
			for k, c := range s.cells {
				if strings.HasPrefix(c.P.Key, "GHOST:") {
					if _, ok := union[k]; !ok {
						union[k] = c
					}
				}
			}
		}
		for k, c := range union {
			dv, ok := e.Cfg.GhostDefault(c.P.Key, c.F)
			if !ok {
				continue
			}
			for _, s := range ss {
				if _, has := s.cells[k]; !has {
					s.cells[k] = Cell{c.P, c.F, dv}
				}
			}
		}
	}
	var cks []string
	for k := range ss[0].cells {
		cks = append(cks, k)
	}
	sort.Strings(cks)
	type mergedCell struct{ key string }
	var invCells []Cell
	for _, k := range cks {
		vs := make([]AVal, len(ss))
		ok := true
		for i, s := range ss {
			c, has := s.cells[k]
			if !has || c.V == nil {
				ok = false
				break
			}
			vs[i] = c.V
		}
		if !ok {
			continue
		}
		if m := mergeVal("c."+k, vs); m != nil {
			c0 := ss[0].cells[k]
			R.cells[k] = Cell{c0.P, c0.F, m}
			if inv := e.invFor(c0.P.T); inv != nil && c0.F == inv.LenField {
				invCells = append(invCells, R.cells[k])
			}
		}
	}
	// byte masks: a fact about byte (root, idx) survives if every side knows something
	// about that byte — looked up semantically (same key, or an index provably equal)
	{
		type mk struct {
			root Sym
			idx  Lin
		}
		cands := map[string]mk{}
		for _, w := range work {
			for k, m := range w.masks {
				if _, ok := cands[k]; !ok {
					cands[k] = mk{m.Root, m.Idx}
				}
			}
		}
		var mkeys []string
		for k := range cands {
			mkeys = append(mkeys, k)
		}
		sort.Strings(mkeys)
		for _, k := range mkeys {
			c := cands[k]
			all := Mask{}
			for _, w := range work {
				all = all.or(e.mask(w, ByteV{Root: c.root, Idx: c.idx}))
				if all.isFull() {
					break
				}
			}
			if !all.isFull() {
				if old, had := R.masks[k]; had {
					all = all.and(old.M)
				}
				R.masks[k] = maskEnt{c.root, c.idx, all}
			}
		}
	}
	for k, p := range ss[0].dirty {
		R.dirty[k] = p
	}
	for _, s := range ss[1:] {
		for k, p := range s.dirty {
			R.dirty[k] = p
		}
	}
	{
		// search hits: identical ones survive as they are; hits of the same search call
		// (one per side) are merged into a hit over joined symbols
		var rs []Sym
		for r := range ss[0].hits {
			rs = append(rs, r)
		}
		sortSyms(rs)
		for _, r := range rs {
			h := ss[0].hits[r]
			keep := true
			for _, s := range ss[1:] {
				if h2, ok := s.hits[r]; !ok || h2.h.key() != h.h.key() || h2.mask != h.mask || h2.nlen.Key() != h.nlen.Key() {
					keep = false
				}
			}
			if keep {
				R.hits[r] = h
				continue
			}
			if h.org == nil || h.h.Const != nil {
				continue
			}
			sides := make([]searchHit, len(ss))
			syms := make([]Sym, len(ss))
			ok := true
			for i, s := range ss {
				n := 0
				for r2, h2 := range s.hits {
					if h2.org == h.org {
						n++
						sides[i], syms[i] = h2, r2
					}
				}
				if n != 1 || sides[i].h.Const != nil || sides[i].h.Root != h.h.Root {
					ok = false
					break
				}
			}
			if !ok {
				continue
			}
			tag := fmt.Sprintf("hit%d", h.org.Pos())
			pick := func(sub string, get func(i int) Lin) Lin {
				ls := make([]Lin, len(ss))
				same := true
				for i := range ss {
					ls[i] = get(i)
					if !ls[i].Equal(ls[0]) {
						same = false
					}
				}
				if same {
					return ls[0]
				}
				return mergeInt(tag+sub, ls)
			}
			rl := make([]Lin, len(ss))
			for i := range ss {
				rl[i] = V(syms[i])
			}
			zr := mergeInt(tag+".r", rl).T[0].S
			nh := searchHit{org: h.org, c: h.c, mask: h.mask}
			nh.h = StrV{Root: h.h.Root, Lo: pick(".lo", func(i int) Lin { return sides[i].h.Lo }), Hi: pick(".hi", func(i int) Lin { return sides[i].h.Hi })}
			nh.nlen = pick(".n", func(i int) Lin { return sides[i].nlen })
			for _, sd := range sides[1:] {
				if sd.c != nh.c {
					nh.c = -1
				}
				nh.mask = nh.mask.or(sd.mask)
			}
			R.hits[zr] = nh
		}
	}
	// ---- constraints
	cand := map[string]Lin{}
	for _, w := range work {
		for _, c := range w.cons {
			cand[c.Key()] = c
		}
	}
	for _, pd := range pend {
		if len(pd.exp) == len(ss) {
			defs = append(defs, def{pd.z, pd.exp})
		}
	}
	addCand := func(l Lin) {
		l = l.normLE()
		if !l.IsConst() {
			cand[l.Key()] = l
		}
	}
	// (b) rewritten through z = x + k — composed: a constraint rewritten through one
	// definition is rewritten again through the others (z1 = x + y + 1 with z2 = x,
	// z3 = y becomes z1 = z2 + z3 + 1)
	{
		rounds := 1
		if len(defs) <= 12 {
			rounds = 2
		}
		extra := make([][]Lin, len(work))
		seenX := make([]map[string]bool, len(work))
		for i := range work {
			seenX[i] = map[string]bool{}
		}
		for round := 0; round < rounds; round++ {
			for _, d := range defs {
				for i, w := range work {
					if i >= len(d.exp) {
						continue
					}
					ex := d.exp[i]
					if len(ex.T) != 1 || ex.T[0].K != 1 {
						continue
					}
					s := ex.T[0].S
					rep := V(d.z).AddK(-ex.C)
					rewrite := func(c Lin) {
						if !c.Has(s) || c.Has(d.z) {
							return
						}
						nc := c.Subst(s, rep)
						k := nc.Key()
						if seenX[i][k] || len(extra[i]) > 300 {
							return
						}
						seenX[i][k] = true
						extra[i] = append(extra[i], nc)
						addCand(nc)
					}
					if round == 0 {
						for _, c := range w.cons {
							rewrite(c)
						}
					}
					n := len(extra[i])
					for _, c := range extra[i][:n] {
						rewrite(c)
					}
				}
			}
		}
	}
	// (b') rewritten through a general definition z = e: a constraint that contains
	// a multiple of e's linear part is restated over z
	for _, d := range defs {
		for i, w := range work {
			if i >= len(d.exp) {
				continue
			}
			ex := d.exp[i]
			if len(ex.T) < 2 {
				continue
			}
			first := ex.T[0]
			for _, c := range w.cons {
				kc := c.Coef(first.S)
				if kc == 0 || kc%first.K != 0 || c.Has(d.z) {
					continue
				}
				k := kc / first.K
				nc := c.Sub(ex.Scale(k)).Add(V(d.z).Scale(k))
				// accept only if every symbol of e disappeared
				clean := true
				for _, t := range ex.T {
					if nc.Has(t.S) {
						clean = false
						break
					}
				}
				if clean {
					addCand(nc)
				}
			}
		}
	}
	// (c) templates
	addBoth := func(l Lin) { addCand(l); addCand(l.Neg()) }
	if head {
		var dirs []Lin
		for i, d1 := range defs {
			dirs = append(dirs, V(d1.z), V(d1.z).Neg())
			if len(defs) > 8 {
				continue
			}
			for _, d2 := range defs[i+1:] {
				dirs = append(dirs, V(d1.z).Sub(V(d2.z)), V(d2.z).Sub(V(d1.z)))
			}
		}
		for _, d := range dirs {
			for _, c := range []int64{-8, -7, -6, -5, -4, -3, -2, -1, 0, 1, 2, 3, 4, 5, 6, 7, 8, 31, 32} {
				con := d.AddK(-c)
				ok := true
				for _, w := range work {
					if !w.implies(con) && !e.LP.EntailsQuick(w.cons, con) {
						ok = false
						break
					}
				}
				if ok {
					addCand(con)
					break
				}
			}
		}
	}
	for i, d1 := range defs {
		for s := 0; s < len(d1.exp); s++ {
			addBoth(V(d1.z).Sub(d1.exp[s]))
		}
		if !head || len(defs) > 8 {
			continue // pair templates are for loop invariants; they are quadratic in the number of merged values
		}
		for _, d2 := range defs[i+1:] {
			if len(d1.exp) == 0 || len(d2.exp) == 0 {
				continue
			}
			addBoth(V(d1.z).Add(V(d2.z)).Sub(d1.exp[0].Add(d2.exp[0])))
			addBoth(V(d1.z).Sub(V(d2.z)).Sub(d1.exp[0].Sub(d2.exp[0])))
		}
	}
	// (d) declared invariant on merged token cells
	for _, lc := range invCells {
		inv := e.invFor(lc.P.T)
		li, ok1 := lc.V.(IntV)
		vc, ok2 := R.cells[lc.P.Key+"."+inv.ValField]
		if !ok1 || !ok2 {
			continue
		}
		if sv, ok := vc.V.(StrV); ok {
			addCand(li.L.Sub(strLen(sv)))
			addCand(li.L.AddK(-inv.Max))
			addCand(li.L.Neg())
		}
	}
	// (e) span template: a string-valued field and an integer field of the same
	// object, merged here — "the integer fits in the string" (lo + n ≤ hi, n ≥ 0)
	{
		isDef := map[Sym]bool{}
		for _, d := range defs {
			isDef[d.z] = true
		}
		touches := func(l Lin) bool {
			for _, t := range l.T {
				if isDef[t.S] {
					return true
				}
			}
			return false
		}
		for _, k := range cks {
			c, ok := R.cells[k]
			if !ok {
				continue
			}
			sv, isS := c.V.(StrV)
			if !isS || sv.Const != nil {
				continue
			}
			for _, k2 := range cks {
				c2, ok := R.cells[k2]
				if !ok || c2.P.Key != c.P.Key {
					continue
				}
				iv, isI := c2.V.(IntV)
				if !isI || iv.L.IsConst() || !(touches(iv.L) || touches(sv.Lo)) {
					continue
				}
				addCand(sv.Lo.Add(iv.L).Sub(sv.Hi))
			}
		}
	}
	// (f) rule-supplied templates: linear forms L (meaning L ≤ 0) over the joined
	// state that a rule will ask about later — kept if every side entails them
	if e.Cfg.Hooks.Templates != nil {
		for _, l := range e.Cfg.Hooks.Templates(e, R, fr) {
			addCand(l)
		}
	}
	// a constraint over symbols that nothing in the joined state refers to is garbage
	liveR := e.liveSyms(R, nil)
	for _, m := range R.masks {
		liveR[m.Root] = true
		for _, t := range m.Idx.T {
			liveR[t.S] = true
		}
	}
	for _, d := range defs {
		liveR[d.z] = true
	}
	if info != nil {
		for _, sps := range info.steps {
			for _, sp := range sps {
				liveR[sp.old] = true
			}
		}
		for _, pd := range pend {
			for _, ex := range pd.exp {
				for _, t := range ex.T {
					liveR[t.S] = true
				}
			}
		}
	}
	// project each side onto the live symbols first, so that facts that hold only
	// through a dead intermediate symbol become direct candidates
	for _, w := range work {
		e.project(w, liveR, 6)
		for _, c := range w.cons {
			if _, ok := cand[c.Key()]; !ok {
				cand[c.Key()] = c
			}
		}
	}
	var keys []string
	for k, c := range cand {
		ok := true
		for _, t := range c.T {
			if !liveR[t.S] {
				ok = false
				break
			}
		}
		if ok {
			keys = append(keys, k)
		}
	}
	sort.Strings(keys)
	if os.Getenv("VERIF_DBGJOIN") != "" {
		tot := 0
		for _, w := range work {
			tot += len(w.cons)
		}
		fmt.Fprintf(os.Stderr, "JOIN %s fn=%s states=%d cand=%d defs=%d avgcons=%d lp=%d\n", where, fr.fn.Name(), len(work), len(keys), len(defs), tot/len(work), e.LP.Calls)
	}
	for _, k := range keys {
		c := cand[k]
		ok := true
		for _, w := range work {
			if w.ckeys[k] || w.implies(c) {
				continue
			}
			if !e.LP.EntailsQuick(w.cons, c) {
				ok = false
				break
			}
		}
		if ok {
			R.add(c)
		}
	}
	return R
}

// dedupe merges disjuncts that are identical except for their byte masks
// (typical after a chain of `c == k1 || c == k2 || …` tests): the masks are
// united, no LP is needed.
func (e *Engine) dedupe(ss []*State) []*State {
	if len(ss) < 2 {
		return ss
	}
	sig := stateSig
	_ = func(s *State) string {
		var parts []string
		for k := range s.ckeys {
			parts = append(parts, k)
		}
		for k, c := range s.cells {
			if c.V != nil {
				parts = append(parts, k+"="+c.V.key())
			}
		}
		for k, v := range s.vals {
			if v != nil {
				n := "ret"
				if k.v != nil {
					n = k.v.Name()
				}
				parts = append(parts, fmt.Sprintf("%d.%s=%s", k.f, n, v.key()))
			}
		}
		for k := range s.dirty {
			parts = append(parts, "D"+k)
		}
		for k, l := range s.lins {
			parts = append(parts, fmt.Sprintf("L%d.%d=%d", k[0], k[1], l))
		}
		for k := range s.masks {
			parts = append(parts, "M"+k)
		}
		sort.Strings(parts)
		return strings.Join(parts, "|")
	}
	idx := map[string]int{}
	var out []*State
	for _, s := range ss {
		if s.dead {
			continue
		}
		k := sig(s)
		if i, ok := idx[k]; ok {
			o := out[i]
			for mk, m := range s.masks {
				if om, ok := o.masks[mk]; ok {
					om.M = om.M.or(m.M)
					o.masks[mk] = om
				}
			}
			continue
		}
		idx[k] = len(out)
		out = append(out, s)
	}
	return out
}

// forgetInvObjects drops the cells of every object that carries a declared
// invariant (sound: forgetting; the invariant is re-assumed when re-read and is
// verified at every write).
func (e *Engine) forgetInvObjects(st *State) {
	for k, c := range st.cells {
		if e.invFor(c.P.T) != nil {
			if _, isDirty := st.dirty[c.P.Key]; isDirty {
				continue
			}
			delete(st.cells, k)
		}
	}
}

func stateSig(s *State) string { return stateSigM(s, true) }

// stateSigM: the signature of a state, optionally without the byte masks (two
// states that differ only in byte masks join without losing a linear fact).
func stateSigM(s *State, withMasks bool) string {
	var parts []string
	for k := range s.ckeys {
		parts = append(parts, k)
	}
	for k, c := range s.cells {
		if c.V != nil {
			parts = append(parts, k+"="+c.V.key())
		}
	}
	for k, v := range s.vals {
		if v != nil {
			n := "ret"
			if k.v != nil {
				n = k.v.Name()
			}
			parts = append(parts, fmt.Sprintf("%d.%s=%s", k.f, n, v.key()))
		}
	}
	for k := range s.dirty {
		parts = append(parts, "D"+k)
	}
	for k, l := range s.lins {
		parts = append(parts, fmt.Sprintf("L%d.%d=%d", k[0], k[1], l))
	}
	for k, m := range s.masks {
		if withMasks {
			parts = append(parts, "M"+k+m.M.String())
		} else {
			parts = append(parts, "M"+k)
		}
	}
	for r := range s.hits {
		parts = append(parts, fmt.Sprintf("H%d", r))
	}
	sort.Strings(parts)
	return strings.Join(parts, "|")
}

// rankLoop looks for a ranking function among the integer / cursor phis of a
// loop head: a symbol that strictly increases (decreases) on every back edge
// and is bounded above (below) by a loop-independent quantity.
func (e *Engine) rankLoop(backs []backStep) rankInfo {
	if len(backs) == 0 {
		return rankInfo{ok: true, why: "no feasible back edge"}
	}
	defer func(t string) { e.LP.Tag = t }(e.LP.Tag)
	e.LP.Tag = "rank"
	// candidate symbols: those bound on every back edge
	type cand struct {
		name string
		inc  bool
	}
	count := map[Sym]int{}
	names := map[Sym]string{}
	for _, b := range backs {
		for _, s := range b.steps {
			count[s.z]++
			names[s.z] = s.name
		}
	}
	var syms []Sym
	for z, n := range count {
		if n == len(backs) {
			syms = append(syms, z)
		}
	}
	sortSyms(syms)
	var tried []string
	for _, z := range syms {
		for _, inc := range []bool{true, false} {
			ok := true
			for _, b := range backs {
				var old Sym = -1
				for _, s := range b.steps {
					if s.z == z {
						old = s.old
					}
				}
				if old < 0 {
					ok = false
					break
				}
				if inc {
					if !e.proveLE(b.st, V(old).AddK(1), V(z)) {
						ok = false
					}
				} else if !e.proveLE(b.st, V(z).AddK(1), V(old)) {
					ok = false
				}
				if !ok {
					break
				}
				// bounded by something the loop does not change: any symbol that is not one
				// of this head's moving symbols (nor their previous values)
				moving := map[Sym]bool{}
				for _, s2 := range b.steps {
					if !e.proveEQ(b.st, V(s2.z), V(s2.old)) {
						moving[s2.z] = true
						moving[s2.old] = true
					}
				}
				bounded := false
				if inc {
					if e.proveLE(b.st, V(z), K(1<<20)) {
						bounded = true
					}
					seen := map[Sym]bool{}
					for _, c := range b.st.cons {
						if bounded {
							break
						}
						for _, t := range c.T {
							if t.S == z || moving[t.S] || seen[t.S] {
								continue
							}
							seen[t.S] = true
							if e.proveLE(b.st, V(z), V(t.S).AddK(64)) {
								bounded = true
								break
							}
						}
					}
					if !bounded {
						// through an unmoved phi (cursor hi) that is itself bounded
						for _, s2 := range b.steps {
							if s2.z != z && !moving[s2.z] && e.proveLE(b.st, V(z), V(s2.z).AddK(64)) {
								bounded = true
							}
						}
					}
				} else {
					bounded = e.proveLE(b.st, K(-64), V(z))
				}
				if !bounded {
					ok = false
					break
				}
			}
			dir := "decreases"
			if inc {
				dir = "increases"
			}
			if ok {
				return rankInfo{ok: true, why: fmt.Sprintf("%s strictly %s on every back edge and is bounded", names[z], dir), backs: len(backs)}
			}
		}
		tried = append(tried, names[z])
	}
	if os.Getenv("VERIF_DBGRANK") != "" && len(backs) > 0 {
		for bi, b := range backs {
			fmt.Fprintf(os.Stderr, "RANK back %d steps:", bi)
			for _, sp := range b.steps {
				fmt.Fprintf(os.Stderr, " %s(z=%s old=%s)", sp.name, e.SymName(sp.z), e.SymName(sp.old))
			}
			fmt.Fprintln(os.Stderr)
			for _, sp := range b.steps {
				fmt.Fprintf(os.Stderr, "   %s: inc=%v dec=%v\n", sp.name, e.proveLE(b.st, V(sp.old).AddK(1), V(sp.z)), e.proveLE(b.st, V(sp.z).AddK(1), V(sp.old)))
				for _, c := range b.st.cons {
					if c.Has(sp.z) {
						fmt.Fprintf(os.Stderr, "      %s <= 0\n", e.LinStr(c))
					}
				}
			}
		}
	}
	return rankInfo{ok: false, why: fmt.Sprintf("no strictly monotone bounded phi found among %v on %d back edge state(s)", tried, len(backs)), backs: len(backs)}
}

// exitsAtHead: with the phis bound as in st, does the header's own test send
// control out of the loop?
func (e *Engine) exitsAtHead(st *State, fr *Frame, b *ssa.BasicBlock) bool {
	if len(b.Instrs) == 0 {
		return false
	}
	iff, ok := b.Instrs[len(b.Instrs)-1].(*ssa.If)
	if !ok {
		return false
	}
	// only conditions that are phis of the header (already bound) are decided here
	if ph, isPhi := iff.Cond.(*ssa.Phi); !isPhi || ph.Block() != b {
		return false
	}
	c, ok := e.val(st, fr, iff.Cond).(BoolV)
	if !ok || c.Known == 0 {
		return false
	}
	taken := 0
	if c.Known == 2 {
		taken = 1
	}
	// natural loop of b: b plus everything that reaches a back-edge source without passing b
	body := map[*ssa.BasicBlock]bool{b: true}
	var work []*ssa.BasicBlock
	for _, p := range b.Preds {
		if b.Dominates(p) && !body[p] {
			body[p] = true
			work = append(work, p)
		}
	}
	for len(work) > 0 {
		x := work[len(work)-1]
		work = work[:len(work)-1]
		for _, p := range x.Preds {
			if !body[p] {
				body[p] = true
				work = append(work, p)
			}
		}
	}
	return !body[b.Succs[taken]]
}

// loopOrdinal: 1-based position of head b among the loop heads of the function (reverse post-order).
func loopOrdinal(pc *passCtx, b *ssa.BasicBlock) int {
	n := 0
	for _, x := range pc.order {
		if pc.isHead[x] {
			n++
			if x == b {
				return n
			}
		}
	}
	return 0
}

// loopLabel names the loop by the variables its header merges.
func loopLabel(b *ssa.BasicBlock) string {
	var names []string
	for _, ins := range b.Instrs {
		ph, ok := ins.(*ssa.Phi)
		if !ok {
			break
		}
		if ph.Comment != "" {
			names = append(names, ph.Comment)
		}
	}
	if len(names) == 0 {
		return b.Comment
	}
	return b.Comment + " " + strings.Join(names, ",")
}
