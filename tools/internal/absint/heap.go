package absint

import (
	"go/types"
	"sort"
	"strings"
)

func fieldsOf(t types.Type) *types.Struct {
	if t == nil {
		return nil
	}
	if s, ok := t.Underlying().(*types.Struct); ok {
		return s
	}
	return nil
}

// load reads cell (p, field); unknown cells get fresh contents by type, with
// the declared struct invariant applied.
func (e *Engine) load(st *State, p PtrV, field string, t types.Type) AVal {
	defer func(t string) { e.LP.Tag = t }(e.LP.Tag)
	e.LP.Tag = "load-alias"
	k := p.Key + "." + field
	if c, ok := st.cells[k]; ok && c.V != nil {
		if _, isMarker := c.V.(entryMarker); isMarker {
			return e.fresh(st, p, field, t) // unwritten since entry: unknown, and stays marked
		}
		return c.V
	}
	if p.Arr != "" {
		for _, ck := range sortedCellKeys(st) {
			c := st.cells[ck]
			if c.P.Arr == p.Arr && c.F == field && c.V != nil && c.P.Key != p.Key && e.proveEQ(st, c.P.Idx, p.Idx) {
				return c.V
			}
		}
	}
	if p.Arr != "" && !strings.HasPrefix(p.Arr, "G:") && field == "" {
		// an element of a local array at an unknown index: if the elements 0…n-1 are
		// all known integers and the index is below n, the value lies between them
		known := map[int64]int64{}
		for _, ck := range sortedCellKeys(st) {
			c := st.cells[ck]
			if c.P.Arr == p.Arr && c.F == "" && c.P.Idx.IsConst() {
				if cv, ok := constOf(c.V); ok {
					known[c.P.Idx.C] = cv
				}
			}
		}
		n := int64(0)
		for {
			if _, ok := known[n]; !ok {
				break
			}
			n++
		}
		if n > 0 && int(n) == len(known) && e.proveLE(st, K(0), p.Idx) && e.proveLT(st, p.Idx, K(n)) {
			lo, hi := known[0], known[0]
			for _, v := range known {
				if v < lo {
					lo = v
				}
				if v > hi {
					hi = v
				}
			}
			sym := e.newSym("elem")
			st.addLE(K(lo), V(sym))
			st.addLE(V(sym), K(hi))
			return IntV{V(sym)}
		}
	}
	v := e.fresh(st, p, field, t)
	if v != nil {
		st.cells[k] = Cell{p, field, v}
	}
	return v
}

func sortedCellKeys(st *State) []string {
	ks := make([]string, 0, len(st.cells))
	for k := range st.cells {
		ks = append(ks, k)
	}
	sort.Strings(ks)
	return ks
}

func sortedMaskKeys(st *State) []string {
	ks := make([]string, 0, len(st.masks))
	for k := range st.masks {
		ks = append(ks, k)
	}
	sort.Strings(ks)
	return ks
}

func (e *Engine) fresh(st *State, p PtrV, field string, t types.Type) AVal {
	name := p.Key + "." + field
	inv := e.invFor(p.T)
	switch u := t.Underlying().(type) {
	case *types.Basic:
		switch {
		case u.Kind() == types.Uint8:
			r := e.newSym("byteroot:" + name)
			return ByteV{Root: r, Idx: K(0)}
		case u.Info()&types.IsInteger != 0:
			s := e.newSym(name)
			if inv != nil && field == inv.LenField {
				st.addLE(K(0), V(s))
				st.addLE(V(s), K(inv.Max))
				if c, ok := st.cells[p.Key+"."+inv.ValField]; ok {
					if sv, ok := c.V.(StrV); ok {
						st.addLE(V(s), strLen(sv))
					}
				}
			}
			return IntV{V(s)}
		case u.Kind() == types.String:
			r := e.newSym("str:" + name)
			st.addLE(K(0), V(r))
			sv := StrV{Root: r, Lo: K(0), Hi: V(r)}
			if inv != nil && field == inv.ValField {
				if c, ok := st.cells[p.Key+"."+inv.LenField]; ok {
					if iv, ok := c.V.(IntV); ok {
						st.addLE(iv.L, V(r))
					}
				}
			}
			return sv
		case u.Kind() == types.Bool:
			return BoolV{}
		}
	case *types.Pointer:
		return PtrV{Key: "?" + name, T: u.Elem()}
	case *types.Signature:
		return e.unk()
	}
	return e.unk()
}

func (e *Engine) store(st *State, p PtrV, field string, v AVal) {
	defer func(t string) { e.LP.Tag = t }(e.LP.Tag)
	e.LP.Tag = "store-alias"
	k := p.Key + "." + field
	if p.Arr != "" {
		for ck, c := range st.cells {
			if ck != k && c.P.Arr == p.Arr && c.F == field {
				if e.proveLT(st, c.P.Idx, p.Idx) || e.proveLT(st, p.Idx, c.P.Idx) {
					continue // provably a different element
				}
				delete(st.cells, ck)
			}
		}
	}
	if strings.HasPrefix(p.Key, "?") {
		for ck, c := range st.cells {
			if ck != k && c.F == field && sameStructType(c.P.T, p.T) {
				delete(st.cells, ck)
			}
		}
	} else {
		// an unknown pointer of the same type may alias p
		for ck, c := range st.cells {
			if ck != k && c.F == field && strings.HasPrefix(c.P.Key, "?") && sameStructType(c.P.T, p.T) {
				delete(st.cells, ck)
			}
		}
	}
	st.cells[k] = Cell{p, field, v}
	if inv := e.invFor(p.T); inv != nil && (field == inv.LenField || field == inv.ValField) {
		st.dirty[p.Key] = p
	}
}

func sameStructType(a, b types.Type) bool {
	if a == nil || b == nil {
		return true
	}
	return types.Identical(a, b)
}

// storePtr writes v through pointer p (struct values field by field).
func (e *Engine) storePtr(st *State, p PtrV, v AVal) {
	if s := fieldsOf(p.T); s != nil {
		sv, ok := v.(StructV)
		if !ok {
			// unknown struct value: forget everything under p
			for ck, c := range st.cells {
				if c.P.Key == p.Key || strings.HasPrefix(c.P.Key, p.Key+".") || strings.HasPrefix(c.P.Key, p.Key+"[") {
					delete(st.cells, ck)
				}
			}
			if inv := e.invFor(p.T); inv != nil {
				delete(st.dirty, p.Key)
			}
			return
		}
		for i := 0; i < s.NumFields(); i++ {
			f := s.Field(i)
			pp := p
			fp := PtrV{Key: p.Key + "." + f.Name(), T: f.Type(), Obj: &pp, Field: f.Name()}
			fv := sv.F[f.Name()]
			switch f.Type().Underlying().(type) {
			case *types.Array:
				for ck, c := range st.cells {
					if strings.HasPrefix(c.P.Key, fp.Key+"[") || c.P.Arr == fp.Key {
						delete(st.cells, ck)
					}
				}
				// zero-valued struct: remember the array is zeroed
				if _, isZero := fv.(zeroArr); isZero || fv == nil {
					st.cells[fp.Key+".#zero"] = Cell{fp, "#zero", BoolV{Known: 1}}
				}
			case *types.Struct:
				e.storePtr(st, fp, fv)
			default:
				if fv == nil {
					delete(st.cells, p.Key+"."+f.Name())
					continue
				}
				e.store(st, p, f.Name(), fv)
			}
		}
		return
	}
	if p.Obj != nil {
		e.store(st, *p.Obj, p.Field, v)
		return
	}
	e.store(st, p, "", v)
}

type zeroArr struct{}

func (zeroArr) key() string { return "zeroarr" }

// loadPtr reads through pointer p.
func (e *Engine) loadPtr(st *State, p PtrV) AVal {
	// an entry of a constant table (constant index, or a row fixed by a split)
	if strings.HasPrefix(p.Key, "G:") || strings.HasPrefix(p.Arr, "G:") || (p.Obj != nil && strings.HasPrefix(p.Obj.Key, "G:")) {
		if v, ok := e.closedAt(p, 0); ok {
			if a, ok := e.closedAVal(v, p.T, p.Key); ok {
				return a
			}
		}
	}
	if s := fieldsOf(p.T); s != nil {
		sv := StructV{F: map[string]AVal{}, T: s}
		for i := 0; i < s.NumFields(); i++ {
			f := s.Field(i)
			switch f.Type().Underlying().(type) {
			case *types.Struct, *types.Array:
				sv.F[f.Name()] = nil
			default:
				sv.F[f.Name()] = e.load(st, p, f.Name(), f.Type())
			}
		}
		return sv
	}
	if arr, ok := p.T.Underlying().(*types.Array); ok {
		if !strings.HasPrefix(p.Key, "G:") {
			return ArrV{Ptr: p, Len: arr.Len()}
		}
		// a copy of a constant table (`for _, row := range table`)
		if _, ok := e.closedContainer(p.Key); ok {
			return ArrV{Ptr: p, Len: arr.Len()}
		}
		return e.unk()
	}
	if strings.HasPrefix(p.Key, "G:") && p.Arr == "" {
		name := p.Key[2:]
		if sl, ok := p.T.Underlying().(*types.Slice); ok {
			if n, ok := e.Cfg.TableLens[name]; ok {
				return SliceV{Name: "G:" + name, Len: K(n), Elem: sl.Elem()}
			}
			s := e.newSym("len:" + name)
			st.addLE(K(0), V(s))
			return SliceV{Name: "G:" + name, Len: V(s), Elem: sl.Elem()}
		}
		if _, ok := p.T.Underlying().(*types.Map); ok {
			return e.unk()
		}
		return e.load(st, p, "", p.T)
	}
	if p.Arr != "" && strings.HasPrefix(p.Arr, "G:") {
		name := p.Arr[2:]
		if name == e.Cfg.DispVar {
			return GElem{Arr: p.Arr, Idx: p.Idx}
		}
		if tb, ok := p.T.Underlying().(*types.Basic); ok && tb.Info()&types.IsInteger != 0 {
			// known contents indexed by an input byte: the element is a function of that byte
			if vals, ok := e.Cfg.TableVals[name]; ok && len(vals) >= 256 && len(p.Idx.T) == 1 && p.Idx.T[0].K == 1 && p.Idx.C == 0 {
				if org, ok := e.byteOrig[p.Idx.T[0].S]; ok && org.Root >= 0 {
					tab := new([256]int)
					for b := 0; b < 256; b++ {
						v := b
						if org.Tab != nil {
							v = org.Tab[b]
						}
						if v >= 0 && v < len(vals) {
							tab[b] = int(vals[v])
						}
					}
					return ByteV{Root: org.Root, Idx: org.Idx, Tab: tab}
				}
			}
			s := e.newSym("tab:" + name)
			if r, ok := e.Cfg.TableRng[name]; ok {
				st.addLE(K(r[0]), V(s))
				st.addLE(V(s), K(r[1]))
			} else if tb.Kind() == types.Uint8 {
				st.addLE(K(0), V(s))
				st.addLE(V(s), K(255))
			}
			return IntV{V(s)}
		}
		if tb, ok := p.T.Underlying().(*types.Basic); ok && tb.Kind() == types.String {
			r := e.newSym("tabstr:" + name)
			st.addLE(K(0), V(r))
			return StrV{Root: r, Lo: K(0), Hi: V(r)}
		}
		if fieldsOf(p.T) != nil {
			return e.unk()
		}
		return e.unk()
	}
	if p.Obj != nil {
		return e.load(st, *p.Obj, p.Field, p.T)
	}
	return e.load(st, p, "", p.T)
}

// checkDirty proves the declared invariant of every object written since the
// last check; returns failures as (object key, reason).
func (e *Engine) checkDirty(st *State, fr *Frame, report func(obj PtrV, ok bool, why string)) {
	for k, p := range st.dirty {
		inv := e.invFor(p.T)
		delete(st.dirty, k)
		if inv == nil {
			continue
		}
		lc, ok1 := st.cells[p.Key+"."+inv.LenField]
		vc, ok2 := st.cells[p.Key+"."+inv.ValField]
		if !ok1 || !ok2 {
			// one field was written while the other is unknown here: the invariant
			// cannot be re-established from what is known (strict, sound)
			report(p, false, "one of len/val was written while the other is not tracked at this point")
			continue
		}
		li, okl := lc.V.(IntV)
		sv, oks := vc.V.(StrV)
		if !ok1 || !ok2 || !okl || !oks {
			report(p, false, "length or value field is not tracked")
			continue
		}
		switch {
		case !e.proveLE(st, K(0), li.L):
			report(p, false, "cannot show 0 ≤ len")
		case !e.proveLE(st, li.L, K(inv.Max)):
			report(p, false, "cannot show len ≤ max: len="+e.LinStr(li.L))
		case !e.proveLE(st, li.L, strLen(sv)):
			report(p, false, "cannot show len ≤ len(val): len="+e.LinStr(li.L)+" len(val)="+e.LinStr(strLen(sv)))
		default:
			report(p, true, "")
		}
	}
}
