package absint

import "sort"

// Constraint garbage collection: symbols that no value, cell, mask or pinned
// root symbol refers to are projected away — by substitution when they have a
// defining equality, by Fourier–Motzkin elimination when that does not grow the
// store, and are otherwise left alone.  Projection over the rationals is an
// over-approximation of the integer projection, hence sound.

func symsOfVal(v AVal, out map[Sym]bool) {
	switch x := v.(type) {
	case IntV:
		for _, t := range x.L.T {
			out[t.S] = true
		}
	case StrV:
		if x.Const == nil {
			out[x.Root] = true
			for _, t := range x.Lo.T {
				out[t.S] = true
			}
			for _, t := range x.Hi.T {
				out[t.S] = true
			}
		}
	case ByteV:
		if x.Root >= 0 {
			out[x.Root] = true
			for _, t := range x.Idx.T {
				out[t.S] = true
			}
		}
	case PtrV:
		for _, t := range x.Idx.T {
			out[t.S] = true
		}
		if x.Obj != nil {
			symsOfVal(*x.Obj, out)
		}
	case BoolV:
		for _, t := range x.L.T {
			out[t.S] = true
		}
		if x.IsB {
			out[x.BRoot] = true
			for _, t := range x.BIdx.T {
				out[t.S] = true
			}
		}
	case SliceV:
		for _, t := range x.Len.T {
			out[t.S] = true
		}
	case GElem:
		for _, t := range x.Idx.T {
			out[t.S] = true
		}
	case TupleV:
		for _, el := range x.E {
			if el != nil {
				symsOfVal(el, out)
			}
		}
	case StructV:
		for _, el := range x.F {
			if el != nil {
				symsOfVal(el, out)
			}
		}
	case FuncV:
		if x.Bound != nil {
			symsOfVal(x.Bound, out)
		}
	}
}

func (e *Engine) liveSyms(st *State, extra []AVal) map[Sym]bool {
	live := map[Sym]bool{}
	for s := range e.Pinned {
		live[s] = true
	}
	for _, v := range st.vals {
		if v != nil {
			symsOfVal(v, live)
		}
	}
	for _, c := range st.cells {
		symsOfVal(c.P, live)
		if c.V != nil {
			symsOfVal(c.V, live)
		}
	}
	// masks keep their index symbols alive only while their root is referenced
	// (dead fresh-byte roots are dropped by gcMasks)
	for _, p := range st.dirty {
		symsOfVal(p, live)
	}
	for r, h := range st.hits {
		live[r] = true
		symsOfVal(h.h, live)
		for _, t := range h.nlen.T {
			live[t.S] = true
		}
		if h.member != nil {
			symsOfVal(*h.member, live)
		}
	}
	for _, v := range extra {
		if v != nil {
			symsOfVal(v, live)
		}
	}
	return live
}

// gc projects dead symbols out of st's constraint store.
func (e *Engine) gc(st *State, extra ...AVal) {
	if st.dead || len(st.cons) < 12 {
		return
	}
	live := e.liveSyms(st, extra)
	for k, m := range st.masks {
		if !live[m.Root] {
			delete(st.masks, k)
			continue
		}
		for _, t := range m.Idx.T {
			live[t.S] = true
		}
	}
	e.project(st, live, 2)
}

// project eliminates every symbol outside live (as far as the growth bound allows).
func (e *Engine) project(st *State, live map[Sym]bool, maxGrowth int) {
	if st.dead {
		return
	}
	// hits on dead result symbols can go
	for r := range st.hits {
		_ = r
	}
	for iter := 0; iter < 200; iter++ {
		// occurrence lists of dead symbols
		type occ struct{ pos, neg []int }
		occs := map[Sym]*occ{}
		for i, c := range st.cons {
			for _, t := range c.T {
				if live[t.S] {
					continue
				}
				o := occs[t.S]
				if o == nil {
					o = &occ{}
					occs[t.S] = o
				}
				if t.K > 0 {
					o.pos = append(o.pos, i)
				} else {
					o.neg = append(o.neg, i)
				}
			}
		}
		if len(occs) == 0 {
			return
		}
		var dead []Sym
		for s := range occs {
			dead = append(dead, s)
		}
		sortSyms(dead)
		// 1. one-sided symbols: every constraint mentioning them is satisfiable by pushing the symbol → drop
		changed := false
		drop := map[int]bool{}
		for _, s := range dead {
			o := occs[s]
			if len(o.pos) == 0 || len(o.neg) == 0 {
				for _, i := range o.pos {
					drop[i] = true
				}
				for _, i := range o.neg {
					drop[i] = true
				}
			}
		}
		if len(drop) > 0 {
			st.removeCons(drop)
			continue
		}
		// 2. substitution through an equality with unit coefficient
		for _, s := range dead {
			o := occs[s]
			var def *Lin
			for _, i := range o.pos {
				ci := st.cons[i]
				if ci.Coef(s) != 1 {
					continue
				}
				nk := ci.Neg().normLE().Key()
				if st.ckeys[nk] {
					// s + rest ≤ 0 and -(s + rest) ≤ 0  ⇒  s = -rest
					d := ci.Subst(s, Lin{}).Neg()
					def = &d
					break
				}
			}
			if def == nil {
				continue
			}
			var nc []Lin
			for _, c := range st.cons {
				if c.Has(s) {
					c = c.Subst(s, *def)
					if c.IsConst() {
						if c.C > 0 {
							st.dead = true
						}
						continue
					}
					c = c.normLE()
				}
				nc = append(nc, c)
			}
			st.setCons(nc)
			changed = true
			break
		}
		if changed {
			continue
		}
		// 3. Fourier–Motzkin when it does not grow the store
		best := Sym(-1)
		bestGrowth := 1 << 30
		for _, s := range dead {
			o := occs[s]
			g := len(o.pos)*len(o.neg) - len(o.pos) - len(o.neg)
			if g < bestGrowth {
				best, bestGrowth = s, g
			}
		}
		if best < 0 || bestGrowth > maxGrowth {
			return
		}
		o := occs[best]
		var nc []Lin
		skip := map[int]bool{}
		for _, i := range o.pos {
			skip[i] = true
		}
		for _, i := range o.neg {
			skip[i] = true
		}
		for i, c := range st.cons {
			if !skip[i] {
				nc = append(nc, c)
			}
		}
		for _, i := range o.pos {
			for _, j := range o.neg {
				p, n := st.cons[i], st.cons[j]
				kp, kn := p.Coef(best), -n.Coef(best)
				comb := p.Scale(kn).Add(n.Scale(kp))
				if comb.IsConst() {
					if comb.C > 0 {
						st.dead = true
					}
					continue
				}
				nc = append(nc, comb.normLE())
			}
		}
		st.setCons(nc)
	}
}

func (s *State) setCons(nc []Lin) {
	old := append([]Lin(nil), nc...)
	s.cons = nil
	s.ckeys = make(map[string]bool, len(old))
	s.tight = make(map[string]int, len(old))
	for _, c := range old {
		s.add(c)
	}
}

func (s *State) removeCons(drop map[int]bool) {
	var nc []Lin
	for i, c := range s.cons {
		if !drop[i] {
			nc = append(nc, c)
		}
	}
	s.setCons(nc)
}

var _ = sort.Ints
