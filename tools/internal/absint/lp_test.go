package absint

import (
	"math/rand"
	"testing"
)

// The int64-fraction simplex must agree with the math/big one.
func TestFracAgreesWithBig(t *testing.T) {
	rng := rand.New(rand.NewSource(1))
	n := 0
	for it := 0; it < 3000; it++ {
		nv := 1 + rng.Intn(6)
		nc := 1 + rng.Intn(10)
		var cons []Lin
		for i := 0; i < nc; i++ {
			l := K(int64(rng.Intn(21) - 10))
			for v := 0; v < nv; v++ {
				if rng.Intn(2) == 0 {
					l = l.Add(V(Sym(v)).Scale(int64(rng.Intn(7) - 3)))
				}
			}
			if !l.IsConst() {
				cons = append(cons, l)
			}
		}
		if len(cons) == 0 {
			continue
		}
		a, ok := feasibleFrac(cons)
		if !ok {
			continue
		}
		n++
		if b := feasibleBig(cons); a != b {
			t.Fatalf("disagree on %v: frac=%v big=%v", cons, a, b)
		}
	}
	if n < 2000 {
		t.Fatalf("only %d comparisons", n)
	}
}

func TestEntails(t *testing.T) {
	lp := NewLP()
	x, y, z := V(0), V(1), V(2)
	// 0 <= x, x <= y-2, y <= 6  |=  x+1 <= 7-... : x <= 4
	cons := []Lin{x.Neg(), x.Sub(y).AddK(2), y.AddK(-6)}
	if !lp.Entails(cons, x.AddK(-4)) {
		t.Fatal("x<=4 should be entailed")
	}
	if lp.Entails(cons, x.AddK(-3)) {
		t.Fatal("x<=3 should not be entailed")
	}
	// pos+idx+off <= len from pos<=len-idx-off
	cons = []Lin{x.Add(y).Add(z).AddK(-10)}
	if !lp.Entails(cons, x.Add(y).Add(z).AddK(-10)) {
		t.Fatal("same")
	}
}
