package absint

import (
	"fmt"
	"go/types"
	"sort"
	"strings"

	"golang.org/x/tools/go/ssa"
)

type Mask [4]uint64

func fullMask() Mask           { return Mask{^uint64(0), ^uint64(0), ^uint64(0), ^uint64(0)} }
func (m Mask) has(b int) bool  { return m[b>>6]&(1<<(uint(b)&63)) != 0 }
func (m *Mask) set(b int)      { m[b>>6] |= 1 << (uint(b) & 63) }
func (m Mask) and(o Mask) Mask { return Mask{m[0] & o[0], m[1] & o[1], m[2] & o[2], m[3] & o[3]} }
func (m Mask) or(o Mask) Mask  { return Mask{m[0] | o[0], m[1] | o[1], m[2] | o[2], m[3] | o[3]} }
func (m Mask) not() Mask       { return Mask{^m[0], ^m[1], ^m[2], ^m[3]} }
func (m Mask) empty() bool     { return m[0]|m[1]|m[2]|m[3] == 0 }
func (m Mask) isFull() bool    { return m == fullMask() }
func maskOf(bs ...int) Mask {
	var m Mask
	for _, b := range bs {
		m.set(b)
	}
	return m
}
func (m Mask) String() string {
	var s []string
	n := 0
	for i := 0; i < 256; i++ {
		if m.has(i) {
			n++
			if len(s) < 8 {
				s = append(s, fmt.Sprint(i))
			}
		}
	}
	return fmt.Sprintf("{%s #%d}", strings.Join(s, ","), n)
}

// AVal is an abstract value.
type AVal interface{ key() string }

type IntV struct{ L Lin }

// StrV: a substring [Lo,Hi) of root string Root (whose length is the symbol
// Root itself), or a constant.
type StrV struct {
	Root   Sym
	Lo, Hi Lin
	Const  *string
}

// ByteV: f(byte Root[Idx]) with f = Tab (identity if nil); constant if Root < 0.
type ByteV struct {
	Root Sym
	Idx  Lin
	Tab  *[256]int
	C    int
}

type PtrV struct {
	Key   string
	Arr   string // for element pointers: key of the array
	Idx   Lin
	T     types.Type // pointee type
	Obj   *PtrV      // for field addresses: the object
	Field string
}

type BoolV struct {
	Known int // 0 unknown, 1 true, 2 false
	Rel   int // 1: L ≤ 0, 2: L == 0, 3: L != 0
	L     Lin
	IsB   bool // byte test: byte BRoot[BIdx] ∈ BTrue
	BRoot Sym
	BIdx  Lin
	BTrue Mask
	Weak  bool   // one-sided: the negation carries no information
	NegOf *BoolV // unknown itself, but its negation is this fact (a != b of two bytes)
}

type FuncV struct {
	Fn    *ssa.Function
	Bound AVal
}
type TupleV struct{ E []AVal }
type StructV struct {
	F map[string]AVal
	T *types.Struct
}

// SliceV: a slice value backed by a named array / table.
type SliceV struct {
	Name string
	Len  Lin
	Elem types.Type
}

// GElem: an element loaded from a global table (dispatch).
type GElem struct {
	Arr string
	Idx Lin
}
type UnkV struct{ id int }

// ArrV: the value of a local array variable loaded as a whole (for `range arr`,
// `arr[i]` on a value): a reference to the cells of the allocation it was loaded from.
type ArrV struct {
	Ptr PtrV
	Len int64
}

func (v ArrV) key() string { return "arr:" + v.Ptr.Key }

func (v IntV) key() string { return "i:" + v.L.Key() }
func (v StrV) key() string {
	if v.Const != nil {
		return "sc:" + *v.Const
	}
	return fmt.Sprintf("s:%d[%s:%s]", v.Root, v.Lo.Key(), v.Hi.Key())
}
func (v ByteV) key() string {
	if v.Root < 0 {
		return fmt.Sprintf("bc:%d", v.C)
	}
	return fmt.Sprintf("b:%d[%s]%p", v.Root, v.Idx.Key(), v.Tab)
}
func (v ByteV) bkey() string { return fmt.Sprintf("%d[%s]", v.Root, v.Idx.Key()) }
func (v PtrV) key() string   { return "p:" + v.Key }
func (v BoolV) key() string {
	k := fmt.Sprintf("B:%d:%d:%s:%v:%d[%s]%v%v", v.Known, v.Rel, v.L.Key(), v.IsB, v.BRoot, v.BIdx.Key(), v.BTrue, v.Weak)
	if v.NegOf != nil {
		k += "!" + v.NegOf.key()
	}
	return k
}
func (v FuncV) key() string {
	if v.Fn == nil {
		return "f:nil"
	}
	k := "f:" + v.Fn.String()
	if v.Bound != nil {
		k += "@" + v.Bound.key()
	}
	return k
}
func (v TupleV) key() string {
	s := "t("
	for _, e := range v.E {
		if e == nil {
			s += "nil,"
		} else {
			s += e.key() + ","
		}
	}
	return s + ")"
}
func (v StructV) key() string {
	var ks []string
	for k, e := range v.F {
		if e != nil {
			ks = append(ks, k+"="+e.key())
		}
	}
	sort.Strings(ks)
	return "S{" + strings.Join(ks, ",") + "}"
}
func (v SliceV) key() string { return "sl:" + v.Name + ":" + v.Len.Key() }
func (v GElem) key() string  { return "ge:" + v.Arr + v.Idx.Key() }
func (v UnkV) key() string   { return fmt.Sprintf("u%d", v.id) }

func strLen(s StrV) Lin { return s.Hi.Sub(s.Lo) }

type vkey struct {
	f int
	v ssa.Value
}

type Cell struct {
	P PtrV
	F string
	V AVal
}

type maskEnt struct {
	Root Sym
	Idx  Lin
	M    Mask
}

// State is one disjunct: constraint store + heap cells + byte masks + SSA values.
type State struct {
	cons    []Lin
	ckeys   map[string]bool
	tight   map[string]int // terms key → index into cons (tightest constant kept)
	cells   map[string]Cell
	masks   map[string]maskEnt
	vals    map[vkey]AVal
	dirty   map[string]PtrV // objects whose declared invariant must be re-proved
	dead    bool
	lineage int            // lineage at the loop head currently being joined
	lins    map[[2]int]int // (frame, head block) → lineage of this disjunct
	hits    map[Sym]searchHit
}

// searchHit: r = IndexByte(h, c) (needle byte c, or a byte value).
type searchHit struct {
	h    StrV
	c    int
	mask Mask            // possible needle bytes
	nlen Lin             // needle length (strings.Index); zero value = 1 byte
	org  ssa.Instruction // the search call
	// member: the call is strings.IndexByte(constant set, b): r ≥ 0 iff byte b is in the set
	member *ByteV
}

func newState() *State {
	return &State{ckeys: map[string]bool{}, tight: map[string]int{}, cells: map[string]Cell{}, masks: map[string]maskEnt{}, vals: map[vkey]AVal{}, dirty: map[string]PtrV{}, hits: map[Sym]searchHit{}, lins: map[[2]int]int{}}
}

func (s *State) clone() *State {
	n := &State{cons: append([]Lin(nil), s.cons...), ckeys: make(map[string]bool, len(s.ckeys)), tight: make(map[string]int, len(s.tight)), cells: make(map[string]Cell, len(s.cells)),
		masks: make(map[string]maskEnt, len(s.masks)), vals: make(map[vkey]AVal, len(s.vals)), dirty: make(map[string]PtrV, len(s.dirty)),
		dead: s.dead, lineage: s.lineage, hits: make(map[Sym]searchHit, len(s.hits)), lins: make(map[[2]int]int, len(s.lins))}
	for k, v := range s.lins {
		n.lins[k] = v
	}
	for k, v := range s.ckeys {
		n.ckeys[k] = v
	}
	for k, v := range s.tight {
		n.tight[k] = v
	}
	for k, v := range s.cells {
		n.cells[k] = v
	}
	for k, v := range s.masks {
		n.masks[k] = v
	}
	for k, v := range s.vals {
		n.vals[k] = v
	}
	for k, v := range s.dirty {
		n.dirty[k] = v
	}
	for k, v := range s.hits {
		n.hits[k] = v
	}
	return n
}

// add records l ≤ 0.  For a given linear part only the tightest constant is kept.
func (s *State) add(l Lin) {
	if l.IsConst() {
		if l.C > 0 {
			s.dead = true
		}
		return
	}
	l = l.normLE()
	k := l.Key()
	if s.ckeys[k] {
		return
	}
	tk := l.TermsKey()
	if i, ok := s.tight[tk]; ok {
		c := s.cons[i]
		if c.C >= l.C {
			return // existing one is tighter
		}
		delete(s.ckeys, c.Key())
		s.cons[i] = l
		s.ckeys[k] = true
		return
	}
	s.tight[tk] = len(s.cons)
	s.ckeys[k] = true
	s.cons = append(s.cons, l)
}

// implies: syntactic entailment of l ≤ 0 (same linear part, tighter constant).
func (s *State) implies(l Lin) bool {
	if i, ok := s.tight[l.TermsKey()]; ok {
		return s.cons[i].C >= l.C
	}
	return false
}

func (s *State) addLE(a, b Lin) { s.add(a.Sub(b)) }
func (s *State) addLT(a, b Lin) { s.add(a.Sub(b).AddK(1)) }
func (s *State) addEQ(a, b Lin) { s.addLE(a, b); s.addLE(b, a) }

func substVal(v AVal, old Sym, e Lin) AVal {
	switch x := v.(type) {
	case IntV:
		return IntV{x.L.Subst(old, e)}
	case StrV:
		if x.Const != nil {
			return x
		}
		x.Lo = x.Lo.Subst(old, e)
		x.Hi = x.Hi.Subst(old, e)
		return x
	case ByteV:
		x.Idx = x.Idx.Subst(old, e)
		return x
	case PtrV:
		if x.Obj != nil {
			o := substVal(*x.Obj, old, e).(PtrV)
			x.Obj = &o
			x.Key = o.Key + "." + x.Field
		}
		if x.Arr != "" {
			x.Idx = x.Idx.Subst(old, e)
			x.Key = x.Arr + "[" + x.Idx.Key() + "]"
		}
		return x
	case BoolV:
		x.L = x.L.Subst(old, e)
		x.BIdx = x.BIdx.Subst(old, e)
		if x.BRoot == old && len(e.T) == 1 && e.C == 0 && e.T[0].K == 1 {
			x.BRoot = e.T[0].S
		}
		if x.NegOf != nil {
			n := *x.NegOf
			n.L = n.L.Subst(old, e)
			n.BIdx = n.BIdx.Subst(old, e)
			if n.BRoot == old && len(e.T) == 1 && e.C == 0 && e.T[0].K == 1 {
				n.BRoot = e.T[0].S
			}
			x.NegOf = &n
		}
		return x
	case SliceV:
		x.Len = x.Len.Subst(old, e)
		return x
	case GElem:
		x.Idx = x.Idx.Subst(old, e)
		return x
	case TupleV:
		n := TupleV{}
		for _, el := range x.E {
			if el == nil {
				n.E = append(n.E, nil)
			} else {
				n.E = append(n.E, substVal(el, old, e))
			}
		}
		return n
	case FuncV:
		if x.Bound != nil {
			x.Bound = substVal(x.Bound, old, e)
		}
		return x
	}
	return v
}

// renameSym replaces symbol old by nw everywhere in the state.
func (s *State) renameSym(old, nw Sym) {
	e := V(nw)
	touched := false
	for i := range s.cons {
		if s.cons[i].Has(old) {
			s.cons[i] = s.cons[i].Subst(old, e)
			touched = true
		}
	}
	if touched {
		old := s.cons
		s.cons = nil
		s.ckeys = make(map[string]bool, len(old))
		s.tight = make(map[string]int, len(old))
		for _, c := range old {
			s.add(c)
		}
	}
	sub := func(v AVal) AVal { return substVal(v, old, e) }
	nc := make(map[string]Cell, len(s.cells))
	for _, c := range s.cells {
		c.P = sub(c.P).(PtrV)
		if c.V != nil {
			c.V = sub(c.V)
		}
		nc[c.P.Key+"."+c.F] = c
	}
	s.cells = nc
	for k, v := range s.vals {
		if v != nil {
			s.vals[k] = sub(v)
		}
	}
	nm := make(map[string]maskEnt, len(s.masks))
	for _, m := range s.masks {
		m.Idx = m.Idx.Subst(old, e)
		nm[fmt.Sprintf("%d[%s]", m.Root, m.Idx.Key())] = m
	}
	s.masks = nm
	nd := make(map[string]PtrV, len(s.dirty))
	for _, p := range s.dirty {
		p2 := sub(p).(PtrV)
		nd[p2.Key] = p2
	}
	s.dirty = nd
	if h, ok := s.hits[old]; ok {
		delete(s.hits, old)
		s.hits[nw] = h
	}
	for r, h := range s.hits {
		h.h = sub(h.h).(StrV)
		if h.member != nil {
			m := sub(*h.member).(ByteV)
			h.member = &m
		}
		s.hits[r] = h
	}
}
