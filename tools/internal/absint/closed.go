package absint

import (
	"fmt"
	"go/types"
	"strings"

	"golang.org/x/tools/go/ssa"

	"verif/tools/internal/tables"
)

// Constant tables.
//
// A package-level variable whose initialiser is closed (a literal of constants,
// function names and nested literals, or a table builder the closed evaluator
// can run) has a known value that API-reachable code never changes (C05 decides
// that separately).  Loads from such a table with a constant index yield the
// entry itself; a load with a variable index that is provably inside a small
// table splits the state per row (exec of IndexAddr), so that code which
// iterates over a table of alternatives is analysed row by row, as if the
// alternatives were written out as branches.  The same split is applied to a
// local array that is only ever written with constant indices (a local table
// literal).

const smallTable = 16

func (e *Engine) closedVar(name string) (tables.Val, bool) {
	if e.Cfg.Closed == nil || name == e.Cfg.DispVar {
		return nil, false
	}
	if _, special := e.Cfg.TableVals[name]; special {
		return nil, false
	}
	if e.closedCache == nil {
		e.closedCache = map[string]closedEntry{}
	}
	if c, ok := e.closedCache[name]; ok {
		return c.v, c.ok
	}
	v, ok := e.Cfg.Closed(name)
	e.closedCache[name] = closedEntry{v, ok}
	return v, ok
}

type closedEntry struct {
	v  tables.Val
	ok bool
}

// closedContainer: the closed slice/array a base key denotes ("G:name" or a nested slice registered earlier).
func (e *Engine) closedContainer(key string) (*tables.Slice, bool) {
	if v, ok := e.closedNames[key]; ok {
		return v, true
	}
	if strings.HasPrefix(key, "G:") && !strings.ContainsAny(key[2:], "[.") {
		if v, ok := e.closedVar(key[2:]); ok {
			if sl, isSl := v.(*tables.Slice); isSl && sl != nil {
				return sl, true
			}
		}
	}
	return nil, false
}

// closedAt resolves a pointer into a closed table to the value stored there.
func (e *Engine) closedAt(p PtrV, depth int) (tables.Val, bool) {
	if depth > 6 {
		return nil, false
	}
	switch {
	case p.Obj != nil:
		base, ok := e.closedAt(*p.Obj, depth+1)
		if !ok {
			return nil, false
		}
		sv, isS := base.(*tables.Struct)
		st := fieldsOf(p.Obj.T)
		if !isS || sv == nil || st == nil {
			return nil, false
		}
		for i := 0; i < st.NumFields() && i < len(sv.F); i++ {
			if st.Field(i).Name() == p.Field {
				return sv.F[i], true
			}
		}
		return nil, false
	case p.Arr != "":
		sl, ok := e.closedContainer(p.Arr)
		if !ok || !p.Idx.IsConst() || p.Idx.C < 0 || int(p.Idx.C) >= len(sl.Elems) {
			return nil, false
		}
		return sl.Elems[p.Idx.C], true
	case strings.HasPrefix(p.Key, "G:") && !strings.ContainsAny(p.Key[2:], "[."):
		return e.closedVar(p.Key[2:])
	}
	return nil, false
}

// closedAVal converts a closed value of static type t into an abstract value.
func (e *Engine) closedAVal(v tables.Val, t types.Type, key string) (AVal, bool) {
	switch u := t.Underlying().(type) {
	case *types.Basic:
		switch x := v.(type) {
		case int64:
			if u.Kind() == types.Uint8 {
				return ByteV{Root: -1, C: int(x)}, true
			}
			if u.Info()&types.IsInteger != 0 {
				return IntV{K(x)}, true
			}
		case string:
			if u.Kind() == types.String {
				s := x
				return StrV{Root: -1, Lo: K(0), Hi: K(int64(len(s))), Const: &s}, true
			}
		case bool:
			if x {
				return BoolV{Known: 1}, true
			}
			return BoolV{Known: 2}, true
		case nil:
			if z := zeroOf(t); z != nil {
				return z, true
			}
		}
	case *types.Signature:
		switch x := v.(type) {
		case *ssa.Function:
			return FuncV{Fn: x}, true
		case nil:
			return FuncV{}, true
		}
	case *types.Slice:
		switch x := v.(type) {
		case *tables.Slice:
			if x == nil {
				return SliceV{Name: "nil", Len: K(0), Elem: u.Elem()}, true
			}
			if e.closedNames == nil {
				e.closedNames = map[string]*tables.Slice{}
			}
			e.closedNames[key] = x
			return SliceV{Name: key, Len: K(int64(len(x.Elems))), Elem: u.Elem()}, true
		case nil:
			return SliceV{Name: "nil", Len: K(0), Elem: u.Elem()}, true
		}
	case *types.Struct:
		sv, ok := v.(*tables.Struct)
		if !ok || sv == nil {
			return nil, false
		}
		out := StructV{F: map[string]AVal{}, T: u}
		for i := 0; i < u.NumFields() && i < len(sv.F); i++ {
			f := u.Field(i)
			a, ok := e.closedAVal(sv.F[i], f.Type(), key+"."+f.Name())
			if !ok {
				return nil, false
			}
			out.F[f.Name()] = a
		}
		return out, true
	}
	return nil, false
}

// constIndex: the index is a constant, syntactically or by the state's constraints (0 ≤ k < n tried).
func (e *Engine) constIndex(st *State, idx Lin, n int) (int64, bool) {
	if idx.IsConst() {
		return idx.C, true
	}
	if !e.proveLE(st, K(0), idx) || !e.proveLT(st, idx, K(int64(n))) {
		return 0, false
	}
	for k := 0; k < n; k++ {
		if e.proveEQ(st, idx, K(int64(k))) {
			return int64(k), true
		}
	}
	return 0, false
}

// localTable: the alloc is an array of at most smallTable entries that holds something
// other than plain integers and is written only at constant indices (a table literal).
func (e *Engine) localTable(al *ssa.Alloc) (int, bool) {
	if e.localTabs == nil {
		e.localTabs = map[*ssa.Alloc]int{}
	}
	if n, ok := e.localTabs[al]; ok {
		return n, n > 0
	}
	n := 0
	defer func() { e.localTabs[al] = n }()
	arr, ok := al.Type().(*types.Pointer).Elem().Underlying().(*types.Array)
	if !ok || arr.Len() > smallTable || arr.Len() == 0 {
		return 0, false
	}
	if b, isB := arr.Elem().Underlying().(*types.Basic); isB && b.Info()&types.IsInteger != 0 {
		return 0, false
	}
	// every IndexAddr on the alloc that a store goes through has a constant index
	var storedThrough func(addr ssa.Value, depth int) bool
	storedThrough = func(addr ssa.Value, depth int) bool {
		if depth > 4 || addr.Referrers() == nil {
			return false
		}
		for _, ref := range *addr.Referrers() {
			switch r := ref.(type) {
			case *ssa.Store:
				if r.Addr == addr {
					return true
				}
			case *ssa.FieldAddr:
				if storedThrough(r, depth+1) {
					return true
				}
			case *ssa.IndexAddr:
				if r.X == addr && storedThrough(r, depth+1) {
					return true
				}
			}
		}
		return false
	}
	if al.Referrers() == nil {
		return 0, false
	}
	for _, ref := range *al.Referrers() {
		ia, ok := ref.(*ssa.IndexAddr)
		if !ok || ia.X != ssa.Value(al) {
			continue
		}
		if _, isConst := ia.Index.(*ssa.Const); !isConst && storedThrough(ia, 0) {
			return 0, false
		}
	}
	n = int(arr.Len())
	return n, true
}

// tableRows: the IndexAddr indexes a small constant table; returns its number of rows.
func (e *Engine) tableRows(st *State, fr *Frame, x *ssa.IndexAddr, base AVal) (int, bool) {
	switch b := base.(type) {
	case PtrV:
		if al, ok := x.X.(*ssa.Alloc); ok {
			return e.localTable(al)
		}
		if sl, ok := e.closedContainer(b.Key); ok && len(sl.Elems) <= smallTable && len(sl.Elems) > 0 {
			if _, isArr := b.T.Underlying().(*types.Array); isArr {
				return len(sl.Elems), true
			}
		}
	case SliceV:
		if sl, ok := e.closedContainer(b.Name); ok && len(sl.Elems) <= smallTable && len(sl.Elems) > 0 {
			return len(sl.Elems), true
		}
		// a slice of a local table literal: `openers[:]`
		if s, ok := x.X.(*ssa.Slice); ok && s.Low == nil && s.High == nil {
			if al, ok := s.X.(*ssa.Alloc); ok {
				return e.localTable(al)
			}
		}
	}
	return 0, false
}

func (e *Engine) describeClosed(name string) string {
	v, ok := e.closedVar(name)
	return fmt.Sprintf("%v %T", ok, v)
}
