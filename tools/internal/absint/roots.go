package absint

import (
	"fmt"
	"go/types"
	"io"
	"sort"
	"strings"

	"golang.org/x/tools/go/ssa"
)

// RunRoot analyses fn from an entry state prepared by setup.
func (e *Engine) RunRoot(fn *ssa.Function, setup func(e *Engine, st *State, fr *Frame)) []Result {
	st := newState()
	fr := e.newFrame(nil, fn, nil)
	e.curFr, e.curIns = fr, fn
	setup(e, st, fr)
	rs := e.analyse(fr, []*State{st})
	e.curFr, e.curIns = nil, nil
	return rs
}

// Bind sets the abstract value of a parameter in the root frame.
func (e *Engine) Bind(st *State, fr *Frame, p *ssa.Parameter, v AVal) { st.vals[vkey{fr.id, p}] = v }

// NewInput creates a fresh root string of unknown length ≥ 0.
func (e *Engine) NewInput(st *State, name string) StrV {
	r := e.newSym(name)
	e.Pinned[r] = true
	st.addLE(K(0), V(r))
	return StrV{Root: r, Lo: K(0), Hi: V(r)}
}

// NewInt creates a fresh integer symbol.
func (e *Engine) NewInt(st *State, name string) Lin {
	s := e.newSym(name)
	e.Pinned[s] = true
	return V(s)
}

// Assume adds a ≤ b.
func (e *Engine) AssumeLE(st *State, a, b Lin) { st.addLE(a, b) }
func (e *Engine) AssumeEQ(st *State, a, b Lin) { st.addEQ(a, b) }

// SetCell writes (obj, field) = v without alias effects (root setup).
func (e *Engine) SetCell(st *State, obj PtrV, field string, v AVal) {
	st.cells[obj.Key+"."+field] = Cell{obj, field, v}
}

// Cell reads a cell if it is tracked.
func (e *Engine) CellOf(st *State, obj PtrV, field string) (AVal, bool) {
	c, ok := st.cells[obj.Key+"."+field]
	if !ok || c.V == nil {
		return nil, false
	}
	if _, isM := c.V.(entryMarker); isM {
		return nil, false
	}
	return c.V, true
}

// Load reads (obj, field), creating fresh contents when unknown.
func (e *Engine) Load(st *State, obj PtrV, field string, t types.Type) AVal {
	return e.load(st, obj, field, t)
}

// Havoc forgets cell (obj, field).
func (e *Engine) Havoc(st *State, obj PtrV, field string) { delete(st.cells, obj.Key+"."+field) }

// HavocPrefix forgets every cell whose object key starts with prefix.
func (e *Engine) HavocPrefix(st *State, prefix string) {
	for k, c := range st.cells {
		if len(c.P.Key) >= len(prefix) && c.P.Key[:len(prefix)] == prefix {
			delete(st.cells, k)
		}
	}
	for k := range st.dirty {
		if len(k) >= len(prefix) && k[:len(prefix)] == prefix {
			delete(st.dirty, k)
		}
	}
}

// ObjPtr makes a pointer to a named root object.
func ObjPtr(key string, t types.Type) PtrV { return PtrV{Key: key, T: t} }

// ElemPtr makes a pointer to element idx of array arrKey.
func ElemPtr(arrKey string, idx Lin, elem types.Type) PtrV {
	return PtrV{Key: arrKey + "[" + idx.Key() + "]", Arr: arrKey, Idx: idx, T: elem}
}

// SetResult binds the value of a call instruction (used by summaries).
func (e *Engine) SetResult(st *State, fr *Frame, call *ssa.Call, v AVal) {
	st.vals[vkey{fr.id, call}] = v
}

// Clone copies a state (for summaries that split).
func (st *State) Clone() *State { return st.clone() }

// Dead reports whether the disjunct is infeasible.
func (st *State) Dead() bool { return st.dead }

// FreshOfType is exported for summaries.
func (e *Engine) FreshOfType(st *State, t types.Type, name string) AVal {
	return e.freshOfType(st, t, name)
}

// StrLenOf returns the length of a string value.
func StrLenOf(s StrV) Lin { return strLen(s) }

// MaskOf returns the possible values of a byte value.
func (e *Engine) MaskOf(st *State, b ByteV) Mask { return e.mask(st, b) }

// Has reports membership.
func (m Mask) Has(b int) bool { return m.has(b) }

// ConstOf exposes constant extraction.
func ConstOf(v AVal) (int64, bool) { return constOf(v) }

// Feasible is exported for hooks.
func (e *Engine) Feasible(st *State) bool { return e.feasible(st) }

// SetMask restricts the possible values of a byte (root setup).
func (e *Engine) SetMask(st *State, b ByteV, m Mask) { e.setMask(st, b, m) }

// HavocObject forgets every cell of the object p points to (its contents are
// then re-created on demand, assuming the declared invariant).
func (e *Engine) HavocObject(st *State, p PtrV) {
	for k, c := range st.cells {
		if c.P.Key == p.Key {
			delete(st.cells, k)
		}
	}
	if p.Arr != "" {
		// other elements that may be the same one
		for k, c := range st.cells {
			if c.P.Arr == p.Arr && c.P.Key != p.Key && !(e.proveLT(st, c.P.Idx, p.Idx) || e.proveLT(st, p.Idx, c.P.Idx)) {
				delete(st.cells, k)
			}
		}
	}
	delete(st.dirty, p.Key)
}

// entryMarker marks a cell that has not been written since the root's entry.
type entryMarker struct{}

func (entryMarker) key() string { return "entry-marker" }

// MarkFresh marks cells so that IsFreshCell can tell whether they were written.
func (e *Engine) MarkFresh(st *State, obj PtrV, fields []string) {
	for _, f := range fields {
		st.cells[obj.Key+"."+f] = Cell{obj, f, entryMarker{}}
	}
}

// IsFreshCell: the cell still holds its entry marker (never written in this run),
// or is not tracked at all.
func (e *Engine) IsFreshCell(st *State, obj PtrV, field string) bool {
	c, ok := st.cells[obj.Key+"."+field]
	if !ok || c.V == nil {
		return true
	}
	_, isM := c.V.(entryMarker)
	return isM
}

// Hits lists the live search results r = IndexByte/Index(h, needle) of a state.
type Hit struct {
	R      Sym
	Hay    StrV
	Needle Lin  // needle length
	Mask   Mask // possible needle bytes (IndexByte)
	Org    ssa.Instruction
}

func hitOf(r Sym, h searchHit) Hit {
	n := h.nlen
	if n.IsConst() && n.C == 0 {
		n = K(1)
	}
	return Hit{R: r, Hay: h.h, Needle: n, Mask: h.mask, Org: h.org}
}

func (e *Engine) Hits(st *State) []Hit {
	var rs []Sym
	for r := range st.hits {
		rs = append(rs, r)
	}
	sortSyms(rs)
	var out []Hit
	for _, r := range rs {
		out = append(out, hitOf(r, st.hits[r]))
	}
	return out
}

// addHit registers a search result; an earlier result of the same call is replaced.
func (e *Engine) addHit(st *State, fr *Frame, x *ssa.Call, r Sym, h searchHit) {
	var prev *Hit
	var rs []Sym
	for r0 := range st.hits {
		rs = append(rs, r0)
	}
	sortSyms(rs)
	for _, r0 := range rs {
		if h0 := st.hits[r0]; h0.org == h.org && r0 != r {
			ph := hitOf(r0, h0)
			prev = &ph
			delete(st.hits, r0)
		}
	}
	st.hits[r] = h
	if e.Cfg.Hooks.OnSearch != nil {
		e.curFr, e.curIns = fr, x
		e.Cfg.Hooks.OnSearch(e, st, fr, x, prev, hitOf(r, h))
	}
}

// MaskHas / MaskSingle expose byte sets to rule code.
func (m Mask) SubsetOf(o Mask) bool { return m.and(o) == m }
func (m Mask) IsFull() bool         { return m.isFull() }

// Masks lists the bytes of root whose possible values are restricted in st.
type ByteFact struct {
	Idx Lin
	M   Mask
}

func (e *Engine) ByteFacts(st *State, root Sym) []ByteFact {
	var out []ByteFact
	for _, m := range st.masks {
		if m.Root == root && !m.M.isFull() {
			out = append(out, ByteFact{m.Idx, m.M})
		}
	}
	return out
}

// Count returns the number of values in the mask.
func (m Mask) Count() int {
	n := 0
	for i := 0; i < 256; i++ {
		if m.has(i) {
			n++
		}
	}
	return n
}

// ProveLT is exported for hooks.
func (e *Engine) ProveLT(s *State, a, b Lin) bool { return e.proveLT(s, a, b) }

// Sym returns V(s) for hooks.
func SymLin(s Sym) Lin { return V(s) }

// DumpCons prints the constraint store (debugging).
func (e *Engine) DumpCons(st *State, w io.Writer) {
	for _, c := range st.cons {
		fmt.Fprintf(w, "      %s <= 0\n", e.LinStr(c))
	}
}

// FrameInts lists the integer SSA values of activation fr known in st (sorted by name).
func (e *Engine) FrameInts(st *State, fr *Frame) []Lin {
	type nv struct {
		n string
		l Lin
	}
	var all []nv
	for k, v := range st.vals {
		if k.f != fr.id || k.v == nil {
			continue
		}
		if iv, ok := v.(IntV); ok {
			all = append(all, nv{k.v.Name(), iv.L})
		}
	}
	sort.Slice(all, func(i, j int) bool { return all[i].n < all[j].n })
	out := make([]Lin, len(all))
	for i, x := range all {
		out[i] = x.l
	}
	return out
}

// CellKeys lists the field names of obj that have a cell in st (sorted).
func (e *Engine) CellKeys(st *State, obj PtrV) []string {
	var out []string
	pre := obj.Key + "."
	for k := range st.cells {
		if strings.HasPrefix(k, pre) {
			out = append(out, k[len(pre):])
		}
	}
	sort.Strings(out)
	return out
}

// PendingRet returns the return value being merged when the results of
// activation fr are joined (only meaningful inside a Templates hook).
func (e *Engine) PendingRet(joined *State, fr *Frame) (AVal, bool) {
	v, ok := joined.vals[vkey{-fr.id, nil}]
	return v, ok && v != nil
}

// DumpMasks prints the byte facts of a state (debugging).
func (e *Engine) DumpMasks(st *State, w io.Writer) {
	var ks []string
	for k := range st.masks {
		ks = append(ks, k)
	}
	sort.Strings(ks)
	for _, k := range ks {
		m := st.masks[k]
		fmt.Fprintf(w, "      mask root=%d idx=%s %s\n", m.Root, e.LinStr(m.Idx), m.M)
	}
}
