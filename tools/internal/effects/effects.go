// Package effects is E1: a flow-insensitive, interprocedural effect / escape
// analysis over the SSA of the API-reachable functions.
package effects

import (
	"fmt"
	"go/types"
	"sort"
	"strings"

	"golang.org/x/tools/go/ssa"

	"verif/tools/internal/core"
)

// Finding is one rule instance that fired.
type Finding struct {
	Rule string
	Fn   *ssa.Function
	Ins  ssa.Instruction
	Expr string
	Msg  string
}

// Site is one discharged instance (for evidence).
type Site struct {
	Rule string
	Fn   *ssa.Function
	Ins  ssa.Instruction
	Expr string
	Why  string
}

// Analysis is the result of running E1.
type Analysis struct {
	P        *core.Program
	Reach    map[*ssa.Function]bool
	Derived  map[ssa.Value]bool
	Origins  map[ssa.Value]map[*ssa.Global]bool
	heap     map[string]map[*ssa.Global]bool
	retDeriv map[*ssa.Function]map[*ssa.Global]bool

	Findings []Finding
	Sites    []Site

	GlobalReaders map[*ssa.Global][]string // global → API-reachable functions using it
	GlobalWriters map[*ssa.Global][]string // global → functions storing through it (any function, incl. init)
	ExternalCalls map[string][]string      // external callee → call sites
	Allocs        []string

	onceInit map[*ssa.Function]*ssa.Global // functions run only under once.Do → the Once global
}

func pointerLike(t types.Type) bool {
	switch u := t.Underlying().(type) {
	case *types.Pointer, *types.Slice, *types.Map, *types.Chan, *types.Signature, *types.Interface:
		return true
	case *types.Struct:
		for i := 0; i < u.NumFields(); i++ {
			if pointerLike(u.Field(i).Type()) {
				return true
			}
		}
	case *types.Array:
		return pointerLike(u.Elem())
	case *types.Tuple:
		for i := 0; i < u.Len(); i++ {
			if pointerLike(u.At(i).Type()) {
				return true
			}
		}
	}
	return false
}

func addrKey(addr ssa.Value) string {
	switch a := addr.(type) {
	case *ssa.FieldAddr:
		st := a.X.Type().Underlying().(*types.Pointer).Elem()
		return fmt.Sprintf("field:%s.%d", st.String(), a.Field)
	case *ssa.IndexAddr:
		return "elem:" + a.X.Type().String()
	case *ssa.Alloc:
		return fmt.Sprintf("alloc:%p", a)
	}
	return "addr:" + addr.Type().String()
}

// pure external packages (callee does not touch shared mutable state).
var purePkgs = map[string]bool{
	"strings": true, "bytes": true, "unicode": true, "unicode/utf8": true, "unicode/utf16": true,
	"strconv": true, "math": true, "math/bits": true, "sort": true, "slices": true, "errors": true, "cmp": true,
}

// external functions that only read through their pointer-like arguments.
var readOnlyArgs = map[string]bool{
	"bytes.IndexByte": true, "bytes.Index": true, "bytes.Equal": true, "bytes.Contains": true, "bytes.HasPrefix": true,
	"bytes.HasSuffix": true, "bytes.Compare": true, "bytes.EqualFold": true, "bytes.Count": true, "bytes.LastIndexByte": true,
	"bytes.IndexAny": true, "bytes.ContainsAny": true, "bytes.ToUpper": true, "bytes.ToLower": true,
	"sort.SearchStrings": true, "sort.SearchInts": true, "sort.Search": true,
	"slices.Contains": true, "slices.Index": true, "slices.BinarySearch": true, "slices.Equal": true,
}

// impure names inside otherwise pure packages.
var impureNames = map[string]bool{}

func externalClass(fn *ssa.Function) (pkg, name string, pure bool) {
	name = fn.String()
	if fn.Pkg != nil {
		pkg = fn.Pkg.Pkg.Path()
	} else if o := fn.Object(); o != nil && o.Pkg() != nil {
		pkg = o.Pkg().Path()
	} else if fn.Parent() != nil {
		return externalClass(fn.Parent())
	}
	if pkg == "fmt" {
		short := fn.Name()
		return pkg, name, strings.HasPrefix(short, "Sprint") || short == "Errorf"
	}
	return pkg, name, purePkgs[pkg] && !impureNames[name]
}

// Run analyses the program.
func Run(p *core.Program) *Analysis {
	a := &Analysis{P: p, Reach: p.Reach, Derived: map[ssa.Value]bool{}, Origins: map[ssa.Value]map[*ssa.Global]bool{}, heap: map[string]map[*ssa.Global]bool{}, retDeriv: map[*ssa.Function]map[*ssa.Global]bool{},
		GlobalReaders: map[*ssa.Global][]string{}, GlobalWriters: map[*ssa.Global][]string{}, ExternalCalls: map[string][]string{},
		onceInit: map[*ssa.Function]*ssa.Global{}}
	a.findOnce()
	a.propagate()
	a.rules()
	a.audit()
	return a
}

// funcs returns the in-module reachable functions with bodies (wrappers too).
func (a *Analysis) funcs() []*ssa.Function {
	var out []*ssa.Function
	for fn := range a.Reach {
		if fn.Blocks != nil && a.P.InModule(fn) {
			out = append(out, fn)
		}
	}
	sort.Slice(out, func(i, j int) bool { return out[i].String() < out[j].String() })
	return out
}

func (a *Analysis) callees(fn *ssa.Function, site ssa.CallInstruction) []*ssa.Function {
	var out []*ssa.Function
	if n := a.P.Graph.Nodes[fn]; n != nil {
		for _, e := range n.Out {
			if e.Site == site {
				out = append(out, e.Callee.Func)
			}
		}
	}
	if len(out) == 0 {
		if sc := site.Common().StaticCallee(); sc != nil {
			out = append(out, sc)
		}
	}
	return out
}

func (a *Analysis) originsOf(v ssa.Value) map[*ssa.Global]bool {
	if g, ok := v.(*ssa.Global); ok {
		return map[*ssa.Global]bool{g: true}
	}
	return a.Origins[v]
}

// OriginNames lists the package variables a value may derive from.
func (a *Analysis) OriginNames(v ssa.Value) []string {
	var out []string
	for g := range a.originsOf(v) {
		out = append(out, g.Name())
	}
	sort.Strings(out)
	return out
}

func (a *Analysis) propagate() {
	fns := a.funcs()
	changed := true
	union := func(dst map[*ssa.Global]bool, src map[*ssa.Global]bool) bool {
		ch := false
		for g := range src {
			if !dst[g] {
				dst[g] = true
				ch = true
			}
		}
		return ch
	}
	// flow: dst derives from whatever src derives from
	flow := func(dst, src ssa.Value) {
		so := a.originsOf(src)
		if len(so) == 0 {
			return
		}
		m := a.Origins[dst]
		if m == nil {
			m = map[*ssa.Global]bool{}
			a.Origins[dst] = m
		}
		if union(m, so) {
			a.Derived[dst] = true
			changed = true
		}
	}
	flowSet := func(dst ssa.Value, so map[*ssa.Global]bool) {
		if len(so) == 0 {
			return
		}
		m := a.Origins[dst]
		if m == nil {
			m = map[*ssa.Global]bool{}
			a.Origins[dst] = m
		}
		if union(m, so) {
			a.Derived[dst] = true
			changed = true
		}
	}
	// closures kept in package-level variables: what such a closure captured lives as
	// long as the package and is shared by every call — its free variables derive from
	// the variable that holds the closure.  (The closure may be built by a constructor
	// function whose result is stored into the variable.)
	closureHome := map[*ssa.MakeClosure]map[*ssa.Global]bool{}
	{
		returned := map[*ssa.Function][]*ssa.MakeClosure{}
		var all []*ssa.Function
		for fn := range ssautilAll(a.P) {
			all = append(all, fn)
		}
		for _, fn := range all {
			for _, b := range fn.Blocks {
				for _, ins := range b.Instrs {
					if ret, ok := ins.(*ssa.Return); ok {
						for _, rv := range ret.Results {
							// (a closure returned as a named func type is wrapped in a ChangeType)
							if ct, ok := rv.(*ssa.ChangeType); ok {
								rv = ct.X
							}
							if mc, ok := rv.(*ssa.MakeClosure); ok {
								returned[fn] = append(returned[fn], mc)
							}
						}
					}
				}
			}
		}
		// where a stored value ends up: the package-level variable the address is rooted
		// at, directly or through a local composite (array / struct / map literal) that
		// is itself stored into a package-level variable by the same function
		rootOf := func(addr ssa.Value) ssa.Value {
			for d := 0; d < 8; d++ {
				switch x := addr.(type) {
				case *ssa.IndexAddr:
					addr = x.X
				case *ssa.FieldAddr:
					addr = x.X
				default:
					return addr
				}
			}
			return addr
		}
		derivesFrom := func(v, root ssa.Value) bool {
			for d := 0; d < 6; d++ {
				if v == root {
					return true
				}
				switch x := v.(type) {
				case *ssa.Slice:
					v = x.X
				case *ssa.ChangeType:
					v = x.X
				case *ssa.Convert:
					v = x.X
				case *ssa.MakeInterface:
					v = x.X
				case *ssa.UnOp:
					v = x.X
				default:
					return false
				}
			}
			return false
		}
		homesOf := func(fn *ssa.Function, root ssa.Value, depth int) []*ssa.Global {
			var out []*ssa.Global
			var walk func(root ssa.Value, depth int)
			walk = func(root ssa.Value, depth int) {
				if g, ok := root.(*ssa.Global); ok {
					out = append(out, g)
					return
				}
				if depth > 3 {
					return
				}
				for _, b := range fn.Blocks {
					for _, ins := range b.Instrs {
						switch x := ins.(type) {
						case *ssa.Store:
							if derivesFrom(x.Val, root) && x.Val != x.Addr {
								if r2 := rootOf(x.Addr); r2 != root {
									walk(r2, depth+1)
								}
							}
						case *ssa.MapUpdate:
							if derivesFrom(x.Value, root) {
								walk(x.Map, depth+1)
							}
						}
					}
				}
			}
			walk(root, depth)
			return out
		}
		for _, fn := range all {
			for _, b := range fn.Blocks {
				for _, ins := range b.Instrs {
					var val, dest ssa.Value
					switch x := ins.(type) {
					case *ssa.Store:
						val, dest = x.Val, rootOf(x.Addr)
					case *ssa.MapUpdate:
						val, dest = x.Value, x.Map
					default:
						continue
					}
					var mcs []*ssa.MakeClosure
					if ct, ok := val.(*ssa.ChangeType); ok {
						val = ct.X
					}
					switch v := val.(type) {
					case *ssa.MakeClosure:
						mcs = append(mcs, v)
					case *ssa.Call:
						if cal := v.Call.StaticCallee(); cal != nil {
							mcs = append(mcs, returned[cal]...)
						}
					}
					if len(mcs) == 0 {
						continue
					}
					for _, g := range homesOf(fn, dest, 0) {
						for _, mc := range mcs {
							if closureHome[mc] == nil {
								closureHome[mc] = map[*ssa.Global]bool{}
							}
							closureHome[mc][g] = true
						}
					}
				}
			}
		}
	}
	for mc, gs := range closureHome {
		if cf, ok := mc.Fn.(*ssa.Function); ok {
			for _, fv := range cf.FreeVars {
				flowSet(fv, gs)
			}
		}
	}
	for changed {
		changed = false
		for _, fn := range fns {
			for _, b := range fn.Blocks {
				for _, ins := range b.Instrs {
					switch x := ins.(type) {
					case *ssa.Store:
						if a.isDerived(x.Val) && pointerLike(x.Val.Type()) {
							k := addrKey(x.Addr)
							if a.heap[k] == nil {
								a.heap[k] = map[*ssa.Global]bool{}
							}
							if union(a.heap[k], a.originsOf(x.Val)) {
								changed = true
							}
						}
					case *ssa.Return:
						for _, r := range x.Results {
							if a.isDerived(r) {
								if a.retDeriv[fn] == nil {
									a.retDeriv[fn] = map[*ssa.Global]bool{}
								}
								if union(a.retDeriv[fn], a.originsOf(r)) {
									changed = true
								}
							}
						}
					case *ssa.MakeClosure:
						if cf, ok := x.Fn.(*ssa.Function); ok {
							for i, bnd := range x.Bindings {
								if i < len(cf.FreeVars) {
									flow(cf.FreeVars[i], bnd)
								}
							}
						}
					}
					if ci, ok := ins.(ssa.CallInstruction); ok {
						com := ci.Common()
						for _, callee := range a.callees(fn, ci) {
							if callee.Blocks == nil {
								continue
							}
							args := com.Args
							params := callee.Params
							if com.IsInvoke() {
								if len(params) > 0 {
									flow(params[0], com.Value)
								}
								params = params[min(1, len(params)):]
							}
							for i, arg := range args {
								if i < len(params) {
									flow(params[i], arg)
								}
							}
						}
						if v, ok := ins.(ssa.Value); ok && pointerLike(v.Type()) {
							for _, callee := range a.callees(fn, ci) {
								flowSet(v, a.retDeriv[callee])
							}
						}
					}
					v, ok := ins.(ssa.Value)
					if !ok {
						continue
					}
					switch x := v.(type) {
					case *ssa.FieldAddr:
						flow(v, x.X)
					case *ssa.IndexAddr:
						flow(v, x.X)
					case *ssa.Slice:
						if pointerLike(v.Type()) {
							flow(v, x.X)
						}
					case *ssa.Index:
						if pointerLike(v.Type()) {
							flow(v, x.X)
						}
					case *ssa.Lookup:
						if pointerLike(v.Type()) {
							flow(v, x.X)
						}
					case *ssa.Field:
						if pointerLike(v.Type()) {
							flow(v, x.X)
						}
					case *ssa.Phi:
						for _, e := range x.Edges {
							flow(v, e)
						}
					case *ssa.ChangeType:
						flow(v, x.X)
					case *ssa.Convert:
						if pointerLike(v.Type()) {
							flow(v, x.X)
						}
					case *ssa.ChangeInterface:
						flow(v, x.X)
					case *ssa.MakeInterface:
						flow(v, x.X)
					case *ssa.TypeAssert:
						if pointerLike(v.Type()) {
							flow(v, x.X)
						}
					case *ssa.Extract:
						if pointerLike(v.Type()) {
							flow(v, x.Tuple)
						}
					case *ssa.Next:
						if pointerLike(v.Type()) {
							flow(v, x.Iter)
						}
					case *ssa.Range:
						flow(v, x.X)
					case *ssa.UnOp:
						if x.Op.String() == "*" && pointerLike(v.Type()) {
							flow(v, x.X)
							flowSet(v, a.heap[addrKey(x.X)])
						}
					}
				}
			}
		}
	}
}

func (a *Analysis) isDerived(v ssa.Value) bool {
	if v == nil {
		return false
	}
	if _, ok := v.(*ssa.Global); ok {
		return true
	}
	return a.Derived[v]
}

// rootGlobal walks an address back to the global it derives from, if direct.
func rootGlobal(v ssa.Value) *ssa.Global {
	for i := 0; i < 50 && v != nil; i++ {
		switch x := v.(type) {
		case *ssa.Global:
			return x
		case *ssa.FieldAddr:
			v = x.X
		case *ssa.IndexAddr:
			v = x.X
		case *ssa.Slice:
			v = x.X
		case *ssa.UnOp:
			v = x.X
		case *ssa.ChangeType:
			v = x.X
		case *ssa.Index:
			v = x.X
		default:
			return nil
		}
	}
	return nil
}

func (a *Analysis) add(rule string, fn *ssa.Function, ins ssa.Instruction, expr, msg string) {
	a.Findings = append(a.Findings, Finding{rule, fn, ins, expr, msg})
}

func (a *Analysis) ok(rule string, fn *ssa.Function, ins ssa.Instruction, expr, why string) {
	a.Sites = append(a.Sites, Site{rule, fn, ins, expr, why})
}

func describe(v ssa.Value) string {
	if g := rootGlobal(v); g != nil {
		return g.Name()
	}
	return v.Name() + ":" + v.Type().String()
}

func (a *Analysis) describe(v ssa.Value) string {
	if g := rootGlobal(v); g != nil {
		return g.Name()
	}
	if o := a.OriginNames(v); len(o) > 0 {
		return strings.Join(o, ",")
	}
	return v.Name() + ":" + v.Type().String()
}

// findOnce recognises (*sync.Once).Do(f) on a package-level Once.
func (a *Analysis) findOnce() {
	for _, fn := range a.funcs() {
		for _, b := range fn.Blocks {
			for _, ins := range b.Instrs {
				ci, ok := ins.(ssa.CallInstruction)
				if !ok {
					continue
				}
				sc := ci.Common().StaticCallee()
				if sc == nil || sc.String() != "(*sync.Once).Do" || len(ci.Common().Args) != 2 {
					continue
				}
				g := rootGlobal(ci.Common().Args[0])
				if g == nil {
					continue
				}
				var f *ssa.Function
				switch v := ci.Common().Args[1].(type) {
				case *ssa.Function:
					f = v
				case *ssa.MakeClosure:
					f, _ = v.Fn.(*ssa.Function)
				}
				if f != nil {
					a.onceInit[f] = g
				}
			}
		}
	}
	// functions called only from once-init functions inherit the label
	changed := true
	for changed {
		changed = false
		for fn := range a.Reach {
			if _, ok := a.onceInit[fn]; ok || fn.Blocks == nil || !a.P.InModule(fn) {
				continue
			}
			n := a.P.Graph.Nodes[fn]
			if n == nil || len(n.In) == 0 {
				continue
			}
			var g *ssa.Global
			all := true
			for _, e := range n.In {
				og, ok := a.onceInit[e.Caller.Func]
				if !ok || (g != nil && og != g) {
					all = false
					break
				}
				g = og
			}
			if all && g != nil {
				a.onceInit[fn] = g
				changed = true
			}
		}
	}
}

// dominatedByDo: is instruction ins (in fn) dominated by a call once.Do on g,
// either in fn itself or — recursively — at every call site of fn?
func (a *Analysis) dominatedByDo(fn *ssa.Function, ins ssa.Instruction, g *ssa.Global, depth int) bool {
	if depth > 6 {
		return false
	}
	for _, b := range fn.Blocks {
		for idx, i2 := range b.Instrs {
			ci, ok := i2.(ssa.CallInstruction)
			if !ok {
				continue
			}
			sc := ci.Common().StaticCallee()
			if sc == nil {
				continue
			}
			if sc.String() == "(*sync.Once).Do" {
				if rootGlobal(ci.Common().Args[0]) != g {
					continue
				}
			} else if !a.isDoWrapper(sc, g, 0) {
				continue
			}
			if b == ins.Block() {
				for j, i3 := range b.Instrs {
					if i3 == ins && idx < j {
						return true
					}
				}
			} else if b.Dominates(ins.Block()) {
				return true
			}
		}
	}
	n := a.P.Graph.Nodes[fn]
	if n == nil || len(n.In) == 0 {
		return false
	}
	for _, e := range n.In {
		if !a.Reach[e.Caller.Func] {
			continue
		}
		if e.Site == nil || !a.dominatedByDo(e.Caller.Func, e.Site, g, depth+1) {
			return false
		}
	}
	return true
}

// isDoWrapper: every return of fn is dominated by a call to Do on g (directly
// or through another wrapper).
func (a *Analysis) isDoWrapper(fn *ssa.Function, g *ssa.Global, depth int) bool {
	if fn.Blocks == nil || depth > 4 {
		return false
	}
	var doBlocks []*ssa.BasicBlock
	for _, b := range fn.Blocks {
		for _, i2 := range b.Instrs {
			ci, ok := i2.(ssa.CallInstruction)
			if !ok {
				continue
			}
			sc := ci.Common().StaticCallee()
			if sc == nil {
				continue
			}
			if (sc.String() == "(*sync.Once).Do" && rootGlobal(ci.Common().Args[0]) == g) || (sc != fn && sc.String() != "(*sync.Once).Do" && a.isDoWrapper(sc, g, depth+1)) {
				doBlocks = append(doBlocks, b)
			}
		}
	}
	if len(doBlocks) == 0 {
		return false
	}
	for _, b := range fn.Blocks {
		if len(b.Instrs) == 0 {
			continue
		}
		if _, isRet := b.Instrs[len(b.Instrs)-1].(*ssa.Return); !isRet {
			continue
		}
		dom := false
		for _, d := range doBlocks {
			if d == b || d.Dominates(b) {
				dom = true
			}
		}
		if !dom {
			return false
		}
	}
	return true
}

func (a *Analysis) rules() {
	onceWritten := map[*ssa.Global]*ssa.Global{} // written global → Once
	type onceStore struct {
		fn  *ssa.Function
		ins ssa.Instruction
		g   *ssa.Global
	}
	var onceStores []onceStore

	writeTo := func(fn *ssa.Function, ins ssa.Instruction, target ssa.Value, what string) {
		if !a.isDerived(target) {
			a.ok("R1", fn, ins, what+" "+describe(target), "target is not derived from package state")
			return
		}
		for g := range a.originsOf(target) {
			if g.Pkg == a.P.SSAPkg {
				a.GlobalWriters[g] = appendUniq(a.GlobalWriters[g], core.QualName(fn))
			}
		}
		if og, ok := a.onceInit[fn]; ok {
			if g := rootGlobal(target); g != nil {
				onceWritten[g] = og
				onceStores = append(onceStores, onceStore{fn, ins, g})
				return
			}
		}
		a.add("R1", fn, ins, what+" "+a.describe(target), fmt.Sprintf("API-reachable %s whose target derives from package-level state (%s): shared mutable state breaks thread-safety / history-independence", what, a.describe(target)))
	}

	for _, fn := range a.funcs() {
		for _, b := range fn.Blocks {
			for _, ins := range b.Instrs {
				switch x := ins.(type) {
				case *ssa.Store:
					writeTo(fn, ins, x.Addr, "store")
				case *ssa.MapUpdate:
					writeTo(fn, ins, x.Map, "map update")
				case *ssa.Go:
					a.add("R2", fn, ins, "go "+x.Call.String(), "goroutine started in API-reachable code")
				case *ssa.Send:
					a.add("R2", fn, ins, "send", "channel send in API-reachable code")
				case *ssa.Select:
					a.add("R4", fn, ins, "select", "select in API-reachable code (scheduling-dependent)")
				case *ssa.MakeChan:
					a.add("R2", fn, ins, "make(chan)", "channel created in API-reachable code")
				case *ssa.Range:
					if _, isMap := x.X.Type().Underlying().(*types.Map); isMap {
						a.add("R4", fn, ins, "range "+describe(x.X), "range over a map: iteration order is nondeterministic")
					} else {
						a.ok("R4", fn, ins, "range "+x.X.Type().String(), "not a map")
					}
				case *ssa.UnOp:
					if x.Op.String() == "<-" {
						a.add("R2", fn, ins, "recv", "channel receive in API-reachable code")
					}
				}
				ci, ok := ins.(ssa.CallInstruction)
				if !ok {
					continue
				}
				com := ci.Common()
				if bi, ok := com.Value.(*ssa.Builtin); ok {
					switch bi.Name() {
					case "delete":
						writeTo(fn, ins, com.Args[0], "delete")
					case "copy":
						writeTo(fn, ins, com.Args[0], "copy into")
					case "append":
						writeTo(fn, ins, com.Args[0], "append to")
					case "clear":
						writeTo(fn, ins, com.Args[0], "clear")
					case "recover", "print", "println":
						a.add("R3", fn, ins, bi.Name(), "builtin "+bi.Name()+" in API-reachable code")
					}
					continue
				}
				callees := a.callees(fn, ci)
				if len(callees) == 0 {
					a.add("R3", fn, ins, "dynamic call "+com.Value.Name(), "dynamic call with no resolved callee (undecided)")
					continue
				}
				for _, callee := range callees {
					if a.P.InModule(callee) {
						continue
					}
					pkg, name, pure := externalClass(callee)
					site := a.P.Pos(ins.Pos())
					a.ExternalCalls[name] = append(a.ExternalCalls[name], core.QualName(fn)+"@"+site)
					if name == "(*sync.Once).Do" {
						if g := rootGlobal(com.Args[0]); g != nil {
							a.ok("R5", fn, ins, "once.Do on "+g.Name(), "package-level sync.Once idiom")
							continue
						}
					}
					if !pure {
						a.add("R3", fn, ins, "call "+name, fmt.Sprintf("API-reachable call of %s (package %q) which is not on the pure list", name, pkg))
						continue
					}
					// derived pointer-like args into a callee that may write them
					bad := false
					for _, arg := range com.Args {
						if a.isDerived(arg) && pointerLike(arg.Type()) && !readOnlyArgs[name] {
							a.add("R1", fn, ins, "call "+name+" with "+describe(arg), fmt.Sprintf("package-state-derived %s passed to external %s, which is not known to be read-only on its arguments", describe(arg), name))
							bad = true
						}
					}
					if !bad {
						a.ok("R3", fn, ins, "call "+name, "pure external callee")
					}
				}
			}
		}
	}

	// R5: every API-reachable read of a once-written global is dominated by Do.
	for _, st := range onceStores {
		og := onceWritten[st.g]
		okAll := true
		for _, fn := range a.funcs() {
			if _, inOnce := a.onceInit[fn]; inOnce {
				continue
			}
			for _, b := range fn.Blocks {
				for _, ins := range b.Instrs {
					uses := false
					for _, op := range ins.Operands(nil) {
						if *op == ssa.Value(st.g) {
							uses = true
						}
					}
					if uses && !a.dominatedByDo(fn, ins, og, 0) {
						okAll = false
						a.add("R1", fn, ins, "read of lazily initialised "+st.g.Name(), fmt.Sprintf("global %s is written under %s.Do but this API-reachable read is not dominated by a call to Do on the same Once", st.g.Name(), og.Name()))
					}
				}
			}
		}
		if okAll {
			a.ok("R5", st.fn, st.ins, "once-guarded init of "+st.g.Name(), "all reads dominated by Do on "+og.Name())
		}
	}

	// API result types must not hand out references to shared or per-call state.
	for _, root := range []string{"IsSQLi", "IsXSS"} {
		f := a.P.Func(root)
		res := f.Signature.Results()
		for i := 0; i < res.Len(); i++ {
			if pointerLike(res.At(i).Type()) {
				a.add("R2", f, nil, fmt.Sprintf("result %d of %s", i, root), "API returns a pointer-like value: callers could share detector state")
			} else {
				a.Sites = append(a.Sites, Site{"R2", f, nil, fmt.Sprintf("result %d of %s: %s", i, root, res.At(i).Type()), "value type, cannot alias state"})
			}
		}
	}
}

// audit collects, for evidence, readers/writers of each global and allocations.
func (a *Analysis) audit() {
	for _, fn := range a.P.SourceFuncs(nil) {
		a.auditFn(fn)
	}
	if init := a.P.SSAPkg.Func("init"); init != nil {
		a.auditFn(init)
	}
	for _, fn := range a.funcs() {
		for _, b := range fn.Blocks {
			for _, ins := range b.Instrs {
				if al, ok := ins.(*ssa.Alloc); ok && al.Heap {
					a.Allocs = append(a.Allocs, core.QualName(fn)+": new "+al.Type().Underlying().(*types.Pointer).Elem().String())
				}
			}
		}
	}
	sort.Strings(a.Allocs)
}

func (a *Analysis) auditFn(fn *ssa.Function) {
	for _, b := range fn.Blocks {
		for _, ins := range b.Instrs {
			if st, ok := ins.(*ssa.Store); ok {
				if g := rootGlobal(st.Addr); g != nil && g.Pkg == a.P.SSAPkg {
					a.GlobalWriters[g] = appendUniq(a.GlobalWriters[g], core.QualName(fn))
					continue
				}
			}
			if mu, ok := ins.(*ssa.MapUpdate); ok {
				if g := rootGlobal(mu.Map); g != nil && g.Pkg == a.P.SSAPkg {
					a.GlobalWriters[g] = appendUniq(a.GlobalWriters[g], core.QualName(fn))
					continue
				}
			}
			if !a.Reach[fn] {
				continue
			}
			for _, op := range ins.Operands(nil) {
				if g, ok := (*op).(*ssa.Global); ok && g.Pkg == a.P.SSAPkg {
					a.GlobalReaders[g] = appendUniq(a.GlobalReaders[g], core.QualName(fn))
				}
			}
		}
	}
}

func appendUniq(s []string, x string) []string {
	for _, y := range s {
		if y == x {
			return s
		}
	}
	return append(s, x)
}

// ssautilAll: every function of the analysed library package (members, methods, anonymous functions).
func ssautilAll(p *core.Program) map[*ssa.Function]bool {
	out := map[*ssa.Function]bool{}
	var add func(fn *ssa.Function)
	add = func(fn *ssa.Function) {
		if fn == nil || out[fn] {
			return
		}
		out[fn] = true
		for _, an := range fn.AnonFuncs {
			add(an)
		}
	}
	for _, fn := range p.SourceFuncs(nil) {
		add(fn)
	}
	if p.SSAPkg != nil {
		for _, m := range p.SSAPkg.Members {
			if fn, ok := m.(*ssa.Function); ok {
				add(fn)
			}
		}
	}
	return out
}
