package checks

import (
	"fmt"
	"go/token"
	"go/types"
	"sort"
	"strings"

	"golang.org/x/tools/go/ssa"

	"verif/tools/internal/core"
	"verif/tools/internal/ssax"
)

func init() {
	register("C13", "other", checkC13)
	register("C15", "other", checkC15)
}

// freshStateRule (X3): every context runs on a fresh tokenizer state: the
// state object handed to init/next in the per-context function is a local
// allocation of that function, or else init assigns every field on every path.
func freshStateRule(p *core.Program, a *Anchors, r *core.Result, rule string) {
	ctx := a.Fn("xss.ctx")
	initFn := a.Fn("xss.init")
	st := a.Struct("xss.state")
	if ctx == nil || initFn == nil || st == nil {
		return
	}
	for _, ci := range ssax.Calls(ctx) {
		if ci.Common().StaticCallee() != initFn {
			continue
		}
		recv := ci.Common().Args[0]
		if al, ok := recv.(*ssa.Alloc); ok && al.Parent() == ctx {
			// fresh zero-valued object; nothing else may have written it before init
			dirty := false
			for _, ref := range *al.Referrers() {
				if ins, ok := ref.(ssa.Instruction); ok && ins != ci.(ssa.Instruction) {
					if ssax.Dominates(ins, ci.(ssa.Instruction)) {
						if _, isDbg := ins.(*ssa.DebugRef); !isDbg {
							dirty = true
						}
					}
				}
			}
			if !dirty {
				r.OK(rule, core.QualName(ctx), "tokenizer state is a fresh allocation per context", p.Pos(ci.Pos()), "new(h5State) local to the context function")
				return
			}
		}
		// not fresh: init must assign every field on every path
		stored := map[string]bool{}
		for _, b := range initFn.Blocks {
			for _, ins := range b.Instrs {
				s, ok := ins.(*ssa.Store)
				if !ok {
					continue
				}
				if _, isParam := s.Addr.(*ssa.Parameter); isParam {
					// whole-struct store
					for i := 0; i < st.NumFields(); i++ {
						stored[st.Field(i).Name()] = true
					}
					continue
				}
				fr, ok := ssax.AsFieldAddr(s.Addr)
				if !ok || fr.Struct != a.TypeName("xss.state") {
					continue
				}
				dom := true
				for _, ret := range ssax.Returns(initFn) {
					if !(s.Block() == ret.Block() || s.Block().Dominates(ret.Block())) {
						dom = false
					}
				}
				if dom || fr.Field == a.Fields["xss.state.state"] {
					stored[fr.Field] = true
				}
			}
		}
		var missing []string
		for i := 0; i < st.NumFields(); i++ {
			if !stored[st.Field(i).Name()] {
				missing = append(missing, st.Field(i).Name())
			}
		}
		if len(missing) > 0 {
			r.Fail(rule, core.QualName(ctx), "tokenizer state reused across contexts/calls", p.Pos(ci.Pos()), fmt.Sprintf("the state handed to init() is not a fresh local allocation (%s) and init() does not reset fields %v: one context/call leaks into the next", recv.String(), missing))
		} else {
			r.OK(rule, core.QualName(ctx), "tokenizer state reused but fully reset by init", p.Pos(ci.Pos()), "every field assigned on every path")
		}
		return
	}
	r.Fail(rule, core.QualName(ctx), "call of init", p.Pos(ctx.Pos()), "the context function does not initialise a tokenizer state")
}

func checkC13(c *Ctx) *core.Result {
	p := c.P
	r := c.newResult()
	a := loadAnchors(c, r)
	root := a.Fn("xss.root")
	ctx := a.Fn("xss.ctx")
	if len(r.Violations) > 0 {
		return r
	}
	g := buildStateGraph(p, a, r)

	// ---- X1: IsXSS = OR over exactly the five contexts
	specFlags := map[int64]string{
		a.Const("xss.flagData"): "xss.st.data", a.Const("xss.flagNoQuote"): "xss.st.beforeAttrName", a.Const("xss.flagSingle"): "xss.st.valueSingle",
		a.Const("xss.flagDouble"): "xss.st.valueDouble", a.Const("xss.flagBack"): "xss.st.valueBack"}
	inlineX1 := func(callee *ssa.Function, depth int) bool {
		return p.InModule(callee) && callee != ctx && depth <= 2 && len(callee.Blocks) <= 40
	}
	paths, err := ssax.EnumerateTracesWith(root, inlineX1, 500, traceConsts(p))
	loopForm := false
	if err != nil {
		// not a straight-line disjunction: accept the loop over a constant list of contexts
		if x1LoopForm(c, r, root, ctx, specFlags) {
			loopForm = true
			paths = nil
		} else {
			r.Fail("X1", core.QualName(root), "path enumeration", p.Pos(root.Pos()), err.Error())
		}
	}
	var emptyProof map[int64]string
	for pi := range paths {
		path := &paths[pi]
		type ev struct {
			flag int64
			out  int // 1 true, 0 false, -1 unknown
		}
		var evs []ev
		bad := ""
		emptySide := false // this path is taken for the empty input only
		for _, it := range path.Items {
			switch {
			case it.Branch:
				if prm := apiStringParam(root); prm != nil && (it.CondFr == nil || it.CondFr.Parent == nil) {
					if trueIsEmpty, ok := emptyTest(it.Cond, prm); ok {
						if it.True == trueIsEmpty {
							emptySide = true
						}
						continue
					}
				}
				if call, ok := it.Cond.(*ssa.Call); ok && call.Common().StaticCallee() == ctx && len(evs) > 0 {
					if it.True {
						evs[len(evs)-1].out = 1
					} else {
						evs[len(evs)-1].out = 0
					}
				} else {
					bad = "branch on something other than a context verdict: " + it.Cond.String()
				}
			case it.Call != nil && it.Call.Common().StaticCallee() == ctx:
				fl := int64(-1)
				inputOK := false
				for _, arg := range it.Call.Common().Args {
					if k, ok := path.ConstInt(arg, it.Fr); ok {
						fl = k
					}
					rv, rfr := path.Resolve(arg, it.Fr)
					if prm, ok := rv.(*ssa.Parameter); ok && prm.Parent() == root && (rfr == nil || rfr.Parent == nil) {
						inputOK = true
					}
				}
				if !inputOK {
					bad = "a context is analysed on something other than the API input"
				}
				evs = append(evs, ev{fl, -1})
			case it.Call != nil:
				if f := it.Call.Common().StaticCallee(); f != nil && p.InModule(f) {
					bad = "unexpected call " + f.Name()
				}
			}
		}
		expr := fmt.Sprintf("path #%d", pi)
		var desc []string
		for _, e := range evs {
			desc = append(desc, fmt.Sprintf("ctx(%d)=%d", e.flag, e.out))
		}
		expr += " " + strings.Join(desc, " ")
		switch {
		case bad != "":
			r.Fail("X1", core.QualName(root), "disjunction path", p.Pos(path.RetPos), expr+": "+bad)
		case !path.RetKnown:
			r.Fail("X1", core.QualName(root), "disjunction path", p.Pos(path.RetPos), expr+": returns a value that is not a context verdict")
		case path.Ret:
			if len(evs) == 0 || evs[len(evs)-1].out != 1 {
				r.Fail("X1", core.QualName(root), "return true without a positive context", p.Pos(path.RetPos), expr+": true is returned although the last analysed context did not report XSS")
			} else {
				r.OK("X1", core.QualName(root), expr+" → true", p.Pos(path.RetPos), "some context returned true")
			}
		default:
			seen := map[int64]bool{}
			okAll := true
			for _, e := range evs {
				seen[e.flag] = true
				if e.out != 0 {
					okAll = false
				}
			}
			var missing []int64
			for fl := range specFlags {
				if !seen[fl] {
					missing = append(missing, fl)
				}
			}
			sort.Slice(missing, func(i, j int) bool { return missing[i] < missing[j] })
			if okAll && len(missing) > 0 && emptySide {
				// `false` for the empty input without asking (all) contexts: each skipped
				// context must be proved to answer false on the empty input
				if emptyProof == nil {
					var fls []int64
					for fl := range specFlags {
						fls = append(fls, fl)
					}
					emptyProof = classifierFalseOnEmpty(c, ctx, fls)
				}
				unproved := ""
				for _, fl := range missing {
					if why := emptyProof[fl]; why != "" {
						unproved = fmt.Sprintf("context %d: %s", fl, why)
					}
				}
				if unproved == "" {
					r.OK("X1", core.QualName(root), expr+" → false for the empty input", p.Pos(path.RetPos), fmt.Sprintf("E3: the classifier answers false on the empty input in the skipped contexts %v", missing))
				} else {
					r.Fail("X1", core.QualName(root), "return false for the empty input before all contexts were tried", p.Pos(path.RetPos), expr+": not proved that the skipped contexts answer false on the empty input ("+unproved+")")
				}
				continue
			}
			if !okAll || len(missing) > 0 {
				r.Fail("X1", core.QualName(root), "return false before all contexts were tried", p.Pos(path.RetPos), fmt.Sprintf("%s: false is returned without a negative verdict from contexts %v", expr, missing))
			} else {
				r.OK("X1", core.QualName(root), expr+" → false", p.Pos(path.RetPos), "all five contexts negative")
			}
		}
	}
	if len(paths) < 6 && !loopForm {
		r.Fail("vacuity", core.QualName(root), "paths", p.Pos(root.Pos()), fmt.Sprintf("%d paths through IsXSS", len(paths)))
	}

	// ---- X2: flag → start state; quote characters
	for fl, role := range specFlags {
		want := a.Fn(role)
		got := g.Starts[fl]
		expr := fmt.Sprintf("init(flag %d)", fl)
		switch {
		case want == nil:
		case got == nil:
			r.Fail("X2", core.QualName(g.Init), expr, p.Pos(g.Init.Pos()), "no start state is set for this context flag (the tokenizer would start with a nil state)")
		case got != want:
			r.Fail("X2", core.QualName(g.Init), expr, p.Pos(g.Init.Pos()), fmt.Sprintf("context flag %d starts in %s, specification says %s", fl, got.Name(), want.Name()))
		default:
			r.OK("X2", core.QualName(g.Init), expr, p.Pos(g.Init.Pos()), "→ "+got.Name())
		}
	}
	quotedValueRules(p, a, g, r, "X2", "X5")

	// ---- X3: fresh state per context
	freshStateRule(p, a, r, "X3")

	// ---- X4: `>`-guarded transitions return to data / tag-close
	data, tnc, eof := a.Fn("xss.st.data"), a.Fn("xss.st.tagNameClose"), a.Fn("xss.st.eof")
	nGT := 0
	for _, n := range g.sorted() {
		for _, e := range n.Out {
			if !g.factByteEquals(p, e.Facts, '>') {
				continue
			}
			nGT++
			expr := fmt.Sprintf("on '>' %s → %s", n.Fn.Name(), e.To.Name())
			if e.To == data || e.To == tnc {
				r.OK("X4", core.QualName(n.Fn), expr, p.Pos(e.Site.Pos()), "")
			} else {
				r.Fail("X4", core.QualName(n.Fn), expr, p.Pos(e.Site.Pos()), "a '>' must end the tag: the tokenizer has to return to element content (or the tag-close state)")
			}
		}
	}
	if tnc != nil && g.Nodes[tnc] != nil {
		for _, e := range g.Nodes[tnc].Out {
			expr := "tag-close → " + e.To.Name()
			if e.To == data || e.To == eof {
				r.OK("X4", core.QualName(tnc), expr, p.Pos(e.Site.Pos()), "")
			} else {
				r.Fail("X4", core.QualName(tnc), expr, p.Pos(e.Site.Pos()), "after the closing '>' the tokenizer must be in element content")
			}
		}
	}
	if nGT < 5 {
		r.Fail("vacuity", "-", "'>'-guarded transitions", "-", fmt.Sprintf("only %d '>'-guarded transitions recognised (expected ≥ 5)", nGT))
	}

	r.Extra["state_graph"] = g.describe(p)
	if len(g.Nodes) < 20 {
		r.Fail("vacuity", "-", "state graph", "-", fmt.Sprintf("only %d state functions", len(g.Nodes)))
	}
	r.Explanation = "E5 rules on IsXSS, init and the HTML state graph (nodes = state methods; edges = direct calls and stores h.state = h.stateX, each with the branch facts that hold at its site). X1: every path of IsXSS returns true only right after a context returned true and false only after all five context flags returned false, each context being analysed on the API input. X2: constant propagation through init gives flag→start-state = {data, before-attribute-name, single-, double-, back-quoted value}; the quote states pass ' \" ` to the common value lexer. X3: each context runs on a fresh (or fully reset) tokenizer state. X4: every transition guarded by an input byte == '>' goes to the data or tag-close state, and tag-close goes to data/EOF. X5: the quoted-value lexer advances the cursor before its terminator search only under `pos > 0`. NOT decided: verdict(ctx,x) = verdict(data, embed(x)) and prefix invariance themselves (input→output behaviour)."
	r.Trusted = []string{"go/ssa", "state-graph extraction (bound-method closures resolved through their wrapper object)", "guard-origin analysis for input bytes"}
	return r
}

func checkC15(c *Ctx) *core.Result {
	p := c.P
	r := c.newResult()
	a := loadAnchors(c, r)
	ctx := a.Fn("xss.ctx")
	isAttr := a.Fn("xss.isBlackAttr")
	tDoc, tOpen, tName, tVal, tCom := a.Const("xss.typeDocType"), a.Const("xss.typeTagNameOpen"), a.Const("xss.typeAttrName"), a.Const("xss.typeAttrValue"), a.Const("xss.typeTagComment")
	attrNone := a.Const("xss.attrNone")
	if len(r.Violations) > 0 {
		return r
	}
	g := buildStateGraph(p, a, r)

	// ---- Y3: reaching definitions of the attribute-kind variable
	// attrVar(v): v is a phi tree whose leaves are the constant None or a call of the attribute predicate.
	var attrLeaves func(v ssa.Value, seen map[ssa.Value]bool, consts *[]*ssa.Const, calls *[]*ssa.Call) bool
	attrLeaves = func(v ssa.Value, seen map[ssa.Value]bool, consts *[]*ssa.Const, calls *[]*ssa.Call) bool {
		if seen[v] {
			return true
		}
		seen[v] = true
		switch x := v.(type) {
		case *ssa.Const:
			*consts = append(*consts, x)
			return true
		case *ssa.Call:
			if x.Common().StaticCallee() == isAttr {
				*calls = append(*calls, x)
				return true
			}
			// a small helper that returns the attribute predicate's answer: classifyAttrName(h5)
			if h := x.Common().StaticCallee(); h != nil && p.InModule(h) && len(h.Blocks) <= 6 {
				for _, ret := range ssax.Returns(h) {
					if len(ret.Results) != 1 {
						return false
					}
					c2, ok := ret.Results[0].(*ssa.Call)
					if !ok || c2.Common().StaticCallee() != isAttr {
						return false
					}
				}
				*calls = append(*calls, x)
				return true
			}
			return false
		case *ssa.Phi:
			for _, e := range x.Edges {
				if !attrLeaves(e, seen, consts, calls) {
					return false
				}
			}
			return true
		case *ssa.UnOp:
			// the attribute kind kept in a field of a local struct: every value stored into that field
			fa, ok := x.X.(*ssa.FieldAddr)
			if !ok || x.Op != token.MUL {
				return false
			}
			al, ok := fa.X.(*ssa.Alloc)
			if !ok {
				return false
			}
			vals, ok := localFieldStores(al, fa.Field)
			if !ok || len(vals) == 0 {
				return false
			}
			for _, sv := range vals {
				if !attrLeaves(sv, seen, consts, calls) {
					return false
				}
			}
			return true
		}
		return false
	}
	tokenTypeFact := func(facts []ssax.Fact) (int64, bool) {
		for _, f := range facts {
			bo, ok := f.Cond.(*ssa.BinOp)
			if ok && bo.Op == token.EQL && f.True && a.loadsField(bo.X, "xss.state.tokenType") {
				if k, ok := ssax.ConstInt(bo.Y); ok {
					return k, true
				}
			}
		}
		return 0, false
	}

	// ---- Y1: every `return true` of the classifier sits under an allowed token type
	allowed := map[int64]string{tDoc: "DocType", tOpen: "TagNameOpen", tVal: "AttrValue", tCom: "TagComment"}
	// the ways the classifier answers true; boolean helpers it delegates to are looked into
	expandHelper := func(h *ssa.Function) bool {
		if !p.InModule(h) || h == a.FnOpt("xss.isBlackTag") || h == a.FnOpt("xss.isBlackURL") || h == a.FnOpt("xss.urlMatch") || h == a.FnOpt("xss.next") || len(h.Blocks) == 0 {
			return false
		}
		res := h.Signature.Results()
		if res.Len() != 1 {
			return false
		}
		bt, ok := res.At(0).Type().Underlying().(*types.Basic)
		return ok && bt.Kind() == types.Bool
	}
	ways := ssax.TrueWays(ctx, expandHelper, 0)
	nTrue := len(ways)
	for wi, way := range ways {
		facts := way.Facts
		expr := fmt.Sprintf("positive verdict, way %d of %d", wi+1, len(ways))
		{
			tt, ok := tokenTypeFact(facts)
			if !ok {
				r.Fail("Y1", core.QualName(ctx), expr, p.Pos(way.Pos), "a positive verdict that is not conditional on the token type")
				continue
			}
			name, okT := allowed[tt]
			if !okT {
				r.Fail("Y1", core.QualName(ctx), expr+fmt.Sprintf(" under tokenType==%d", tt), p.Pos(way.Pos), "a positive verdict on a token type that needs neither '<' nor '=' (only DocType, TagNameOpen, TagComment and AttrValue-with-classified-attribute may fire)")
				continue
			}
			if tt != tVal {
				r.OK("Y1", core.QualName(ctx), expr+" under "+name, p.Pos(way.Pos), "")
				continue
			}
			// AttrValue: needs attr ≠ None, with attr a proper attribute-kind variable
			good := false
			why := "no test of the attribute kind on this path"
			for _, f := range facts {
				bo, ok := f.Cond.(*ssa.BinOp)
				if !ok || bo.Op != token.EQL {
					continue
				}
				k, okk := ssax.ConstInt(bo.Y)
				if !okk {
					continue
				}
				if a.loadsField(f.Arg(bo.X), "xss.state.tokenType") {
					continue
				}
				var consts []*ssa.Const
				var calls []*ssa.Call
				if !attrLeaves(f.Arg(bo.X), map[ssa.Value]bool{}, &consts, &calls) {
					why = "the tested value " + bo.X.Name() + " is not the attribute-kind variable (its definitions are not {None, attribute predicate})"
					continue
				}
				if (f.True && k != attrNone) || (!f.True && k == attrNone) {
					// Y3 on this variable
					y3 := true
					for _, cst := range consts {
						if cv, _ := ssax.ConstInt(cst); cv != attrNone {
							y3 = false
							why = fmt.Sprintf("the attribute kind can be the constant %d without an attribute name having been classified", cv)
						}
					}
					for _, call := range calls {
						tt2, ok := tokenTypeFact(ssax.Facts(call.Block()))
						if !ok || tt2 != tName {
							y3 = false
							why = "the attribute predicate feeding the attribute kind is applied to a token that is not an attribute name"
						}
					}
					if len(consts) == 0 {
						y3 = false
						why = "the attribute kind has no None initial value"
					}
					if y3 {
						good = true
					}
				}
			}
			if good {
				r.OK("Y1", core.QualName(ctx), expr+" under AttrValue ∧ attr≠None", p.Pos(way.Pos), "attr ∈ {None initially, predicate(AttrName token)}")
			} else {
				r.Fail("Y1", core.QualName(ctx), expr+" under AttrValue", p.Pos(way.Pos), "positive verdict on an attribute value without a classified attribute name: "+why)
			}
		}
	}
	if nTrue < 5 {
		r.Fail("vacuity", core.QualName(ctx), "positive verdict sites", p.Pos(ctx.Pos()), fmt.Sprintf("only %d", nTrue))
	}

	// ---- Y3b: the attribute kind is None at loop entry and reset after every value
	// (the phi at the loop head takes None from the entry edge)
	for _, b := range ctx.Blocks {
		for _, ins := range b.Instrs {
			ph, ok := ins.(*ssa.Phi)
			if !ok {
				continue
			}
			var consts []*ssa.Const
			var calls []*ssa.Call
			if !attrLeaves(ph, map[ssa.Value]bool{}, &consts, &calls) || len(calls) == 0 {
				continue
			}
			for i, e := range ph.Edges {
				if ph.Block().Preds[i] == ctx.Blocks[0] || ph.Block().Preds[i].Index == 0 {
					if k, ok := ssax.ConstInt(e); ok && k == attrNone {
						r.OK("Y3", core.QualName(ctx), "attribute kind at loop entry", p.Pos(ph.Pos()), "None")
					} else {
						r.Fail("Y3", core.QualName(ctx), "attribute kind at loop entry", p.Pos(ph.Pos()), "the attribute kind does not start as None: the first value token of a quoted context could fire without any '='")
					}
				}
			}
		}
	}
	freshStateRule(p, a, r, "Y3")

	// ---- Y2: state graph
	tagOpen := a.Fn("xss.st.tagOpen")
	bav := a.Fn("xss.st.beforeAttrValue")
	if tagOpen == nil || bav == nil {
		return r
	}
	emit := func(tt int64) []*ssa.Function {
		var out []*ssa.Function
		for _, n := range g.sorted() {
			for _, t := range n.Toks {
				if t.Type == tt {
					out = append(out, n.Fn)
					break
				}
			}
		}
		return out
	}
	// (a) DocType / TagNameOpen / TagComment emitters only behind stateTagOpen
	for _, tt := range []int64{tDoc, tOpen, tCom} {
		ems := emit(tt)
		if len(ems) == 0 {
			r.Fail("vacuity", "-", fmt.Sprintf("emitters of token type %d", tt), "-", "none found")
		}
		for fl, start := range g.Starts {
			reach := g.reachable(start, map[*ssa.Function]bool{tagOpen: true}, true)
			for _, em := range ems {
				expr := fmt.Sprintf("%s (emits %s) from start flag %d", em.Name(), allowed[tt], fl)
				if reach[em] {
					r.Fail("Y2a", core.QualName(em), expr, p.Pos(em.Pos()), "reachable from a start state without passing the tag-open state: an element/comment/doctype token could be produced without a '<'")
				} else {
					r.OK("Y2a", core.QualName(em), expr, p.Pos(em.Pos()), "only through "+tagOpen.Name())
				}
			}
		}
	}
	for _, e := range g.Nodes[tagOpen].In {
		expr := fmt.Sprintf("%s → %s", e.From.Name(), tagOpen.Name())
		if g.factFound(e.Facts, '<') || g.factByteEquals(p, e.Facts, '<') {
			r.OK("Y2a", core.QualName(e.From), expr, p.Pos(e.Site.Pos()), "guarded by a found '<'")
		} else {
			r.Fail("Y2a", core.QualName(e.From), expr, p.Pos(e.Site.Pos()), "transition into the tag-open state that is not guarded by `IndexByte(…,'<') != -1`")
		}
	}
	if len(g.Nodes[tagOpen].In) == 0 {
		r.Fail("vacuity", core.QualName(tagOpen), "in-edges of tag-open", "-", "none")
	}
	// (b,c) AttrValue emitters
	valEm := emit(tVal)
	if len(valEm) == 0 {
		r.Fail("vacuity", "-", "emitters of AttrValue", "-", "none found")
	}
	for fl, start := range g.Starts {
		later := g.afterDeferred(start, map[*ssa.Function]bool{bav: true})
		for _, em := range valEm {
			expr := fmt.Sprintf("%s (emits AttrValue) from start flag %d", em.Name(), fl)
			if later[em] {
				r.Fail("Y2b", core.QualName(em), expr, p.Pos(em.Pos()), "an attribute-value token can be produced after the first token without passing the before-attribute-value state, i.e. without an '='")
			} else {
				r.OK("Y2b", core.QualName(em), expr, p.Pos(em.Pos()), "after the first token only through "+bav.Name())
			}
		}
	}
	for _, e := range g.Nodes[bav].In {
		expr := fmt.Sprintf("%s → %s", e.From.Name(), bav.Name())
		if g.factByteEquals(p, e.Facts, '=') {
			r.OK("Y2b", core.QualName(e.From), expr, p.Pos(e.Site.Pos()), "guarded by an input byte == '='")
		} else {
			r.Fail("Y2b", core.QualName(e.From), expr, p.Pos(e.Site.Pos()), "transition into the before-attribute-value state that is not guarded by an input byte being '='")
		}
	}
	if len(g.Nodes[bav].In) == 0 {
		r.Fail("vacuity", core.QualName(bav), "in-edges of before-attribute-value", "-", "none")
	}
	// the before-attribute-value state is not itself a start state
	for fl, start := range g.Starts {
		if start == bav || start == tagOpen {
			r.Fail("Y2b", core.QualName(g.Init), fmt.Sprintf("start flag %d", fl), p.Pos(g.Init.Pos()), "a context starts directly in a state that is supposed to need '<' or '='")
		}
	}

	r.Extra["state_graph"] = g.describe(p)
	if len(g.Nodes) < 20 {
		r.Fail("vacuity", "-", "state graph", "-", fmt.Sprintf("only %d state functions", len(g.Nodes)))
	}
	r.Explanation = "E5 state-graph and verdict-site rules. Y1: every positive return of the per-context classifier is control-dependent on tokenType ∈ {DocType, TagNameOpen, TagComment, AttrValue}; under AttrValue additionally on attr ≠ None where attr's reaching definitions are exactly {None, attribute-predicate(AttrName token)}. Y3: attr is None on loop entry; the tokenizer state is fresh per context. Y2a: in the state graph every emitter of DocType/TagNameOpen/TagComment is unreachable from each start state once the tag-open state is removed, and every in-edge of tag-open is guarded by a found '<'. Y2b: after the first token an AttrValue emitter is reachable only through the before-attribute-value state, all of whose in-edges are guarded by an input byte == '=' (guard-origin analysis: the tested value is an input byte, a conversion of one, or the result of a helper returning one or a different constant). Together: without '<' and '=' no verdict site is reachable with its condition true."
	r.Trusted = []string{"go/ssa", "state-graph extraction", "guard-origin analysis", "facts = conditions of edge-dominating branches with short-circuit expansion"}
	return r
}

// x1LoopForm decides X1 when the API function loops over a constant list of
// context flags: one call site of the classifier on (API input, list element),
// the list holds exactly the context flags, a positive verdict returns true at
// once (dominance), and a negative answer is given only after every entry was
// tried (E3 with a ghost counter).  Reports its own obligations; returns false
// when the function has neither this shape nor can be judged.
func x1LoopForm(c *Ctx, r *core.Result, root, ctx *ssa.Function, specFlags map[int64]string) bool {
	p := c.P
	var calls []*ssa.Call
	for _, b := range root.Blocks {
		for _, ins := range b.Instrs {
			if call, ok := ins.(*ssa.Call); ok {
				if cal := call.Call.StaticCallee(); cal == ctx {
					calls = append(calls, call)
				} else if cal != nil && p.InModule(cal) {
					return false
				}
			}
		}
	}
	if len(calls) != 1 {
		return false
	}
	call := calls[0]
	var base *ssa.Alloc
	argIdx := -1
	inputOK := false
	for i, arg := range call.Call.Args {
		if b, _, ok := listElem(arg); ok {
			base, argIdx = b, i
		}
		if prm, ok := arg.(*ssa.Parameter); ok && prm.Parent() == root {
			inputOK = true
		}
	}
	if base == nil {
		return false
	}
	qn := core.QualName(root)
	if inputOK {
		r.OK("X1", qn, "every context is analysed on the API input", p.Pos(call.Pos()), "argument is the parameter")
	} else {
		r.Fail("X1", qn, "every context is analysed on the API input", p.Pos(call.Pos()), "a context is analysed on something other than the API input")
	}
	flags, why := constIntList(base)
	if why != "" {
		r.Fail("X1", qn, "context list is a constant list", p.Pos(call.Pos()), why+": undecided")
		return true
	}
	seen := map[int64]bool{}
	for _, f := range flags {
		seen[f] = true
	}
	for fl := range specFlags {
		expr := fmt.Sprintf("context flag %d is in the list of contexts", fl)
		if seen[fl] {
			r.OK("X1", qn, expr, p.Pos(call.Pos()), "")
		} else {
			r.Fail("X1", qn, expr, p.Pos(call.Pos()), "a context is no longer analysed: inputs that are only dangerous in that context are missed")
		}
	}
	for _, f := range flags {
		if _, ok := specFlags[f]; !ok {
			r.Fail("X1", qn, fmt.Sprintf("list entry %d is a context flag", f), p.Pos(call.Pos()), "the list holds a value that is not one of the five context flags")
		}
	}
	gateRule(p, r, root, ctx, "X1: a positive context verdict makes the API answer true")
	env := newE3Env(c, r)
	xr := &xssRoots{env: env}
	triedAllRule(env, xr, r, "X1", root, ctx, argIdx, base, len(flags), "contexts")
	for _, o := range mergeObs(xr.runs) {
		if o.Rule != "X1" {
			continue
		}
		if o.Bad == 0 {
			r.OK(o.Rule, o.Fn, o.Expr, o.Pos, fmt.Sprintf("discharged in %d context(s)", o.OK))
		} else {
			r.Fail(o.Rule, o.Fn, o.Expr, o.Pos, o.Why)
		}
	}
	return true
}

// quotedValueRules: the three quoted start states hand their own quote byte to
// the common quoted-value lexer (rule rq), and that lexer skips an opening
// quote before its terminator search under `pos > 0` only — entered as a start
// state it consumes nothing (rule rs).  Used by C13/C15 (X2, X5) and by C17
// (T-quote, T-skip: the value token of a quoted start context has offset 0 and
// ends at the first matching quote).
func quotedValueRules(p *core.Program, a *Anchors, g *stateGraph, r *core.Result, rq, rs string) {
	vq := a.Fn("xss.st.valueQuote")
	for role, ch := range map[string]int64{"xss.st.valueSingle": '\'', "xss.st.valueDouble": '"', "xss.st.valueBack": '`'} {
		fn := a.Fn(role)
		if fn == nil || vq == nil {
			continue
		}
		found := false
		for _, ci := range ssax.Calls(fn) {
			if ci.Common().StaticCallee() == vq {
				for _, arg := range ci.Common().Args {
					if k, ok := ssax.ConstInt(arg); ok {
						found = true
						if k == ch {
							r.OK(rq, core.QualName(fn), fmt.Sprintf("delimiter %q", byte(ch)), p.Pos(ci.Pos()), "")
						} else {
							r.Fail(rq, core.QualName(fn), fmt.Sprintf("delimiter %q", byte(ch)), p.Pos(ci.Pos()), fmt.Sprintf("this context's value lexer is called with delimiter %q", byte(k)))
						}
					}
				}
			}
		}
		if !found {
			r.Fail(rq, core.QualName(fn), fmt.Sprintf("delimiter %q", byte(ch)), p.Pos(fn.Pos()), "does not call the common quoted-value lexer with a constant delimiter")
		}
	}

	// ---- X5: a quoted-value start state consumes nothing when entered at pos 0
	if vq != nil {
		posField := a.Fields["xss.state.pos"]
		var search ssa.Instruction
		// (directly, or through a thin helper such as indexFrom(s, pos, ch) / h.find(ch))
		var searches func(f *ssa.Function, depth int) bool
		searches = func(f *ssa.Function, depth int) bool {
			if f == nil {
				return false
			}
			if f.String() == "strings.IndexByte" || f.String() == "strings.Index" {
				return true
			}
			if depth >= 2 || !p.InModule(f) || len(f.Blocks) > 12 || g.Nodes[f] != nil {
				return false
			}
			for _, ci := range ssax.Calls(f) {
				if searches(ci.Common().StaticCallee(), depth+1) {
					return true
				}
			}
			return false
		}
		for _, b := range vq.DomPreorder() {
			for _, ins := range b.Instrs {
				if ci, ok := ins.(ssa.CallInstruction); ok && search == nil && searches(ci.Common().StaticCallee(), 0) {
					search = ci
				}
			}
		}
		if search == nil {
			r.Fail(rs, core.QualName(vq), "terminator search", p.Pos(vq.Pos()), "the quoted-value lexer has no IndexByte terminator search (undecided)")
		} else {
			posWriters := mayWriteField(p, g.stName, posField)
			for _, b := range vq.Blocks {
				for _, ins := range b.Instrs {
					// a store to the cursor, or a call of a helper that may store to it
					var st ssa.Instruction
					switch x := ins.(type) {
					case *ssa.Store:
						if fr, ok := ssax.AsFieldAddr(x.Addr); ok && fr.Field == posField {
							st = x
						}
					case *ssa.Call:
						if cal := x.Call.StaticCallee(); cal != nil && p.InModule(cal) && posWriters[cal] {
							st = x
						}
					}
					if st == nil || !ssax.Reachable(b, search.Block()) || b == search.Block() && ssax.InstrIndex(st) > ssax.InstrIndex(search) {
						continue
					}
					if b != search.Block() && !b.Dominates(search.Block()) && !ssax.Reachable(b, search.Block()) {
						continue
					}
					// a pos update before the search: must be guarded by pos > 0 only
					guardOK := false
					extra := ""
					for _, f := range ssax.Facts(b) {
						bo, ok := f.Cond.(*ssa.BinOp)
						if !ok {
							continue
						}
						if a.loadsField(bo.X, "xss.state.pos") {
							if k, ok := ssax.ConstInt(bo.Y); ok && k == 0 && ((bo.Op == token.GTR && f.True) || (bo.Op == token.NEQ && f.True) || (bo.Op == token.LEQ && !f.True) || (bo.Op == token.EQL && !f.True)) {
								guardOK = true
								continue
							}
						}
						extra = f.Cond.String()
					}
					expr := "opening-quote skip before the terminator search"
					switch {
					case !guardOK:
						r.Fail(rs, core.QualName(vq), expr, p.Pos(st.Pos()), "the cursor is advanced before the search without the `pos > 0` guard: entered as a start state (pos 0) the lexer would swallow the first byte of the value, so the context verdict no longer equals that of the embedded markup")
					case extra != "":
						r.Fail(rs, core.QualName(vq), expr, p.Pos(st.Pos()), "the opening-quote skip depends on more than `pos > 0` ("+extra+"): quoted context and embedded markup are no longer tokenized alike")
					default:
						r.OK(rs, core.QualName(vq), expr, p.Pos(st.Pos()), "guarded by pos > 0 only")
					}
				}
			}
		}
	}

}

// apiStringParam: the string parameter of the API function.
func apiStringParam(root *ssa.Function) *ssa.Parameter {
	for _, prm := range root.Params {
		if isStringType(prm.Type()) {
			return prm
		}
	}
	return nil
}

// localFieldStores: every value stored into field f of the local struct al — by a field
// store, or as part of a whole-struct store of a composite literal built in a temporary.
func localFieldStores(al *ssa.Alloc, f int) ([]ssa.Value, bool) {
	var out []ssa.Value
	if al.Referrers() == nil {
		return nil, false
	}
	fieldStores := func(base *ssa.Alloc) []ssa.Value {
		var vs []ssa.Value
		for _, ref := range *base.Referrers() {
			fa, ok := ref.(*ssa.FieldAddr)
			if !ok || fa.Field != f || fa.Referrers() == nil {
				continue
			}
			for _, r2 := range *fa.Referrers() {
				if st, ok := r2.(*ssa.Store); ok && st.Addr == ssa.Value(fa) {
					vs = append(vs, st.Val)
				}
			}
		}
		return vs
	}
	out = append(out, fieldStores(al)...)
	for _, ref := range *al.Referrers() {
		st, ok := ref.(*ssa.Store)
		if !ok || st.Addr != ssa.Value(al) {
			continue
		}
		// scan = T{…}: the literal is built in a temporary and copied
		ld, ok := st.Val.(*ssa.UnOp)
		if !ok {
			return nil, false
		}
		tmp, ok := ld.X.(*ssa.Alloc)
		if !ok || tmp.Referrers() == nil {
			return nil, false
		}
		vs := fieldStores(tmp)
		if len(vs) == 0 {
			return nil, false // the field keeps its zero value: not modelled
		}
		out = append(out, vs...)
	}
	return out, true
}
