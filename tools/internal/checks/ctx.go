// Package checks holds the property checks (rules over the resolved program).
package checks

import (
	"fmt"
	"sort"

	"verif/tools/internal/core"
)

// Ctx is what a property check receives.
type Ctx struct {
	P        *core.Program
	Tier     string // quick | thorough
	VerifDir string
	Property string
}

// CheckFunc decides one property on ctx.P.
type CheckFunc func(c *Ctx) *core.Result

type entry struct {
	fn    CheckFunc
	level string
}

var registry = map[string]entry{}

func register(id, level string, fn CheckFunc) { registry[id] = entry{fn, level} }

// Lookup returns the check for a property id.
func Lookup(id string) (CheckFunc, string, bool) {
	e, ok := registry[id]
	return e.fn, e.level, ok
}

// IDs lists the registered property ids.
func IDs() []string {
	var out []string
	for k := range registry {
		out = append(out, k)
	}
	sort.Strings(out)
	return out
}

func (c *Ctx) newResult() *core.Result {
	_, lvl, _ := Lookup(c.Property)
	return core.NewResult(c.Property, lvl)
}

// anchorFail reports an unresolved anchor (undecided ⇒ fail).
func anchorFail(r *core.Result, role, detail string) {
	r.Fail("anchor", "-", role, "-", fmt.Sprintf("unresolved anchor %q: %s (undecided is never a pass)", role, detail))
}
