package checks

import (
	"fmt"
	"go/constant"
	"go/token"
	"go/types"
	"sort"
	"strings"

	"golang.org/x/tools/go/ssa"

	"verif/tools/internal/absint"
	"verif/tools/internal/core"
	"verif/tools/internal/ssax"
	"verif/tools/internal/tables"
)

func init() { register("C19", "other", checkC19) }

// the largest character-reference value that is decoded (statement of C19)
const maxCharRef = 0x1000FF

var ghostURL = absint.ObjPtr("GHOST:url", nil)

// the scheme prefixes the statement names
var c19Schemes = []string{"JAVASCRIPT:", "VBSCRIPT:", "DATA:", "VIEW-SOURCE:"}

func checkC19(c *Ctx) *core.Result {
	p := c.P
	r := c.newResult()
	env := newE3Env(c, r)
	if len(r.Violations) > 0 {
		return r
	}
	a := env.a
	decode, match, black, ctxFn := a.Fn("xss.decode"), a.Fn("xss.urlMatch"), a.Fn("xss.isBlackURL"), a.Fn("xss.ctx")
	if decode == nil || match == nil || black == nil || ctxFn == nil {
		return r
	}
	var emptyMemo map[int]string
	xr := &xssRoots{env: env}

	// ---- D5 (part 1): the scheme literals of the URL predicate, read from the source
	lits, litBase, litWhy := schemeLiterals(p, black, match)

	// ---- E3 roots: the decoder from an arbitrary string; the URL predicate with the matcher inlined
	{
		cfg := env.config()
		cfg.Peel = true
		cfg.Hooks.OnReturn = func(e *absint.Engine, st *absint.State, fr *absint.Frame, ret *ssa.Return, val absint.AVal) {
			if fr.Depth() != 0 {
				return
			}
			where := retLabel(ret)
			tv, ok := val.(absint.TupleV)
			in, okS := e.Val(st, fr, decode.Params[0]).(absint.StrV)
			if !ok || len(tv.E) != 2 || !okS {
				e.Check(st, fr, ret.Pos(), "D2", "decoder result at "+where, false, "the decoder does not return (value, consumed) over a string parameter: undecided")
				return
			}
			length := absint.StrLenOf(in)
			v, okV := e.AsInt(st, tv.E[0])
			n, okN := e.AsInt(st, tv.E[1])
			if !okV || !okN {
				e.Check(st, fr, ret.Pos(), "D2", "decoder result at "+where, false, "non-integer decoder result: undecided")
				return
			}
			empty := e.ProveEQ(st, length, absint.K(0))
			e.Check(st, fr, ret.Pos(), "D2", "1 ≤ consumed ≤ len(s), or (0 consumed and len(s) = 0) at "+where, (e.ProveLE(st, absint.K(1), n) && e.ProveLE(st, n, length)) || (empty && e.ProveEQ(st, n, absint.K(0))), fmt.Sprintf("consumed = %s: a decoding step may consume nothing (the matcher would loop forever) or more than the value holds", e.LinStr(n)))
			e.Check(st, fr, ret.Pos(), "D3", "decoded value ≤ 0x1000FF at "+where, empty || (e.ProveLE(st, absint.K(0), v) && e.ProveLE(st, v, absint.K(maxCharRef))), fmt.Sprintf("decoded value %s is not shown to stay within 0 … 0x1000FF: a longer reference could wrap around or alias an ASCII letter", e.LinStr(v)))
			// over-range path: some accumulator of this activation exceeds the bound
			over := false
			for _, l := range e.FrameInts(st, fr) {
				if e.ProveLE(st, absint.K(maxCharRef+1), l) {
					over = true
				}
			}
			isAmp := v.IsConst() && v.C == '&' && n.IsConst() && n.C == 1
			if over {
				e.Check(st, fr, ret.Pos(), "D3", "an over-range reference is a literal ampersand at "+where, isAmp, "on a path where the accumulated value exceeds 0x1000FF the decoder does not return ('&', 1)")
			} else if isAmp {
				// a literal ampersand otherwise means: this is not a numeric character reference
				byteAt := func(i int64) absint.Mask {
					return e.MaskOf(st, absint.ByteV{Root: in.Root, Idx: in.Lo.AddK(i)})
				}
				none := func(m absint.Mask, set string) bool {
					for i := 0; i < len(set); i++ {
						if m.Has(int(set[i])) {
							return false
						}
					}
					return true
				}
				only := func(m absint.Mask, set string) bool {
					for b := 0; b < 256; b++ {
						if m.Has(b) && strings.IndexByte(set, byte(b)) < 0 {
							return false
						}
					}
					return true
				}
				const dec, hex = "0123456789", "0123456789abcdefABCDEF"
				malformed := e.ProveLE(st, length, absint.K(2)) ||
					none(byteAt(0), "&") || none(byteAt(1), "#") ||
					none(byteAt(2), dec+"xX") ||
					(only(byteAt(2), "xX") && (e.ProveLE(st, length, absint.K(3)) || none(byteAt(3), hex)))
				e.Check(st, fr, ret.Pos(), "D3", "a literal ampersand is returned only for a malformed or over-range reference at "+where, malformed, "the decoder gives up ('&', 1) on a path where the input may be a well-formed numeric reference within range (`&#` + digit…, `&#x` + hex digit…): such a reference would not be decoded")
			}
		}
		xr.run("pred:"+decode.Name(), cfg, decode, func(e *absint.Engine, st *absint.State, fr *absint.Frame) {
			env.genericSetup(e, st, fr, decode)
		})
	}
	{
		cfg := env.config()
		cfg.Peel = true
		// the matcher is summarised: which list entry and which subject string reach it is what matters here
		cfg.Summaries[match] = func(e *absint.Engine, st *absint.State, fr *absint.Frame, call *ssa.Call, callee *ssa.Function, args []absint.AVal) ([]*absint.State, bool) {
			// D5: entries are visited in order 0,1,2,… without gaps
			if litBase != nil {
				idx, ok := indexOfLoad(call.Call.Args[0], litBase)
				var il absint.Lin
				okI := false
				if ok {
					il, okI = e.AsInt(st, e.Val(st, fr, idx))
				}
				next := absint.K(0)
				if nc, had := e.CellOf(st, ghostURL, "next"); had {
					next = nc.(absint.IntV).L
				}
				e.Check(st, fr, call.Pos(), "D5", "scheme list entries are tried in order without gaps", okI && e.ProveEQ(st, il, next), "the entry handed to the matcher is not provably the next untried one: an entry of the scheme list may be skipped")
				if okI {
					e.SetCell(st, ghostURL, "next", absint.IntV{L: il.AddK(1)})
				}
			}
			// D7 (routing): the subject is the parameter with its leading junk trimmed
			e.SetResult(st, fr, call, absint.BoolV{})
			return []*absint.State{st}, true
		}
		cfg.Hooks.OnReturn = func(e *absint.Engine, st *absint.State, fr *absint.Frame, ret *ssa.Return, val absint.AVal) {
			if fr.Depth() != 0 || litBase == nil {
				return
			}
			b, _ := val.(absint.BoolV)
			if b.Known == 1 {
				return
			}
			// a `false` (or unknown) verdict: every entry must have been tried
			next := absint.K(0)
			if nc, had := e.CellOf(st, ghostURL, "next"); had {
				next = nc.(absint.IntV).L
			}
			tried := e.ProveLE(st, absint.K(int64(len(lits))), next)
			if !tried && emptySubjectReturn(c, black, match, ret, &emptyMemo) {
				e.Check(st, fr, ret.Pos(), "D5", "`not a black URL` for the empty subject at "+retLabel(ret), true, "")
				return
			}
			e.Check(st, fr, ret.Pos(), "D5", "`not a black URL` only after every scheme was tried at "+retLabel(ret), tried, fmt.Sprintf("the predicate can answer false after trying fewer than %d schemes", len(lits)))
		}
		xr.run("pred:"+black.Name()+"/list", cfg, black, func(e *absint.Engine, st *absint.State, fr *absint.Frame) {
			env.genericSetup(e, st, fr, black)
		})
	}
	{
		// bounds / progress of the matcher with the decoder inlined (from arbitrary strings)
		cfg := env.config()
		xr.run("pred:"+match.Name(), cfg, match, func(e *absint.Engine, st *absint.State, fr *absint.Frame) {
			env.genericSetup(e, st, fr, match)
		})
	}
	residuals := loadResiduals(c, r)
	obs := mergeObs(xr.runs)
	inScope := map[string]bool{core.QualName(decode): true, core.QualName(match): true, core.QualName(black): true}
	n := emitObs(r, obs, residuals, "C19", func(o *absint.Ob) bool { return inScope[o.Fn] })
	noteUnusedResiduals(r, residuals, "C19")
	if n < 25 {
		r.Fail("vacuity", "-", "decoder obligations", "-", fmt.Sprintf("only %d obligations generated (expected ≥ 25)", n))
	}
	d2 := 0
	for _, o := range obs {
		if o.Rule == "D2" {
			d2++
		}
	}
	if d2 < 4 {
		r.Fail("vacuity", core.QualName(decode), "decoder exits judged", p.Pos(decode.Pos()), fmt.Sprintf("only %d decoder exits were judged (the pinned decoder has 13)", d2))
	}

	// ---- D9: the digit loops of the decoder step by one byte and take the semicolon exactly
	digitLoopRule(p, r, decode)

	// ---- D4: the hex table is exactly the hexadecimal digit map
	if env.tabs != nil && env.tabs.HexMapVar != "" && len(env.tabs.HexMap) == 256 {
		bad := 0
		for ch := 0; ch < 256; ch++ {
			want := int64(256)
			switch {
			case ch >= '0' && ch <= '9':
				want = int64(ch - '0')
			case ch >= 'a' && ch <= 'f':
				want = int64(ch-'a') + 10
			case ch >= 'A' && ch <= 'F':
				want = int64(ch-'A') + 10
			}
			if env.tabs.HexMap[ch] != want {
				bad++
				r.Fail("D4", env.tabs.HexMapVar, fmt.Sprintf("hex table entry %#02x", ch), "-", fmt.Sprintf("is %d, the hexadecimal digit map has %d (256 = not a digit)", env.tabs.HexMap[ch], want))
			}
		}
		if bad == 0 {
			r.OK("D4", env.tabs.HexMapVar, "hex table = digit values for 0-9A-Fa-f, 256 elsewhere (256 entries)", "-", "literal extraction")
		}
		// the decoder must index exactly this table
		// (in the decoder itself, in a helper it calls, or in a function value it takes
		// from a constant table — `notation.digitValue(ch)`)
		uses := false
		group := map[*ssa.Function]bool{decode: true}
		for round := 0; round < 2; round++ {
			for fn := range group {
				for _, ci := range ssax.Calls(fn) {
					if cal := ci.Common().StaticCallee(); cal != nil && p.InModule(cal) {
						group[cal] = true
					}
				}
				for _, b := range fn.Blocks {
					for _, ins := range b.Instrs {
						var g *ssa.Global
						switch x := ins.(type) {
						case *ssa.IndexAddr:
							g = globalOf(x.X)
						case *ssa.UnOp:
							g = globalOf(x.X)
						}
						if g == nil {
							continue
						}
						if v, ok := env.closedVar(g.Name()); ok {
							funcsOfVal(v, group, 0)
						}
					}
				}
			}
		}
		for fn := range group {
			for _, b := range fn.Blocks {
				for _, ins := range b.Instrs {
					if ia, ok := ins.(*ssa.IndexAddr); ok {
						if g := globalOf(ia.X); g != nil && g.Name() == env.tabs.HexMapVar {
							uses = true
						}
					}
				}
			}
		}
		if uses {
			r.OK("D4", core.QualName(decode), "hex digits are valued through the hex table", p.Pos(decode.Pos()), "IndexAddr on "+env.tabs.HexMapVar)
		} else {
			r.Fail("D4", core.QualName(decode), "hex digits are valued through the hex table", p.Pos(decode.Pos()), "the decoder does not index the hex table: the digit valuation is undecided")
		}
	} else {
		r.Fail("D4", "-", "hex table extracted", "-", "the hex decode table could not be extracted as a 256-entry literal: undecided")
	}

	// ---- D5 (part 2): the literals cover the schemes of the statement
	if litBase == nil {
		r.Fail("D5", core.QualName(black), "scheme list located", p.Pos(black.Pos()), litWhy)
	} else {
		for _, l := range lits {
			ok := l != "" && l == strings.ToUpper(l) && !strings.ContainsAny(l, "\x00\n") && strings.IndexFunc(l, func(r rune) bool { return r <= 32 }) < 0
			if ok {
				r.OK("D5", core.QualName(black), fmt.Sprintf("scheme literal %q is reachable by the normalising matcher", l), p.Pos(black.Pos()), "upper-case, no NUL/LF/space")
			} else {
				r.Fail("D5", core.QualName(black), fmt.Sprintf("scheme literal %q is reachable by the normalising matcher", l), p.Pos(black.Pos()), "the matcher upper-cases the subject and drops NUL, LF and leading bytes ≤ 0x20: this literal can never be matched")
			}
		}
		for _, s := range c19Schemes {
			covered := ""
			for _, l := range lits {
				if l != "" && strings.HasPrefix(s, l) {
					covered = l
				}
			}
			if covered != "" {
				r.OK("D5", core.QualName(black), "scheme "+s+" is covered by a list entry", p.Pos(black.Pos()), fmt.Sprintf("%q is a prefix", covered))
			} else {
				r.Fail("D5", core.QualName(black), "scheme "+s+" is covered by a list entry", p.Pos(black.Pos()), fmt.Sprintf("no entry of the scheme list %q is a prefix of it", lits))
			}
		}
	}

	// ---- D6: one step of the normalising matcher, tabulated over every decoded value
	matcherStepRule(p, r, match, decode)
	// ---- D7: the leading-junk trim
	trimRule(p, r, black, match)
	// ---- D8: verdict gating
	gateRule(p, r, black, match, "a matching scheme makes the URL predicate answer true")
	gateRule(p, r, ctxFn, black, "a black URL in an attribute value makes the classifier answer true")

	r.Extra["roots"] = xr.describe()
	r.Extra["scheme_literals"] = lits
	r.Explanation = e3Explain + " C19 = E3 obligations of the character-reference decoder, the normalising matcher and the URL predicate (all index/slice bounds, loop ranking — the matcher consumes ≥ 1 byte per step — and D2: every decoder exit has 1 ≤ consumed ≤ len(s) or (0, empty input); D3: every decoded value is within 0 … 0x1000FF and a path on which the accumulator exceeds that bound returns ('&',1)); D4: the hex table extracted from the source equals the hexadecimal digit map and the decoder indexes it; D5: the scheme literals read from the source are matchable (upper-case, no dropped bytes), cover JAVASCRIPT:, VBSCRIPT:, DATA:, VIEW-SOURCE: by prefix, are tried in order without gaps and a negative answer is given only after all were tried (E3 ghost counter); D6: conditional constant propagation of one matcher step with the decoded value pinned to each of 0…0x17F and 0x1000FF and the first-flag to both values: NUL and LF are never appended, every scheme character is appended upper-cased and clears the first-flag, and the verdict is a prefix-implied library test of the collected bytes against the literal; D7: the trim closure, constant-propagated over every rune 0…0x2FF, U+FFFD and U+10FFFF, strips all r ≤ 0x20 and r ≥ 0x7F and no scheme character, and its result is the matcher's subject; D9: in every digit loop of the decoder the counter advances by exactly one per way round, and the exit that also consumes the byte under the counter (count = counter + 1) is taken exactly under `byte == ';'`; D8: a true matcher result dominates `return true` of the predicate, and a true predicate result dominates `return true` of the classifier. NOT decided: the composite claim over all encodings as one statement (it follows from D2–D8 by induction over the decoded prefix, an argument made in DESIGN.md, not by the checker); which attributes are URL-typed (C20)."
	r.Trusted = []string{"go/ssa", "E3 transfer functions", "in-checker simplex", "SCCP evaluator (ssax)", "table extraction (E2)"}
	return r
}

func globalOf(v ssa.Value) *ssa.Global {
	switch x := v.(type) {
	case *ssa.Global:
		return x
	case *ssa.UnOp:
		return globalOf(x.X)
	case *ssa.Slice:
		return globalOf(x.X)
	}
	return nil
}

// schemeLiterals finds the list of constant strings whose entries are handed to
// the matcher as first argument: a local slice literal in pred. Returns the
// entries, the backing array allocation and a reason when it fails.
func schemeLiterals(p *core.Program, pred, match *ssa.Function) ([]string, ssa.Value, string) {
	var base ssa.Value
	for _, b := range pred.Blocks {
		for _, ins := range b.Instrs {
			call, ok := ins.(*ssa.Call)
			if !ok || call.Call.StaticCallee() != match || len(call.Call.Args) < 2 {
				continue
			}
			bs, path, ok := ssax.TableRead(call.Call.Args[0])
			if !ok || len(path) != 1 || path[0].Field {
				return nil, nil, "the matcher's first argument is not an element of a list: undecided"
			}
			if base != nil && base != bs {
				return nil, nil, "several scheme lists: undecided"
			}
			base = bs
		}
	}
	if base == nil {
		return nil, nil, "no call of the matcher with a list element found in the URL predicate"
	}
	if g, isG := base.(*ssa.Global); isG {
		// a package-level list: its closed initialiser (package-level state is not written at run time: C05)
		v, err := tables.ClosedValue(p, g.Name())
		sl, isSl := v.(*tables.Slice)
		if err != nil || !isSl || sl == nil {
			return nil, nil, "the package-level scheme list has no closed initialiser: undecided"
		}
		var lits []string
		for _, e := range sl.Elems {
			sv, isS := e.(string)
			if !isS {
				return nil, nil, "the package-level scheme list holds a non-string entry: undecided"
			}
			lits = append(lits, sv)
		}
		return lits, base, ""
	}
	alloc := base.(*ssa.Alloc)
	arr, ok := alloc.Type().(*types.Pointer).Elem().Underlying().(*types.Array)
	if !ok {
		return nil, nil, "scheme list backing store is not an array"
	}
	lits := make([]string, arr.Len())
	set := make([]bool, arr.Len())
	for _, ref := range *alloc.Referrers() {
		switch x := ref.(type) {
		case *ssa.IndexAddr:
			k, isC := ssax.ConstInt(x.Index)
			for _, r2 := range *x.Referrers() {
				st, isStore := r2.(*ssa.Store)
				if !isStore || st.Addr != x {
					continue
				}
				cs, okc := st.Val.(*ssa.Const)
				s, oks := "", false
				if okc {
					s, oks = ssax.ConstString(cs)
				}
				if !isC || !oks || k < 0 || k >= arr.Len() || set[k] {
					return nil, nil, "the scheme list has a non-constant or repeated store: undecided"
				}
				lits[k], set[k] = s, true
			}
		case *ssa.Slice:
			if x.Low != nil || x.High != nil {
				return nil, nil, "the scheme list is re-sliced before use: undecided"
			}
		}
	}
	for k, ok := range set {
		if !ok {
			return nil, nil, fmt.Sprintf("entry %d of the scheme list is never initialised", k)
		}
	}
	return lits, base, ""
}

func arrayBase(v ssa.Value) ssa.Value {
	switch x := v.(type) {
	case *ssa.Alloc:
		return x
	case *ssa.Global:
		return x
	case *ssa.UnOp:
		// a package-level slice: the loaded slice header
		if g, ok := x.X.(*ssa.Global); ok && x.Op == token.MUL {
			return g
		}
		return nil
	case *ssa.Slice:
		if x.Low != nil || x.High != nil {
			return nil
		}
		return arrayBase(x.X)
	}
	return nil
}

// indexOfLoad returns the index value of a load *(&base[idx]).
func indexOfLoad(v ssa.Value, base ssa.Value) (ssa.Value, bool) {
	root, path, ok := ssax.TableRead(v)
	if !ok || root != base || len(path) != 1 || path[0].Field {
		return nil, false
	}
	if path[0].Var != nil {
		return path[0].Var, true
	}
	return ssa.NewConst(constant.MakeInt64(int64(path[0].K)), types.Typ[types.Int]), true
}

// gateRule: a true result of callee makes fn return true — at every call site
// the result is tested by a branch whose true side only returns true, or is
// returned as it is; when fn does not call callee itself, the same must hold
// along a chain of boolean helpers (fn → h → callee, two levels).
func gateRule(p *core.Program, r *core.Result, fn, callee *ssa.Function, what string) {
	if !gateChain(p, r, fn, callee, what, 0, true) {
		r.Fail("D8", core.QualName(fn), what, p.Pos(fn.Pos()), "no call of "+callee.Name()+" in "+fn.Name()+" (or in a boolean helper it calls): the value is not routed to it")
	}
}

func gateChain(p *core.Program, r *core.Result, fn, callee *ssa.Function, what string, depth int, report bool) bool {
	n := 0
	for _, b := range fn.Blocks {
		for _, ins := range b.Instrs {
			call, ok := ins.(*ssa.Call)
			if !ok || call.Call.StaticCallee() != callee {
				continue
			}
			n++
			expr := what + ": " + core.Short(ssax.Canon(call))
			good := false
			why := "the result of the call is neither returned as it is nor tested by a branch whose true side returns true"
			for _, ref := range *call.Referrers() {
				switch x := ref.(type) {
				case *ssa.If:
					if x.Cond != call {
						continue
					}
					// every path from the true successor must return the constant true before anything else can intervene
					good = returnsTrueOnly(x.Block().Succs[0], map[*ssa.BasicBlock]bool{})
					if !good {
						why = "the true side of the test does not return true on every path"
					}
				case *ssa.Return:
					if len(x.Results) == 1 && x.Results[0] == ssa.Value(call) {
						good = true
					}
				case *ssa.Phi:
					// `a || call`: the phi is the returned verdict
					for _, r2 := range *x.Referrers() {
						if ret, isRet := r2.(*ssa.Return); isRet && len(ret.Results) == 1 && ret.Results[0] == ssa.Value(x) {
							good = true
						}
					}
				}
			}
			if good {
				r.OK("D8", core.QualName(fn), expr, p.Pos(call.Pos()), "a true result makes "+fn.Name()+" answer true")
			} else {
				r.Fail("D8", core.QualName(fn), expr, p.Pos(call.Pos()), why)
			}
		}
	}
	if n > 0 {
		return true
	}
	if depth >= 2 {
		return false
	}
	// through a boolean helper
	found := false
	seen := map[*ssa.Function]bool{}
	for _, ci := range ssax.Calls(fn) {
		h := ci.Common().StaticCallee()
		if h == nil || seen[h] || h == fn || !p.InModule(h) || len(h.Blocks) == 0 || !reachesFrom(p, h, callee) {
			continue
		}
		seen[h] = true
		res := h.Signature.Results()
		if res.Len() != 1 {
			continue
		}
		if bt, ok := res.At(0).Type().Underlying().(*types.Basic); !ok || bt.Kind() != types.Bool {
			continue
		}
		if gateChain(p, r, h, callee, what+" (in "+h.Name()+")", depth+1, true) {
			found = true
			gateChain(p, r, fn, h, what+" (through "+h.Name()+")", depth+1, true)
		}
	}
	return found
}

func returnsTrueOnly(b *ssa.BasicBlock, seen map[*ssa.BasicBlock]bool) bool {
	if seen[b] {
		return false // a cycle before returning
	}
	seen[b] = true
	for _, ins := range b.Instrs {
		switch x := ins.(type) {
		case *ssa.Return:
			if len(x.Results) != 1 {
				return false
			}
			c, ok := x.Results[0].(*ssa.Const)
			if !ok {
				return false
			}
			bv, isB := ssax.ConstBool(c)
			return isB && bv
		case *ssa.Jump:
			return returnsTrueOnly(b.Succs[0], seen)
		case *ssa.If:
			return returnsTrueOnly(b.Succs[0], seen) && returnsTrueOnly(b.Succs[1], seen)
		case *ssa.Store, *ssa.Call, *ssa.MapUpdate, *ssa.Send, *ssa.Go, *ssa.Defer, *ssa.Panic:
			return false
		}
	}
	return false
}

// matcherStepRule (D6) tabulates one iteration of the matcher loop by
// conditional constant propagation with the decoded value and the first-flag pinned.
func matcherStepRule(p *core.Program, r *core.Result, match, decode *ssa.Function) {
	qn := core.QualName(match)
	pos := p.Pos(match.Pos())
	// the decoded value: Extract #0 of the decoder call; the append of its byte
	var cb ssa.Value
	var app *ssa.Call
	for _, b := range match.Blocks {
		for _, ins := range b.Instrs {
			switch x := ins.(type) {
			case *ssa.Extract:
				if call, ok := x.Tuple.(*ssa.Call); ok && call.Call.StaticCallee() == decode && x.Index == 0 {
					if cb != nil {
						r.Fail("D6", qn, "one decoder call per matcher step", pos, "several decoder calls: undecided")
						return
					}
					cb = x
				}
			case *ssa.Call:
				if bi, ok := x.Call.Value.(*ssa.Builtin); ok && bi.Name() == "append" {
					if app != nil {
						r.Fail("D6", qn, "one append per matcher step", pos, "several appends: undecided")
						return
					}
					app = x
				}
			}
		}
	}
	if cb == nil || app == nil {
		r.Fail("D6", qn, "matcher step located", pos, "no decoder call / append found in the matcher: undecided")
		return
	}
	// the appended byte: append(bs, []byte{byte(x)}...) — find the stored element
	appended := appendedByte(app)
	if appended == nil {
		r.Fail("D6", qn, "appended byte located", p.Pos(app.Pos()), "cannot identify the byte appended to the collected prefix: undecided")
		return
	}
	cbBlock := cb.(ssa.Instruction).Block()
	// the first-flag: a bool phi in the loop head (the block that dominates the decoder call and has a back edge)
	var first *ssa.Phi
	for _, b := range match.Blocks {
		for _, ins := range b.Instrs {
			if ph, ok := ins.(*ssa.Phi); ok {
				if bt, isB := ph.Type().Underlying().(*types.Basic); isB && bt.Kind() == types.Bool {
					// only a phi of the loop head counts (a merge of `if first { … first = false }` is derived from it)
					isHead := false
					for _, pb := range b.Preds {
						if b.Dominates(pb) {
							isHead = true
						}
					}
					if !isHead || !b.Dominates(cbBlock) {
						continue
					}
					if first != nil {
						r.Fail("D6", qn, "first-flag located", pos, "several boolean loop variables: undecided")
						return
					}
					first = ph
				}
			}
		}
	}
	schemeChar := func(c int) bool {
		return (c >= 'A' && c <= 'Z') || (c >= 'a' && c <= 'z') || c == '-' || c == ':'
	}
	upper := func(c int) int {
		if c >= 'a' && c <= 'z' {
			return c - 0x20
		}
		return c
	}
	var vals []int
	for c := 0; c < 0x180; c++ {
		vals = append(vals, c)
	}
	vals = append(vals, maxCharRef)
	bad := 0
	cases := 0
	firsts := []interface{}{true, false}
	if first == nil {
		firsts = []interface{}{nil}
	}
	for _, fv := range firsts {
		for _, c := range vals {
			pins := map[ssa.Value]interface{}{cb: int64(c)}
			if first != nil {
				pins[first] = fv
			}
			s := ssax.RunSCCPPinned(match, pins, p.Pkg.TypesSizes)
			cases++
			reach := s.ExecBlock[app.Block()]
			var out interface{}
			if reach {
				if l, ok := s.Vals[appended]; ok && l.Known {
					out = l.V
				}
			}
			// first' over the executable back edges
			firstAfter := map[bool]bool{}
			if first != nil {
				for i, pred := range first.Block().Preds {
					if !s.EdgeExecutable(pred, first.Block()) || !first.Block().Dominates(pred) {
						continue
					}
					if l, ok := s.ValueOf(first.Edges[i]); ok {
						if bv, isB := l.(bool); isB {
							firstAfter[bv] = true
						}
					} else {
						firstAfter[true], firstAfter[false] = true, true
					}
				}
			}
			fail := func(msg string) {
				bad++
				if bad <= 12 {
					r.Fail("D6", qn, fmt.Sprintf("matcher step on decoded value %#x (first=%v)", c, fv), p.Pos(app.Pos()), msg)
				}
			}
			switch {
			case c == 0 || c == 10:
				if reach {
					fail("NUL / LF is appended to the collected prefix: `java\\nscript:` would no longer match")
				}
			case c < 256 && schemeChar(c):
				if !reach {
					fail("a scheme character is dropped")
				} else if out == nil {
					fail("the appended byte is not a function of the decoded value alone: undecided")
				} else if iv, ok := out.(int64); !ok || int(iv) != upper(c) {
					fail(fmt.Sprintf("appended byte is %v, expected the upper-cased character %#x", out, upper(c)))
				} else if first != nil && firstAfter[true] {
					fail("the first-flag stays set after a scheme character: following NUL/LF-free text would be treated as leading junk")
				}
			}
		}
	}
	if bad == 0 {
		r.OK("D6", qn, fmt.Sprintf("matcher step tabulated: %d (value, first) cases — NUL/LF never appended, scheme characters appended upper-cased", cases), p.Pos(app.Pos()), "conditional constant propagation with pinned values")
	}
	// D6': verdict = prefix-implied test of the collected bytes against the literal parameter
	okRet := 0
	for _, b := range match.Blocks {
		ret, ok := b.Instrs[len(b.Instrs)-1].(*ssa.Return)
		if !ok || len(ret.Results) != 1 {
			continue
		}
		expr := "verdict is a prefix-implied test of the collected bytes: " + core.Short(ssax.Canon(ret.Results[0]))
		call, isCall := ret.Results[0].(*ssa.Call)
		if !isCall {
			if cst, isC := ret.Results[0].(*ssa.Const); isC {
				if bv, isB := ssax.ConstBool(cst); isB && bv {
					okRet++
					continue
				}
			}
			r.Fail("D6", qn, expr, p.Pos(ret.Pos()), "the matcher can answer without testing the collected bytes against the scheme literal")
			continue
		}
		cal := call.Call.StaticCallee()
		name := ""
		if cal != nil {
			name = cal.String()
		}
		if (name == "strings.Contains" || name == "strings.HasPrefix" || name == "bytes.HasPrefix" || name == "bytes.Contains") && len(call.Call.Args) == 2 && derivesFrom(call.Call.Args[0], app, 0) && derivesFromParam(call.Call.Args[1], match.Params[0]) {
			okRet++
			r.OK("D6", qn, expr, p.Pos(ret.Pos()), name+"(collected, literal): true whenever the collected bytes begin with the literal")
		} else {
			r.Fail("D6", qn, expr, p.Pos(ret.Pos()), "the verdict is not strings.HasPrefix / strings.Contains of the collected bytes and the scheme literal: undecided")
		}
	}
	if okRet == 0 {
		r.Fail("D6", qn, "verdict located", pos, "no return of the matcher found")
	}
}

// appendedByte finds x in append(bs, byte(x)) (the variadic slice literal form).
func appendedByte(app *ssa.Call) ssa.Value {
	if len(app.Call.Args) != 2 {
		return nil
	}
	sl, ok := app.Call.Args[1].(*ssa.Slice)
	if !ok {
		return nil
	}
	alloc, ok := sl.X.(*ssa.Alloc)
	if !ok {
		return nil
	}
	var val ssa.Value
	for _, ref := range *alloc.Referrers() {
		if ia, ok := ref.(*ssa.IndexAddr); ok {
			for _, r2 := range *ia.Referrers() {
				if st, ok := r2.(*ssa.Store); ok && st.Addr == ia {
					if val != nil {
						return nil
					}
					val = st.Val
				}
			}
		}
	}
	return val
}

func derivesFrom(v ssa.Value, target ssa.Value, depth int) bool {
	if depth > 8 {
		return false
	}
	if v == target {
		return true
	}
	switch x := v.(type) {
	case *ssa.Convert:
		return derivesFrom(x.X, target, depth+1)
	case *ssa.ChangeType:
		return derivesFrom(x.X, target, depth+1)
	case *ssa.Phi:
		for _, e := range x.Edges {
			if derivesFrom(e, target, depth+1) {
				return true
			}
		}
	case *ssa.Slice:
		return derivesFrom(x.X, target, depth+1)
	}
	return false
}

func derivesFromParam(v ssa.Value, prm *ssa.Parameter) bool {
	switch x := v.(type) {
	case *ssa.Parameter:
		return x == prm
	case *ssa.Convert:
		return derivesFromParam(x.X, prm)
	case *ssa.ChangeType:
		return derivesFromParam(x.X, prm)
	}
	return false
}

// trimRule (D7): the matcher's subject is strings.TrimLeftFunc(param, f) and f,
// constant-propagated over the runes, strips r ≤ 0x20 and r ≥ 0x7F and no scheme character.
func trimRule(p *core.Program, r *core.Result, pred, match *ssa.Function) {
	qn := core.QualName(pred)
	n := 0
	for _, b := range pred.Blocks {
		for _, ins := range b.Instrs {
			call, ok := ins.(*ssa.Call)
			if !ok || call.Call.StaticCallee() != match || len(call.Call.Args) < 2 {
				continue
			}
			n++
			expr := "the matcher's subject is the value with its leading junk trimmed: " + core.Short(ssax.Canon(call.Call.Args[1]))
			tr, isCall := call.Call.Args[1].(*ssa.Call)
			if !isCall || tr.Call.StaticCallee() == nil || tr.Call.StaticCallee().String() != "strings.TrimLeftFunc" || len(tr.Call.Args) != 2 || !derivesFromParam(tr.Call.Args[0], pred.Params[0]) {
				r.Fail("D7", qn, expr, p.Pos(call.Pos()), "the subject handed to the matcher is not strings.TrimLeftFunc(value, f): leading bytes ≤ 0x20 / ≥ 0x7F are not stripped, or the trimming is undecided")
				continue
			}
			var f *ssa.Function
			switch x := tr.Call.Args[1].(type) {
			case *ssa.Function:
				f = x
			case *ssa.MakeClosure:
				f, _ = x.Fn.(*ssa.Function)
				if len(x.Bindings) > 0 {
					f = nil
				}
			}
			if f == nil || len(f.Params) != 1 {
				r.Fail("D7", qn, expr, p.Pos(call.Pos()), "the trim predicate is not a closed function of one rune: undecided")
				continue
			}
			r.OK("D7", qn, expr, p.Pos(call.Pos()), "strings.TrimLeftFunc(param, "+f.Name()+")")
			var runes []int64
			for c := int64(0); c < 0x300; c++ {
				runes = append(runes, c)
			}
			runes = append(runes, 0xFFFD, 0x10FFFF)
			bad := 0
			for _, c := range runes {
				s := ssax.RunSCCP(f, map[*ssa.Parameter]interface{}{f.Params[0]: c}, p.Pkg.TypesSizes)
				v, known := s.ReturnConst(0)
				bv, isB := v.(bool)
				strip := c <= 0x20 || c >= 0x7F
				scheme := (c >= 'A' && c <= 'Z') || (c >= 'a' && c <= 'z') || c == '-' || c == ':' || c == '&' || c == '#' || (c >= '0' && c <= '9') || c == ';'
				switch {
				case !known || !isB:
					bad++
					if bad <= 5 {
						r.Fail("D7", core.QualName(f), fmt.Sprintf("trim predicate on rune %#x", c), p.Pos(f.Pos()), "the predicate does not fold to a constant for this rune: undecided")
					}
				case strip && !bv:
					bad++
					if bad <= 5 {
						r.Fail("D7", core.QualName(f), fmt.Sprintf("trim predicate on rune %#x", c), p.Pos(f.Pos()), "a leading byte ≤ 0x20 or ≥ 0x7F is not stripped before the scheme is looked for")
					}
				case scheme && bv:
					bad++
					if bad <= 5 {
						r.Fail("D7", core.QualName(f), fmt.Sprintf("trim predicate on rune %#x", c), p.Pos(f.Pos()), "a scheme or character-reference character is stripped from the front of the value")
					}
				}
			}
			if bad == 0 {
				r.OK("D7", core.QualName(f), fmt.Sprintf("trim predicate tabulated over %d runes: strips every r ≤ 0x20 and r ≥ 0x7F, keeps scheme and reference characters", len(runes)), p.Pos(f.Pos()), "conditional constant propagation")
			}
		}
	}
	if n == 0 {
		r.Fail("D7", qn, "matcher call located", p.Pos(pred.Pos()), "the URL predicate never calls the matcher")
	}
	_ = sort.Strings
}

// emptySubjectReturn: ret is reached only when the subject handed to the matcher
// is the empty string (a dominating `len(subject) == 0` / `subject == ""` fact),
// and E3 proves that the matcher answers false for every non-empty literal on
// the empty subject — then answering false without trying the schemes changes nothing.
func emptySubjectReturn(c *Ctx, black, match *ssa.Function, ret *ssa.Return, memo *map[int]string) bool {
	for _, ci := range ssax.Calls(black) {
		if ci.Common().StaticCallee() != match {
			continue
		}
		for i, arg := range ci.Common().Args {
			if !isStringType(arg.Type()) {
				continue
			}
			for _, f := range ssax.Facts(ret.Block()) {
				trueIsEmpty, ok := emptyTest(f.Cond, arg)
				if !ok || f.True != trueIsEmpty {
					continue
				}
				if *memo == nil {
					*memo = map[int]string{}
				}
				why, done := (*memo)[i]
				if !done {
					why = matcherFalseOnEmptySubject(c, match, i)
					(*memo)[i] = why
				}
				return why == ""
			}
		}
	}
	return false
}

// funcsOfVal collects the function values inside a closed table value.
func funcsOfVal(v tables.Val, out map[*ssa.Function]bool, depth int) {
	if depth > 4 {
		return
	}
	switch x := v.(type) {
	case *ssa.Function:
		if x != nil {
			out[x] = true
		}
	case *tables.Slice:
		if x != nil {
			for _, e := range x.Elems {
				funcsOfVal(e, out, depth+1)
			}
		}
	case *tables.Struct:
		if x != nil {
			for _, e := range x.F {
				funcsOfVal(e, out, depth+1)
			}
		}
	}
}

// digitLoopRule (D9): in every loop of the decoder that reads the reference byte by
// byte — s[i] with i the loop's counter — the counter advances by exactly one on every
// back edge, and a return that consumes the byte under the counter as well (count =
// i + 1) is taken exactly when that byte is ';' (and under ';' nothing else is returned).
func digitLoopRule(p *core.Program, r *core.Result, decode *ssa.Function) {
	qn := core.QualName(decode)
	var str *ssa.Parameter
	for _, prm := range decode.Params {
		if isStringType(prm.Type()) {
			str = prm
		}
	}
	if str == nil {
		return
	}
	n := 0
	for _, l := range ssax.Loops(decode) {
		// the counter: a phi of the loop head that indexes the input inside the loop
		var ctr *ssa.Phi
		var byteVals []ssa.Value
		for _, ins := range l.Head.Instrs {
			ph, ok := ins.(*ssa.Phi)
			if !ok || !isIntType(ph.Type()) {
				continue
			}
			for b := range l.Body {
				for _, i2 := range b.Instrs {
					if ix, ok := i2.(*ssa.Index); ok && ix.X == ssa.Value(str) && ix.Index == ssa.Value(ph) {
						ctr = ph
						byteVals = append(byteVals, ix)
					}
				}
			}
		}
		if ctr == nil {
			continue
		}
		n++
		expr := "digit loop over " + ssax.Canon(ctr)
		stepOK := true
		for i, e := range ctr.Edges {
			if !l.Body[l.Head.Preds[i]] {
				continue // entry edge
			}
			bo, ok := e.(*ssa.BinOp)
			if !ok || bo.Op != token.ADD || bo.X != ssa.Value(ctr) {
				stepOK = false
				continue
			}
			if k, ok := ssax.ConstInt(bo.Y); !ok || k != 1 {
				stepOK = false
			}
		}
		if stepOK {
			r.OK("D9", qn, expr+": the counter advances by one per digit", p.Pos(ctr.Pos()), "")
		} else {
			r.Fail("D9", qn, expr+": the counter advances by one per digit", p.Pos(ctr.Pos()), "the counter of a digit loop is not advanced by exactly one on every way round: digits are skipped or read twice, the decoded value is not the reference's number")
		}
		// byte values: the Index itself or its integer conversion
		isByte := func(v ssa.Value) bool {
			for d := 0; d < 3; d++ {
				for _, bv := range byteVals {
					if v == bv {
						return true
					}
				}
				if cv, ok := v.(*ssa.Convert); ok {
					v = cv.X
					continue
				}
				break
			}
			return false
		}
		semiFact := func(b *ssa.BasicBlock) bool {
			for _, f := range ssax.Facts(b) {
				bo, ok := f.Cond.(*ssa.BinOp)
				if !ok || !isByte(bo.X) {
					continue
				}
				if k, ok := ssax.ConstInt(bo.Y); ok && k == ';' && ((bo.Op == token.EQL && f.True) || (bo.Op == token.NEQ && !f.True)) {
					return true
				}
			}
			return false
		}
		// the exits of the loop that return at once (a return block is outside the natural loop)
		for _, ex := range l.Exits {
			b := ex[1]
			ret, ok := b.Instrs[len(b.Instrs)-1].(*ssa.Return)
			if !ok || len(ret.Results) != 2 {
				continue
			}
			// (a return block with several predecessors — `a || b` exits — is judged on the facts common to all of them)
			plusOne := false
			if bo, ok := ret.Results[1].(*ssa.BinOp); ok && bo.Op == token.ADD && bo.X == ssa.Value(ctr) {
				if k, ok := ssax.ConstInt(bo.Y); ok && k == 1 {
					plusOne = true
				}
			}
			semi := semiFact(b)
			e2 := expr + ": exit at " + retLabel(ret)
			switch {
			case plusOne && !semi:
				r.Fail("D9", qn, e2, p.Pos(ret.Pos()), "the byte under the counter is consumed as the reference's terminator although it is not known to be ';'")
			case semi && !plusOne:
				r.Fail("D9", qn, e2, p.Pos(ret.Pos()), "the terminating ';' is recognised but not consumed with the reference (count is not counter + 1)")
			case plusOne && semi:
				r.OK("D9", qn, e2, p.Pos(ret.Pos()), "';' consumed with the reference")
			}
		}
	}
	if n == 0 {
		r.Note("D9: the decoder has no loop that reads the input through its counter (rule not applicable on this tree)")
	}
}
