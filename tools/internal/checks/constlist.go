package checks

import (
	"fmt"
	"go/types"

	"golang.org/x/tools/go/ssa"

	"verif/tools/internal/absint"
	"verif/tools/internal/core"
	"verif/tools/internal/ssax"
	"verif/tools/internal/tables"
)

// listElem recognises an element read of a local list: *(&x[idx]) with x the
// array allocation or its full slice, or (*alloc)[idx] on the loaded array value.
func listElem(v ssa.Value) (base *ssa.Alloc, idx ssa.Value, ok bool) {
	switch x := v.(type) {
	case *ssa.UnOp:
		ia, isIA := x.X.(*ssa.IndexAddr)
		if !isIA {
			return nil, nil, false
		}
		b := arrayBase(ia.X)
		al, isAl := b.(*ssa.Alloc)
		if b == nil || !isAl {
			return nil, nil, false
		}
		return al, ia.Index, true
	case *ssa.Index:
		ld, isLd := x.X.(*ssa.UnOp)
		if !isLd {
			return nil, nil, false
		}
		al, isAl := ld.X.(*ssa.Alloc)
		if !isAl {
			return nil, nil, false
		}
		return al, x.Index, true
	}
	return nil, nil, false
}

// constIntList reads the constant integer elements of a local array literal;
// fails on any non-constant, repeated or missing store, or a re-slice.
func constIntList(alloc *ssa.Alloc) ([]int64, string) {
	arr, ok := alloc.Type().(*types.Pointer).Elem().Underlying().(*types.Array)
	if !ok {
		return nil, "the list's backing store is not an array"
	}
	vals := make([]int64, arr.Len())
	set := make([]bool, arr.Len())
	for _, ref := range *alloc.Referrers() {
		switch x := ref.(type) {
		case *ssa.IndexAddr:
			k, isC := ssax.ConstInt(x.Index)
			for _, r2 := range *x.Referrers() {
				st, isStore := r2.(*ssa.Store)
				if !isStore || st.Addr != x {
					continue
				}
				cv, okc := ssax.ConstInt(st.Val)
				if !isC || !okc || k < 0 || k >= arr.Len() || set[k] {
					return nil, "the list has a non-constant or repeated store"
				}
				vals[k], set[k] = cv, true
			}
		case *ssa.Slice:
			if x.Low != nil || x.High != nil {
				return nil, "the list is re-sliced before use"
			}
		case *ssa.Store:
			if x.Addr == alloc {
				return nil, "the list is overwritten as a whole"
			}
		}
	}
	for k, ok := range set {
		if !ok {
			return nil, fmt.Sprintf("entry %d of the list is never initialised", k)
		}
	}
	return vals, ""
}

// triedAllRule runs E3 on fn with callee summarised (unknown bool result) and a
// ghost counter: the list element handed to callee at argument argIdx is, at
// every call, the next untried one, and fn returns false (or an unknown value)
// only after all n entries were tried.
func triedAllRule(env *e3Env, xr *xssRoots, r *core.Result, rule string, fn, callee *ssa.Function, argIdx int, base *ssa.Alloc, n int, what string) {
	ghost := absint.ObjPtr("GHOST:list", nil)
	cfg := env.config()
	cfg.Peel = true
	cfg.GhostDefault = func(obj, field string) (absint.AVal, bool) {
		if obj == "GHOST:list" && field == "next" {
			return absint.IntV{L: absint.K(0)}, true
		}
		return nil, false
	}
	next := func(e *absint.Engine, st *absint.State) absint.Lin {
		if nc, had := e.CellOf(st, ghost, "next"); had {
			if ni, isI := nc.(absint.IntV); isI {
				return ni.L
			}
		}
		return absint.K(0)
	}
	cfg.Summaries[callee] = func(e *absint.Engine, st *absint.State, fr *absint.Frame, call *ssa.Call, cal *ssa.Function, args []absint.AVal) ([]*absint.State, bool) {
		okI := false
		var il absint.Lin
		if argIdx < len(call.Call.Args) {
			if b, idx, ok := listElem(call.Call.Args[argIdx]); ok && b == base {
				il, okI = e.AsInt(st, e.Val(st, fr, idx))
			}
		}
		e.Check(st, fr, call.Pos(), rule, what+": entries are tried in order without gaps", okI && e.ProveEQ(st, il, next(e, st)), "the entry handed to "+cal.Name()+" is not provably the next untried one: an entry of the list may be skipped")
		if okI {
			e.SetCell(st, ghost, "next", absint.IntV{L: il.AddK(1)})
		}
		e.SetResult(st, fr, call, absint.BoolV{})
		return []*absint.State{st}, true
	}
	cfg.Hooks.OnReturn = func(e *absint.Engine, st *absint.State, fr *absint.Frame, ret *ssa.Return, val absint.AVal) {
		if fr.Depth() != 0 {
			return
		}
		if b, _ := val.(absint.BoolV); b.Known == 1 {
			return
		}
		e.Check(st, fr, ret.Pos(), rule, what+": a negative answer only after every entry was tried at "+retLabel(ret), e.ProveLE(st, absint.K(int64(n)), next(e, st)), fmt.Sprintf("%s can answer false after trying fewer than %d entries", fn.Name(), n))
	}
	xr.run("list:"+fn.Name(), cfg, fn, func(e *absint.Engine, st *absint.State, fr *absint.Frame) {
		env.genericSetup(e, st, fr, fn)
	})
}

// traceConsts lets the trace enumeration read entries of package-level tables whose
// initialisers are closed (E2 closed evaluator); cached per program.
func traceConsts(p *core.Program) ssax.TraceConsts {
	cache := map[string]tables.Val{}
	failed := map[string]bool{}
	return func(g *ssa.Global, path []int) (interface{}, bool) {
		name := g.Name()
		v, ok := cache[name]
		if !ok {
			if failed[name] {
				return nil, false
			}
			val, err := tables.ClosedValue(p, name)
			if err != nil {
				failed[name] = true
				return nil, false
			}
			cache[name] = val
			v = val
		}
		for _, i := range path {
			switch x := v.(type) {
			case *tables.Slice:
				if x == nil {
					if i == -1 {
						return int64(0), true
					}
					return nil, false
				}
				if i == -1 {
					return int64(len(x.Elems)), true
				}
				if i < 0 || i >= len(x.Elems) {
					return nil, false
				}
				v = x.Elems[i]
			case *tables.Struct:
				if x == nil || i < 0 || i >= len(x.F) {
					return nil, false
				}
				v = x.F[i]
			case nil:
				if i == -1 {
					return int64(0), true
				}
				return nil, false
			default:
				return nil, false
			}
		}
		switch x := v.(type) {
		case int64, string, bool:
			return x, true
		case *ssa.Function:
			return ssax.Unwrap(x), true
		}
		return nil, false
	}
}
