package checks

import (
	"fmt"
	"os"
	"sort"
	"strings"
	"sync"

	"golang.org/x/tools/go/ssa"

	"verif/tools/internal/absint"
	"verif/tools/internal/core"
	"verif/tools/internal/ssax"
	"verif/tools/internal/tables"
)

func init() { register("C09", "other", checkC09) }

var ghostCost = absint.ObjPtr("GHOST:cost", nil)

// look-ahead a scan step may read past the cursor it returns (the longest fixed
// look-ahead on the pinned tree is the 7-byte `[CDATA[` test)
const lookAheadSlack = 8

// loopClass caches the static loop classification per function.
type loopClass struct {
	mu    sync.Mutex
	loops map[*ssa.Function][]*ssax.Loop
}

func (lc *loopClass) of(fn *ssa.Function) []*ssax.Loop {
	lc.mu.Lock()
	defer lc.mu.Unlock()
	if lc.loops == nil {
		lc.loops = map[*ssa.Function][]*ssax.Loop{}
	}
	l, ok := lc.loops[fn]
	if !ok {
		l = ssax.Loops(fn)
		lc.loops[fn] = l
	}
	return l
}

// inLoop: the innermost loop around ins (nil if none).
func (lc *loopClass) inLoop(ins ssa.Instruction) *ssax.Loop {
	b := ins.Block()
	if b == nil {
		return nil
	}
	return ssax.InnermostLoop(lc.of(b.Parent()), b)
}

// fullScanLoop: the innermost loop around ins, if none of its exits depends on
// the bytes being scanned (it always runs over its whole range).
func (lc *loopClass) fullScanLoop(ins ssa.Instruction) *ssax.Loop {
	b := ins.Block()
	if b == nil {
		return nil
	}
	l := ssax.InnermostLoop(lc.of(b.Parent()), b)
	if l == nil || l.HasContentExit() {
		return nil
	}
	return l
}

// stepCtx is what the cost rules need to know about one scan step.
type stepCtx struct {
	in   absint.StrV
	pos0 absint.Lin
	// isStep: fn is a scan-step function (a lexer / a state function): it owns the
	// searches and reads made in its activation (helpers included) and answers
	// for them with the cursor it returns
	isStep func(fn *ssa.Function) bool
	// cursor after an activation, given the state and the value it returns
	after func(e *absint.Engine, st *absint.State, val absint.AVal) (absint.Lin, bool)
	// cursor: the cursor as a cell of the state (nil when the cursor is the return value)
	cursor func(e *absint.Engine, st *absint.State) (absint.Lin, bool)
	// ends: the step ends tokenizing (no further step follows)
	ends func(e *absint.Engine, st *absint.State, val absint.AVal) bool
}

// owner: the nearest scan-step activation around fr (the root if none).
func (sc *stepCtx) owner(fr *absint.Frame) *absint.Frame {
	for f := fr; f != nil; f = f.Caller() {
		if f.Depth() == 0 || sc.isStep(f.Fn()) {
			return f
		}
	}
	return fr
}

// costHooks adds the scan-cost obligations of one scan step (a SQL lexer or an
// HTML state function analysed from an arbitrary cursor):
//
//	S-lo      no search starts before the step's cursor (consumed input is not searched again)
//	S-mono    repeated executions of one search within a step do not overlap: the next starts at or after the previous hit
//	S-end     a search hit is consumed by the step; a search that ran to the end of the input is paid for by consuming to the end (or ending the tokenizing)
//	R-lo      no byte before the step's cursor is read (one byte of look-behind allowed)
//	R-mono    a full-scan loop (no content-dependent exit) never reads backwards over what an earlier execution of it in this step already read
//
// S-end is judged where the step function that made the search returns (also when it was inlined into another step), against the
// cursor it returns there.
func costHooks(lc *loopClass, get func() *stepCtx, hooks *absint.Hooks) {
	prevRet, prevSearch, prevRead := hooks.OnReturn, hooks.OnSearch, hooks.OnRead
	hooks.OnSearch = func(e *absint.Engine, st *absint.State, fr *absint.Frame, call *ssa.Call, prev *absint.Hit, cur absint.Hit) {
		if prevSearch != nil {
			prevSearch(e, st, fr, call, prev, cur)
		}
		sc := get()
		if sc == nil || cur.Hay.Const != nil || cur.Hay.Root != sc.in.Root {
			return
		}
		lo := cur.Hay.Lo.Sub(sc.in.Lo)
		what := core.Short(ssax.Canon(call))
		e.Check(st, fr, call.Pos(), "S-lo", "search starts at or after the step's cursor: "+what, e.ProveLE(st, sc.pos0, lo), fmt.Sprintf("the search starts at %s, before the cursor this scan step started from (%s): input already consumed is searched again on every step", e.LinStr(lo), e.LinStr(sc.pos0)))
		if prev != nil && prev.Hay.Const == nil && prev.Hay.Root == sc.in.Root {
			pr := absint.SymLin(prev.R)
			prevPos := prev.Hay.Lo.Sub(sc.in.Lo).Add(pr)
			e.Check(st, fr, call.Pos(), "S-mono", "a repeated search continues behind the previous hit: "+what, e.ProveLE(st, absint.K(0), pr) && e.ProveLE(st, prevPos, lo), fmt.Sprintf("the search is executed again within one scan step from %s although its previous execution already covered the input up to %s: the same bytes are searched once per candidate (quadratic on inputs with many candidates)", e.LinStr(lo), e.LinStr(prevPos)))
		}
		e.SetCell(st, ghostCost, fmt.Sprintf("H:%d", call.Pos()), absint.IntV{L: absint.K(int64(sc.owner(fr).ID()))})
	}
	prevScan := hooks.OnScan
	hooks.OnScan = func(e *absint.Engine, st *absint.State, fr *absint.Frame, call *ssa.Call, sv absint.StrV) {
		if prevScan != nil {
			prevScan(e, st, fr, call, sv)
		}
		sc := get()
		if sc == nil || sv.Root != sc.in.Root {
			return
		}
		lo := sv.Lo.Sub(sc.in.Lo)
		what := core.Short(ssax.Canon(call))
		e.Check(st, fr, call.Pos(), "S-lo", "library call looks at input at or after the step's cursor: "+what, e.ProveLE(st, sc.pos0.AddK(-1), lo), fmt.Sprintf("the text handed to the library starts at %s, before the cursor this scan step started from (%s): consumed input is processed again on every step", e.LinStr(lo), e.LinStr(sc.pos0)))
		// the far end of the text the library may look at must be consumed by the owning step
		xk := fmt.Sprintf("X:%d:%d", call.Pos(), sc.owner(fr).ID())
		hi := sv.Hi.Sub(sc.in.Lo)
		if old, ok := e.CellOf(st, ghostCost, xk); ok {
			if oi, isI := old.(absint.IntV); isI {
				// executed before in this step: either a bounded window, or it continues behind what it covered
				e.Check(st, fr, call.Pos(), "S-mono", "a repeated library call works on a bounded window or continues behind what it covered: "+what, e.ProveLE(st, hi.Sub(lo), absint.K(64)) || e.ProveLE(st, oi.L, lo), fmt.Sprintf("the library is given input from %s to %s although an earlier execution in the same scan step already covered the input up to %s: the same text is processed once per iteration (quadratic)", e.LinStr(lo), e.LinStr(hi), e.LinStr(oi.L)))
			}
		}
		e.SetCell(st, ghostCost, xk, absint.IntV{L: hi})
	}
	hooks.OnRead = func(e *absint.Engine, st *absint.State, fr *absint.Frame, at ssa.Instruction, sv absint.StrV, idx absint.Lin) {
		if prevRead != nil {
			prevRead(e, st, fr, at, sv, idx)
		}
		sc := get()
		if sc == nil || sv.Const != nil || sv.Root != sc.in.Root {
			return
		}
		abs := sv.Lo.Sub(sc.in.Lo).Add(idx)
		what := readName(at)
		e.Check(st, fr, at.Pos(), "R-lo", "byte read at or after the step's cursor: "+what, e.ProveLE(st, sc.pos0.AddK(-1), abs), fmt.Sprintf("reads input at %s, more than one byte before the cursor this scan step started from (%s)", e.LinStr(abs), e.LinStr(sc.pos0)))
		if lc.fullScanLoop(at) != nil {
			// (per read instruction, whichever activation executed it before)
			mk := fmt.Sprintf("M:%d", at.Pos())
			if os.Getenv("VERIF_DBGMONO") != "" {
				old, ok := e.CellOf(st, ghostCost, mk)
				fmt.Fprintf(os.Stderr, "MONO %s fr=%d abs=%s old=%v(%v) logging=%v\n", what, fr.ID(), e.LinStr(abs), e.ValStr(old), ok, e.Logging())
			}
			if old, ok := e.CellOf(st, ghostCost, mk); ok {
				if oi, isI := old.(absint.IntV); isI {
					e.Check(st, fr, at.Pos(), "R-mono", "a full scan never goes back over what it already read in this step: "+what, e.ProveLE(st, oi.L, abs), fmt.Sprintf("a loop that always runs over its whole range reads input at %s after an earlier execution in the same scan step had already reached %s: the range is scanned once per outer iteration (quadratic)", e.LinStr(abs), e.LinStr(oi.L)))
				}
			}
			e.SetCell(st, ghostCost, mk, absint.IntV{L: abs})
		}
	}
	prevT := hooks.Templates
	hooks.Templates = func(e *absint.Engine, joined *absint.State, jfr *absint.Frame) []absint.Lin {
		var out []absint.Lin
		if prevT != nil {
			out = prevT(e, joined, jfr)
		}
		sc := get()
		if sc == nil {
			return out
		}
		var cur absint.Lin
		ok := false
		if sc.cursor != nil {
			cur, ok = sc.cursor(e, joined)
		} else if rv, has := e.PendingRet(joined, jfr); has {
			// the cursor is the value being returned (merged with the results)
			if iv, isI := rv.(absint.IntV); isI {
				cur, ok = iv.L, true
			}
		}
		if !ok {
			return out
		}
		for _, h := range e.Hits(joined) {
			if h.Hay.Const == nil && h.Hay.Root == sc.in.Root {
				out = append(out, h.Hay.Lo.Sub(sc.in.Lo).Add(absint.SymLin(h.R)).Sub(cur).AddK(-lookAheadSlack))
			}
		}
		for _, k := range e.CellKeys(joined, ghostCost) {
			if strings.HasPrefix(k, "X:") {
				if c, ok := e.CellOf(joined, ghostCost, k); ok {
					if ci, isI := c.(absint.IntV); isI {
						out = append(out, ci.L.Sub(cur).AddK(-lookAheadSlack))
					}
				}
			}
		}
		return out
	}
	hooks.OnReturn = func(e *absint.Engine, st *absint.State, fr *absint.Frame, ret *ssa.Return, val absint.AVal) {
		if prevRet != nil {
			prevRet(e, st, fr, ret, val)
		}
		sc := get()
		if sc == nil || (fr.Depth() != 0 && !sc.isStep(fr.Fn())) {
			return
		}
		where := retLabel(ret)
		after, ok := sc.after(e, st, val)
		if !ok {
			return
		}
		me := int64(fr.ID())
		length := absint.StrLenOf(sc.in)
		ends := sc.ends(e, st, val) || e.ProveEQ(st, after, length)
		for _, h := range e.Hits(st) {
			if h.Hay.Const != nil || h.Hay.Root != sc.in.Root || h.Org == nil {
				continue
			}
			// judged by the activation that made the search (by the root when that is unknown after a merge)
			oc, okO := e.CellOf(st, ghostCost, fmt.Sprintf("H:%d", h.Org.Pos()))
			if ov, isC := absint.ConstOf(oc); okO && isC {
				if ov != me {
					continue
				}
			} else if fr.Depth() != 0 {
				continue
			}
			r := absint.SymLin(h.R)
			hpos := h.Hay.Lo.Sub(sc.in.Lo).Add(r)
			what := core.Short(ssax.Canon(h.Org.(ssa.Value)))
			okEnd := ends || (e.ProveLE(st, absint.K(0), r) && e.ProveLE(st, hpos, after.AddK(lookAheadSlack)))
			e.Check(st, fr, ret.Pos(), "S-end", "the input a search covered is consumed by the step at "+where+": "+what, okEnd, fmt.Sprintf("the search covered the input up to %s (or to its end when nothing was found) but the step only advances the cursor to %s and tokenizing goes on: the same stretch is searched again by later steps", e.LinStr(hpos), e.LinStr(after)))
		}
		// library calls made by this activation: the text they were given is consumed
		suffix := fmt.Sprintf(":%d", me)
		for _, k := range e.CellKeys(st, ghostCost) {
			if !strings.HasPrefix(k, "X:") || !strings.HasSuffix(k, suffix) {
				continue
			}
			c, _ := e.CellOf(st, ghostCost, k)
			if ci, isI := c.(absint.IntV); isI {
				e.Check(st, fr, ret.Pos(), "S-end", "the text a library call was given is consumed by the step at "+where, ends || e.ProveLE(st, ci.L, after.AddK(lookAheadSlack)), fmt.Sprintf("a library call was given the input up to %s but the step only advances the cursor to %s and tokenizing goes on: the same stretch is processed again by later steps", e.LinStr(ci.L), e.LinStr(after)))
			}
			if fr.Depth() != 0 {
				e.Havoc(st, ghostCost, k)
			}
		}
	}
}

func readName(at ssa.Instruction) string {
	if v, ok := at.(ssa.Value); ok {
		return core.Short(ssax.Canon(v))
	}
	return at.String()
}

func checkC09(c *Ctx) *core.Result {
	p := c.P
	r := c.newResult()
	env := newE3Env(c, r)
	if len(r.Violations) > 0 {
		return r
	}
	a := env.a
	lc := &loopClass{}
	// a SQL scan-step function: takes the scanner state and returns the new cursor
	isSQLStep := func(fn *ssa.Function) bool {
		sig := fn.Signature
		if sig.Params().Len() != 1 || sig.Results().Len() != 1 || !isPtrTo(sig.Params().At(0).Type(), a.TypeName("sql.state")) {
			return false
		}
		return isIntType(sig.Results().At(0).Type())
	}
	// ---- SQL scan steps
	sr := &sqlRoots{env: env, peel: true}
	sr.runAll(func(name string, hooks *absint.Hooks) {
		if !strings.HasPrefix(name, "lexer:") {
			return
		}
		costHooks(lc, func() *stepCtx {
			rc := sr.getCtx(name)
			if rc == nil {
				return nil
			}
			return &stepCtx{in: rc.In, pos0: rc.Pos0, isStep: isSQLStep,
				after: func(e *absint.Engine, st *absint.State, val absint.AVal) (absint.Lin, bool) {
					iv, ok := val.(absint.IntV)
					return iv.L, ok
				},
				ends: func(e *absint.Engine, st *absint.State, val absint.AVal) bool { return false }}
		}, hooks)
	})
	// ---- HTML scan steps
	g := buildStateGraph(p, a, r)
	var xr *xssRoots
	if g != nil {
		xr = &xssRoots{env: env, g: g, peel: true}
		eof := a.FnOpt("xss.st.eof")
		xr.runAll(func(name string, hooks *absint.Hooks) {
			if !strings.HasPrefix(name, "state:") {
				return
			}
			costHooks(lc, func() *stepCtx {
				rc := xr.getCtx(name)
				if rc == nil {
					return nil
				}
				cursor := func(e *absint.Engine, st *absint.State) (absint.Lin, bool) {
					ps, ok := e.CellOf(st, rc.H, xr.field("xss.state.pos"))
					pi, isI := ps.(absint.IntV)
					return pi.L, ok && isI
				}
				return &stepCtx{in: rc.In, pos0: rc.Pos0, cursor: cursor, isStep: func(fn *ssa.Function) bool { return g.Nodes[fn] != nil },
					after: func(e *absint.Engine, st *absint.State, val absint.AVal) (absint.Lin, bool) {
						return cursor(e, st)
					},
					ends: func(e *absint.Engine, st *absint.State, val absint.AVal) bool {
						if b, _ := val.(absint.BoolV); b.Known == 2 {
							return true // no token: the token loop stops
						}
						sv, ok := e.CellOf(st, rc.H, xr.field("xss.state.state"))
						if f, isF := sv.(absint.FuncV); ok && isF && f.Fn != nil && eof != nil {
							if obj := f.Fn.Object(); obj != nil && obj.Name() == eof.Name() {
								return true
							}
						}
						return false
					}}
			}, hooks)
		})
	}
	residuals := loadResiduals(c, r)
	var runs []*e3Run
	runs = append(runs, sr.runs...)
	if xr != nil {
		runs = append(runs, xr.runs...)
	}
	obs := mergeObs(runs)
	own := map[string]bool{"S-lo": true, "S-mono": true, "S-end": true, "R-lo": true, "R-mono": true, "P-rank": true, "R-depth": true, "P-step": true, "S-self": true}
	n := emitObs(r, obs, residuals, "C09", func(o *absint.Ob) bool { return own[o.Rule] })
	noteUnusedResiduals(r, residuals, "C09")
	if n < 150 {
		r.Fail("vacuity", "-", "scan-cost obligations", "-", fmt.Sprintf("only %d obligations generated (expected ≥ 150)", n))
	}
	// ---- L1: a constant number of passes
	passesRule(p, r, a.Fn("sql.check"), a.Fn("sql.pass"), "SQL parsing passes")
	passesRule(p, r, a.Fn("sql.pass"), a.Fn("sql.fold"), "folding per pass")
	passesRule(p, r, a.Fn("xss.root"), a.Fn("xss.ctx"), "HTML contexts")
	passesRule(p, r, a.Fn("sql.root"), a.Fn("sql.check"), "SQL detection per call")
	// ---- L3: whole-input work outside the scan steps happens outside loops
	wholeInputRule(c, r, env, lc)
	// the static loop classification, for the record
	full, early := 0, 0
	var fulls []string
	for _, fn := range p.SourceFuncs(nil) {
		for _, l := range lc.of(fn) {
			if l.HasContentExit() {
				early++
			} else {
				full++
				fulls = append(fulls, fmt.Sprintf("%s b%d", core.QualName(fn), l.Head.Index))
			}
		}
	}
	sort.Strings(fulls)
	r.Extra["loops"] = map[string]interface{}{"with_content_exit": early, "full_range": full, "full_range_loops": fulls}
	r.Extra["roots"] = append(sr.describe(), func() []string {
		if xr != nil {
			return xr.describe()
		}
		return nil
	}()...)
	r.Explanation = e3Explain + " C09 decides a structural necessary condition of linear time, not time. Every SQL lexer and every HTML state function is a scan step analysed from an arbitrary cursor; for every input at once: S-lo / R-lo — nothing before the step's cursor is searched or read (one byte of look-behind); S-mono — a search executed repeatedly within a step continues at or behind its previous hit; R-mono — a loop without content-dependent exit (it always runs over its whole range; classified statically from the loop's exit conditions) never re-reads what an earlier execution in the same step already read; S-end — what a search covered is consumed by the step (hit ≤ returned cursor + 8), and a search that ran to the end of the input is paid for by consuming to the end or by ending the tokenizing; P-step / P-rank — every step consumes ≥ 1 byte and every loop has a linear ranking function; R-depth — no unbounded recursion. L1: the passes (≤ 5 SQL contexts via the pass function, folding once per pass, 5 HTML contexts) are called outside any loop. L3: outside the scan steps, every search or full-range loop over input-derived text is outside loops or over a window bounded by a constant or by the current token. NOT decided: wall-clock time; content-terminated scans (loops with an early exit, e.g. the backward backslash count, character-class spans) are bounded only by R-lo (a look-ahead that is read but not consumed is not detected); the cost of library calls is taken as linear in their argument."
	r.Trusted = []string{"go/ssa", "E3 transfer functions and library models", "in-checker simplex", "loop classification by exit conditions (ssax.Loops)"}
	return r
}

// passesRule: every call chain from fn to callee (directly, or through helper
// functions up to three levels deep) goes through call sites outside loops —
// or inside a loop over a constant list of at most 8 entries — and the number
// of chains is at most 8: a constant number of passes.
func passesRule(p *core.Program, r *core.Result, fn, callee *ssa.Function, what string) {
	if fn == nil || callee == nil {
		return
	}
	// a function with loops: count the passes on every path, with helpers expanded and
	// loops over constant tables unrolled (the exit tests must be decided by constants)
	if len(ssax.Loops(fn)) > 0 {
		inline := func(h *ssa.Function, depth int) bool {
			return p.InModule(h) && h != callee && depth <= 3 && len(h.Blocks) <= 60 && reachesFrom(p, h, callee)
		}
		if traces, err := ssax.EnumerateTracesWith(fn, inline, 2000, traceConsts(p)); err == nil && len(traces) > 0 {
			max := 0
			for _, tr := range traces {
				n := 0
				for _, it := range tr.Items {
					if it.Call != nil && it.Call.Common().StaticCallee() == callee {
						n++
					}
				}
				if n > max {
					max = n
				}
			}
			if max >= 1 && max <= 8 {
				r.OK("L1", core.QualName(fn), fmt.Sprintf("%s: at most %d call(s) of %s on any of the %d paths (loops over constant tables unrolled)", what, max, callee.Name(), len(traces)), p.Pos(fn.Pos()), "constant number of passes")
				return
			}
		}
	}
	total := 0
	var walk func(g *ssa.Function, depth int, mult int, via string)
	walk = func(g *ssa.Function, depth int, mult int, via string) {
		loops := ssax.Loops(g)
		for _, b := range g.Blocks {
			for _, ins := range b.Instrs {
				call, ok := ins.(ssa.CallInstruction)
				if !ok {
					continue
				}
				h := call.Common().StaticCallee()
				if h == nil || !p.InModule(h) {
					continue
				}
				direct := h == callee
				if !direct && (depth >= 3 || h == g || !reachesFrom(p, h, callee)) {
					continue
				}
				m := mult
				expr := fmt.Sprintf("%s: call of %s%s is not inside a loop", what, h.Name(), via)
				if l := ssax.InnermostLoop(loops, b); l != nil {
					// a loop over a short constant list of pass parameters is a constant number of passes
					bounded := 0
					for _, arg := range call.Common().Args {
						if base, _, ok := listElem(arg); ok {
							if vals, why := constIntList(base); why == "" && len(vals) <= 8 && len(l.Exits) <= 2 {
								bounded = len(vals)
							}
						}
					}
					if bounded == 0 {
						r.Fail("L1", core.QualName(g), expr, p.Pos(ins.Pos()), "the pass is started from inside a loop: the number of passes over the input is not a constant")
						continue
					}
					m *= bounded
					r.OK("L1", core.QualName(g), expr+fmt.Sprintf(" (loop over a constant list of %d entries)", bounded), p.Pos(ins.Pos()), "constant trip count")
				} else {
					r.OK("L1", core.QualName(g), expr, p.Pos(ins.Pos()), "straight-line call site")
				}
				if direct {
					total += m
				} else {
					walk(h, depth+1, m, via+" via "+h.Name())
				}
			}
		}
	}
	walk(fn, 0, 1, "")
	if total == 0 {
		r.Fail("L1", core.QualName(fn), what+": call sites located", p.Pos(fn.Pos()), callee.Name()+" is not reached from "+fn.Name()+" through at most three helpers: the pass structure is undecided")
	} else if total > 8 {
		r.Fail("L1", core.QualName(fn), what+": at most 8 passes", p.Pos(fn.Pos()), fmt.Sprintf("%d call chains", total))
	} else {
		r.OK("L1", core.QualName(fn), fmt.Sprintf("%s: %d call chain(s), all outside loops", what, total), p.Pos(fn.Pos()), "")
	}
}

// wholeInputRule (L3): in the functions that are not scan steps, calls to
// full-scan library primitives on strings are outside loops, or their argument
// is a bounded window.  Decided syntactically per call site: the call is not
// inside a loop of its function, or its string argument is a token value
// (field of the token type, ≤ 31 bytes by the token invariant), a fixed-length
// slice, or a constant.
func wholeInputRule(c *Ctx, r *core.Result, env *e3Env, lc *loopClass) {
	p := c.P
	a := env.a
	prims := map[string]bool{"strings.Index": true, "strings.IndexByte": true, "strings.Contains": true, "strings.ReplaceAll": true, "strings.ToUpper": true, "strings.ToLower": true, "strings.Count": true, "strings.LastIndex": true, "strings.LastIndexByte": true, "strings.TrimLeftFunc": true, "strings.IndexAny": true, "strings.ContainsAny": true, "strings.EqualFold": true, "strings.HasPrefix": true, "strings.HasSuffix": true, "strings.TrimSpace": true, "strings.Fields": true, "strings.Split": true, "strings.Map": true, "strings.Repeat": true, "strings.Replace": true, "bytes.IndexByte": true, "bytes.Index": true}
	steps := map[*ssa.Function]bool{}
	if env.disp != nil {
		for _, f := range env.disp.Table {
			if f != nil {
				for g := range p.ReachOf(f) {
					steps[g] = true
				}
			}
		}
	}
	if g := buildStateGraphQuiet(p, a); g != nil {
		for fn := range g.Nodes {
			for h := range p.ReachOf(fn) {
				steps[h] = true
			}
		}
	}
	boundedByTable = func(v ssa.Value) bool {
		col, ok := tables.ColumnValues(p, v)
		if !ok || len(col) == 0 {
			return false
		}
		for _, cv := range col {
			if _, isInt := cv.(int64); !isInt {
				return false
			}
		}
		return true
	}
	tokT := a.TypeName("sql.token")
	tokFields = [2]string{a.Fields["xss.state.tokenStart"], a.Fields["xss.state.tokenLen"]}
	n := 0
	reach := map[*ssa.Function]bool{}
	for k := range p.ReachFrom["IsSQLi"] {
		reach[k] = true
	}
	for k := range p.ReachFrom["IsXSS"] {
		reach[k] = true
	}
	for _, fn := range p.SourceFuncs(reach) {
		if steps[fn] {
			continue
		}
		loops := lc.of(fn)
		for _, b := range fn.Blocks {
			for _, ins := range b.Instrs {
				call, ok := ins.(*ssa.Call)
				if !ok {
					continue
				}
				cal := call.Call.StaticCallee()
				if cal == nil || !prims[cal.String()] {
					continue
				}
				n++
				expr := "library scan outside the scan steps is outside loops or over a bounded window: " + core.Short(ssax.Canon(call))
				if ssax.InnermostLoop(loops, b) == nil {
					r.OK("L3", core.QualName(fn), expr, p.Pos(call.Pos()), "not inside a loop of "+fn.Name())
					continue
				}
				// loops that count over a constant table repeat the scan a constant number of times
				allConst := true
				for _, l := range ssax.EnclosingLoops(loops, b) {
					if !l.ConstTrip() {
						allConst = false
					}
				}
				if allConst {
					r.OK("L3", core.QualName(fn), expr, p.Pos(call.Pos()), "inside loops over constant tables only (constant trip count)")
					continue
				}
				bounded := true
				for _, arg := range call.Call.Args {
					if isStringType(arg.Type()) && !boundedText(arg, tokT, 0) {
						bounded = false
					}
				}
				if bounded {
					r.OK("L3", core.QualName(fn), expr, p.Pos(call.Pos()), "every text argument is a constant, a token value or a fixed-length slice")
				} else {
					r.Fail("L3", core.QualName(fn), expr, p.Pos(call.Pos()), "a library scan over text of unbounded length is executed inside a loop outside the scan steps: cost per iteration is not bounded by a constant")
				}
			}
		}
	}
	if n < 5 {
		r.Fail("vacuity", "-", "library scans outside the scan steps", "-", fmt.Sprintf("only %d found", n))
	}
}

var tokFields [2]string

// boundedText: v is a constant, a token value field, a slice with constant
// bounds, or a library transformation of such.
// boundedByTable: v is an integer read from a constant table (set per check run).
var boundedByTable func(v ssa.Value) bool

func boundedText(v ssa.Value, tokT string, depth int) bool {
	if depth > 8 {
		return false
	}
	switch x := v.(type) {
	case *ssa.Const:
		return true
	case *ssa.Slice:
		if x.High != nil {
			if _, ok := ssax.ConstInt(x.High); ok {
				return true
			}
			// a window whose end is an entry of a constant table
			if boundedByTable != nil && boundedByTable(x.High) {
				return true
			}
			// the current HTML token: tokenStart[:tokenLen] of one tokenizer object
			if hs, ok := x.High.(*ssa.UnOp); ok {
				if xs, ok := x.X.(*ssa.UnOp); ok {
					hf, okh := ssax.AsFieldAddr(hs.X)
					xf, okx := ssax.AsFieldAddr(xs.X)
					// (fields of an embedded struct count as fields of the object)
					if okh && okx && xf.Base == hf.Base && x.Low == nil && xf.Field == tokFields[0] && hf.Field == tokFields[1] {
						return true
					}
				}
			}
		}
		return boundedText(x.X, tokT, depth+1)
	case *ssa.UnOp:
		if fa, ok := x.X.(*ssa.FieldAddr); ok {
			if isPtrTo(fa.X.Type(), tokT) {
				return true
			}
		}
		// an entry of a package-level table: its length is a constant of the program
		// (package-level state is not written after initialisation — C05's rule)
		if isStringType(x.Type()) && rootsAtGlobal(x.X, 0) {
			return true
		}
		return false
	case *ssa.Call:
		if cal := x.Call.StaticCallee(); cal != nil && strings.HasPrefix(cal.String(), "strings.") {
			for _, a := range x.Call.Args {
				if isStringType(a.Type()) && !boundedText(a, tokT, depth+1) {
					return false
				}
			}
			return true
		}
	case *ssa.Phi:
		for _, e := range x.Edges {
			if !boundedText(e, tokT, depth+1) {
				return false
			}
		}
		return true
	case *ssa.BinOp:
		return boundedText(x.X, tokT, depth+1) && boundedText(x.Y, tokT, depth+1)
	case *ssa.Convert:
		return boundedText(x.X, tokT, depth+1)
	}
	return false
}

func buildStateGraphQuiet(p *core.Program, a *Anchors) *stateGraph {
	return buildStateGraph(p, a, core.NewResult("-", "other"))
}

// rootsAtGlobal: the address is an element / field path inside a package-level variable.
func rootsAtGlobal(addr ssa.Value, depth int) bool {
	if depth > 6 {
		return false
	}
	switch x := addr.(type) {
	case *ssa.Global:
		return true
	case *ssa.IndexAddr:
		return rootsAtGlobal(x.X, depth+1)
	case *ssa.FieldAddr:
		return rootsAtGlobal(x.X, depth+1)
	case *ssa.UnOp:
		// a slice or pointer stored in the table
		return x.Op.String() == "*" && rootsAtGlobal(x.X, depth+1)
	}
	return false
}
