package checks

import (
	"encoding/json"
	"fmt"
	"go/types"
	"os"
	"path/filepath"

	"golang.org/x/tools/go/ssa"

	"verif/tools/internal/core"
	"verif/tools/internal/ssax"
)

// Anchors maps roles to the identifiers of the current tree.
type Anchors struct {
	Funcs  map[string]string `json:"funcs"`
	Types  map[string]string `json:"types"`
	Fields map[string]string `json:"fields"`
	Consts map[string]string `json:"consts"`

	p      *core.Program
	r      *core.Result
	failed map[string]bool
}

func loadAnchors(c *Ctx, r *core.Result) *Anchors {
	a := &Anchors{p: c.P, r: r, failed: map[string]bool{}}
	b, err := os.ReadFile(filepath.Join(c.VerifDir, "config", "anchors.json"))
	if err != nil {
		anchorFail(r, "config/anchors.json", err.Error())
		return a
	}
	if err := json.Unmarshal(b, a); err != nil {
		anchorFail(r, "config/anchors.json", err.Error())
	}
	a.detectRenames(c.VerifDir)
	return a
}

func (a *Anchors) fail(role, detail string) {
	if !a.failed[role] {
		a.failed[role] = true
		anchorFail(a.r, role, detail)
	}
}

// Fn resolves a function role: by name, else by role inference.
func (a *Anchors) Fn(role string) *ssa.Function {
	if name, ok := a.Funcs[role]; ok {
		if fn := a.p.FuncByQualName(name); fn != nil {
			return fn
		}
	}
	if fn := a.inferFn(role); fn != nil {
		return fn
	}
	a.fail(role, fmt.Sprintf("function %q not found and no role inference succeeded", a.Funcs[role]))
	return nil
}

// FnOpt resolves a role without failing the check when absent.
func (a *Anchors) FnOpt(role string) *ssa.Function {
	if name, ok := a.Funcs[role]; ok {
		if fn := a.p.FuncByQualName(name); fn != nil {
			return fn
		}
	}
	return a.inferFn(role)
}

// inferFn implements the role fallbacks (used when a function was renamed).
func (a *Anchors) inferFn(role string) *ssa.Function {
	p := a.p
	switch role {
	case "sql.check":
		// the bool-returning callee of IsSQLi whose result is returned
		root := p.Func("IsSQLi")
		if root == nil {
			return nil
		}
		for _, ci := range ssax.Calls(root) {
			if f := ci.Common().StaticCallee(); f != nil && p.InModule(f) && f.Signature.Results().Len() == 1 {
				if b, ok := f.Signature.Results().At(0).Type().Underlying().(*types.Basic); ok && b.Kind() == types.Bool {
					return f
				}
			}
		}
	case "sql.pass":
		// the function called ≥3 times from check with a constant int argument
		chk := a.FnOpt("sql.check")
		if chk == nil {
			return nil
		}
		count := map[*ssa.Function]int{}
		for _, ci := range ssax.Calls(chk) {
			f := ci.Common().StaticCallee()
			if f == nil || !p.InModule(f) {
				continue
			}
			for _, arg := range ci.Common().Args {
				if _, ok := ssax.ConstInt(arg); ok {
					count[f]++
				}
			}
		}
		var best *ssa.Function
		for f, n := range count {
			if n >= 3 && f.Signature.Results().Len() == 1 {
				if b, ok := f.Signature.Results().At(0).Type().Underlying().(*types.Basic); ok && b.Kind() == types.String {
					best = f
				}
			}
		}
		return best
	case "xss.urlMatch":
		// the (string, string) → bool callee of the URL predicate
		pred := a.FnOpt("xss.isBlackURL")
		if pred == nil {
			return nil
		}
		for _, ci := range ssax.Calls(pred) {
			if f := ci.Common().StaticCallee(); f != nil && p.InModule(f) && f.Signature.Params().Len() == 2 && f.Signature.Results().Len() == 1 {
				if b, ok := f.Signature.Results().At(0).Type().Underlying().(*types.Basic); ok && b.Kind() == types.Bool {
					return f
				}
			}
		}
	case "xss.decode":
		// the string → (int, int) callee of the matcher
		m := a.FnOpt("xss.urlMatch")
		if m == nil {
			return nil
		}
		for _, ci := range ssax.Calls(m) {
			if f := ci.Common().StaticCallee(); f != nil && p.InModule(f) && f.Signature.Params().Len() == 1 && f.Signature.Results().Len() == 2 {
				return f
			}
		}
	case "sql.searchKeyword":
		// the callee of the word look-up that takes the word and answers with a class byte
		lk := a.FnOpt("sql.lookup")
		if lk == nil {
			return nil
		}
		var found []*ssa.Function
		for _, ci := range ssax.Calls(lk) {
			f := ci.Common().StaticCallee()
			if f == nil || !p.InModule(f) || f.Signature.Results().Len() != 1 {
				continue
			}
			b, ok := f.Signature.Results().At(0).Type().Underlying().(*types.Basic)
			if !ok || b.Kind() != types.Uint8 {
				continue
			}
			hasStr := false
			for _, arg := range ci.Common().Args {
				if bt, ok := arg.Type().Underlying().(*types.Basic); ok && bt.Kind() == types.String {
					hasStr = true
				}
			}
			if hasStr {
				dup := false
				for _, g := range found {
					if g == f {
						dup = true
					}
				}
				if !dup {
					found = append(found, f)
				}
			}
		}
		if len(found) == 1 {
			return found[0]
		}
	case "sql.eolComment":
		// the only module function that searches for a line feed with IndexByte
		var found []*ssa.Function
		for _, fn := range p.SourceFuncs(nil) {
			for _, ci := range ssax.Calls(fn) {
				if f := ci.Common().StaticCallee(); f != nil && f.String() == "strings.IndexByte" && len(ci.Common().Args) == 2 {
					if k, ok := ssax.ConstInt(ci.Common().Args[1]); ok && k == '\n' {
						found = append(found, fn)
					}
				}
			}
		}
		if len(found) == 1 {
			return found[0]
		}
	case "xss.ctx":
		root := p.Func("IsXSS")
		if root == nil {
			return nil
		}
		for _, ci := range ssax.Calls(root) {
			if f := ci.Common().StaticCallee(); f != nil && p.InModule(f) {
				return f
			}
		}
	}
	return nil
}

// Const resolves an integer constant role.
func (a *Anchors) Const(role string) int64 {
	name := a.Consts[role]
	if v, ok := a.p.ConstInt(name); ok {
		return v
	}
	a.fail(role, fmt.Sprintf("constant %q not found", name))
	return -1 << 40
}

// Field returns the field name for a role after checking it exists.
func (a *Anchors) Field(role string) string {
	name := a.Fields[role]
	tyRole := "sql.state"
	switch {
	case len(role) > 9 && role[:9] == "sql.token":
		tyRole = "sql.token"
	case len(role) > 9 && role[:9] == "xss.state":
		tyRole = "xss.state"
	}
	st := a.Struct(tyRole)
	if st != nil && hasFieldDeep(st, name, 0) {
		return name
	}
	a.fail(role, fmt.Sprintf("field %q not found in %s", name, a.Types[tyRole]))
	return name
}

// Struct resolves a struct type role.
func (a *Anchors) Struct(role string) *types.Struct {
	name := a.Types[role]
	if obj := a.p.Types.Scope().Lookup(name); obj != nil {
		if st, ok := obj.Type().Underlying().(*types.Struct); ok {
			return st
		}
	}
	a.fail(role, fmt.Sprintf("struct type %q not found", name))
	return nil
}

// TypeName returns the identifier for a type role.
func (a *Anchors) TypeName(role string) string { return a.Types[role] }

// isField: does v (an address) denote field `role` of its struct?
func (a *Anchors) isField(v ssa.Value, role string) bool {
	fr, ok := ssax.AsFieldAddr(v)
	if !ok {
		return false
	}
	want := a.Fields[role]
	tyRole := "sql.state"
	switch {
	case len(role) > 9 && role[:9] == "sql.token":
		tyRole = "sql.token"
	case len(role) > 9 && role[:9] == "xss.state":
		tyRole = "xss.state"
	}
	return fr.Field == want && fr.Struct == a.Types[tyRole]
}

// loadsField: v is a load of field `role`.
func (a *Anchors) loadsField(v ssa.Value, role string) bool {
	u, ok := v.(*ssa.UnOp)
	if !ok || u.Op.String() != "*" {
		return false
	}
	return a.isField(u.X, role)
}

// hasFieldDeep: the struct has the field, directly or promoted from an embedded struct.
func hasFieldDeep(st *types.Struct, name string, depth int) bool {
	for i := 0; i < st.NumFields(); i++ {
		f := st.Field(i)
		if f.Name() == name {
			return true
		}
		if f.Embedded() && depth < 3 {
			t := f.Type()
			if p, ok := t.Underlying().(*types.Pointer); ok {
				t = p.Elem()
			}
			if es, ok := t.Underlying().(*types.Struct); ok && hasFieldDeep(es, name, depth+1) {
				return true
			}
		}
	}
	return false
}
