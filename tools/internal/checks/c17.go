package checks

import (
	"fmt"
	"go/types"
	"sort"
	"strings"

	"golang.org/x/tools/go/ssa"

	"verif/tools/internal/absint"
	"verif/tools/internal/core"
	"verif/tools/internal/ssax"
)

func init() { register("C17", "other", checkC17) }

var ghostScan = absint.ObjPtr("GHOST:scan", nil)

// c17Hooks adds the HTML token-order and terminator obligations to the state roots.
//
//	T-order   the emitted token starts at or after the end of the previous one
//	          (prevEnd is a ghost with Houdini-inferred entry facts per state)
//	O-first   the first search of a construct starts where its token starts
//	O-resume  a rejected candidate is passed by exactly one byte: the next search
//	          of the same call starts at candidate + 1 (nothing is skipped)
//	O-end     the token ends exactly at the accepted terminator, or runs to the
//	          end of the input
//	O-eof     running to the end although a candidate was found needs proof that
//	          fewer bytes remain than the shortest accepted terminator
//	O-next    after an accepted terminator the cursor is behind its first byte
//	O-match   a quoted value is closed by the byte that opened it (where the
//	          opener is known on the path)
func c17Hooks(xr *xssRoots, name string, hooks *absint.Hooks) {
	if !strings.HasPrefix(name, "state:") {
		return
	}
	prevRet, prevStore := hooks.OnReturn, hooks.OnStore
	lenFld := xr.field("xss.state.tokenLen")
	// what a helper does (h.find(c), h.emit(type, n)) belongs to the state function that called it
	ownerOf := func(fr *absint.Frame) *absint.Frame {
		owner := fr
		for owner.Caller() != nil && xr.g.Nodes[owner.Fn()] == nil {
			owner = owner.Caller()
		}
		return owner
	}
	hooks.OnStore = func(e *absint.Engine, st *absint.State, fr *absint.Frame, store *ssa.Store, p absint.PtrV, v absint.AVal) {
		if prevStore != nil {
			prevStore(e, st, fr, store, p, v)
		}
		if fa, ok := store.Addr.(*ssa.FieldAddr); ok && fieldName(fa) == xr.field("xss.state.state") {
			e.SetCell(st, ghostScan, "stateFrame", absint.IntV{L: absint.K(int64(ownerOf(fr).ID()))})
		}
		if fa, ok := store.Addr.(*ssa.FieldAddr); ok && fieldName(fa) == lenFld {
			e.SetCell(st, ghostScan, "lenFrame", absint.IntV{L: absint.K(int64(ownerOf(fr).ID()))})
		}
	}
	hooks.OnSearch = func(e *absint.Engine, st *absint.State, fr *absint.Frame, call *ssa.Call, prev *absint.Hit, cur absint.Hit) {
		rc := xr.getCtx(name)
		if rc == nil || cur.Hay.Const != nil || cur.Hay.Root != rc.In.Root {
			return
		}
		lo := cur.Hay.Lo.Sub(rc.In.Lo)
		org := int64(call.Pos())
		searchFr := fr
		fr = ownerOf(fr)
		sameFrame := false
		if fc, ok := e.CellOf(st, ghostScan, "frame"); ok {
			if f, isC := absint.ConstOf(fc); isC && f == int64(fr.ID()) {
				sameFrame = true
			}
		}
		e.SetCell(st, ghostScan, "org", absint.IntV{L: absint.K(org)})
		e.SetCell(st, ghostScan, "frame", absint.IntV{L: absint.K(int64(fr.ID()))})
		// a needle that is not a constant on this path (the quote parameter of the value lexer);
		// a helper's parameter bound to a constant — h.find('>') — is a constant needle
		varNeedle := int64(0)
		if len(call.Call.Args) > 1 {
			if _, isConst := call.Call.Args[1].(*ssa.Const); !isConst {
				varNeedle = 1
				if bv, isB := e.Val(st, searchFr, call.Call.Args[1]).(absint.ByteV); isB && bv.Root < 0 {
					varNeedle = 0
				}
			}
		}
		e.SetCell(st, ghostScan, "var", absint.IntV{L: absint.K(varNeedle)})
		// the last input byte examined so far for this construct: the candidate itself
		e.SetCell(st, ghostScan, "lastRead", absint.IntV{L: lo.Add(absint.SymLin(cur.R))})
		if prev == nil || !sameFrame {
			// (an earlier result of the same call made by another activation is not a rejected candidate)
			e.SetCell(st, ghostScan, "first", absint.IntV{L: lo})
			return
		}
		pr := absint.SymLin(prev.R)
		prevPos := prev.Hay.Lo.Sub(rc.In.Lo).Add(pr)
		ok := e.ProveLE(st, absint.K(0), pr) && e.ProveEQ(st, lo, prevPos.AddK(1))
		e.Check(st, fr, call.Pos(), "O-resume", "the search resumes one byte after the rejected candidate", ok, fmt.Sprintf("after a rejected candidate at %s the next search starts at %s, not at candidate + 1: a terminator in between is skipped, or the same candidate is found again", e.LinStr(prevPos), e.LinStr(lo)))
	}
	hooks.OnRead = func(e *absint.Engine, st *absint.State, fr *absint.Frame, at ssa.Instruction, sv absint.StrV, idx absint.Lin) {
		rc := xr.getCtx(name)
		if rc == nil || sv.Root != rc.In.Root {
			return
		}
		if fc, ok := e.CellOf(st, ghostScan, "frame"); ok {
			if f, isC := absint.ConstOf(fc); isC && f == int64(ownerOf(fr).ID()) {
				e.SetCell(st, ghostScan, "lastRead", absint.IntV{L: sv.Lo.Sub(rc.In.Lo).Add(idx)})
			}
		}
	}
	hooks.OnReturn = func(e *absint.Engine, st *absint.State, fr *absint.Frame, ret *ssa.Return, val absint.AVal) {
		if prevRet != nil {
			prevRet(e, st, fr, ret, val)
		}
		rc := xr.getCtx(name)
		if rc == nil {
			return
		}
		if b, _ := val.(absint.BoolV); b.Known == 2 {
			// T-report: a step that filled in a non-empty token reports it
			if rc0 := xr.getCtx(name); rc0 != nil && xr.g.Nodes[fr.Fn()] != nil {
				wrote := false
				if lc, ok := e.CellOf(st, ghostScan, "lenFrame"); ok {
					if f, isC := absint.ConstOf(lc); isC && f == int64(fr.ID()) {
						wrote = true
					}
				}
				if wrote {
					empty := false
					if tl, ok := e.CellOf(st, rc0.H, lenFld); ok {
						if tli, isI := tl.(absint.IntV); isI && e.ProveLE(st, tli.L, absint.K(0)) {
							empty = true
						}
					}
					e.Check(st, fr, ret.Pos(), "T-report", "a step that wrote a non-empty token reports it at "+retLabel(ret), empty, "the token fields were written in this step, the token is not provably empty, and the step answers false: the token is dropped")
				}
			}
			return
		}
		where := retLabel(ret)
		handsOver := false
		if len(ret.Results) == 1 {
			if call, isCall := ret.Results[0].(*ssa.Call); isCall {
				if cal := call.Call.StaticCallee(); cal != nil && xr.env.p.InModule(cal) {
					handsOver = true // the state it hands over to is judged at its own returns
				} else if _, isBuiltin := call.Call.Value.(*ssa.Builtin); cal == nil && !isBuiltin && !call.Call.IsInvoke() {
					handsOver = true // a state taken from a table of alternatives: `return row.next(h)`
				}
			}
		}
		if !handsOver && xr.g.Nodes[fr.Fn()] != nil {
			// T-next: a step that reports a token has chosen the next state itself
			chose := false
			if sc, ok := e.CellOf(st, ghostScan, "stateFrame"); ok {
				if f, isC := absint.ConstOf(sc); isC && f == int64(fr.ID()) {
					chose = true
				}
			}
			e.Check(st, fr, ret.Pos(), "T-next", "the step that reports a token chooses the next state at "+where, chose, "a token is reported but the state variable was not written in this step: the next step runs whatever state an earlier step chose, at a cursor it was not chosen for")
		}
		H, in := rc.H, rc.In
		ts, ok1 := e.CellOf(st, H, xr.field("xss.state.tokenStart"))
		tl, ok2 := e.CellOf(st, H, lenFld)
		ps, ok3 := e.CellOf(st, H, xr.field("xss.state.pos"))
		tsS, okS := ts.(absint.StrV)
		tlI, okL := tl.(absint.IntV)
		psI, okP := ps.(absint.IntV)
		if !ok1 || !ok2 || !ok3 || !okS || !okL || !okP || tsS.Const != nil || tsS.Root != in.Root {
			return // T-span reports this
		}
		length := absint.StrLenOf(in)
		tokOff := tsS.Lo.Sub(in.Lo)
		tokEnd := tokOff.Add(tlI.L)
		if fr.Depth() == 0 {
			e.Check(st, fr, ret.Pos(), "T-order", "token starts at or after the end of the previous token at "+where, e.ProveLE(st, rc.PrevEnd, tokOff), fmt.Sprintf("token offset %s may lie before the end of the previously emitted token: tokens overlap or run backwards", e.LinStr(tokOff)))
		}
		// terminator rules: at the returns of the activation that searched — not where it hands over to another state
		if len(ret.Results) == 1 {
			if call, isCall := ret.Results[0].(*ssa.Call); isCall {
				if cal := call.Call.StaticCallee(); cal != nil && xr.env.p.InModule(cal) {
					return
				}
			}
		}
		orgC, okO := e.CellOf(st, ghostScan, "org")
		frC, okF := e.CellOf(st, ghostScan, "frame")
		lfC, okLF := e.CellOf(st, ghostScan, "lenFrame")
		if !okO || !okF || !okLF {
			return
		}
		org, isC1 := absint.ConstOf(orgC)
		sf, isC2 := absint.ConstOf(frC)
		lf, isC3 := absint.ConstOf(lfC)
		if isC2 && sf != int64(fr.ID()) {
			return
		}
		if !isC1 || !isC2 || !isC3 {
			e.Check(st, fr, ret.Pos(), "O-end", "token end is tied to one search at "+where, false, "paths with different terminator searches were merged: undecided")
			return
		}
		if sf != lf {
			return // the token was produced by a state that did not search (e.g. after an empty text run)
		}
		var hit *absint.Hit
		for _, h := range e.Hits(st) {
			h := h
			if h.Org != nil && int64(h.Org.Pos()) == org && h.Hay.Const == nil && h.Hay.Root == in.Root {
				hit = &h
			}
		}
		if hit == nil {
			e.Check(st, fr, ret.Pos(), "O-end", "token end is tied to one search at "+where, false, "the result of the terminator search is not available at the return: undecided")
			return
		}
		r := absint.SymLin(hit.R)
		hpos := hit.Hay.Lo.Sub(in.Lo).Add(r)
		first, okFi := e.CellOf(st, ghostScan, "first")
		if fi, isI := first.(absint.IntV); okFi && isI {
			e.Check(st, fr, ret.Pos(), "O-first", "the first search starts where the token starts at "+where, e.ProveEQ(st, fi.L, tokOff), fmt.Sprintf("the terminator search starts at %s but the token at %s: an early terminator is skipped, or the opener is scanned", e.LinStr(fi.L), e.LinStr(tokOff)))
		}
		found := e.ProveLE(st, absint.K(0), r)
		switch {
		case found && e.ProveEQ(st, tokEnd, hpos):
			e.Check(st, fr, ret.Pos(), "O-end", "token ends at the accepted terminator or at end of input at "+where, true, "")
			e.Check(st, fr, ret.Pos(), "O-next", "the cursor is behind the accepted terminator at "+where, e.ProveLE(st, hpos.AddK(1), psI.L), fmt.Sprintf("terminator at %s but the cursor becomes %s: the terminator would be tokenized again", e.LinStr(hpos), e.LinStr(psI.L)))
			if lr, ok := e.CellOf(st, ghostScan, "lastRead"); ok {
				if lri, isI := lr.(absint.IntV); isI {
					e.Check(st, fr, ret.Pos(), "O-next", "tokenizing resumes right after the last terminator byte examined at "+where, e.ProveEQ(st, psI.L, lri.L.AddK(1)), fmt.Sprintf("the last input byte examined for the terminator is at %s but the cursor becomes %s: scanning resumes inside the terminator, or skips bytes behind it", e.LinStr(lri.L), e.LinStr(psI.L)))
				}
			}
			if e.Logging() {
				c := 0
				for k := 1; k <= 4; k++ {
					if e.ProveLE(st, hpos.AddK(int64(k)), psI.L) {
						c = k
					}
				}
				xr.noteAccepted(fr.Fn(), hit.Org, c)
			}
			// O-match: the opener, where known, is the byte searched for
			vc, _ := e.CellOf(st, ghostScan, "var")
			if v, isC := absint.ConstOf(vc); vc != nil && isC && v == 1 && !hit.Mask.IsFull() && e.ProveLE(st, absint.K(1), tokOff) {
				om := e.MaskOf(st, absint.ByteV{Root: in.Root, Idx: in.Lo.Add(tokOff).AddK(-1)})
				if !om.IsFull() {
					e.Check(st, fr, ret.Pos(), "O-match", "the value is closed by the byte that opened it at "+where, om.SubsetOf(hit.Mask), "the byte before the value (the opening quote) is not the byte the terminator search looks for")
				}
			}
		case e.ProveEQ(st, tokEnd, length):
			e.Check(st, fr, ret.Pos(), "O-end", "token ends at the accepted terminator or at end of input at "+where, true, "")
			if !e.ProveLE(st, r, absint.K(-1)) {
				c := xr.minTerminator(fr.Fn(), hit.Org)
				ok := e.ProveLE(st, length.AddK(1), hpos.AddK(int64(c)))
				if !ok {
					// or: the bytes behind the candidate were examined up to the very end of the input
					if lr, has := e.CellOf(st, ghostScan, "lastRead"); has {
						if lri, isI := lr.(absint.IntV); isI {
							ok = e.ProveLE(st, length, lri.L.AddK(1)) && e.ProveLE(st, hpos, lri.L)
						}
					}
				}
				e.Check(st, fr, ret.Pos(), "O-eof", "a found candidate is given up only when no terminator fits behind it at "+where, ok, fmt.Sprintf("the token runs to the end of the input although a candidate terminator may have been found at %s and it is shown neither that fewer than %d bytes (the shortest accepted terminator) remain nor that the bytes behind the candidate were examined up to the end of the input", e.LinStr(hpos), c))
			}
		default:
			e.Check(st, fr, ret.Pos(), "O-end", "token ends at the accepted terminator or at end of input at "+where, false, fmt.Sprintf("token end %s is neither the position of the terminator found (%s) nor the end of the input: length measured from the wrong base?", e.LinStr(tokEnd), e.LinStr(hpos)))
		}
	}
}

func fieldName(fa *ssa.FieldAddr) string {
	t := fa.X.Type()
	if p, ok := t.Underlying().(*types.Pointer); ok {
		t = p.Elem()
	}
	if st, ok := t.Underlying().(*types.Struct); ok && fa.Field < st.NumFields() {
		return st.Field(fa.Field).Name()
	}
	return ""
}

func checkC17(c *Ctx) *core.Result {
	r := c.newResult()
	env := newE3Env(c, r)
	if len(r.Violations) > 0 {
		return r
	}
	g := buildStateGraph(c.P, env.a, r)
	if g == nil {
		return r
	}
	xr := &xssRoots{env: env, g: g, peel: true}
	xr.runAll(func(name string, hooks *absint.Hooks) { c17Hooks(xr, name, hooks) })
	residuals := loadResiduals(c, r)
	obs := mergeObs(xr.runs)
	own := map[string]bool{"T-next": true, "T-report": true, "T-span": true, "T-order": true, "O-first": true, "O-resume": true, "O-end": true, "O-eof": true, "O-next": true, "O-match": true, "I-post": true}
	n := emitObs(r, obs, residuals, "C17", func(o *absint.Ob) bool {
		return own[o.Rule] && strings.HasPrefix(o.Fn, env.a.TypeName("xss.state")+".")
	})
	noteUnusedResiduals(r, residuals, "C17")
	if n < 100 {
		r.Fail("vacuity", "-", "HTML token obligations", "-", fmt.Sprintf("only %d obligations generated (expected ≥ 100)", n))
	}
	// the quoted start contexts: own quote byte, nothing consumed before the search at pos 0
	quotedValueRules(c.P, env.a, g, r, "T-quote", "T-skip")
	// every forward search on the input inside a state function must have been judged
	searches := 0
	for fn := range g.Nodes {
		for _, b := range fn.Blocks {
			for _, ins := range b.Instrs {
				call, ok := ins.(*ssa.Call)
				if !ok {
					continue
				}
				cal := call.Call.StaticCallee()
				if !searchesInput(c.P, g, cal, 0) {
					continue
				}
				searches++
				judged := false
				for _, o := range obs {
					if o.Rule == "O-end" && o.Fn == core.QualName(fn) {
						judged = true
					}
				}
				if judged {
					r.OK("vacuity", core.QualName(fn), "terminator search judged: "+core.Short(call.String()), c.P.Pos(call.Pos()), "O-end obligations present for this state")
				} else {
					r.Fail("vacuity", core.QualName(fn), "terminator search judged: "+core.Short(call.String()), c.P.Pos(call.Pos()), "a state function searches the input but produced no O-end obligation: the terminator rules would pass vacuously")
				}
			}
		}
	}
	if searches < 5 {
		r.Fail("vacuity", "-", "terminator searches", "-", fmt.Sprintf("only %d forward searches found in the state functions (7 on the pinned tree)", searches))
	}
	// T-count: steps that emit without moving the cursor must not form a cycle
	tcount(xr, r, c)
	r.Extra["roots"] = xr.describe()
	r.Explanation = e3Explain + " C17 analyses every HTML state function as a root from an arbitrary tokenizer state satisfying the interface invariant plus per-state entry facts inferred Houdini-style over all transitions (pos ≥ 1, pos < len, prevEnd ≤ pos, prevEnd < pos). At every return that reports a token: T-span (token inside the input), T-order (token starts at or after the end of the previous token), and for tokens produced by a terminator search O-first (the first search starts at the token start), O-resume (after a rejected candidate the search resumes at candidate + 1), O-end (the token ends exactly at the accepted terminator, or at end of input), O-eof (giving up a found candidate needs proof that fewer bytes remain than the shortest accepted terminator of that search, or that the bytes behind the candidate were examined up to the end of the input), O-next (cursor behind the terminator), O-match (closing quote = opening quote where known). T-count: the transitions that emit a token without advancing the cursor form an acyclic graph, so the number of tokens is at most (L+1)·(|s|+1) with L the longest such chain. T-next: an activation that reports a token (and does not hand over to another state) wrote the state variable itself; T-report: an activation that wrote the token fields and answers false has a provably empty token. T-quote / T-skip (path rules): each quoted start state hands its own quote byte to the common quoted-value lexer, and that lexer advances the cursor before its terminator search under `pos > 0` only, so the value token of a quoted start context has offset 0 and ends at the first matching quote. NOT decided: the exact |s|+1 constant, the content of multi-byte terminators (which bytes follow the first), the NUL tolerance of comments."
	r.Trusted = []string{"go/ssa", "E3 transfer functions and library models (search results)", "in-checker simplex", "state graph extraction (C13)"}
	return r
}

// tcount checks that zero-progress emitting transitions are acyclic.
func tcount(xr *xssRoots, r *core.Result, c *Ctx) {
	adj := map[*ssa.Function]map[*ssa.Function]string{}
	nTrans := 0
	for _, tr := range xr.trans {
		if !tr.emit {
			continue
		}
		nTrans++
		if tr.adv {
			continue
		}
		if adj[tr.from] == nil {
			adj[tr.from] = map[*ssa.Function]string{}
		}
		if _, ok := adj[tr.from][tr.to]; !ok {
			adj[tr.from][tr.to] = tr.where
		}
	}
	var nodes []*ssa.Function
	for f := range adj {
		nodes = append(nodes, f)
	}
	sort.Slice(nodes, func(i, j int) bool { return nodes[i].Name() < nodes[j].Name() })
	color := map[*ssa.Function]int{}
	depth := map[*ssa.Function]int{}
	var cyc []string
	var dfs func(f *ssa.Function) int
	dfs = func(f *ssa.Function) int {
		color[f] = 1
		best := 0
		var tos []*ssa.Function
		for t := range adj[f] {
			tos = append(tos, t)
		}
		sort.Slice(tos, func(i, j int) bool { return tos[i].Name() < tos[j].Name() })
		for _, t := range tos {
			switch color[t] {
			case 1:
				cyc = append(cyc, fmt.Sprintf("%s → %s (%s)", f.Name(), t.Name(), adj[f][t]))
			case 0:
				if d := dfs(t) + 1; d > best {
					best = d
				}
			default:
				if d := depth[t] + 1; d > best {
					best = d
				}
			}
		}
		color[f] = 2
		depth[f] = best
		return best
	}
	longest := 0
	for _, f := range nodes {
		if color[f] == 0 {
			if d := dfs(f); d > longest {
				longest = d
			}
		}
	}
	for _, f := range nodes {
		var tos []*ssa.Function
		for t := range adj[f] {
			tos = append(tos, t)
		}
		sort.Slice(tos, func(i, j int) bool { return tos[i].Name() < tos[j].Name() })
		for _, t := range tos {
			bad := false
			for _, cy := range cyc {
				if strings.HasPrefix(cy, f.Name()+" → "+t.Name()+" ") {
					bad = true
				}
			}
			expr := fmt.Sprintf("emitting step %s → %s without cursor progress is not on a cycle", f.Name(), t.Name())
			if bad {
				r.Fail("T-count", core.QualName(f), expr, c.P.Pos(f.Pos()), "a cycle of token-emitting steps that never move the cursor: the tokenizer can emit unboundedly many tokens ("+adj[f][t]+")")
			} else {
				r.OK("T-count", core.QualName(f), expr, c.P.Pos(f.Pos()), "acyclic")
			}
		}
	}
	if nTrans < 20 {
		r.Fail("vacuity", "-", "state transitions", "-", fmt.Sprintf("only %d emitting transitions observed", nTrans))
	} else {
		r.OK("T-count", "-", fmt.Sprintf("token count ≤ (L+1)·(|s|+1) with L = %d the longest chain of emitting steps without cursor progress", longest), "-", fmt.Sprintf("%d emitting transitions, %d without proven progress", nTrans, len(adj)))
	}
}

// searchesInput: f is strings.IndexByte / strings.Index, or a thin helper (not a state)
// that calls one of them — h.find(c), indexFrom(s, pos, c).
func searchesInput(p *core.Program, g *stateGraph, f *ssa.Function, depth int) bool {
	if f == nil {
		return false
	}
	if f.String() == "strings.IndexByte" || f.String() == "strings.Index" {
		return true
	}
	if depth >= 2 || !p.InModule(f) || len(f.Blocks) > 12 || g.Nodes[f] != nil {
		return false
	}
	for _, ci := range ssax.Calls(f) {
		if searchesInput(p, g, ci.Common().StaticCallee(), depth+1) {
			return true
		}
	}
	return false
}
