package checks

import (
	"encoding/json"
	"fmt"
	"go/token"
	"go/types"
	"os"
	"path/filepath"
	"sort"
	"strings"
	"verif/tools/internal/absint"

	"golang.org/x/tools/go/ssa"

	"verif/tools/internal/core"
	"verif/tools/internal/ssax"
	"verif/tools/internal/tables"
)

func init() {
	register("C03", "other", checkC03)
	register("C04", "other", checkC04)
}

// importRules copies the obligations of selected rules of another check.
func importRules(r *core.Result, sub *core.Result, prefix string, rules map[string]bool) {
	for _, o := range sub.Obligations {
		if !rules[o.Rule] {
			continue
		}
		switch o.Status {
		case "discharged":
			r.OK(prefix+o.Rule, o.Func, o.Expr, o.Pos, o.Why)
		case "violated":
			r.Fail(prefix+o.Rule, o.Func, o.Expr, o.Pos, o.Why)
		case "exempt":
			r.Exempt(prefix+o.Rule, o.Func, o.Expr, o.Pos, o.Why)
		}
	}
}

func checkC03(c *Ctx) *core.Result {
	p := c.P
	r := c.newResult()
	a := loadAnchors(c, r)
	t, errs := tables.Extract(p)
	for _, e := range errs {
		r.Fail("T1", "-", "table extraction", "-", e.Error())
	}
	if len(r.Violations) > 0 {
		return r
	}
	fpV := byte(classFingerprint)

	// ---- R-fp: calibrated fingerprints are still black-listed
	raw, err := os.ReadFile(filepath.Join(c.VerifDir, "baseline", "required_fingerprints.json"))
	var req struct {
		Fingerprints map[string]struct {
			Example string `json:"example"`
			Count   int    `json:"count"`
		} `json:"fingerprints"`
	}
	if err == nil {
		err = json.Unmarshal(raw, &req)
	}
	if err != nil {
		r.Fail("R-fp", "-", "baseline/required_fingerprints.json", "-", err.Error())
	}
	var fps []string
	for k := range req.Fingerprints {
		fps = append(fps, k)
	}
	sort.Strings(fps)
	for _, fp := range fps {
		key := "0" + strings.ToUpper(fp)
		expr := fmt.Sprintf("fingerprint %q", fp)
		if v, ok := t.KeywordMap[key]; ok && v == fpV {
			r.OK("R-fp", t.KeywordsVar, expr, "-", "black-listed")
		} else {
			r.Fail("R-fp", t.KeywordsVar, expr, "-", fmt.Sprintf("the fingerprint of canonical attacks such as %q is no longer black-listed", req.Fingerprints[fp].Example))
		}
	}
	if len(fps) < 100 {
		r.Fail("vacuity", "-", "required fingerprints", "-", fmt.Sprintf("only %d calibrated fingerprints", len(fps)))
	}

	// ---- R-tailc: fold re-appends the saved trailing comment whenever there is room
	if foldFn := a.FnOpt("sql.fold"); foldFn != nil {
		if mt, ok := p.ConstInt(a.Consts["sql.maxTokens"]); ok {
			savedCommentRule(p, a, r, foldFn, mt)
		}
	}

	// ---- R-ctx / R-gate: imported from C12 and C08
	c12 := checkC12(&Ctx{P: p, Tier: c.Tier, VerifDir: c.VerifDir, Property: "C12"})
	importRules(r, c12, "R-ctx/", map[string]bool{"K1": true, "K2": true, "K3": true, "K5": true, "K6": true, "anchor": true})
	c08 := checkC08(&Ctx{P: p, Tier: c.Tier, VerifDir: c.VerifDir, Property: "C08"})
	importRules(r, c08, "R-gate/", map[string]bool{"V2": true, "V3": true, "V4": true, "anchor": true})

	// ---- R-merge: phrase candidates are built from token values, never from raw input
	if merge := a.Fn("sql.merge"); merge != nil {
		n := 0
		for _, ci := range ssax.Calls(merge) {
			callee := ci.Common().StaticCallee()
			if callee == nil || !p.InModule(callee) {
				continue
			}
			for _, arg := range ci.Common().Args {
				if !isStringType(arg.Type()) {
					continue
				}
				n++
				expr := "phrase candidate " + ssax.Canon(arg) + " handed to " + callee.Name()
				if rawInputLeaf(a, arg, map[ssa.Value]bool{}, 0) {
					r.Fail("R-merge", core.QualName(merge), expr, p.Pos(ci.Pos()), "a two-word phrase candidate is cut out of the raw input: the separator between the words is then whatever byte the input has (tab, line feed, a comment), not the single space of the keyword table — UNION<tab>ALL, ORDER<lf>BY are no longer recognised")
				} else {
					r.OK("R-merge", core.QualName(merge), expr, p.Pos(ci.Pos()), "built from token values and constants")
				}
			}
		}
		if n == 0 {
			r.Fail("vacuity", core.QualName(merge), "R-merge phrase candidates", p.Pos(merge.Pos()), "merge hands no string to a module function: the phrase look-up was not found")
		}
	}

	// ---- R-sep: separator dispatch
	disp, derr := tables.EvalDispatch(p)
	if derr != nil || len(disp.Table) != 256 {
		r.Fail("R-sep", "-", "dispatch table", "-", fmt.Sprintf("cannot evaluate: %v", derr))
		return r
	}
	assign := a.Fn("sql.assign")
	eol := a.Fn("sql.eolComment")
	strCore := a.Fn("sql.stringCore")
	isSkip := func(fn *ssa.Function) bool {
		if fn == nil || fn.Blocks == nil {
			return false
		}
		for _, ci := range ssax.Calls(fn) {
			if f := ci.Common().StaticCallee(); f != nil && p.InModule(f) {
				return false
			}
		}
		for _, ret := range ssax.Returns(fn) {
			bo, ok := ret.Results[0].(*ssa.BinOp)
			if !ok || bo.Op != token.ADD || !a.loadsField(bo.X, "sql.state.pos") {
				return false
			}
			if k, ok := ssax.ConstInt(bo.Y); !ok || k != 1 {
				return false
			}
		}
		return true
	}
	_ = assign
	skipSet := map[int]bool{}
	for ch := 0; ch < 256; ch++ {
		if isSkip(disp.Table[ch]) {
			skipSet[ch] = true
		}
	}
	for _, ch := range []int{9, 10, 11, 12, 13, 32, 0xA0} {
		expr := fmt.Sprintf("dispatch[%#02x]", ch)
		if skipSet[ch] {
			r.OK("R-sep", disp.Var, expr, "-", "white-space byte is skipped (lexer returns pos+1 without a token)")
		} else {
			r.Fail("R-sep", disp.Var, expr, "-", fmt.Sprintf("SQL white-space byte %#02x is not dispatched to the skipping lexer: it would become a token and change the fingerprint of every attack that uses it as separator", ch))
		}
	}
	if w := a.Fn("sql.isWhite"); w != nil {
		tab, err := tables.TabulateBytePred(p, w)
		if err != nil {
			r.Fail("R-sep", core.QualName(w), "tabulation", p.Pos(w.Pos()), err.Error())
		} else {
			for ch := 0; ch < 256; ch++ {
				if b, _ := tab[ch].(bool); b && !skipSet[ch] {
					r.Fail("R-sep", core.QualName(w), fmt.Sprintf("white predicate true for %#02x", ch), p.Pos(w.Pos()), "the `--`+white-space comment test accepts a byte that the tokenizer does not treat as white space")
				}
			}
			r.OK("R-sep", core.QualName(w), "white predicate ⊆ skipped bytes", p.Pos(w.Pos()), "tabulated over 256 bytes")
		}
	}
	usesConst := func(fn *ssa.Function, callee, s string, depth int) bool {
		var rec func(fn *ssa.Function, d int) bool
		rec = func(fn *ssa.Function, d int) bool {
			if fn == nil || fn.Blocks == nil || d < 0 {
				return false
			}
			for _, ci := range ssax.Calls(fn) {
				f := ci.Common().StaticCallee()
				if f == nil {
					continue
				}
				if f.String() == callee {
					for _, arg := range ci.Common().Args {
						if cs, ok := ssax.ConstString(arg); ok && cs == s {
							return true
						}
					}
				}
				if p.InModule(f) && rec(f, d-1) {
					return true
				}
			}
			return false
		}
		return rec(fn, depth)
	}
	if usesConst(disp.Table['/'], "strings.Index", "*/", 1) {
		r.OK("R-sep", disp.Var, "dispatch['/'] lexes /*…*/", "-", "searches for \"*/\"")
	} else {
		r.Fail("R-sep", disp.Var, "dispatch['/'] lexes /*…*/", "-", "the lexer dispatched for '/' does not search for the comment terminator \"*/\": inline comments no longer work as separators")
	}
	for _, ch := range []byte{'-', '#'} {
		if callsTransitively(p, disp.Table[ch], eol, 2) {
			r.OK("R-sep", disp.Var, fmt.Sprintf("dispatch[%q] reaches the end-of-line comment lexer", ch), "-", "")
		} else {
			r.Fail("R-sep", disp.Var, fmt.Sprintf("dispatch[%q] reaches the end-of-line comment lexer", ch), "-", "trailing comment style no longer lexed")
		}
	}
	for _, ch := range []byte{'\'', '"'} {
		if callsTransitively(p, disp.Table[ch], strCore, 2) {
			r.OK("R-sep", disp.Var, fmt.Sprintf("dispatch[%q] reaches the string lexer", ch), "-", "")
		} else {
			r.Fail("R-sep", disp.Var, fmt.Sprintf("dispatch[%q] reaches the string lexer", ch), "-", "quote byte not lexed as a string")
		}
	}
	// dispatch symmetry for letters (case assignment of keywords)
	for ch := 'a'; ch <= 'z'; ch++ {
		if disp.Table[ch] != disp.Table[ch-32] {
			r.Fail("R-sep", disp.Var, fmt.Sprintf("dispatch[%q] == dispatch[%q]", ch, ch-32), "-", "the two cases of a letter are lexed by different lexers")
		}
	}
	r.OK("R-sep", disp.Var, "letter dispatch is case-symmetric", "-", "26 pairs")

	// ---- R-lex: the lexers keep tokens and cursor consistent (E3, shared with C16 / C18):
	// every terminator found (comment `*/`, newline, quote) is consumed, every token lies in
	// the span its step consumed — a comment or string that is partly re-tokenized changes
	// the fingerprint of every attack that uses it as separator
	if env := newE3Env(c, r); len(r.Violations) == 0 {
		sr := &sqlRoots{env: env}
		comment := int64(classComment)
		dashLexer := ""
		if f := disp.Table['-']; f != nil {
			dashLexer = "lexer:" + f.Name()
		}
		var white absint.Mask
		for _, ch := range []int{9, 10, 11, 12, 13, 32} { // the SQL white-space bytes of the statement
			white[ch>>6] |= 1 << (uint(ch) & 63)
		}
		sr.runAll(func(name string, hooks *absint.Hooks) {
			c16Hooks(sr, name, hooks)
			ohitHooks(sr, name, hooks)
			if name != dashLexer {
				return
			}
			// R-tail: `--` at the end of the input and `--` + white space start a comment in
			// every mode — a return of the dash lexer that emits something else must be
			// impossible in those situations
			prev := hooks.OnReturn
			hooks.OnReturn = func(e *absint.Engine, st *absint.State, fr *absint.Frame, ret *ssa.Return, val absint.AVal) {
				if prev != nil {
					prev(e, st, fr, ret, val)
				}
				rc := sr.getCtx(name)
				if fr.Depth() != 0 || rc == nil {
					return
				}
				cls, ok := e.CellOf(st, ghostTok, "class")
				isComment := false
				if k, isC := absint.ConstOf(cls); ok && isC && k == comment {
					isComment = true
				}
				second := absint.ByteV{Root: rc.In.Root, Idx: rc.In.Lo.Add(rc.Pos0).AddK(1)}
				third := absint.ByteV{Root: rc.In.Root, Idx: rc.In.Lo.Add(rc.Pos0).AddK(2)}
				var dash absint.Mask
				dash['-'>>6] |= 1 << (uint('-') & 63)
				length := absint.StrLenOf(rc.In)
				possible := func(scenario func(s2 *absint.State) bool) bool {
					s2 := st.Clone()
					if !scenario(s2) {
						return false
					}
					return e.Feasible(s2)
				}
				twoDashes := func(s2 *absint.State) bool {
					e.AssumeLE(s2, rc.Pos0.AddK(2), length)
					m := e.MaskOf(s2, second)
					if !m.Has('-') {
						return false
					}
					e.SetMask(s2, second, dash)
					return true
				}
				atEOF := possible(func(s2 *absint.State) bool {
					if !twoDashes(s2) {
						return false
					}
					e.AssumeEQ(s2, rc.Pos0.AddK(2), length)
					return true
				})
				beforeWhite := possible(func(s2 *absint.State) bool {
					if !twoDashes(s2) {
						return false
					}
					e.AssumeLE(s2, rc.Pos0.AddK(3), length)
					m := e.MaskOf(s2, third)
					any := false
					var mw absint.Mask
					for b := 0; b < 256; b++ {
						if m.Has(b) && white.Has(b) {
							mw[b>>6] |= 1 << (uint(b) & 63)
							any = true
						}
					}
					if !any {
						return false
					}
					e.SetMask(s2, third, mw)
					return true
				})
				where := retLabel(ret)
				e.Check(st, fr, ret.Pos(), "R-tail", "`--` at the end of the input starts a comment at "+where, isComment || !atEOF, "the dash lexer can emit something other than a comment for `--` at the very end of the input: the trailing-comment style `… --` no longer truncates the statement in that mode")
				e.Check(st, fr, ret.Pos(), "R-tail", "`--` followed by white space starts a comment at "+where, isComment || !beforeWhite, "the dash lexer can emit something other than a comment for `-- `: the trailing-comment style no longer truncates the statement")
			}
		})
		residuals := loadResiduals(c, r)
		lex := map[string]bool{"O-hit": true, "O-str": true, "A-span": true, "A-clip": true, "P-step": true, "R-tail": true}
		n := 0
		for _, o := range mergeObs(sr.runs) {
			if !lex[o.Rule] {
				continue
			}
			n++
			o2 := *o
			o2.Rule = "R-lex/" + o.Rule
			emitObs(r, []*absint.Ob{&o2}, residuals, "C03", nil)
		}
		if n < 60 {
			r.Fail("vacuity", "-", "lexer consistency obligations", "-", fmt.Sprintf("only %d generated", n))
		}
	}

	r.Explanation = "NECESSARY CONDITIONS ONLY — this check decides the structural parts listed here, not detection. R-lex (E3 relational abstract interpretation of every SQL lexer from an arbitrary cursor): every search hit (comment terminator, newline, closing quote) lies behind the returned cursor, string tokens end at their terminator, every token lies inside the span its scan step consumed, the stored length is the clipped scanned length, every step consumes ≥ 1 byte. R-fp: the 147 fingerprints that a fixed canonical attack grammar (9 context prefixes × 9 separators × 29 payloads × 7 tails × 3 case assignments) maps to were computed once, at design time, by running the pinned code, and are frozen in baseline/required_fingerprints.json; the check verifies statically (E2) that each is still an 'F' key. R-ctx: the parsing-context cascade, gates, per-pass reset and virtual-quote wiring (all rules of C12). R-gate: verdict = blacklist ∧ whitelist (C08 V2–V4). R-sep (closed-initialiser evaluation of the dispatch table): the SQL white-space bytes are dispatched to the skipping lexer, the white predicate's tabulated set is inside the skipped set, '/' reaches the `*/` search, '-' and '#' reach the end-of-line comment lexer, quotes reach the string lexer, letter dispatch is case-symmetric. R-merge: every string that merge hands to a module function (the two-word phrase candidate) is built from token values and constants — no part of it is a slice of the raw input, whose separator byte would not be the single space of the keyword table. NOT decided: that tokenizer+folder still map each member of the grammar to those fingerprints (folding rules, comment/number lexing) — that is input→output behaviour."
	r.Trusted = []string{"baseline/required_fingerprints.json (calibrated once on the pinned tree)", "go/types constants", "closed-initialiser evaluation", "rules of C12 and C08"}
	return r
}

// tokenSliceOf: v is tokenStart[:tokenLen] of the tokenizer state.
func tokenSliceOf(a *Anchors, v ssa.Value) bool {
	// an accessor such as h.token()
	if call, isCall := v.(*ssa.Call); isCall {
		if f := call.Common().StaticCallee(); f != nil {
			if ret, pure := ssax.PureExprFunc(f); pure {
				return tokenSliceOf(a, ret)
			}
		}
		return false
	}
	sl, ok := v.(*ssa.Slice)
	if !ok || sl.Low != nil && !isZero(sl.Low) || sl.High == nil {
		return false
	}
	return a.loadsField(sl.X, "xss.state.tokenStart") && a.loadsField(sl.High, "xss.state.tokenLen")
}

func isZero(v ssa.Value) bool { k, ok := ssax.ConstInt(v); return ok && k == 0 }

func checkC04(c *Ctx) *core.Result {
	p := c.P
	r := c.newResult()
	a := loadAnchors(c, r)
	ctx := a.Fn("xss.ctx")
	isTag, isAttr, isURL, urlMatch := a.Fn("xss.isBlackTag"), a.Fn("xss.isBlackAttr"), a.Fn("xss.isBlackURL"), a.Fn("xss.urlMatch")
	tDoc, tOpen, tName, tVal, tCom := a.Const("xss.typeDocType"), a.Const("xss.typeTagNameOpen"), a.Const("xss.typeAttrName"), a.Const("xss.typeAttrValue"), a.Const("xss.typeTagComment")
	aBlack, aURL, aStyle, aInd := a.Const("xss.attrBlack"), a.Const("xss.attrURL"), a.Const("xss.attrStyle"), a.Const("xss.attrIndirect")
	t, errs := tables.Extract(p)
	for _, e := range errs {
		r.Fail("T1", "-", "table extraction", "-", e.Error())
	}
	if len(r.Violations) > 0 {
		return r
	}

	// ---- N1: contexts (imported from C13)
	c13 := checkC13(&Ctx{P: p, Tier: c.Tier, VerifDir: c.VerifDir, Property: "C13"})
	importRules(r, c13, "N1/", map[string]bool{"X1": true, "X2": true, "X3": true, "anchor": true, "G": true})

	// ---- N2: classification switch exhaustive
	type site struct {
		tt     int64
		hasTT  bool
		attr   int64
		hasAt  bool
		extras []string
		pos    token.Pos
	}
	var sites []site
	// the ways the classifier answers true; boolean helpers it delegates to are
	// looked into (except the anchored predicates, which are facts of their own)
	expandHelper := func(h *ssa.Function) bool {
		if !p.InModule(h) || h == isTag || h == isURL || h == urlMatch || h == a.FnOpt("xss.next") || len(h.Blocks) == 0 {
			return false
		}
		res := h.Signature.Results()
		if res.Len() != 1 {
			return false
		}
		bt, ok := res.At(0).Type().Underlying().(*types.Basic)
		return ok && bt.Kind() == types.Bool
	}
	for _, way := range ssax.TrueWays(ctx, expandHelper, 0) {
		s := site{pos: way.Pos}
		for _, f := range way.Facts {
			if call, ok := f.Cond.(*ssa.Call); ok && call.Common().StaticCallee() == a.FnOpt("xss.next") {
				continue
			}
			bo, isBin := f.Cond.(*ssa.BinOp)
			var bx ssa.Value
			if isBin {
				bx = f.Arg(bo.X)
			}
			if isBin && a.loadsField(bx, "xss.state.tokenType") {
				if k, ok := ssax.ConstInt(bo.Y); ok && bo.Op == token.EQL && f.True {
					s.tt, s.hasTT = k, true
				}
				continue
			}
			if isBin && bo.Op == token.EQL {
				_, isPhi := bx.(*ssa.Phi)
				if ld, isLd := bx.(*ssa.UnOp); isLd && !isPhi {
					// the attribute kind kept in a field of a local struct
					if fa, ok := ld.X.(*ssa.FieldAddr); ok {
						_, isPhi = fa.X.(*ssa.Alloc)
					}
				}
				if isPhi {
					if k, ok := ssax.ConstInt(bo.Y); ok {
						if f.True {
							s.attr, s.hasAt = k, true
						}
						continue
					}
				}
			}
			// a describable extra condition
			d := "?"
			cd := containsByteDesc(a, f)
			switch {
			case cd != "":
				// a negated test taken on its false side is the positive test
				neg := strings.HasPrefix(cd, "!")
				d = strings.TrimPrefix(cd, "!")
				if neg != !f.True {
					d = "!(" + d + ")"
				}
				s.extras = append(s.extras, d)
				continue
			case isBin:
				if cs, ok := ssax.ConstString(bo.Y); ok {
					d = fmt.Sprintf("str %s %q", bo.Op, cs)
				} else if col, ok := tables.ColumnValues(p, f.Arg(bo.Y)); ok && isStringType(bo.Y.Type()) && len(col) > 0 && len(col) <= 16 {
					// compared with an entry of a constant table inside a loop over its rows: one test per row
					all := true
					var ds []string
					for _, cv := range col {
						sv, isS := cv.(string)
						if !isS {
							all = false
							break
						}
						ds = append(ds, fmt.Sprintf("str %s %q", bo.Op, sv))
					}
					if all {
						for i, dd := range ds {
							if !f.True {
								dd = "!(" + dd + ")"
							}
							if i < len(ds)-1 {
								s.extras = append(s.extras, dd)
							} else {
								d = strings.TrimSuffix(strings.TrimPrefix(dd, "!("), ")")
								if f.True {
									d = dd
								}
							}
						}
					}
				} else if call, ok := bx.(*ssa.Call); ok {
					if fn := call.Common().StaticCallee(); fn != nil {
						full := len(call.Common().Args) > 0 && tokenSliceOf(a, f.Arg(call.Common().Args[0]))
						d = fmt.Sprintf("%s(token:%v) %s %s", fn.Name(), full, bo.Op, bo.Y)
					}
				} else if a.loadsField(bx, "xss.state.tokenLen") {
					d = fmt.Sprintf("tokenLen %s %s", bo.Op, bo.Y)
				} else {
					d = fmt.Sprintf("%s %s %s", bx.Name(), bo.Op, bo.Y)
				}
			default:
				if call, ok := f.Cond.(*ssa.Call); ok {
					if fn := call.Common().StaticCallee(); fn != nil {
						full := len(call.Common().Args) > 0 && tokenSliceOf(a, f.Arg(call.Common().Args[0]))
						d = fmt.Sprintf("%s(token:%v)", fn.Name(), full)
					}
				}
			}
			if !f.True {
				d = "!(" + d + ")"
			}
			s.extras = append(s.extras, d)
		}
		sites = append(sites, s)
	}
	positive := func(exs []string) []string {
		var out []string
		for _, e := range exs {
			if !strings.HasPrefix(e, "!(") {
				out = append(out, e)
			}
		}
		return out
	}
	need := func(rule, what string, pred func(s site) bool) {
		for _, s := range sites {
			if pred(s) {
				r.OK(rule, core.QualName(ctx), what, p.Pos(s.pos), strings.Join(s.extras, " ∧ "))
				return
			}
		}
		r.Fail(rule, core.QualName(ctx), what, p.Pos(ctx.Pos()), "the classifier has no positive verdict of this kind any more: the corresponding family of vectors cannot be detected")
	}
	need("N2", "DocType token ⇒ XSS, unconditionally", func(s site) bool { return s.hasTT && s.tt == tDoc && len(positive(s.extras)) == 0 })
	need("N2", "TagNameOpen token ⇒ XSS iff black tag (whole token)", func(s site) bool {
		pe := positive(s.extras)
		return s.hasTT && s.tt == tOpen && len(pe) == 1 && pe[0] == isTag.Name()+"(token:true)"
	})
	// attribute types in use by the tables
	used := map[int64]bool{}
	for _, n := range append(append([]tables.Named{}, t.Blacks...), t.BlackEvents...) {
		used[n.Type] = true
	}
	for ty := range used {
		ty := ty
		name := t.AttrTypes[ty]
		switch ty {
		case aBlack, aStyle:
			need("N2", "AttrValue under "+name+" ⇒ XSS, unconditionally", func(s site) bool {
				return s.hasTT && s.tt == tVal && s.hasAt && s.attr == ty && len(positive(s.extras)) == 0
			})
		case aURL:
			need("N2", "AttrValue under "+name+" ⇒ XSS iff URL predicate (whole token)", func(s site) bool {
				pe := positive(s.extras)
				return s.hasTT && s.tt == tVal && s.hasAt && s.attr == ty && len(pe) == 1 && pe[0] == isURL.Name()+"(token:true)"
			})
		case aInd:
			need("N2", "AttrValue under "+name+" ⇒ XSS iff the value names a black attribute", func(s site) bool {
				pe := positive(s.extras)
				return s.hasTT && s.tt == tVal && s.hasAt && s.attr == ty && len(pe) == 1 && strings.HasPrefix(pe[0], isAttr.Name()+"(token:true) ==")
			})
		default:
			r.Fail("N2", core.QualName(ctx), fmt.Sprintf("attribute type %d (%s)", ty, name), p.Pos(ctx.Pos()), "an attribute type used by the shipped lists has no rule in this check (undecided)")
		}
	}
	need("N2", "TagComment containing a back-tick ⇒ XSS", func(s site) bool {
		// the back-tick alone decides: no further positive condition on this way
		pe := positive(s.extras)
		return s.hasTT && s.tt == tCom && len(pe) == 1 && pe[0] == "contains(token:true, '`')"
	})
	for _, kw := range []string{"IF", "XML", "IMPORT", "ENTITY"} {
		kw := kw
		need("N2", "TagComment starting with "+kw+" ⇒ XSS", func(s site) bool {
			for _, e := range positive(s.extras) {
				if e == fmt.Sprintf("str == %q", kw) {
					return s.hasTT && s.tt == tCom
				}
			}
			return false
		})
	}
	// AttrName tokens define the attribute kind from the attribute predicate on the whole token
	okName := false
	// (the attribute predicate may be called through a small helper: classifyAttrName(h5))
	feedsAttrPredicate := func(ci ssa.CallInstruction) bool {
		callee := ci.Common().StaticCallee()
		if callee == isAttr {
			return len(ci.Common().Args) == 1 && tokenSliceOf(a, ci.Common().Args[0])
		}
		if callee == nil || !p.InModule(callee) || len(callee.Blocks) > 6 {
			return false
		}
		for _, c2 := range ssax.Calls(callee) {
			if c2.Common().StaticCallee() == isAttr && len(c2.Common().Args) == 1 && tokenSliceOf(a, c2.Common().Args[0]) {
				return true
			}
		}
		return false
	}
	for _, ci := range ssax.Calls(ctx) {
		if feedsAttrPredicate(ci) {
			for _, f := range ssax.Facts(ci.Block()) {
				if bo, ok := f.Cond.(*ssa.BinOp); ok && f.True && bo.Op == token.EQL && a.loadsField(bo.X, "xss.state.tokenType") {
					if k, _ := ssax.ConstInt(bo.Y); k == tName {
						okName = true
					}
				}
			}
		}
	}
	if okName {
		r.OK("N2", core.QualName(ctx), "AttrName token → attribute predicate(whole token)", p.Pos(ctx.Pos()), "")
	} else {
		r.Fail("N2", core.QualName(ctx), "AttrName token → attribute predicate(whole token)", p.Pos(ctx.Pos()), "attribute names are no longer classified")
	}

	// ---- N3 / N4 / N-b in the two name predicates
	n3 := fullScanRule(p, r, isTag, t, "N3") + fullScanRule(p, r, isAttr, t, "N3")
	if n3 < 3 {
		r.Fail("vacuity", "-", "table scans", "-", fmt.Sprintf("only %d table scans found in the name predicates (expected 3)", n3))
	}
	n4 := nameComparisonRule(p, r, isTag, t, "N4", true, nil) + nameComparisonRule(p, r, isAttr, t, "N4", true, nil)
	// (one comparison per table scan — a scan helper shared by two tables counts once — and the four literal names)
	if n4 < 5 {
		r.Fail("vacuity", "-", "name comparisons", "-", fmt.Sprintf("only %d name comparisons found (expected ≥ 5)", n4))
	}
	minTag := 1 << 30
	for _, n := range t.BlackTags {
		if len(n.Name) < minTag {
			minTag = len(n.Name)
		}
	}
	for _, b := range isTag.Blocks {
		for _, ins := range b.Instrs {
			if bo, ok := ins.(*ssa.BinOp); ok && bo.Op == token.EQL {
				if cs, ok := ssax.ConstString(bo.Y); ok && len(cs) < minTag {
					minTag = len(cs)
				}
			}
		}
	}
	maxTag, maxAttr := maxNameLens(t, isTag)
	rawLengthRule(p, r, isTag, minTag, maxTag, "N-b")
	minAttr := 1 << 30
	for _, n := range t.Blacks {
		if len(n.Name) < minAttr {
			minAttr = len(n.Name)
		}
	}
	rawLengthRule(p, r, isAttr, minAttr, maxAttr, "N-b")

	// ---- N5: scheme constants reach the matcher
	schemes := map[string]bool{}
	if lits, _, why := schemeLiterals(p, isURL, urlMatch); why == "" {
		for _, l := range lits {
			if l != "" {
				schemes[l] = true
			}
		}
	} else {
		r.Fail("N5", core.QualName(isURL), "scheme list located", p.Pos(isURL.Pos()), why)
	}
	for _, want := range []string{"JAVASCRIPT", "VBSCRIPT", "DATA", "VIEW-SOURCE"} {
		found := ""
		for s := range schemes {
			if strings.HasPrefix(want, s) && strings.ToUpper(s) == s {
				found = s
			}
		}
		if found != "" {
			r.OK("N5", core.QualName(isURL), "scheme "+want, p.Pos(isURL.Pos()), fmt.Sprintf("matched through %q", found))
		} else {
			r.Fail("N5", core.QualName(isURL), "scheme "+want, p.Pos(isURL.Pos()), "no upper-case prefix of this scheme is in the scheme list")
		}
	}
	if callsTransitively(p, isURL, urlMatch, 1) {
		r.OK("N5", core.QualName(isURL), "schemes are matched through the entity-decoding matcher", p.Pos(isURL.Pos()), "")
	} else {
		r.Fail("N5", core.QualName(isURL), "schemes are matched through the entity-decoding matcher", p.Pos(isURL.Pos()), "the URL predicate does not call the entity-decoding prefix matcher")
	}

	r.Explanation = "NECESSARY CONDITIONS ONLY — this check decides the structural parts listed here, not detection of the generated vectors. N1: five contexts ORed with the right start states on fresh state (rules X1–X3 of C13). N2: the classifier's positive-verdict sites, described by the facts that dominate them, contain: DocType unconditionally; TagNameOpen gated exactly by the tag predicate on the whole token; for every attribute type that occurs in the shipped lists a site under AttrValue ∧ attr==type (Black/Style unconditional, URL gated by the URL predicate on the whole token, Indirect gated by attribute-predicate==Black); TagComment with back-tick, IF, XML, IMPORT, ENTITY; AttrName tokens feed the attribute predicate. N3: every loop over blackTags/blacks/blackEvents runs 0..len-1 step 1. N4: every comparison with a list element or letter constant in the two name predicates uses ToUpper(ReplaceAll(x,\"\\x00\",\"\")). N-b: length shortcuts (on the raw name or on its normal form) only reject below the shortest listed name; upper bounds on the raw length are reported. N5: the scheme list holds upper-case prefixes of JAVASCRIPT, VBSCRIPT, DATA, VIEW-SOURCE and is matched through the entity-decoding matcher."
	r.Trusted = []string{"go/ssa", "facts from edge-dominating branches", "table extraction", "rules of C13"}
	return r
}

// containsByteDesc recognises the idioms of "the string contains byte c":
// IndexByte/IndexRune/Index(x, c) != -1 | >= 0 | > -1 and Contains/ContainsRune/
// ContainsAny(x, c).  It returns "contains(token:<whole token?>, 'c')", with a
// leading "!" for the negated forms (== -1, < 0), or "" for anything else.
func containsByteDesc(a *Anchors, f ssax.Fact) string {
	needle := func(v ssa.Value) (byte, bool) {
		if k, ok := ssax.ConstInt(v); ok && k >= 0 && k < 256 {
			return byte(k), true
		}
		if cs, ok := ssax.ConstString(v); ok && len(cs) == 1 {
			return cs[0], true
		}
		return 0, false
	}
	describe := func(call *ssa.Call, names ...string) (string, bool) {
		fn := call.Common().StaticCallee()
		if fn == nil || fn.Pkg == nil || fn.Pkg.Pkg.Path() != "strings" || len(call.Common().Args) != 2 {
			return "", false
		}
		found := false
		for _, n := range names {
			if fn.Name() == n {
				found = true
			}
		}
		if !found {
			return "", false
		}
		c, ok := needle(f.Arg(call.Common().Args[1]))
		if !ok {
			return "", false
		}
		full := tokenSliceOf(a, f.Arg(call.Common().Args[0]))
		return fmt.Sprintf("contains(token:%v, %q)", full, rune(c)), true
	}
	switch x := f.Cond.(type) {
	case *ssa.Call:
		if d, ok := describe(x, "Contains", "ContainsRune", "ContainsAny"); ok {
			return d
		}
	case *ssa.BinOp:
		call, ok := f.Arg(x.X).(*ssa.Call)
		if !ok {
			return ""
		}
		d, ok := describe(call, "IndexByte", "IndexRune", "Index", "IndexAny")
		if !ok {
			return ""
		}
		k, ok := ssax.ConstInt(x.Y)
		if !ok {
			return ""
		}
		switch {
		case x.Op == token.NEQ && k == -1, x.Op == token.GEQ && k == 0, x.Op == token.GTR && k == -1:
			return d
		case x.Op == token.EQL && k == -1, x.Op == token.LSS && k == 0, x.Op == token.LEQ && k == -1:
			return "!" + d
		}
	}
	return ""
}

// rawInputLeaf: the string value is (partly) a slice of the SQL state's input field.
func rawInputLeaf(a *Anchors, v ssa.Value, seen map[ssa.Value]bool, depth int) bool {
	if v == nil || seen[v] || depth > 10 {
		return false
	}
	seen[v] = true
	switch x := v.(type) {
	case *ssa.UnOp:
		return a.loadsField(v, "sql.state.input")
	case *ssa.Slice:
		return rawInputLeaf(a, x.X, seen, depth+1)
	case *ssa.BinOp:
		return rawInputLeaf(a, x.X, seen, depth+1) || rawInputLeaf(a, x.Y, seen, depth+1)
	case *ssa.Phi:
		for _, e := range x.Edges {
			if rawInputLeaf(a, e, seen, depth+1) {
				return true
			}
		}
	case *ssa.ChangeType:
		return rawInputLeaf(a, x.X, seen, depth+1)
	case *ssa.Convert:
		return rawInputLeaf(a, x.X, seen, depth+1)
	case *ssa.Call:
		for _, arg := range x.Common().Args {
			if isStringType(arg.Type()) && rawInputLeaf(a, arg, seen, depth+1) {
				return true
			}
		}
	}
	return false
}

// savedCommentRule (R-tailc): in the folding function a whole token that was saved
// in a local variable (the trailing comment set aside while folding) is written
// back into the token vector at index `left`; every upper bound on that index that
// guards the write must leave room for all positions of the fingerprint
// (`left < maxTokens`).  A tighter guard drops the comment class from fingerprints
// of exactly maxTokens−1 tokens (`1;Esc` → `1;Es`): the trailing-comment styles of
// the statement are then no longer part of what is looked up.  Guards of an
// unrecognised shape are noted, not reported.
func savedCommentRule(p *core.Program, a *Anchors, r *core.Result, fold *ssa.Function, maxTokens int64) {
	memo := map[ssa.Value]*linForm{}
	n := 0
	for _, b := range fold.Blocks {
		for _, ins := range b.Instrs {
			st, ok := ins.(*ssa.Store)
			if !ok {
				continue
			}
			ld, ok := st.Val.(*ssa.UnOp)
			if !ok || ld.Op != token.MUL {
				continue
			}
			al, ok := ld.X.(*ssa.Alloc)
			if !ok || al.Heap {
				continue
			}
			ia, ok := st.Addr.(*ssa.IndexAddr)
			if !ok || !a.isField(ia.X, "sql.state.tokens") {
				continue
			}
			if _, isStruct := ld.Type().Underlying().(*types.Struct); !isStruct {
				continue
			}
			n++
			expr := fmt.Sprintf("saved token %s written back at index %s", al.Comment, core.Short(ssax.Canon(ia.Index)))
			best, found := int64(1)<<40, false
			for _, f := range ssax.Facts(b) {
				bo, ok := f.Cond.(*ssa.BinOp)
				if !ok {
					continue
				}
				op := bo.Op
				switch op {
				case token.LSS, token.LEQ, token.GTR, token.GEQ:
				default:
					continue
				}
				if !f.True {
					op = map[token.Token]token.Token{token.LSS: token.GEQ, token.LEQ: token.GTR, token.GTR: token.LEQ, token.GEQ: token.LSS}[op]
				}
				fx, fy := linOf(bo.X, memo, 0), linOf(bo.Y, memo, 0)
				coef := fx.coef[ia.Index] - fy.coef[ia.Index]
				k := fx.k - fy.k
				others := false
				for s, c := range fx.coef {
					if s != ia.Index && c-fy.coef[s] != 0 {
						others = true
					}
				}
				for s, c := range fy.coef {
					if s != ia.Index && fx.coef[s]-c != 0 {
						others = true
					}
				}
				if others || (coef != 1 && coef != -1) {
					continue
				}
				if coef == -1 {
					k = -k
					op = map[token.Token]token.Token{token.LSS: token.GTR, token.LEQ: token.GEQ, token.GTR: token.LSS, token.GEQ: token.LEQ}[op]
				}
				// idx + k op 0
				var bound int64
				switch op {
				case token.LSS:
					bound = -k // idx < -k
				case token.LEQ:
					bound = -k + 1
				default:
					continue // a lower bound
				}
				found = true
				if bound < best {
					best = bound
				}
			}
			switch {
			case !found:
				r.Note("R-tailc: " + expr + " is not guarded by a recognised upper bound on the index (rule not evaluated)")
			case best < maxTokens:
				r.Fail("R-tailc", core.QualName(fold), expr, p.Pos(st.Pos()), fmt.Sprintf("the saved trailing comment is written back only while the index is < %d, but a fingerprint has %d positions: sequences of %d tokens lose their trailing comment class, so statements truncated by a comment get a different fingerprint", best, maxTokens, maxTokens-1))
			default:
				r.OK("R-tailc", core.QualName(fold), expr, p.Pos(st.Pos()), fmt.Sprintf("written back whenever index < %d", best))
			}
		}
	}
	if n == 0 {
		r.Note("R-tailc: the folding function writes no locally saved token back into the token vector (rule not applicable on this tree)")
	}
}
