package checks

import (
	"fmt"
	"go/token"
	"go/types"
	"sort"

	"golang.org/x/tools/go/ssa"

	"verif/tools/internal/core"
	"verif/tools/internal/ssax"
)

// HTML state graph G: nodes are the tokenizer's state functions, edges are
// direct calls between them (immediate) and stores `h.state = h.stateX`
// (deferred, taken at the next call of next()).  Every edge and every token
// type store carries the branch facts that hold where it sits.

type sgEdge struct {
	From, To *ssa.Function
	Deferred bool
	Site     ssa.Instruction
	Facts    []ssax.Fact
}

type sgTok struct {
	Type  int64
	Site  ssa.Instruction
	Facts []ssax.Fact
}

type sgNode struct {
	Fn   *ssa.Function
	Out  []*sgEdge
	In   []*sgEdge
	Toks []sgTok
}

type stateGraph struct {
	Nodes  map[*ssa.Function]*sgNode
	Starts map[int64]*ssa.Function // init flag → start state
	Init   *ssa.Function
	stName string
	a      *Anchors
}

func (g *stateGraph) sorted() []*sgNode {
	var out []*sgNode
	for _, n := range g.Nodes {
		out = append(out, n)
	}
	sort.Slice(out, func(i, j int) bool { return out[i].Fn.Name() < out[j].Fn.Name() })
	return out
}

// boundTarget resolves `make closure (*T).m$bound [h]` (possibly behind a
// ChangeType) to the method m.
func boundTarget(p *core.Program, v ssa.Value) *ssa.Function {
	if ct, ok := v.(*ssa.ChangeType); ok {
		v = ct.X
	}
	var w *ssa.Function
	switch x := v.(type) {
	case *ssa.MakeClosure:
		w, _ = x.Fn.(*ssa.Function)
	case *ssa.Function:
		// a method expression (*T).m: the thunk that takes the receiver as its first parameter
		w = x
	}
	if w == nil {
		return nil
	}
	if w.Synthetic == "" {
		return w
	}
	if obj, ok := w.Object().(*types.Func); ok && obj != nil {
		if f := p.SSA.FuncValue(obj); f != nil {
			return f
		}
	}
	// fall back: the wrapper's single call
	for _, ci := range ssax.Calls(w) {
		if f := ci.Common().StaticCallee(); f != nil {
			return f
		}
	}
	return nil
}

func buildStateGraph(p *core.Program, a *Anchors, r *core.Result) *stateGraph {
	g := &stateGraph{Nodes: map[*ssa.Function]*sgNode{}, Starts: map[int64]*ssa.Function{}, a: a}
	g.stName = a.TypeName("xss.state")
	st := p.Types.Scope().Lookup(g.stName)
	if st == nil {
		anchorFail(r, "xss.state", "type not found")
		return g
	}
	ptr := types.NewPointer(st.Type())
	ms := p.SSA.MethodSets.MethodSet(ptr)
	initFn := a.Fn("xss.init")
	nextFn := a.Fn("xss.next")
	g.Init = initFn
	// methods that are taken as function values somewhere (h.stateX, (*T).stateX)
	boundSomewhere := map[*ssa.Function]bool{}
	for _, fn := range p.SourceFuncs(nil) {
		for _, b := range fn.Blocks {
			for _, ins := range b.Instrs {
				for _, op := range ins.Operands(nil) {
					if op == nil || *op == nil {
						continue
					}
					switch (*op).(type) {
					case *ssa.MakeClosure, *ssa.Function:
						if call, isCall := ins.(ssa.CallInstruction); isCall && call.Common().Value == *op {
							continue // the callee of a direct call
						}
						if t := boundTarget(p, *op); t != nil {
							boundSomewhere[t] = true
						}
					}
				}
				if mc, ok := ins.(*ssa.MakeClosure); ok {
					if t := boundTarget(p, mc); t != nil {
						boundSomewhere[t] = true
					}
				}
			}
		}
	}
	for i := 0; i < ms.Len(); i++ {
		fn := p.SSA.MethodValue(ms.At(i))
		if fn == nil || fn == initFn || fn == nextFn || fn.Blocks == nil {
			continue
		}
		res := fn.Signature.Results()
		if res.Len() != 1 {
			continue
		}
		if b, ok := res.At(0).Type().Underlying().(*types.Basic); !ok || b.Kind() != types.Bool {
			continue
		}
		// an accessor (`more() bool { return h.pos < h.len }`) that is only ever called,
		// never taken as a function value, is not a state
		if _, pure := ssax.PureExprFunc(fn); pure && !boundSomewhere[fn] {
			continue
		}
		g.Nodes[fn] = &sgNode{Fn: fn}
	}
	stateField := a.Fields["xss.state.state"]
	typeField := a.Fields["xss.state.tokenType"]
	// parametric helpers: functions that store one of their parameters into the token
	// type or the state variable (`emit(tokenType, …)`, `finishAtEOF(tokenType)`); they
	// are not states of their own: their effect is attributed to each call site
	parametric := map[*ssa.Function]bool{}
	for _, fn := range p.SourceFuncs(nil) {
		for _, b := range fn.Blocks {
			for _, ins := range b.Instrs {
				st, ok := ins.(*ssa.Store)
				if !ok {
					continue
				}
				fr, ok := ssax.AsFieldAddr(st.Addr)
				if !ok || fr.Struct != g.stName || (fr.Field != stateField && fr.Field != typeField) {
					continue
				}
				if _, isParam := st.Val.(*ssa.Parameter); isParam {
					parametric[fn] = true
				}
			}
		}
	}
	// … and functions that hand one of their own parameters on to such a helper
	// (`emitUpTo(type, end)` calling `emitAt(type, pos, end-pos)`)
	for changed := true; changed; {
		changed = false
		for _, fn := range p.SourceFuncs(nil) {
			if parametric[fn] {
				continue
			}
			for _, ci := range ssax.Calls(fn) {
				to := ci.Common().StaticCallee()
				if to == nil || !parametric[to] {
					continue
				}
				for _, arg := range ci.Common().Args {
					if prm, isParam := arg.(*ssa.Parameter); isParam && prm.Parent() == fn && !isStatePtr(prm.Type(), g.stName) {
						if !parametric[fn] {
							parametric[fn] = true
							changed = true
						}
					}
				}
			}
		}
	}
	for fn := range parametric {
		delete(g.Nodes, fn)
	}
	type binding map[*ssa.Parameter]ssa.Value
	var scan func(fn *ssa.Function, owner *ssa.Function, n *sgNode, bind binding, prefix []ssax.Fact, site ssa.Instruction, depth int)
	scan = func(fn *ssa.Function, owner *ssa.Function, n *sgNode, bind binding, prefix []ssax.Fact, site ssa.Instruction, depth int) {
		resolve := func(v ssa.Value) ssa.Value {
			if prm, ok := v.(*ssa.Parameter); ok {
				if a, ok := bind[prm]; ok {
					return a
				}
			}
			return v
		}
		at := func(ins ssa.Instruction) ssa.Instruction {
			if site != nil {
				return site
			}
			return ins
		}
		for _, b := range fn.Blocks {
			var facts []ssax.Fact
			got := false
			getFacts := func() []ssax.Fact {
				if !got {
					facts = append(append([]ssax.Fact{}, prefix...), ssax.Facts(b)...)
					got = true
				}
				return facts
			}
			for _, ins := range b.Instrs {
				switch x := ins.(type) {
				case *ssa.Store:
					fr, ok := ssax.AsFieldAddr(x.Addr)
					if !ok || fr.Struct != g.stName {
						continue
					}
					if fr.Field == stateField {
						// the stored value: a bound state method, or a choice (phi) of such — one
						// transition per choice, under the facts of the way that choice was made
						type choice struct {
							to    *ssa.Function
							facts []ssax.Fact
						}
						var choices []choice
						bad := false
						var collect func(v ssa.Value, facts []ssax.Fact, depth int)
						collect = func(v ssa.Value, facts []ssax.Fact, depth int) {
							v = resolve(v)
							if ph, isPhi := v.(*ssa.Phi); isPhi && depth < 4 {
								for i, ev := range ph.Edges {
									pb := ph.Block().Preds[i]
									fs := append(append([]ssax.Fact{}, prefix...), ssax.Facts(pb)...)
									if iff, ok := pb.Instrs[len(pb.Instrs)-1].(*ssa.If); ok && pb.Succs[0] != pb.Succs[1] {
										fs = append(fs, ssax.ExpandCond(iff.Cond, pb.Succs[0] == ph.Block())...)
									}
									collect(ev, fs, depth+1)
								}
								return
							}
							to := boundTarget(p, v)
							if to == nil || g.Nodes[to] == nil {
								bad = true
								return
							}
							choices = append(choices, choice{to, facts})
						}
						collect(x.Val, getFacts(), 0)
						if bad || len(choices) == 0 {
							r.Fail("G", core.QualName(fn), "store state = "+x.Val.String(), p.Pos(x.Pos()), "a value that is not a bound state method is stored into the state variable (undecided transition)")
							continue
						}
						for _, ch := range choices {
							e := &sgEdge{From: owner, To: ch.to, Deferred: true, Site: at(x), Facts: ch.facts}
							n.Out = append(n.Out, e)
							g.Nodes[ch.to].In = append(g.Nodes[ch.to].In, e)
						}
					}
					if fr.Field == typeField {
						k, ok := ssax.ConstInt(resolve(x.Val))
						if !ok {
							r.Fail("G", core.QualName(fn), "store tokenType = "+x.Val.String(), p.Pos(x.Pos()), "non-constant token type (undecided)")
							continue
						}
						n.Toks = append(n.Toks, sgTok{Type: k, Site: at(x), Facts: getFacts()})
					}
				case ssa.CallInstruction:
					to := x.Common().StaticCallee()
					if to == nil && !x.Common().IsInvoke() {
						if _, isBuiltin := x.Common().Value.(*ssa.Builtin); !isBuiltin {
							// a state taken from a local table of alternatives: one immediate edge per row
							tos, ok := localTableFuncs(p, resolve(x.Common().Value))
							if !ok {
								r.Fail("G", core.QualName(fn), "dynamic call "+ssax.Canon(x.Common().Value), p.Pos(x.Pos()), "a state function calls a function value that is not an entry of a local table literal (undecided transition)")
								continue
							}
							for _, t2 := range tos {
								if g.Nodes[t2] == nil {
									continue
								}
								e := &sgEdge{From: owner, To: t2, Deferred: false, Site: at(x), Facts: getFacts()}
								n.Out = append(n.Out, e)
								g.Nodes[t2].In = append(g.Nodes[t2].In, e)
							}
							continue
						}
					}
					if to != nil && g.Nodes[to] != nil {
						e := &sgEdge{From: owner, To: to, Deferred: false, Site: at(x), Facts: getFacts()}
						n.Out = append(n.Out, e)
						g.Nodes[to].In = append(g.Nodes[to].In, e)
					} else if to != nil && parametric[to] && depth < 3 {
						b2 := binding{}
						for i, prm := range to.Params {
							if i < len(x.Common().Args) {
								b2[prm] = resolve(x.Common().Args[i])
							}
						}
						scan(to, owner, n, b2, getFacts(), at(x), depth+1)
					}
				}
			}
		}
	}
	for fn, n := range g.Nodes {
		scan(fn, fn, n, nil, nil, nil, 0)
	}
	// start states: SCCP of init for each flag constant of its switch
	if initFn != nil {
		var flagP *ssa.Parameter
		for _, prm := range initFn.Params {
			if b, ok := prm.Type().Underlying().(*types.Basic); ok && b.Kind() == types.Int {
				flagP = prm
			}
		}
		if flagP == nil {
			anchorFail(r, "xss.init flag parameter", "no int parameter")
			return g
		}
		// candidate flags: constants the parameter is compared with
		cands := map[int64]bool{}
		comparedWith := map[int64]bool{}
		for _, b := range initFn.Blocks {
			for _, ins := range b.Instrs {
				if bo, ok := ins.(*ssa.BinOp); ok && bo.Op == token.EQL && bo.X == ssa.Value(flagP) {
					if k, ok := ssax.ConstInt(bo.Y); ok {
						cands[k] = true
						comparedWith[k] = true
					}
				}
			}
		}
		// (a table of start states indexed by the flag has no comparisons: try the declared context flags too)
		for _, role := range []string{"xss.flagData", "xss.flagNoQuote", "xss.flagSingle", "xss.flagDouble", "xss.flagBack"} {
			if name, ok := a.Consts[role]; ok {
				if v, ok := p.ConstInt(name); ok {
					cands[v] = true
				}
			}
		}
		for k := range cands {
			sc := ssax.RunSCCP(initFn, map[*ssa.Parameter]interface{}{flagP: k}, p.Pkg.TypesSizes)
			var targets []*ssa.Function
			stores := 0
			for _, b := range initFn.Blocks {
				if !sc.ExecBlock[b] {
					continue
				}
				for _, ins := range b.Instrs {
					if st, ok := ins.(*ssa.Store); ok && a.isField(st.Addr, "xss.state.state") {
						stores++
						if to := boundTarget(p, st.Val); to != nil {
							targets = append(targets, to)
						} else if to := localTableEntry(p, sc, st.Val); to != nil {
							targets = append(targets, to)
						}
					}
				}
			}
			if stores == 0 && !comparedWith[k] {
				continue // a declared flag this init neither compares nor indexes with: X2 reports the missing start state
			}
			if len(targets) == 1 {
				g.Starts[k] = targets[0]
			} else {
				r.Fail("G", core.QualName(initFn), fmt.Sprintf("start state for flag %d", k), p.Pos(initFn.Pos()), fmt.Sprintf("constant propagation finds %d stores of the start state for this flag", len(targets)))
			}
		}
	}
	return g
}

// reachable computes the nodes reachable from start, skipping `without`.
// withDeferred=false follows immediate edges only.
func (g *stateGraph) reachable(start *ssa.Function, without map[*ssa.Function]bool, withDeferred bool) map[*ssa.Function]bool {
	seen := map[*ssa.Function]bool{}
	var walk func(fn *ssa.Function)
	walk = func(fn *ssa.Function) {
		if seen[fn] || without[fn] || g.Nodes[fn] == nil {
			return
		}
		seen[fn] = true
		for _, e := range g.Nodes[fn].Out {
			if e.Deferred && !withDeferred {
				continue
			}
			walk(e.To)
		}
	}
	walk(start)
	return seen
}

// afterDeferred: nodes reachable from start through a path that contains at
// least one deferred edge (i.e. after at least one earlier call of next()).
func (g *stateGraph) afterDeferred(start *ssa.Function, without map[*ssa.Function]bool) map[*ssa.Function]bool {
	imm := g.reachable(start, without, false)
	out := map[*ssa.Function]bool{}
	for fn := range imm {
		for _, e := range g.Nodes[fn].Out {
			if e.Deferred && !without[e.To] {
				for m := range g.reachable(e.To, without, true) {
					out[m] = true
				}
			}
		}
	}
	return out
}

// stateBytes: the string field the tokenizer reads.
func (g *stateGraph) isStateString(v ssa.Value, depth int) bool {
	if depth > 6 {
		return false
	}
	switch x := v.(type) {
	case *ssa.UnOp:
		return g.a.loadsField(v, "xss.state.s")
	case *ssa.Slice:
		return g.isStateString(x.X, depth+1)
	case *ssa.Phi:
		for _, e := range x.Edges {
			if !g.isStateString(e, depth+1) {
				return false
			}
		}
		return true
	}
	return false
}

// onlyInputOrNot: can v equal k only if some input byte equals k?  (v is an
// input byte, a conversion of one, a constant ≠ k, or a call of a module
// function all of whose results are such.)
func (g *stateGraph) onlyInputOrNot(p *core.Program, v ssa.Value, k int64, depth int) bool {
	if depth > 8 {
		return false
	}
	if c, ok := ssax.ConstInt(v); ok {
		return c != k
	}
	switch x := v.(type) {
	case *ssa.Index:
		return g.isStateString(x.X, 0)
	case *ssa.Lookup:
		return g.isStateString(x.X, 0)
	case *ssa.Convert:
		return g.onlyInputOrNot(p, x.X, k, depth+1)
	case *ssa.ChangeType:
		return g.onlyInputOrNot(p, x.X, k, depth+1)
	case *ssa.Phi:
		for _, e := range x.Edges {
			if !g.onlyInputOrNot(p, e, k, depth+1) {
				return false
			}
		}
		return true
	case *ssa.Call:
		f := x.Common().StaticCallee()
		if f == nil || !p.InModule(f) || f.Blocks == nil {
			return false
		}
		for _, ret := range ssax.Returns(f) {
			if len(ret.Results) != 1 || !g.onlyInputOrNot(p, ret.Results[0], k, depth+1) {
				return false
			}
		}
		return true
	}
	return false
}

// factByteEquals: do the facts contain `b == k` (true) with b an input byte?
func (g *stateGraph) factByteEquals(p *core.Program, facts []ssax.Fact, k int64) bool {
	for _, f := range facts {
		bo, ok := f.Cond.(*ssa.BinOp)
		if !ok {
			continue
		}
		x, y := bo.X, bo.Y
		c, okc := ssax.ConstInt(y)
		if !okc {
			c, okc = ssax.ConstInt(x)
			x = y
		}
		if !okc || c != k {
			continue
		}
		if (bo.Op == token.EQL && f.True) || (bo.Op == token.NEQ && !f.True) {
			if g.onlyInputOrNot(p, x, k, 0) {
				return true
			}
		}
	}
	return false
}

// factFound: do the facts contain `IndexByte(stateString…, k) != -1`?
func (g *stateGraph) factFound(facts []ssax.Fact, k int64) bool {
	for _, f := range facts {
		bo, ok := f.Cond.(*ssa.BinOp)
		if !ok {
			continue
		}
		call, ok := bo.X.(*ssa.Call)
		if !ok {
			continue
		}
		fn := call.Common().StaticCallee()
		if fn == nil || fn.String() != "strings.IndexByte" {
			continue
		}
		args := call.Common().Args
		if !g.isStateString(args[0], 0) {
			continue
		}
		if c, ok := ssax.ConstInt(args[1]); !ok || c != k {
			continue
		}
		m, ok := ssax.ConstInt(bo.Y)
		if !ok {
			continue
		}
		if (bo.Op == token.EQL && m == -1 && !f.True) || (bo.Op == token.NEQ && m == -1 && f.True) || (bo.Op == token.GEQ && m == 0 && f.True) || (bo.Op == token.LSS && m == 0 && !f.True) {
			return true
		}
	}
	return false
}

func (g *stateGraph) describe(p *core.Program) map[string]interface{} {
	out := map[string]interface{}{}
	nEdges := 0
	for _, n := range g.sorted() {
		var outs []string
		for _, e := range n.Out {
			kind := "call"
			if e.Deferred {
				kind = "next"
			}
			outs = append(outs, kind+"→"+e.To.Name())
			nEdges++
		}
		var toks []int64
		for _, t := range n.Toks {
			toks = append(toks, t.Type)
		}
		out[n.Fn.Name()] = map[string]interface{}{"out": outs, "token_types": toks}
	}
	out["_edges"] = nEdges
	out["_nodes"] = len(g.Nodes)
	return out
}

// localTableEntry: v is a load of table[k] where table is a local array literal
// (written only at constant indices) and k is constant under the propagation sc;
// returns the state method stored at that index.
func localTableEntry(p *core.Program, sc *ssax.SCCP, v ssa.Value) *ssa.Function {
	if ct, ok := v.(*ssa.ChangeType); ok {
		v = ct.X
	}
	ld, ok := v.(*ssa.UnOp)
	if !ok || ld.Op != token.MUL {
		return nil
	}
	ia, ok := ld.X.(*ssa.IndexAddr)
	if !ok {
		return nil
	}
	base := ia.X
	if sl, isSl := base.(*ssa.Slice); isSl && sl.Low == nil && sl.High == nil {
		base = sl.X
	}
	al, ok := base.(*ssa.Alloc)
	if !ok {
		return nil
	}
	kv, known := sc.ValueOf(ia.Index)
	k, isInt := kv.(int64)
	if !known || !isInt {
		return nil
	}
	var found *ssa.Function
	n := 0
	for _, ref := range *al.Referrers() {
		wa, ok := ref.(*ssa.IndexAddr)
		if !ok || wa == ia {
			continue
		}
		wk, isConst := ssax.ConstInt(wa.Index)
		for _, r2 := range *wa.Referrers() {
			st, isStore := r2.(*ssa.Store)
			if !isStore || st.Addr != ssa.Value(wa) {
				continue
			}
			if !isConst {
				return nil // written at a variable index: not a table literal
			}
			if wk == k {
				n++
				found = boundTarget(p, st.Val)
			}
		}
	}
	if n != 1 {
		return nil
	}
	return found
}

// localTableFuncs: v is a load of a function-typed entry (or field of an entry) of a
// local array literal; returns every function stored in that column.
func localTableFuncs(p *core.Program, v ssa.Value) ([]*ssa.Function, bool) {
	root, path, ok := ssax.TableRead(v)
	if !ok {
		return nil, false
	}
	al, isAl := root.(*ssa.Alloc)
	if !isAl {
		return nil, false
	}
	vals, _, ok := ssax.LocalColumn(al, path)
	if !ok {
		return nil, false
	}
	var out []*ssa.Function
	for _, sv := range vals {
		f := boundTarget(p, sv)
		if f == nil {
			return nil, false
		}
		out = append(out, f)
	}
	return out, len(out) > 0
}

// isStatePtr: t is *T with T the tokenizer state type.
func isStatePtr(t types.Type, stName string) bool {
	pt, ok := t.Underlying().(*types.Pointer)
	if !ok {
		return false
	}
	n, ok := pt.Elem().(*types.Named)
	return ok && n.Obj().Name() == stName
}
