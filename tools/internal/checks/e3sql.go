package checks

import (
	"fmt"
	"os"
	"sort"
	"strings"
	"sync"
	"time"

	"golang.org/x/tools/go/ssa"

	"verif/tools/internal/absint"
)

// The SQL side is analysed as a set of roots connected by checked interface
// invariants (summary boundaries):
//
//   IsSQLi ─ check ─┬─ [sqliFingerprint]   pre: length=len(input)         post: tokens satisfy I2, len(fingerprint) ≤ 5 (proved in its own root)
//                   └─ blacklist / notWhitelist (inlined)
//   sqliFingerprint ─ fold ─ [tokenize]    pre: scanner interface          post: 0 ≤ pos ≤ length, *current satisfies I2
//   tokenize ─ [dispatch]                  pre: interface ∧ pos < length   post: pos+1 ≤ ret ≤ length, *current satisfies I2
//   each dispatch target                   entry: interface ∧ pos < length ∧ input[pos] ∈ D⁻¹(target)
//
// Every pre is an obligation at the call site; every post is an obligation at
// the returns of the summarised function's own root.

type e3Run struct {
	name  string
	eng   *absint.Engine
	dur   time.Duration
	level int // 0: K as configured; n: K·2ⁿ was needed
}

type rootCtx struct {
	S    absint.PtrV
	In   absint.StrV
	Pos0 absint.Lin
	Cur  absint.PtrV
}

type sqlRoots struct {
	env  *e3Env
	runs []*e3Run
	mu   sync.Mutex
	ctx  map[string]*rootCtx
	peel bool // peel loops in the lexer roots
	lc   loopClass
}

func (sr *sqlRoots) loops() *loopClass { return &sr.lc }

func (sr *sqlRoots) setCtx(name string, c *rootCtx) {
	sr.mu.Lock()
	if sr.ctx == nil {
		sr.ctx = map[string]*rootCtx{}
	}
	sr.ctx[name] = c
	sr.mu.Unlock()
}

func (sr *sqlRoots) getCtx(name string) *rootCtx {
	sr.mu.Lock()
	defer sr.mu.Unlock()
	return sr.ctx[name]
}

func (sr *sqlRoots) field(role string) string { return sr.env.a.Fields[role] }

// scannerPre checks the scanner interface invariant at a boundary.
func (sr *sqlRoots) scannerPre(e *absint.Engine, st *absint.State, fr *absint.Frame, call *ssa.Call, S absint.PtrV, needPosLT bool, what string) {
	in, ok1 := e.CellOf(st, S, sr.field("sql.state.input"))
	ln, ok2 := e.CellOf(st, S, sr.field("sql.state.length"))
	ps, ok3 := e.CellOf(st, S, sr.field("sql.state.pos"))
	cu, ok4 := e.CellOf(st, S, sr.field("sql.state.current"))
	inS, okS := in.(absint.StrV)
	lnI, okL := ln.(absint.IntV)
	psI, okP := ps.(absint.IntV)
	good := ok1 && ok2 && ok3 && okS && okL && okP && e.ProveEQ(st, lnI.L, absint.StrLenOf(inS)) && e.ProveLE(st, absint.K(0), psI.L) && e.ProveLE(st, psI.L, lnI.L)
	why := "cannot show length = len(input) ∧ 0 ≤ pos ≤ length"
	if good && needPosLT && !e.ProveLE(st, psI.L.AddK(1), lnI.L) {
		good, why = false, "cannot show pos < length at the dispatch"
	}
	if good {
		cp, isPtr := cu.(absint.PtrV)
		if !ok4 || !isPtr || cp.Arr == "" || !e.ProveLE(st, absint.K(0), cp.Idx) || !e.ProveLE(st, cp.Idx, absint.K(7)) {
			good, why = false, "cannot show current = &tokenVec[k] with 0 ≤ k ≤ 7"
		}
	}
	e.Check(st, fr, call.Pos(), "I-pre", what, good, why)
}

// havocScan forgets what a scan step may change: *current, pos, the counters.
func (sr *sqlRoots) havocScan(e *absint.Engine, st *absint.State, S absint.PtrV) {
	if cu, ok := e.CellOf(st, S, sr.field("sql.state.current")); ok {
		if cp, ok := cu.(absint.PtrV); ok {
			e.HavocPrefix(st, cp.Arr+"[")
		}
	} else {
		e.HavocPrefix(st, S.Key+"."+sr.field("sql.state.tokens")+"[")
	}
	for _, f := range []string{"sql.state.pos", "sql.state.statsDDX", "sql.state.statsHash", "sql.state.statsTokens"} {
		e.Havoc(st, S, sr.field(f))
	}
}

func (sr *sqlRoots) config(hooks absint.Hooks) absint.Config {
	cfg := sr.env.config()
	cfg.Hooks = hooks
	return cfg
}

// tokenizeSummary: used while analysing fold.
func (sr *sqlRoots) tokenizeSummary(e *absint.Engine, st *absint.State, fr *absint.Frame, call *ssa.Call, callee *ssa.Function, args []absint.AVal) ([]*absint.State, bool) {
	S, ok := args[0].(absint.PtrV)
	if !ok {
		return nil, false
	}
	sr.scannerPre(e, st, fr, call, S, false, "scanner interface at call of "+callee.Name())
	ln, _ := e.CellOf(st, S, sr.field("sql.state.length"))
	ps, _ := e.CellOf(st, S, sr.field("sql.state.pos"))
	sr.havocScan(e, st, S)
	// post (proved at the returns of tokenize's own root): pos@entry ≤ pos' ≤ length,
	// and a `true` result means at least one byte was consumed
	mk := func(s2 *absint.State, result bool) *absint.State {
		pos := e.NewInt(s2, "pos'")
		if p, ok := ps.(absint.IntV); ok {
			if result {
				e.AssumeLE(s2, p.L.AddK(1), pos)
			} else {
				e.AssumeLE(s2, p.L, pos)
			}
		}
		e.AssumeLE(s2, absint.K(0), pos)
		if l, ok := ln.(absint.IntV); ok {
			e.AssumeLE(s2, pos, l.L)
		}
		e.SetCell(s2, S, sr.field("sql.state.pos"), absint.IntV{L: pos})
		known := 2
		if result {
			known = 1
		}
		e.SetResult(s2, fr, call, absint.BoolV{Known: known})
		return s2
	}
	s2 := st.Clone()
	return []*absint.State{mk(st, true), mk(s2, false)}, true
}

// dispatchSummary: used while analysing tokenize.
func (sr *sqlRoots) dispatchSummary(e *absint.Engine, st *absint.State, fr *absint.Frame, call *ssa.Call, callee *ssa.Function, args []absint.AVal) ([]*absint.State, bool) {
	S, ok := args[0].(absint.PtrV)
	if !ok {
		return nil, false
	}
	sr.scannerPre(e, st, fr, call, S, true, "scanner interface at the lexer dispatch")
	ps, _ := e.CellOf(st, S, sr.field("sql.state.pos"))
	ln, _ := e.CellOf(st, S, sr.field("sql.state.length"))
	// the dispatched byte must be input[pos]
	if bv, ok := args[1].(absint.ByteV); ok {
		in, _ := e.CellOf(st, S, sr.field("sql.state.input"))
		inS, _ := in.(absint.StrV)
		psI, _ := ps.(absint.IntV)
		e.Check(st, fr, call.Pos(), "I-pre", "dispatched byte is input[pos]", bv.Root == inS.Root && bv.Tab == nil && e.ProveEQ(st, bv.Idx, inS.Lo.Add(psI.L)), "the byte used for dispatch is not the byte under the cursor")
	} else {
		e.Check(st, fr, call.Pos(), "I-pre", "dispatched byte is input[pos]", false, "dispatch argument is not an input byte")
	}
	sr.havocScan(e, st, S)
	ret := e.NewInt(st, "ret'")
	if p, ok := ps.(absint.IntV); ok {
		e.AssumeLE(st, p.L.AddK(1), ret)
	}
	if l, ok := ln.(absint.IntV); ok {
		e.AssumeLE(st, ret, l.L)
	}
	e.SetResult(st, fr, call, absint.IntV{L: ret})
	return []*absint.State{st}, true
}

// pureSummary: small helpers analysed in their own roots (generic receiver
// satisfying the declared token invariant).  At call sites the result is
// unknown; `havocArg` ≥ 0 names a token argument the helper may rewrite.
func (sr *sqlRoots) pureSummary(havocArg int) absint.Summary {
	return func(e *absint.Engine, st *absint.State, fr *absint.Frame, call *ssa.Call, callee *ssa.Function, args []absint.AVal) ([]*absint.State, bool) {
		if havocArg >= 0 && havocArg < len(args) {
			if p, ok := args[havocArg].(absint.PtrV); ok {
				e.HavocObject(st, p)
			} else {
				return nil, false
			}
		}
		e.SetResult(st, fr, call, e.FreshOfType(st, call.Type(), callee.Name()))
		return []*absint.State{st}, true
	}
}

// helperSummaries: used by the fold/pass root.
func (sr *sqlRoots) helperSummaries(cfg *absint.Config) []*ssa.Function {
	a := sr.env.a
	var fns []*ssa.Function
	for role, havoc := range map[string]int{"sql.isUnaryOp": -1, "sql.isArithmeticOp": -1, "sql.toUpperCmp": -1, "sql.merge": 1} {
		if fn := a.FnOpt(role); fn != nil {
			cfg.Summaries[fn] = sr.pureSummary(havoc)
			fns = append(fns, fn)
		}
	}
	sort.Slice(fns, func(i, j int) bool { return fns[i].Name() < fns[j].Name() })
	return fns
}

// run executes one root in its own engine.
func (sr *sqlRoots) run(name string, cfg absint.Config, fn *ssa.Function, setup func(e *absint.Engine, st *absint.State, fr *absint.Frame)) *e3Run {
	if only := os.Getenv("VERIF_ROOTS"); only != "" && !strings.Contains(","+only+",", ","+name+",") {
		return nil
	}
	if os.Getenv("VERIF_TRACE") != "" {
		cfg.Trace = true
	}
	defer func(t time.Time) {
		if os.Getenv("VERIF_PROGRESS") != "" {
			fmt.Fprintf(os.Stderr, "root %s done in %v\n", name, time.Since(t))
		}
	}(time.Now())
	t0 := time.Now()
	e, level := sr.env.runEscalating(cfg, fn, setup)
	r := &e3Run{name: name, eng: e, dur: time.Since(t0), level: level}
	sr.mu.Lock()
	sr.runs = append(sr.runs, r)
	sr.mu.Unlock()
	return r
}

// stepPost: obligations at the returns of a dispatch target / of tokenize.
func (sr *sqlRoots) lexerReturnHook(root *ssa.Function, pos0 absint.Lin, length absint.Lin) func(e *absint.Engine, st *absint.State, fr *absint.Frame, ret *ssa.Return, val absint.AVal) {
	return func(e *absint.Engine, st *absint.State, fr *absint.Frame, ret *ssa.Return, val absint.AVal) {
		if fr.Fn() != root || fr.Depth() != 0 {
			return
		}
		iv, ok := val.(absint.IntV)
		good := ok && e.ProveLE(st, pos0.AddK(1), iv.L)
		if !good && os.Getenv("VERIF_DBGPSTEP") == root.Name() && e.Logging() && e.Feasible(st) {
			fmt.Fprintf(os.Stderr, "PSTEP %s ret=%s\n", retLabel(ret), e.ValStr(val))
			e.DumpCons(st, os.Stderr)
			for _, bf := range e.ByteFacts(st, -999) {
				_ = bf
			}
			e.DumpMasks(st, os.Stderr)
		}
		e.Check(st, fr, ret.Pos(), "P-step", "lexer consumes ≥ 1 byte: "+retLabel(ret), good, "cannot show ret ≥ pos@entry + 1: a scan step that consumes nothing never terminates")
		good = ok && e.ProveLE(st, iv.L, length)
		e.Check(st, fr, ret.Pos(), "P-step", "lexer stays inside the input: "+retLabel(ret), good, "cannot show ret ≤ length")
	}
}

// runAll analyses every SQL root (in parallel) and returns the engines.
func (sr *sqlRoots) runAll(extra func(name string, hooks *absint.Hooks)) {
	env := sr.env
	a := env.a
	tokenize := a.Fn("sql.tokenize")
	dispatchFn := a.Fn("sql.dispatch")
	pass := a.Fn("sql.pass")
	root := a.Fn("sql.root")
	if tokenize == nil || dispatchFn == nil || pass == nil || root == nil || env.disp == nil {
		return
	}
	var wg sync.WaitGroup
	sem := make(chan struct{}, 14)
	launch := func(f func()) {
		wg.Add(1)
		go func() {
			sem <- struct{}{}
			defer func() { <-sem; wg.Done() }()
			f()
		}()
	}
	// ---- dispatch targets
	groups := map[*ssa.Function][]int{}
	for b, f := range env.disp.Table {
		groups[f] = append(groups[f], b)
	}
	var targets []*ssa.Function
	for f := range groups {
		if f != nil {
			targets = append(targets, f)
		}
	}
	sort.Slice(targets, func(i, j int) bool { return targets[i].Name() < targets[j].Name() })
	for _, tgt := range targets {
		tgt := tgt
		launch(func() {
			var pos0, length absint.Lin
			hooks := absint.Hooks{}
			cfg := sr.config(hooks)
			cfg.Peel = sr.peel
			name := "lexer:" + tgt.Name()
			setup := func(e *absint.Engine, st *absint.State, fr *absint.Frame) {
				S, in := env.sqlStateSetup(e, st, fr, tgt.Params[0])
				ps, _ := e.CellOf(st, S, sr.field("sql.state.pos"))
				pos0 = ps.(absint.IntV).L
				length = absint.StrLenOf(in)
				e.AssumeLE(st, pos0.AddK(1), length)
				var m absint.Mask
				for _, b := range groups[tgt] {
					m[b>>6] |= 1 << (uint(b) & 63)
				}
				e.SetMask(st, absint.ByteV{Root: in.Root, Idx: in.Lo.Add(pos0)}, m)
				cu, _ := e.CellOf(st, S, sr.field("sql.state.current"))
				cp, _ := cu.(absint.PtrV)
				e.MarkFresh(st, cp, []string{sr.field("sql.token.pos"), sr.field("sql.token.len"), sr.field("sql.token.category")})
				sr.setCtx(name, &rootCtx{S: S, In: in, Pos0: pos0, Cur: cp})
			}
			cfg.Hooks.OnReturn = func(e *absint.Engine, st *absint.State, fr *absint.Frame, ret *ssa.Return, val absint.AVal) {
				sr.lexerReturnHook(tgt, pos0, length)(e, st, fr, ret, val)
			}
			if extra != nil {
				extra(name, &cfg.Hooks)
			}
			sr.run(name, cfg, tgt, setup)
		})
	}
	// ---- tokenize with the dispatch summarised
	launch(func() {
		cfg := sr.config(absint.Hooks{})
		cfg.Summaries[dispatchFn] = sr.dispatchSummary
		var S absint.PtrV
		var pos0, length absint.Lin
		cfg.Hooks.OnReturn = func(e *absint.Engine, st *absint.State, fr *absint.Frame, ret *ssa.Return, val absint.AVal) {
			if fr.Fn() != tokenize || fr.Depth() != 0 {
				return
			}
			where := retLabel(ret)
			ps, ok := e.CellOf(st, S, sr.field("sql.state.pos"))
			pi, okI := ps.(absint.IntV)
			b, _ := val.(absint.BoolV)
			e.Check(st, fr, ret.Pos(), "I-post", "pos@entry ≤ pos ≤ length at "+where, ok && okI && e.ProveLE(st, pos0, pi.L) && e.ProveLE(st, pi.L, length), "tokenize may move the cursor backwards or past the end")
			if b.Known != 2 {
				e.Check(st, fr, ret.Pos(), "I-post", "a token was produced ⇒ ≥ 1 byte consumed at "+where, ok && okI && e.ProveLE(st, pos0.AddK(1), pi.L), "tokenize can report a token without consuming input: the folding loops would not terminate")
			}
		}
		if extra != nil {
			extra("tokenize", &cfg.Hooks)
		}
		sr.run("tokenize", cfg, tokenize, func(e *absint.Engine, st *absint.State, fr *absint.Frame) {
			var in absint.StrV
			S, in = env.sqlStateSetup(e, st, fr, tokenize.Params[0])
			ps, _ := e.CellOf(st, S, sr.field("sql.state.pos"))
			pos0 = ps.(absint.IntV).L
			length = absint.StrLenOf(in)
			cu, _ := e.CellOf(st, S, sr.field("sql.state.current"))
			cp, _ := cu.(absint.PtrV)
			sr.setCtx("tokenize", &rootCtx{S: S, In: in, Pos0: pos0, Cur: cp})
		})
	})
	// ---- the folding loop with tokenize and the small helpers summarised
	fold := a.Fn("sql.fold")
	launch(func() {
		cfg := sr.config(absint.Hooks{})
		cfg.Summaries[tokenize] = sr.tokenizeSummary
		sr.helperSummaries(&cfg)
		cfg.Hooks.OnReturn = func(e *absint.Engine, st *absint.State, fr *absint.Frame, ret *ssa.Return, val absint.AVal) {
			if fr.Fn() != fold || fr.Depth() != 0 {
				return
			}
			iv, ok := val.(absint.IntV)
			e.Check(st, fr, ret.Pos(), "I-post", "fold result within [0, maxTokens+1]: "+retLabel(ret), ok && e.ProveLE(st, absint.K(0), iv.L) && e.ProveLE(st, iv.L, absint.K(int64(sr.maxFingerprint()+1))), "cannot bound the number of folded tokens")
		}
		if extra != nil {
			extra("fold", &cfg.Hooks)
		}
		sr.run("fold", cfg, fold, func(e *absint.Engine, st *absint.State, fr *absint.Frame) {
			env.sqlStateSetup(e, st, fr, fold.Params[0])
		})
	})
	// ---- one parsing pass (reset + fingerprint) with fold summarised
	launch(func() {
		cfg := sr.config(absint.Hooks{})
		cfg.Summaries[tokenize] = sr.tokenizeSummary
		cfg.Summaries[fold] = sr.foldSummary
		sr.helperSummaries(&cfg)
		if extra != nil {
			extra("pass", &cfg.Hooks)
		}
		sr.run("pass", cfg, pass, func(e *absint.Engine, st *absint.State, fr *absint.Frame) {
			S, _ := env.sqlStateSetup(e, st, fr, pass.Params[0])
			_ = S
			for _, prm := range pass.Params[1:] {
				e.Bind(st, fr, prm, absint.IntV{L: e.NewInt(st, prm.Name())})
			}
		})
	})
	// ---- helpers summarised in the pass root, each from a generic entry
	{
		tmp := sr.config(absint.Hooks{})
		for _, h := range sr.helperSummaries(&tmp) {
			h := h
			launch(func() {
				cfg := sr.config(absint.Hooks{})
				if extra != nil {
					extra("helper:"+h.Name(), &cfg.Hooks)
				}
				sr.run("helper:"+h.Name(), cfg, h, func(e *absint.Engine, st *absint.State, fr *absint.Frame) {
					env.genericSetup(e, st, fr, h)
				})
			})
		}
	}
	// ---- the API root with the pass summarised
	launch(func() {
		cfg := sr.config(absint.Hooks{})
		cfg.Summaries[pass] = sr.passSummary
		if extra != nil {
			extra("api", &cfg.Hooks)
		}
		sr.run("api", cfg, root, func(e *absint.Engine, st *absint.State, fr *absint.Frame) {
			e.Bind(st, fr, root.Params[0], e.NewInput(st, "INPUT"))
		})
	})
	wg.Wait()
	sort.Slice(sr.runs, func(i, j int) bool { return sr.runs[i].name < sr.runs[j].name })
}

// foldSummary: used while analysing one parsing pass.
func (sr *sqlRoots) foldSummary(e *absint.Engine, st *absint.State, fr *absint.Frame, call *ssa.Call, callee *ssa.Function, args []absint.AVal) ([]*absint.State, bool) {
	S, ok := args[0].(absint.PtrV)
	if !ok {
		return nil, false
	}
	sr.scannerPre(e, st, fr, call, S, false, "scanner interface at call of "+callee.Name())
	ln, _ := e.CellOf(st, S, sr.field("sql.state.length"))
	e.HavocPrefix(st, S.Key+"."+sr.field("sql.state.tokens")+"[")
	for _, f := range []string{"sql.state.pos", "sql.state.current", "sql.state.statsDDX", "sql.state.statsHash", "sql.state.statsTokens", "sql.state.statsFolds"} {
		e.Havoc(st, S, sr.field(f))
	}
	pos := e.NewInt(st, "pos'")
	e.AssumeLE(st, absint.K(0), pos)
	if l, ok := ln.(absint.IntV); ok {
		e.AssumeLE(st, pos, l.L)
	}
	e.SetCell(st, S, sr.field("sql.state.pos"), absint.IntV{L: pos})
	ret := e.NewInt(st, "folded'")
	e.AssumeLE(st, absint.K(0), ret)
	e.AssumeLE(st, ret, absint.K(int64(sr.maxFingerprint()+1)))
	e.SetResult(st, fr, call, absint.IntV{L: ret})
	return []*absint.State{st}, true
}

// passSummary: used while analysing check(): one parsing pass re-tokenizes.
func (sr *sqlRoots) passSummary(e *absint.Engine, st *absint.State, fr *absint.Frame, call *ssa.Call, callee *ssa.Function, args []absint.AVal) ([]*absint.State, bool) {
	S, ok := args[0].(absint.PtrV)
	if !ok {
		return nil, false
	}
	in, ok1 := e.CellOf(st, S, sr.field("sql.state.input"))
	ln, ok2 := e.CellOf(st, S, sr.field("sql.state.length"))
	inS, okS := in.(absint.StrV)
	lnI, okL := ln.(absint.IntV)
	e.Check(st, fr, call.Pos(), "I-pre", "length = len(input) at call of "+callee.Name(), ok1 && ok2 && okS && okL && e.ProveEQ(st, lnI.L, absint.StrLenOf(inS)), "cannot show length = len(input) before a parsing pass")
	// everything but input/length is rewritten by the pass
	e.HavocPrefix(st, S.Key+"."+sr.field("sql.state.tokens"))
	for _, f := range []string{"sql.state.pos", "sql.state.flags", "sql.state.current", "sql.state.fingerprint", "sql.state.statsDDX", "sql.state.statsHash", "sql.state.statsTokens", "sql.state.statsFolds"} {
		e.Havoc(st, S, sr.field(f))
	}
	fp := e.NewInput(st, "fingerprint'")
	e.SetCell(st, S, sr.field("sql.state.fingerprint"), fp)
	e.SetResult(st, fr, call, fp)
	return []*absint.State{st}, true
}

func (sr *sqlRoots) maxFingerprint() int {
	if v, ok := sr.env.p.ConstInt(sr.env.a.Consts["sql.maxTokens"]); ok {
		return int(v)
	}
	return 5
}

func (sr *sqlRoots) describe() []string {
	var out []string
	for _, r := range sr.runs {
		n, bad := 0, 0
		for _, o := range r.eng.Obs {
			n++
			if o.Bad > 0 {
				bad++
			}
		}
		if os.Getenv("VERIF_LPTAGS") != "" {
			out = append(out, fmt.Sprintf("   tags %s: %v", r.name, r.eng.LP.ByTag))
		}
		out = append(out, fmt.Sprintf("%s: %d obligations, %d undischarged, %d inlinings, %d LPs (avg %d cons, max %d), %.1fs%s", r.name, n, bad, r.eng.Inlined, r.eng.LP.Calls, r.eng.LP.SumCons/(r.eng.LP.Calls+1), r.eng.LP.MaxCons, r.dur.Seconds(), levelNote(r.level)))
	}
	return out
}
