package checks

import (
	"fmt"
	"go/token"
	"go/types"
	"os"
	"sort"
	"strings"
	"sync"

	"golang.org/x/tools/go/ssa"

	"verif/tools/internal/absint"
	"verif/tools/internal/core"
	"verif/tools/internal/ssax"
)

func init() { register("C18", "other", checkC18) }

var ghostTok = absint.ObjPtr("GHOST:lastAssign", nil)

// ohitHooks adds the search-result consistency obligations to the lexer roots:
//
//	O-hit  every search hit of this step lies behind the returned cursor
//	       (ret ≥ hit + len(needle)): nothing of a terminator is re-tokenized;
//	O-str  a string token ends exactly at an accepted hit and scanning resumes
//	       right after the needle; with no hit it runs to end of input, unclosed.
func ohitHooks(sr *sqlRoots, name string, hooks *absint.Hooks) {
	lc := sr.loops()
	env := sr.env
	a := env.a
	assign := a.Fn("sql.assign")
	strClass := int64(classString)
	prevBefore, prevRet := hooks.BeforeCall, hooks.OnReturn
	if !strings.HasPrefix(name, "lexer:") {
		return
	}
	hooks.BeforeCall = func(e *absint.Engine, st *absint.State, fr *absint.Frame, call *ssa.Call, callee *ssa.Function, args []absint.AVal) {
		if prevBefore != nil {
			prevBefore(e, st, fr, call, callee, args)
		}
		if callee != assign || len(args) != 5 {
			return
		}
		// remember what was handed to the last assign of this step
		if P, ok := e.AsInt(st, args[2]); ok {
			e.SetCell(st, ghostTok, "P", absint.IntV{L: P})
		}
		if L, ok := e.AsInt(st, args[3]); ok {
			e.SetCell(st, ghostTok, "L", absint.IntV{L: L})
		}
		if c, ok := absint.ConstOf(args[1]); ok {
			e.SetCell(st, ghostTok, "class", absint.IntV{L: absint.K(c)})
		} else {
			e.Havoc(st, ghostTok, "class")
		}
	}
	prevT := hooks.Templates
	hooks.Templates = func(e *absint.Engine, j *absint.State, jfr *absint.Frame) []absint.Lin {
		var out []absint.Lin
		if prevT != nil {
			out = prevT(e, j, jfr)
		}
		rc := sr.getCtx(name)
		if rc == nil {
			return out
		}
		both := func(l absint.Lin) { out = append(out, l, l.Neg()) }
		length := absint.StrLenOf(rc.In)
		var end absint.Lin
		haveEnd := false
		if pc, ok := e.CellOf(j, ghostTok, "P"); ok {
			if lc, ok2 := e.CellOf(j, ghostTok, "L"); ok2 {
				pi, isP := pc.(absint.IntV)
				li, isL := lc.(absint.IntV)
				if isP && isL {
					end, haveEnd = pi.L.Add(li.L), true
					both(end.Sub(length))
					if fc, ok3 := e.CellOf(j, ghostTok, "first"); ok3 {
						if fi, isI := fc.(absint.IntV); isI {
							both(fi.L.Sub(pi.L))
						}
					}
				}
			}
		}
		var ret absint.Lin
		haveRet := false
		if rv, has := e.PendingRet(j, jfr); has {
			if iv, isI := rv.(absint.IntV); isI {
				ret, haveRet = iv.L, true
				both(ret.Sub(length))
			}
		}
		for _, h := range e.Hits(j) {
			if h.Hay.Const != nil || h.Hay.Root != rc.In.Root {
				continue
			}
			hpos := h.Hay.Lo.Sub(rc.In.Lo).Add(absint.SymLin(h.R))
			out = append(out, absint.SymLin(h.R).Neg(), absint.SymLin(h.R).AddK(1)) // r ≥ 0 / r ≤ -1
			if haveEnd {
				both(end.Sub(hpos))
			}
			if haveRet {
				both(ret.Sub(hpos).Sub(h.Needle))
				out = append(out, hpos.Add(h.Needle).Sub(ret))
			}
		}
		return out
	}
	prevSearch, prevEdge := hooks.OnSearch, hooks.OnHeadEdge
	var smu sync.Mutex
	searchCalls := map[int64]*ssa.Call{}
	hooks.OnSearch = func(e *absint.Engine, st *absint.State, fr *absint.Frame, call *ssa.Call, prev *absint.Hit, cur absint.Hit) {
		if prevSearch != nil {
			prevSearch(e, st, fr, call, prev, cur)
		}
		rc := sr.getCtx(name)
		if rc == nil || cur.Hay.Const != nil || cur.Hay.Root != rc.In.Root {
			return
		}
		smu.Lock()
		searchCalls[int64(call.Pos())] = call
		smu.Unlock()
		lo := cur.Hay.Lo.Sub(rc.In.Lo)
		r := absint.SymLin(cur.R)
		// the candidate this search produced, for the back edge that may reject it
		e.SetCell(st, ghostTok, "searchFrame", absint.IntV{L: absint.K(int64(fr.ID()))})
		e.SetCell(st, ghostTok, "searchOrg", absint.IntV{L: absint.K(int64(call.Pos()))})
		e.SetCell(st, ghostTok, "cand", absint.IntV{L: lo.Add(r)})
		e.SetCell(st, ghostTok, "candR", absint.IntV{L: r})
		if lc.inLoop(call) == nil {
			// a search outside any loop is its own first search
			e.SetCell(st, ghostTok, "first", absint.IntV{L: lo})
		}
	}
	hooks.OnHeadEdge = func(e *absint.Engine, st *absint.State, fr *absint.Frame, from, head *ssa.BasicBlock, back bool) {
		if prevEdge != nil {
			prevEdge(e, st, fr, from, head, back)
		}
		rc := sr.getCtx(name)
		if rc == nil {
			return
		}
		// the terminator searches inside this loop
		for _, b := range fr.Fn().Blocks {
			for _, ins := range b.Instrs {
				call, ok := ins.(*ssa.Call)
				if !ok {
					continue
				}
				cal := call.Call.StaticCallee()
				if cal == nil || (cal.String() != "strings.IndexByte" && cal.String() != "strings.Index") {
					continue
				}
				l := lc.inLoop(call)
				if l == nil || l.Head != head {
					continue
				}
				next, okN := nextHaystackLo(e, st, fr, call, from, head, rc.In)
				what := core.Short(ssax.Canon(call))
				if !back {
					// entering the loop: where the first search will start
					if okN {
						e.SetCell(st, ghostTok, "first", absint.IntV{L: next})
					} else {
						e.Havoc(st, ghostTok, "first")
					}
					continue
				}
				// round the loop: the candidate of this iteration was rejected
				fc, ok1 := e.CellOf(st, ghostTok, "searchFrame")
				oc, ok2 := e.CellOf(st, ghostTok, "searchOrg")
				cc, ok3 := e.CellOf(st, ghostTok, "cand")
				rr, ok4 := e.CellOf(st, ghostTok, "candR")
				f, isF := absint.ConstOf(fc)
				o, isO := absint.ConstOf(oc)
				if !ok1 || !ok2 || !ok3 || !ok4 || !isF || !isO || f != int64(fr.ID()) || o != int64(call.Pos()) {
					continue // this iteration did not execute the search
				}
				cand, candR := cc.(absint.IntV).L, rr.(absint.IntV).L
				okR := okN && e.ProveLE(st, absint.K(0), candR)
				why := ""
				switch {
				case !okN:
					why = "cannot determine where the next search starts: undecided"
				case !okR:
					why = "the loop goes round although the search may have found nothing"
				case e.ProveEQ(st, next, cand.AddK(1)):
				case e.ProveEQ(st, next, cand.AddK(2)):
					m := e.MaskOf(st, absint.ByteV{Root: rc.In.Root, Idx: rc.In.Lo.Add(cand).AddK(1)})
					var hm absint.Mask
					for _, h := range e.Hits(st) {
						if h.Org == ssa.Instruction(call) {
							hm = h.Mask
						}
					}
					disjoint := true
					for b := 0; b < 256; b++ {
						if m.Has(b) && hm.Has(b) {
							disjoint = false
						}
					}
					if !(m.SubsetOf(hm) && !hm.IsFull()) && !disjoint {
						okR = false
						why = fmt.Sprintf("after the rejected candidate at %s the search resumes at candidate + 2: the byte behind the candidate is skipped although it may itself begin the terminator (it is neither known to be the delimiter — a doubled delimiter — nor known not to be)", e.LinStr(cand))
					}
				default:
					okR = false
					why = fmt.Sprintf("after the rejected candidate at %s the next search starts at %s, neither candidate + 1 nor candidate + 2: a terminator in between is skipped, or the same candidate is found again", e.LinStr(cand), e.LinStr(next))
				}
				e.Check(st, fr, call.Pos(), "O-resume", "the terminator search resumes right behind a rejected candidate: "+what, okR, why)
			}
		}
	}
	hooks.OnReturn = func(e *absint.Engine, st *absint.State, fr *absint.Frame, ret *ssa.Return, val absint.AVal) {
		if prevRet != nil {
			prevRet(e, st, fr, ret, val)
		}
		rc := sr.getCtx(name)
		if fr.Depth() != 0 || rc == nil {
			return
		}
		rv, okR := val.(absint.IntV)
		if os.Getenv("VERIF_DBGOHIT") == name {
			cls, okc := e.CellOf(st, ghostTok, "class")
			pc, _ := e.CellOf(st, ghostTok, "P")
			lc, _ := e.CellOf(st, ghostTok, "L")
			fmt.Fprintf(os.Stderr, "OHIT %s ret=%v hits=%d class=%v(%v) P=%v L=%v\n", name, e.ValStr(val), len(e.Hits(st)), cls, okc, e.ValStr(pc), e.ValStr(lc))
			if os.Getenv("VERIF_DBGCONS") != "" {
				e.DumpCons(st, os.Stderr)
			}
		}
		if !okR {
			return
		}
		where := retLabel(ret)
		length := absint.StrLenOf(rc.In)
		// hits found in this step
		type hp struct {
			pos, nlen absint.Lin
		}
		var found []hp
		anyMaybe := false
		for _, h := range e.Hits(st) {
			if h.Hay.Const != nil || h.Hay.Root != rc.In.Root {
				continue
			}
			r := absint.SymLin(h.R)
			if e.ProveLE(st, absint.K(0), r) {
				found = append(found, hp{h.Hay.Lo.Sub(rc.In.Lo).Add(r), h.Needle})
			} else if !e.ProveLE(st, r, absint.K(-1)) {
				anyMaybe = true
			}
		}
		for _, h := range found {
			e.Check(st, fr, ret.Pos(), "O-hit", "every search hit lies behind the returned cursor at "+where, e.ProveLE(st, h.pos.Add(h.nlen), rv.L), fmt.Sprintf("a terminator found at %s (length %s) is not consumed: cursor %s — the rest of the construct would be tokenized again", e.LinStr(h.pos), e.LinStr(h.nlen), e.LinStr(rv.L)))
		}
		// string tokens
		cls, okc := e.CellOf(st, ghostTok, "class")
		pc, okp := e.CellOf(st, ghostTok, "P")
		lc, okl := e.CellOf(st, ghostTok, "L")
		if !okc || !okp || !okl {
			return
		}
		if k, ok := absint.ConstOf(cls); !ok || k != strClass {
			return
		}
		P, L := pc.(absint.IntV).L, lc.(absint.IntV).L
		end := P.Add(L)
		if fc, ok := e.CellOf(st, ghostTok, "first"); ok {
			if fi, isI := fc.(absint.IntV); isI {
				e.Check(st, fr, ret.Pos(), "O-first", "the terminator search starts where the literal's content starts at "+where, e.ProveEQ(st, fi.L, P), fmt.Sprintf("the first search starts at %s but the literal's content at %s: an early terminator is skipped, or the opener is searched", e.LinStr(fi.L), e.LinStr(P)))
			}
		}
		closed := false
		for _, h := range found {
			if e.ProveEQ(st, end, h.pos) {
				closed = true
				e.Check(st, fr, ret.Pos(), "O-str", "closed literal: scanning resumes right after the terminator at "+where, e.ProveEQ(st, rv.L, h.pos.Add(h.nlen)), fmt.Sprintf("literal ends at %s but the cursor becomes %s, not end + len(terminator)", e.LinStr(end), e.LinStr(rv.L)))
			}
		}
		if !closed {
			okEOF := e.ProveEQ(st, end, length) && e.ProveEQ(st, rv.L, length)
			why := "a string token that neither ends at a found terminator nor runs to the end of the input"
			if anyMaybe {
				why += " (a search result of unknown sign is live)"
			}
			e.Check(st, fr, ret.Pos(), "O-str", "literal ends at a found terminator or runs to end of input at "+where, okEOF, why)
			if okEOF {
				// unclosed: the close marker must be 0
				sc, ok := e.CellOf(st, rc.Cur, "strClose")
				z, isC := absint.ConstOf(sc)
				e.Check(st, fr, ret.Pos(), "O-str", "unclosed literal is marked unclosed at "+where, ok && isC && z == 0, "a literal that runs to end of input without terminator is not marked unclosed (strClose ≠ 0)")
			}
		} else {
			sc, ok := e.CellOf(st, rc.Cur, "strClose")
			z, isC := absint.ConstOf(sc)
			nonzero := ok && (!isC || z != 0)
			if ok && !isC {
				if bv, isB := sc.(absint.ByteV); isB {
					nonzero = !e.MaskOf(st, bv).Has(0)
				}
			}
			e.Check(st, fr, ret.Pos(), "O-str", "closed literal is marked closed at "+where, nonzero, "a terminated literal is marked unclosed")
		}
	}
}

// sconvRule (S-conv): no integer→string conversion of an input-derived byte
// (it UTF-8 encodes values ≥ 0x80, so a delimiter byte would never match).
func sconvRule(p *core.Program, r *core.Result, reach map[*ssa.Function]bool) int {
	n := 0
	var fromInput func(v ssa.Value, depth int) bool
	fromInput = func(v ssa.Value, depth int) bool {
		if depth > 10 {
			return false
		}
		switch x := v.(type) {
		case *ssa.Index:
			return isStringType(x.X.Type())
		case *ssa.Lookup:
			return isStringType(x.X.Type())
		case *ssa.Phi:
			for _, e := range x.Edges {
				if fromInput(e, depth+1) {
					return true
				}
			}
		case *ssa.Convert:
			return fromInput(x.X, depth+1)
		case *ssa.BinOp:
			return fromInput(x.X, depth+1) || fromInput(x.Y, depth+1)
		case *ssa.Parameter:
			return isIntType(x.Type()) && x.Type().Underlying().(*types.Basic).Kind() == types.Uint8
		}
		return false
	}
	for _, fn := range p.SourceFuncs(reach) {
		for _, b := range fn.Blocks {
			for _, ins := range b.Instrs {
				cv, ok := ins.(*ssa.Convert)
				if !ok || !isStringType(cv.Type()) || !isIntType(cv.X.Type()) {
					continue
				}
				if _, isConst := cv.X.(*ssa.Const); isConst {
					continue
				}
				n++
				expr := "string(" + core.Short(ssax.Canon(cv.X)) + ")"
				if fromInput(cv.X, 0) {
					r.Fail("S-conv", core.QualName(fn), expr, p.Pos(cv.Pos()), "an input byte is converted to a string as a rune: bytes ≥ 0x80 become two-byte UTF-8 sequences, so a search for this delimiter can never match")
				} else {
					r.OK("S-conv", core.QualName(fn), expr, p.Pos(cv.Pos()), "not derived from an input byte")
				}
			}
		}
	}
	return n
}

func checkC18(c *Ctx) *core.Result {
	p := c.P
	r := c.newResult()
	env := newE3Env(c, r)
	if len(r.Violations) > 0 {
		return r
	}
	a := env.a
	sr := &sqlRoots{env: env}
	sr.runAll(func(name string, hooks *absint.Hooks) { ohitHooks(sr, name, hooks) })
	residuals := loadResiduals(c, r)
	obs := mergeObs(sr.runs)
	own := map[string]bool{"O-hit": true, "O-str": true, "S-self": true, "O-resume": true, "O-first": true}
	n := emitObs(r, obs, residuals, "C18", func(o *absint.Ob) bool { return own[o.Rule] })
	if n < 25 {
		r.Fail("vacuity", "-", "string-literal obligations", "-", fmt.Sprintf("only %d obligations generated (expected ≥ 25)", n))
	}
	// every dispatch target that can emit a string token must have produced both the
	// closed and the unclosed obligations (a lexer whose string path went unseen fails)
	if assign := a.Fn("sql.assign"); assign != nil && env.disp != nil {
		strClass := int64(classString)
		seen := map[*ssa.Function]bool{}
		for _, tgt := range env.disp.Table {
			if tgt == nil || seen[tgt] {
				continue
			}
			seen[tgt] = true
			emits := false
			for fn := range p.ReachOf(tgt) {
				for _, b := range fn.Blocks {
					for _, ins := range b.Instrs {
						if call, ok := ins.(*ssa.Call); ok && call.Call.StaticCallee() == assign && len(call.Call.Args) >= 2 {
							if k, ok := call.Call.Args[1].(*ssa.Const); ok && k.Value != nil && k.Int64() == strClass && p.InModule(fn) {
								emits = true
							}
						}
					}
				}
			}
			if !emits {
				continue
			}
			var closed, unclosed bool
			for _, o := range obs {
				if o.Rule == "O-str" && o.Fn == tgt.Name() {
					closed = closed || strings.HasPrefix(o.Expr, "closed literal: scanning resumes")
					unclosed = unclosed || strings.HasPrefix(o.Expr, "unclosed literal is marked unclosed")
				}
			}
			if closed && unclosed {
				r.OK("vacuity", tgt.Name(), "string lexer analysed on its closed and its unclosed path", p.Pos(tgt.Pos()), "both O-str obligations present")
				continue
			}
			r.Fail("vacuity", tgt.Name(), "string lexer analysed on its closed and its unclosed path", p.Pos(tgt.Pos()), fmt.Sprintf("a lexer that can emit a string token produced no O-str obligation for closed=%v / unclosed=%v literals: the rule would pass vacuously", closed, unclosed))
		}
	}
	sconvRule(p, r, p.ReachFrom["IsSQLi"])
	// a positive fixture for the zero-instance S-conv rule is part of the selftest battery; here: the rule must have looked at the q-string needle
	if strCore := a.Fn("sql.stringCore"); strCore != nil {
		checkContentStartUniform(p, a, r, strCore)
		checkDelimiterUniform(p, r, strCore)
	}
	r.Extra["roots"] = sr.describe()
	r.Explanation = e3Explain + " C18 adds at the return of every lexer: O-hit (every search hit of the step — IndexByte/Index on the input — satisfies hit + len(needle) ≤ returned cursor), and for string tokens O-str (the literal ends exactly at a found terminator and the cursor becomes that position + len(needle), with strClose ≠ 0; or no terminator was found, the literal runs to end of input, the cursor is the length and strClose = 0). S-self: no strings.Index of a string for a substring of itself (finds the first copy, not the one at the known offset). S-conv: no string(byte) of an input-derived byte. K6: the string lexer depends on (pos, offset) only through pos+offset, so the real and the simulated opening quote are treated alike. K7: inside the string lexer (and the helpers it hands the delimiter to) the delimiter is only searched for, stored and compared with non-constant bytes - never tested against a constant, switched on or used as a table index - so backslash and doubled-delimiter handling cannot differ between ' \" and `. NOT decided: backslash parity and the doubled-delimiter rule themselves (which hits are rejected)."
	r.Trusted = []string{"go/ssa", "E3 transfer functions and library models (search results)", "in-checker simplex"}
	return r
}

// nextHaystackLo evaluates, on the edge from→head, where the haystack of the
// search call (inside the loop of head) will start in the coming iteration:
// the haystack is a string phi of the head, or a slice x[low:] whose low bound
// is linear in phis of the head and values computed before.
func nextHaystackLo(e *absint.Engine, st *absint.State, fr *absint.Frame, call *ssa.Call, from, head *ssa.BasicBlock, in absint.StrV) (absint.Lin, bool) {
	incoming := func(v ssa.Value) ssa.Value {
		if ph, ok := v.(*ssa.Phi); ok && ph.Block() == head {
			for i, p := range head.Preds {
				if p == from {
					return ph.Edges[i]
				}
			}
		}
		return v
	}
	strOf := func(v ssa.Value) (absint.StrV, bool) {
		sv, ok := e.Val(st, fr, incoming(v)).(absint.StrV)
		if !ok || sv.Const != nil || sv.Root != in.Root {
			return absint.StrV{}, false
		}
		return sv, true
	}
	arg := call.Call.Args[0]
	switch x := arg.(type) {
	case *ssa.Phi:
		if x.Block() != head {
			return absint.Lin{}, false
		}
		sv, ok := strOf(x)
		if !ok {
			return absint.Lin{}, false
		}
		return sv.Lo.Sub(in.Lo), true
	case *ssa.Slice:
		base, ok := strOf(x.X)
		if !ok {
			return absint.Lin{}, false
		}
		lo := base.Lo.Sub(in.Lo)
		if x.Low == nil {
			return lo, true
		}
		lf := linOf(x.Low, map[ssa.Value]*linForm{}, 0)
		lo = lo.AddK(lf.k)
		var leaves []ssa.Value
		for v := range lf.coef {
			leaves = append(leaves, v)
		}
		sort.Slice(leaves, func(i, j int) bool { return leaves[i].Name() < leaves[j].Name() })
		for _, v := range leaves {
			iv, ok := e.AsInt(st, e.Val(st, fr, incoming(v)))
			if !ok {
				return absint.Lin{}, false
			}
			lo = lo.Add(iv.Scale(lf.coef[v]))
		}
		return lo, true
	}
	return absint.Lin{}, false
}

// checkDelimiterUniform (K7): the string lexer core treats the three quote
// characters alike.  Its delimiter parameter (the one byte-typed parameter) may
// be used as the needle of a library search, stored into the token, compared
// with a byte that is not a constant (the doubled-delimiter test) and handed
// to helpers under the same rule; a comparison of the delimiter with a
// constant, a switch on it, arithmetic on it or a table indexed by it makes
// the escape rules ("not preceded by an odd number of backslashes, not
// doubled") depend on which quote character opened the literal.  Necessary
// condition of the statement's "any of ' \" `".
func checkDelimiterUniform(p *core.Program, r *core.Result, fn *ssa.Function) {
	var delim *ssa.Parameter
	nb := 0
	for _, prm := range fn.Params {
		if b, ok := prm.Type().Underlying().(*types.Basic); ok && b.Kind() == types.Uint8 {
			delim = prm
			nb++
		}
	}
	if nb != 1 {
		anchorFail(r, "sql.stringCore delimiter parameter", fmt.Sprintf("expected exactly one byte-typed parameter, found %d", nb))
		return
	}
	type item struct {
		v     ssa.Value
		fn    *ssa.Function
		depth int
	}
	seen := map[ssa.Value]bool{}
	work := []item{{delim, fn, 0}}
	n := 0
	isConst := func(v ssa.Value) bool { _, ok := ssax.ConstInt(v); return ok }
	for len(work) > 0 {
		it := work[len(work)-1]
		work = work[:len(work)-1]
		if seen[it.v] {
			continue
		}
		seen[it.v] = true
		refs := it.v.Referrers()
		if refs == nil {
			continue
		}
		for _, ins := range *refs {
			where := p.Pos(ins.Pos())
			switch x := ins.(type) {
			case *ssa.BinOp:
				other := x.Y
				if x.Y == it.v {
					other = x.X
				}
				expr := fmt.Sprintf("delimiter %s %s", x.Op, core.Short(ssax.Canon(other)))
				n++
				switch {
				case (x.Op == token.EQL || x.Op == token.NEQ) && !isConst(other):
					r.OK("K7", core.QualName(it.fn), expr, where, "compared with a byte, not with a constant")
				default:
					r.Fail("K7", core.QualName(it.fn), expr, where, "the string lexer tests or transforms its delimiter against a constant: the termination rules (backslash parity, doubled delimiter) then differ between the quote characters ' \" `")
				}
			case *ssa.Phi, *ssa.ChangeType, *ssa.Convert:
				work = append(work, item{x.(ssa.Value), it.fn, it.depth})
			case *ssa.Store:
				n++
				r.OK("K7", core.QualName(it.fn), "delimiter stored", where, "recorded in the token")
			case *ssa.Index, *ssa.IndexAddr, *ssa.Lookup:
				n++
				r.Fail("K7", core.QualName(it.fn), "table indexed by the delimiter", where, "a table look-up keyed by the delimiter makes the string lexer's behaviour depend on the quote character (undecided: the rows are not compared)")
			case ssa.CallInstruction:
				callee := x.Common().StaticCallee()
				for i, arg := range x.Common().Args {
					if arg != it.v {
						continue
					}
					n++
					switch {
					case callee == nil:
						r.Fail("K7", core.QualName(it.fn), "delimiter passed to a dynamic call", where, "undecided: callee unknown")
					case !p.InModule(callee):
						r.OK("K7", core.QualName(it.fn), "delimiter passed to "+callee.String(), where, "library call (needle of the terminator search)")
					case it.depth >= 4 || i >= len(callee.Params):
						r.Fail("K7", core.QualName(it.fn), "delimiter passed to "+callee.Name(), where, "undecided: helper chain too deep")
					default:
						r.OK("K7", core.QualName(it.fn), "delimiter passed to "+callee.Name(), where, "helper judged under the same rule")
						work = append(work, item{callee.Params[i], callee, it.depth + 1})
					}
				}
			}
		}
	}
	if n < 2 {
		r.Fail("vacuity", core.QualName(fn), "K7 sites", p.Pos(fn.Pos()), fmt.Sprintf("only %d uses of the delimiter found in the string lexer", n))
	}
}
