package checks

import (
	"fmt"
	"go/types"
	"os"
	"strings"

	"golang.org/x/tools/go/ssa"

	"verif/tools/internal/absint"
	"verif/tools/internal/core"
	"verif/tools/internal/ssax"
)

func init() { register("C18", "other", checkC18) }

var ghostTok = absint.ObjPtr("GHOST:lastAssign", nil)

// ohitHooks adds the search-result consistency obligations to the lexer roots:
//
//	O-hit  every search hit of this step lies behind the returned cursor
//	       (ret ≥ hit + len(needle)): nothing of a terminator is re-tokenized;
//	O-str  a string token ends exactly at an accepted hit and scanning resumes
//	       right after the needle; with no hit it runs to end of input, unclosed.
func ohitHooks(sr *sqlRoots, name string, hooks *absint.Hooks) {
	env := sr.env
	a := env.a
	assign := a.Fn("sql.assign")
	strClass, _ := env.p.ConstInt("sqliTokenTypeString")
	prevBefore, prevRet := hooks.BeforeCall, hooks.OnReturn
	if !strings.HasPrefix(name, "lexer:") {
		return
	}
	hooks.BeforeCall = func(e *absint.Engine, st *absint.State, fr *absint.Frame, call *ssa.Call, callee *ssa.Function, args []absint.AVal) {
		if prevBefore != nil {
			prevBefore(e, st, fr, call, callee, args)
		}
		if callee != assign || len(args) != 5 {
			return
		}
		// remember what was handed to the last assign of this step
		if P, ok := e.AsInt(st, args[2]); ok {
			e.SetCell(st, ghostTok, "P", absint.IntV{L: P})
		}
		if L, ok := e.AsInt(st, args[3]); ok {
			e.SetCell(st, ghostTok, "L", absint.IntV{L: L})
		}
		if c, ok := absint.ConstOf(args[1]); ok {
			e.SetCell(st, ghostTok, "class", absint.IntV{L: absint.K(c)})
		} else {
			e.Havoc(st, ghostTok, "class")
		}
	}
	hooks.OnReturn = func(e *absint.Engine, st *absint.State, fr *absint.Frame, ret *ssa.Return, val absint.AVal) {
		if prevRet != nil {
			prevRet(e, st, fr, ret, val)
		}
		rc := sr.getCtx(name)
		if fr.Depth() != 0 || rc == nil {
			return
		}
		rv, okR := val.(absint.IntV)
		if os.Getenv("VERIF_DBGOHIT") == name {
			cls, okc := e.CellOf(st, ghostTok, "class")
			pc, _ := e.CellOf(st, ghostTok, "P")
			lc, _ := e.CellOf(st, ghostTok, "L")
			fmt.Fprintf(os.Stderr, "OHIT %s ret=%v hits=%d class=%v(%v) P=%v L=%v\n", name, e.ValStr(val), len(e.Hits(st)), cls, okc, e.ValStr(pc), e.ValStr(lc))
			if os.Getenv("VERIF_DBGCONS") != "" {
				e.DumpCons(st, os.Stderr)
			}
		}
		if !okR {
			return
		}
		where := retLabel(ret)
		length := absint.StrLenOf(rc.In)
		// hits found in this step
		type hp struct {
			pos, nlen absint.Lin
		}
		var found []hp
		anyMaybe := false
		for _, h := range e.Hits(st) {
			if h.Hay.Const != nil || h.Hay.Root != rc.In.Root {
				continue
			}
			r := absint.SymLin(h.R)
			if e.ProveLE(st, absint.K(0), r) {
				found = append(found, hp{h.Hay.Lo.Sub(rc.In.Lo).Add(r), h.Needle})
			} else if !e.ProveLE(st, r, absint.K(-1)) {
				anyMaybe = true
			}
		}
		for _, h := range found {
			e.Check(st, fr, ret.Pos(), "O-hit", "every search hit lies behind the returned cursor at "+where, e.ProveLE(st, h.pos.Add(h.nlen), rv.L), fmt.Sprintf("a terminator found at %s (length %s) is not consumed: cursor %s — the rest of the construct would be tokenized again", e.LinStr(h.pos), e.LinStr(h.nlen), e.LinStr(rv.L)))
		}
		// string tokens
		cls, okc := e.CellOf(st, ghostTok, "class")
		pc, okp := e.CellOf(st, ghostTok, "P")
		lc, okl := e.CellOf(st, ghostTok, "L")
		if !okc || !okp || !okl {
			return
		}
		if k, ok := absint.ConstOf(cls); !ok || k != strClass {
			return
		}
		P, L := pc.(absint.IntV).L, lc.(absint.IntV).L
		end := P.Add(L)
		closed := false
		for _, h := range found {
			if e.ProveEQ(st, end, h.pos) {
				closed = true
				e.Check(st, fr, ret.Pos(), "O-str", "closed literal: scanning resumes right after the terminator at "+where, e.ProveEQ(st, rv.L, h.pos.Add(h.nlen)), fmt.Sprintf("literal ends at %s but the cursor becomes %s, not end + len(terminator)", e.LinStr(end), e.LinStr(rv.L)))
			}
		}
		if !closed {
			okEOF := e.ProveEQ(st, end, length) && e.ProveEQ(st, rv.L, length)
			why := "a string token that neither ends at a found terminator nor runs to the end of the input"
			if anyMaybe {
				why += " (a search result of unknown sign is live)"
			}
			e.Check(st, fr, ret.Pos(), "O-str", "literal ends at a found terminator or runs to end of input at "+where, okEOF, why)
			if okEOF {
				// unclosed: the close marker must be 0
				sc, ok := e.CellOf(st, rc.Cur, "strClose")
				z, isC := absint.ConstOf(sc)
				e.Check(st, fr, ret.Pos(), "O-str", "unclosed literal is marked unclosed at "+where, ok && isC && z == 0, "a literal that runs to end of input without terminator is not marked unclosed (strClose ≠ 0)")
			}
		} else {
			sc, ok := e.CellOf(st, rc.Cur, "strClose")
			z, isC := absint.ConstOf(sc)
			nonzero := ok && (!isC || z != 0)
			if ok && !isC {
				if bv, isB := sc.(absint.ByteV); isB {
					nonzero = !e.MaskOf(st, bv).Has(0)
				}
			}
			e.Check(st, fr, ret.Pos(), "O-str", "closed literal is marked closed at "+where, nonzero, "a terminated literal is marked unclosed")
		}
	}
}

// sconvRule (S-conv): no integer→string conversion of an input-derived byte
// (it UTF-8 encodes values ≥ 0x80, so a delimiter byte would never match).
func sconvRule(p *core.Program, r *core.Result, reach map[*ssa.Function]bool) int {
	n := 0
	var fromInput func(v ssa.Value, depth int) bool
	fromInput = func(v ssa.Value, depth int) bool {
		if depth > 10 {
			return false
		}
		switch x := v.(type) {
		case *ssa.Index:
			return isStringType(x.X.Type())
		case *ssa.Lookup:
			return isStringType(x.X.Type())
		case *ssa.Phi:
			for _, e := range x.Edges {
				if fromInput(e, depth+1) {
					return true
				}
			}
		case *ssa.Convert:
			return fromInput(x.X, depth+1)
		case *ssa.BinOp:
			return fromInput(x.X, depth+1) || fromInput(x.Y, depth+1)
		case *ssa.Parameter:
			return isIntType(x.Type()) && x.Type().Underlying().(*types.Basic).Kind() == types.Uint8
		}
		return false
	}
	for _, fn := range p.SourceFuncs(reach) {
		for _, b := range fn.Blocks {
			for _, ins := range b.Instrs {
				cv, ok := ins.(*ssa.Convert)
				if !ok || !isStringType(cv.Type()) || !isIntType(cv.X.Type()) {
					continue
				}
				if _, isConst := cv.X.(*ssa.Const); isConst {
					continue
				}
				n++
				expr := "string(" + core.Short(ssax.Canon(cv.X)) + ")"
				if fromInput(cv.X, 0) {
					r.Fail("S-conv", core.QualName(fn), expr, p.Pos(cv.Pos()), "an input byte is converted to a string as a rune: bytes ≥ 0x80 become two-byte UTF-8 sequences, so a search for this delimiter can never match")
				} else {
					r.OK("S-conv", core.QualName(fn), expr, p.Pos(cv.Pos()), "not derived from an input byte")
				}
			}
		}
	}
	return n
}

func checkC18(c *Ctx) *core.Result {
	p := c.P
	r := c.newResult()
	env := newE3Env(c, r)
	if len(r.Violations) > 0 {
		return r
	}
	a := env.a
	sr := &sqlRoots{env: env}
	sr.runAll(func(name string, hooks *absint.Hooks) { ohitHooks(sr, name, hooks) })
	residuals := loadResiduals(c, r)
	obs := mergeObs(sr.runs)
	own := map[string]bool{"O-hit": true, "O-str": true, "S-self": true}
	n := emitObs(r, obs, residuals, "C18", func(o *absint.Ob) bool { return own[o.Rule] })
	if n < 25 {
		r.Fail("vacuity", "-", "string-literal obligations", "-", fmt.Sprintf("only %d obligations generated (expected ≥ 25)", n))
	}
	// every dispatch target that can emit a string token must have produced both the
	// closed and the unclosed obligations (a lexer whose string path went unseen fails)
	if assign := a.Fn("sql.assign"); assign != nil && env.disp != nil {
		strClass, _ := p.ConstInt("sqliTokenTypeString")
		seen := map[*ssa.Function]bool{}
		for _, tgt := range env.disp.Table {
			if tgt == nil || seen[tgt] {
				continue
			}
			seen[tgt] = true
			emits := false
			for fn := range p.ReachOf(tgt) {
				for _, b := range fn.Blocks {
					for _, ins := range b.Instrs {
						if call, ok := ins.(*ssa.Call); ok && call.Call.StaticCallee() == assign && len(call.Call.Args) >= 2 {
							if k, ok := call.Call.Args[1].(*ssa.Const); ok && k.Value != nil && k.Int64() == strClass && p.InModule(fn) {
								emits = true
							}
						}
					}
				}
			}
			if !emits {
				continue
			}
			var closed, unclosed bool
			for _, o := range obs {
				if o.Rule == "O-str" && o.Fn == tgt.Name() {
					closed = closed || strings.HasPrefix(o.Expr, "closed literal: scanning resumes")
					unclosed = unclosed || strings.HasPrefix(o.Expr, "unclosed literal is marked unclosed")
				}
			}
			if closed && unclosed {
				r.OK("vacuity", tgt.Name(), "string lexer analysed on its closed and its unclosed path", p.Pos(tgt.Pos()), "both O-str obligations present")
				continue
			}
			r.Fail("vacuity", tgt.Name(), "string lexer analysed on its closed and its unclosed path", p.Pos(tgt.Pos()), fmt.Sprintf("a lexer that can emit a string token produced no O-str obligation for closed=%v / unclosed=%v literals: the rule would pass vacuously", closed, unclosed))
		}
	}
	sconvRule(p, r, p.ReachFrom["IsSQLi"])
	// a positive fixture for the zero-instance S-conv rule is part of the selftest battery; here: the rule must have looked at the q-string needle
	if strCore := a.Fn("sql.stringCore"); strCore != nil {
		checkContentStartUniform(p, r, strCore)
	}
	r.Extra["roots"] = sr.describe()
	r.Explanation = e3Explain + " C18 adds at the return of every lexer: O-hit (every search hit of the step — IndexByte/Index on the input — satisfies hit + len(needle) ≤ returned cursor), and for string tokens O-str (the literal ends exactly at a found terminator and the cursor becomes that position + len(needle), with strClose ≠ 0; or no terminator was found, the literal runs to end of input, the cursor is the length and strClose = 0). S-self: no strings.Index of a string for a substring of itself (finds the first copy, not the one at the known offset). S-conv: no string(byte) of an input-derived byte. K6: the string lexer depends on (pos, offset) only through pos+offset, so the real and the simulated opening quote are treated alike. NOT decided: backslash parity and the doubled-delimiter rule themselves (which hits are rejected)."
	r.Trusted = []string{"go/ssa", "E3 transfer functions and library models (search results)", "in-checker simplex"}
	return r
}
