package checks

import (
	"fmt"
	"go/token"
	"os"

	"golang.org/x/tools/go/ssa"

	"verif/tools/internal/absint"
	"verif/tools/internal/core"
	"verif/tools/internal/ssax"
)

// An API function may answer `false` for the empty input before it tries its
// contexts (`if len(input) == 0 { return false }`).  That is behaviour-
// preserving only if every skipped context answers false on the empty input,
// which is decided here by E3: the per-context classifier is analysed with
// len(input) = 0 and the context flag fixed to each constant, the tokenizer
// stepped for real (no summary of next()); every return of the root must
// yield the constant false, and the run must not have met an undecided call
// or a budget.

// emptyTest recognises `len(x) == 0`, `len(x) < 1`, `len(x) <= 0`, `x == ""`
// (and their negations) on parameter prm.  trueIsEmpty tells which side is
// the empty one.
func emptyTest(cond ssa.Value, prm ssa.Value) (trueIsEmpty bool, ok bool) {
	bo, isBin := cond.(*ssa.BinOp)
	if !isBin {
		return false, false
	}
	isLen := func(v ssa.Value) bool {
		call, ok := v.(*ssa.Call)
		if !ok {
			return false
		}
		b, ok := call.Common().Value.(*ssa.Builtin)
		return ok && b.Name() == "len" && len(call.Common().Args) == 1 && call.Common().Args[0] == prm
	}
	if isLen(bo.X) {
		k, isK := ssax.ConstInt(bo.Y)
		if !isK {
			return false, false
		}
		switch {
		case bo.Op == token.EQL && k == 0, bo.Op == token.LSS && k == 1, bo.Op == token.LEQ && k == 0:
			return true, true
		case bo.Op == token.NEQ && k == 0, bo.Op == token.GTR && k == 0, bo.Op == token.GEQ && k == 1:
			return false, true
		}
		return false, false
	}
	if bo.X == prm {
		if s, isS := ssax.ConstString(bo.Y); isS && s == "" {
			switch bo.Op {
			case token.EQL:
				return true, true
			case token.NEQ:
				return false, true
			}
		}
	}
	return false, false
}

// classifierFalseOnEmpty: for each flag, "" when E3 proves that ctxFn(empty input, flag) = false, else the reason.
func classifierFalseOnEmpty(c *Ctx, ctxFn *ssa.Function, flags []int64) map[int64]string {
	out := map[int64]string{}
	scratch := core.NewResult("-", "other")
	env := newE3Env(c, scratch)
	if len(scratch.Violations) > 0 {
		for _, fl := range flags {
			out[fl] = "anchors of the E3 environment unresolved"
		}
		return out
	}
	for _, fl := range flags {
		fl := fl
		cfg := env.config()
		cfg.Peel = true // "first step" and "after the first token" keep head states of their own
		e := absint.NewEngine(env.p, cfg)
		rs := e.RunRoot(ctxFn, func(e *absint.Engine, st *absint.State, fr *absint.Frame) {
			for _, prm := range ctxFn.Params {
				switch {
				case isStringType(prm.Type()):
					in := e.NewInput(st, "INPUT")
					e.AssumeLE(st, absint.StrLenOf(in), absint.K(0))
					e.Bind(st, fr, prm, in)
				case isIntType(prm.Type()):
					e.Bind(st, fr, prm, absint.IntV{L: absint.K(fl)})
				}
			}
		})
		why := ""
		if len(rs) == 0 {
			why = "the analysis reached no return"
		}
		for _, res := range rs {
			if b, ok := res.Ret().(absint.BoolV); !ok || b.Known != 2 {
				why = "a return of the classifier may yield true on the empty input"
			}
		}
		for _, o := range e.Obs {
			if os.Getenv("VERIF_DBGEMPTY") != "" && o.Bad > 0 {
				fmt.Fprintf(os.Stderr, "EMPTY flag %d: %s %s %s %s: %s\n", fl, o.Rule, o.Fn, o.Expr, o.Pos, o.Why)
			}
			if o.Bad > 0 && (o.Rule == "R-depth" || o.Rule == "B-call" || o.Rule == "B-nil") {
				why = fmt.Sprintf("%s %s: %s", o.Rule, o.Expr, o.Why)
			}
		}
		out[fl] = why
	}
	return out
}

// matcherFalseOnEmptySubject: "" when E3 proves that the (literal, subject) → bool matcher answers
// false for every non-empty literal when the subject is the empty string; else the reason.
func matcherFalseOnEmptySubject(c *Ctx, match *ssa.Function, subjIdx int) string {
	scratch := core.NewResult("-", "other")
	env := newE3Env(c, scratch)
	if len(scratch.Violations) > 0 {
		return "anchors of the E3 environment unresolved"
	}
	cfg := env.config()
	cfg.Peel = true
	e := absint.NewEngine(env.p, cfg)
	rs := e.RunRoot(match, func(e *absint.Engine, st *absint.State, fr *absint.Frame) {
		for i, prm := range match.Params {
			if !isStringType(prm.Type()) {
				continue
			}
			in := e.NewInput(st, fmt.Sprintf("ARG%d", i))
			if i == subjIdx {
				e.AssumeLE(st, absint.StrLenOf(in), absint.K(0))
			} else {
				e.AssumeLE(st, absint.K(1), absint.StrLenOf(in))
			}
			e.Bind(st, fr, prm, in)
		}
	})
	if len(rs) == 0 {
		return "the analysis reached no return"
	}
	for _, res := range rs {
		if b, ok := res.Ret().(absint.BoolV); !ok || b.Known != 2 {
			return "a return of the matcher may yield true on the empty subject"
		}
	}
	for _, o := range e.Obs {
		if o.Bad > 0 && (o.Rule == "R-depth" || o.Rule == "B-call" || o.Rule == "B-nil") {
			return fmt.Sprintf("%s %s: %s", o.Rule, o.Expr, o.Why)
		}
	}
	return ""
}
