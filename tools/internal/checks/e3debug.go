package checks

import (
	"fmt"
	"os"
	"runtime/pprof"
	"sort"
	"time"

	"golang.org/x/tools/go/ssa"

	"verif/tools/internal/absint"
	"verif/tools/internal/core"
)

// DebugE3 runs the abstract interpreter from one root and prints what it could not discharge.
func DebugE3(c *Ctx, root string) {
	r := core.NewResult("DBG", "other")
	env := newE3Env(c, r)
	for _, v := range r.Violations {
		fmt.Println("setup:", v.Msg)
	}
	cfg := env.config()
	cfg.Trace = os.Getenv("VERIF_TRACE") != ""
	if pf := os.Getenv("VERIF_CPUPROF"); pf != "" {
		f, _ := os.Create(pf)
		pprof.StartCPUProfile(f)
		defer pprof.StopCPUProfile()
		if secs := os.Getenv("VERIF_PROF_SECS"); secs != "" {
			n, _ := time.ParseDuration(secs + "s")
			time.AfterFunc(n, func() { pprof.StopCPUProfile(); os.Exit(3) })
		}
	}
	e := absint.NewEngine(c.P, cfg)
	if root == "sql" {
		sr := &sqlRoots{env: env}
		t0 := time.Now()
		sr.runAll(nil)
		fmt.Printf("all SQL roots: %v\n", time.Since(t0))
		for _, d := range sr.describe() {
			fmt.Println("  ", d)
		}
		for _, r := range sr.runs {
			for _, o := range r.eng.SortedObs() {
				if o.Bad > 0 {
					fmt.Printf("UNPROVEN [%s] %-8s %-28s %-14s %s   [%s] ok=%d bad=%d\n", r.name, o.Rule, o.Fn, o.Pos, o.Expr, o.Why, o.OK, o.Bad)
				}
			}
		}
		return
	}
	if root == "xss" {
		g := buildStateGraph(c.P, env.a, r)
		xr := &xssRoots{env: env, g: g}
		t0 := time.Now()
		xr.runAll(nil)
		fmt.Printf("all XSS roots: %v\n", time.Since(t0))
		for _, d := range xr.describe() {
			fmt.Println("  ", d)
		}
		for _, rr := range xr.runs {
			for _, o := range rr.eng.SortedObs() {
				if o.Bad > 0 {
					fmt.Printf("UNPROVEN [%s] %-8s %-28s %-14s %s   [%s] ok=%d bad=%d\n", rr.name, o.Rule, o.Fn, o.Pos, o.Expr, o.Why, o.OK, o.Bad)
				}
			}
		}
		return
	}
	fn := c.P.FuncByQualName(root)
	if fn == nil {
		fmt.Println("no function", root)
		return
	}
	t0 := time.Now()
	rs := e.RunRoot(fn, func(e *absint.Engine, st *absint.State, fr *absint.Frame) {
		env.genericSetup(e, st, fr, fn)
	})
	fmt.Printf("root=%s K=%d results=%d inlined=%d lp=%d hits=%d big=%d time=%v\n", root, cfg.K, len(rs), e.Inlined, e.LP.Calls, e.LP.CacheHits, e.LP.BigRuns, time.Since(t0))
	okc, bad := 0, 0
	byFn := map[string][2]int{}
	for _, o := range e.SortedObs() {
		cnt := byFn[o.Fn]
		if o.Bad == 0 {
			okc++
			cnt[0]++
		} else {
			bad++
			cnt[1]++
			fmt.Printf("UNPROVEN %-8s %-28s %-14s %s   [%s] ok=%d bad=%d\n", o.Rule, o.Fn, o.Pos, o.Expr, o.Why, o.OK, o.Bad)
		}
		byFn[o.Fn] = cnt
	}
	fmt.Printf("obligations: %d discharged, %d unproven\n", okc, bad)
	var fns []string
	for f := range byFn {
		fns = append(fns, f)
	}
	sort.Strings(fns)
	for _, f := range fns {
		fmt.Printf("  %-40s ok=%d bad=%d\n", f, byFn[f][0], byFn[f][1])
	}
}

// genericSetup binds parameters by type: the SQL state / HTML state get their
// interface invariants, strings become fresh inputs, ints fresh symbols.
func (env *e3Env) genericSetup(e *absint.Engine, st *absint.State, fr *absint.Frame, fn *ssa.Function) {
	for _, prm := range fn.Params {
		switch {
		case isPtrTo(prm.Type(), env.a.TypeName("sql.state")):
			env.sqlStateSetup(e, st, fr, prm)
		case isPtrTo(prm.Type(), env.a.TypeName("xss.state")):
			env.h5StateSetup(e, st, fr, prm, nil)
		case isPtrTo(prm.Type(), env.a.TypeName("sql.token")):
			k := e.NewInt(st, "tok")
			e.AssumeLE(st, absint.K(0), k)
			e.AssumeLE(st, k, absint.K(7))
			e.Bind(st, fr, prm, absint.ElemPtr("S."+env.a.Fields["sql.state.tokens"], k, env.tokT))
		case isStringType(prm.Type()):
			e.Bind(st, fr, prm, e.NewInput(st, "IN_"+prm.Name()))
		case isIntType(prm.Type()):
			e.Bind(st, fr, prm, absint.IntV{L: e.NewInt(st, prm.Name())})
		}
	}
}
