package checks

import (
	"encoding/json"
	"fmt"
	"os"
	"path/filepath"

	"verif/tools/internal/core"
	"verif/tools/internal/symmetry"
	"verif/tools/internal/tables"
)

func init() {
	register("C10", "other", checkC10)
	register("C11", "other", checkC11)
}

func loadExemptions(c *Ctx, r *core.Result, prop string) []*symmetry.Exemption {
	var cfg struct {
		Exemptions []*symmetry.Exemption `json:"exemptions"`
	}
	b, err := os.ReadFile(filepath.Join(c.VerifDir, "config", "exemptions.json"))
	if err == nil {
		err = json.Unmarshal(b, &cfg)
	}
	if err != nil {
		r.Fail("framework", "-", "config/exemptions.json", "-", err.Error())
		return nil
	}
	var out []*symmetry.Exemption
	for _, e := range cfg.Exemptions {
		if e.Property == prop {
			e.Func = renameIn(e.Func) // follow pure renames of the function / its receiver type
			out = append(out, e)
		}
	}
	return out
}

func sitesToResult(p *core.Program, r *core.Result, an *symmetry.Analysis, floor int) {
	for _, s := range an.Sites {
		fn := core.QualName(s.Fn)
		switch s.Status {
		case "ok":
			r.OK(s.Rule, fn, s.Expr, p.Pos(s.Pos), s.Why)
		case "exempt":
			r.Exempt(s.Rule, fn, s.Expr, p.Pos(s.Pos), s.Why)
		default:
			r.Fail(s.Rule, fn, s.Expr, p.Pos(s.Pos), s.Why)
		}
	}
	for _, e := range an.UnusedExemptions() {
		r.Note("exemption %s/%s/%q matched no site on this tree (noted only)", e.Func, e.Rule, e.Contains)
	}
	for _, n := range an.Notes {
		r.Note("%s", n)
	}
	if len(an.Sites) < floor {
		r.Fail("vacuity", "-", "observation sites", "-", fmt.Sprintf("only %d observation sites found (expected ≥ %d): the taint analysis is blind", len(an.Sites), floor))
	}
}

func checkC10(c *Ctx) *core.Result {
	p := c.P
	r := c.newResult()
	a := loadAnchors(c, r)
	root := a.Fn("sql.root")
	t, errs := tables.Extract(p)
	for _, e := range errs {
		r.Fail("T1", "-", "table extraction", "-", e.Error())
	}
	disp, derr := tables.EvalDispatch(p)
	if derr != nil {
		r.Fail("O2", "-", "dispatch table", "-", derr.Error())
	}
	if len(r.Violations) > 0 {
		return r
	}
	// dispatch symmetry (O2 on the table itself)
	if len(disp.Table) == 256 {
		for ch := 'a'; ch <= 'z'; ch++ {
			expr := fmt.Sprintf("dispatch[%q] == dispatch[%q]", ch, ch-32)
			if disp.Table[ch] == disp.Table[ch-32] {
				r.OK("O2", disp.Var, expr, "-", disp.Table[ch].Name())
			} else {
				r.Fail("O2", disp.Var, expr, "-", fmt.Sprintf("%q is lexed by %s but %q by %s", ch, disp.Table[ch].Name(), ch-32, disp.Table[ch-32].Name()))
			}
		}
	} else {
		r.Fail("O2", disp.Var, "dispatch table size", "-", fmt.Sprintf("%d entries", len(disp.Table)))
	}
	an := symmetry.Run(p, symmetry.Config{Root: root, StateType: a.TypeName("sql.state"), InputField: a.Field("sql.state.input"), PosField: a.Field("sql.state.pos"), Exemptions: loadExemptions(c, r, "C10")}, t, disp)
	sitesToResult(p, r, an, 60)
	for _, fn := range p.SourceFuncs(p.ReachFrom["IsSQLi"]) {
		r.Analysed = append(r.Analysed, core.QualName(fn))
	}
	r.Explanation = "E4 observation-symmetry (non-interference) analysis over every function reachable from IsSQLi. Let σ change the case of any ASCII letters of the input. Strings derived from the input (slicing, field storage, concatenation) are case-variant unless passed through ToUpper/ToLower; bytes indexed from them are variant with a mask (dispatch table pre-image at lexer entry, refined along the call chain; parameter masks = union over call sites). Every observation site is decided: O1 a branch on a byte-derived condition is tabulated over the feasible letters — symmetric by itself, or the chain of tests of the same byte (canonical index expression, no intervening write) leaves through the same exit with the same derived values for both cases; O2 tables indexed by an input byte agree on both cases (contents from E2); O3 string comparisons with un-normalised input only against letter-free constants; O4 searches in un-normalised input only for letter-free needles, accept sets closed under case swap; O5 no map lookup with an un-normalised key; O6 no un-folded letter byte stored, combined, returned or handed to an unmodelled callee (so the fingerprint is clean); O7 two input bytes compared only if one cannot be a letter. If every observation is symmetric, x and σ(x) take the same path and compute the same non-input values, hence the same verdict and fingerprint. Exemptions are exactly those of the statement (+ one reviewed delimiter exception)."
	r.Trusted = []string{"go/ssa", "library models: ToUpper/ToLower results are equal on case variants; IndexByte/Index/Contains are the only searches", "closed-initialiser evaluation of the dispatch and accept tables", "the single-byte tabulation (256 values) of conditions"}
	return r
}

func checkC11(c *Ctx) *core.Result {
	p := c.P
	r := c.newResult()
	a := loadAnchors(c, r)
	root := a.Fn("xss.root")
	t, errs := tables.Extract(p)
	for _, e := range errs {
		r.Fail("T1", "-", "table extraction", "-", e.Error())
	}
	if len(r.Violations) > 0 {
		return r
	}
	an := symmetry.Run(p, symmetry.Config{Root: root, StateType: a.TypeName("xss.state"), InputField: a.Field("xss.state.s"), PosField: a.Field("xss.state.pos"), Exemptions: loadExemptions(c, r, "C11")}, t, nil)
	sitesToResult(p, r, an, 40)

	// NUL part
	isTag, isAttr, ctx := a.Fn("xss.isBlackTag"), a.Fn("xss.isBlackAttr"), a.Fn("xss.ctx")
	if isTag != nil && isAttr != nil {
		n := nameComparisonRule(p, r, isTag, t, "N-a", true, nil) + nameComparisonRule(p, r, isAttr, t, "N-a", true, nil)
		if n < 5 {
			r.Fail("vacuity", "-", "name comparisons", "-", fmt.Sprintf("only %d", n))
		}
		minTag := 1 << 30
		for _, nn := range t.BlackTags {
			if len(nn.Name) < minTag {
				minTag = len(nn.Name)
			}
		}
		maxTag, maxAttr := maxNameLens(t, isTag)
		rawLengthRule(p, r, isTag, minTag, maxTag, "N-b")
		minAttr := 1 << 30
		for _, nn := range t.Blacks {
			if len(nn.Name) < minAttr {
				minAttr = len(nn.Name)
			}
		}
		rawLengthRule(p, r, isAttr, minAttr, maxAttr, "N-b")
	}
	if ctx != nil {
		// comparisons of comment prefixes in the classifier: case-folded (NUL-stripping is not promised there)
		nameComparisonRule(p, r, ctx, t, "O3c", false, nil)
	}
	for _, role := range []string{"xss.st.tagName", "xss.st.attrName"} {
		if fn := a.Fn(role); fn != nil {
			nulSkipRule(p, a, r, fn, "N-c")
		}
	}
	for _, fn := range p.SourceFuncs(p.ReachFrom["IsXSS"]) {
		r.Analysed = append(r.Analysed, core.QualName(fn))
	}
	r.Explanation = "Case part: the E4 observation-symmetry analysis (see C10) over every function reachable from IsXSS; the only exemption is the comparison with \"[CDATA[\". NUL part: N-a every string compared with an element of blackTags/blacks/blackEvents or with a letter constant in the two name predicates is derived from ToUpper(ReplaceAll(x, \"\\x00\", \"\")); N-b raw-length shortcuts only reject below the shortest listed name (an upper bound on the raw length would let inserted NULs hide a name); N-c in the tag-name and attribute-name scanners the abstractly evaluated decision for byte 0x00 returns to the loop head without a return or a token-field store. NOT decided: the full per-context verdict invariance under NUL insertion (it also depends on how the byte after the name is handled)."
	r.Trusted = []string{"go/ssa", "library models (ToUpper/ToLower/ReplaceAll)", "abstract evaluation for N-c", "table extraction"}
	return r
}
