package checks

import (
	"fmt"
	"go/ast"
	"go/token"
	"go/types"
	"sort"
	"strings"

	"golang.org/x/tools/go/ssa"

	"verif/tools/internal/core"
	"verif/tools/internal/ssax"
	"verif/tools/internal/tables"
)

// Shared XSS name-handling rules (used by C04 and C11).

func extCallee(v ssa.Value) (string, *ssa.Call) {
	c, ok := v.(*ssa.Call)
	if !ok {
		return "", nil
	}
	f := c.Common().StaticCallee()
	if f == nil {
		return "", nil
	}
	return f.String(), c
}

// nulStripped: v is strings.ReplaceAll(x, "\x00", "") (any x).
func nulStripped(v ssa.Value) bool {
	name, c := extCallee(v)
	if name != "strings.ReplaceAll" {
		return false
	}
	args := c.Common().Args
	old, ok1 := ssax.ConstString(args[1])
	nw, ok2 := ssax.ConstString(args[2])
	return ok1 && ok2 && old == "\x00" && nw == ""
}

// normForm classifies how v was normalised: it returns (caseFolded "U"/"L"/"", nulFree).
func normForm(v ssa.Value, depth int) (string, bool) { return normFormEnv(v, nil, depth) }

type normPair struct {
	cf string
	nf bool
}

// normFormEnv: as normForm, with the normal form of the current function's
// parameters given (used when the normalisation lives in a helper function).
func normFormEnv(v ssa.Value, env map[*ssa.Parameter]normPair, depth int) (string, bool) {
	if depth > 12 {
		return "", false
	}
	normForm := func(v ssa.Value, d int) (string, bool) { return normFormEnv(v, env, d) }
	switch x := v.(type) {
	case *ssa.Parameter:
		if np, ok := env[x]; ok {
			return np.cf, np.nf
		}
		return "", false
	case *ssa.Slice:
		return normForm(x.X, depth+1)
	case *ssa.Phi:
		cf, nf := "?", true
		for _, e := range x.Edges {
			c, n := normForm(e, depth+1)
			if cf == "?" {
				cf = c
			} else if cf != c {
				cf = ""
			}
			nf = nf && n
		}
		if cf == "?" {
			cf = ""
		}
		return cf, nf
	case *ssa.Call:
		name, c := extCallee(v)
		switch name {
		case "strings.ToUpper":
			_, nf := normForm(c.Common().Args[0], depth+1)
			return "U", nf
		case "strings.ToLower":
			_, nf := normForm(c.Common().Args[0], depth+1)
			return "L", nf
		case "strings.ReplaceAll":
			if nulStripped(v) {
				cf, _ := normForm(c.Common().Args[0], depth+1)
				return cf, true
			}
		}
		// a helper of the library that returns a string: the normal form of what it
		// returns, given the normal forms of its arguments
		if callee := x.Call.StaticCallee(); callee != nil && len(callee.Blocks) > 0 && callee.Pkg != nil && x.Parent() != nil && callee.Pkg == x.Parent().Pkg && callee.Signature.Results().Len() == 1 {
			env2 := map[*ssa.Parameter]normPair{}
			for i, prm := range callee.Params {
				if i < len(x.Call.Args) {
					c, n := normForm(x.Call.Args[i], depth+1)
					env2[prm] = normPair{c, n}
				}
			}
			cf, nf := "?", true
			for _, ret := range ssax.Returns(callee) {
				c, n := normFormEnv(ret.Results[0], env2, depth+2)
				if cf == "?" {
					cf = c
				} else if cf != c {
					cf = ""
				}
				nf = nf && n
			}
			if cf == "?" {
				cf = ""
			}
			return cf, nf
		}
	}
	return "", false
}

func hasLetters(s string) bool {
	for i := 0; i < len(s); i++ {
		if (s[i] >= 'a' && s[i] <= 'z') || (s[i] >= 'A' && s[i] <= 'Z') {
			return true
		}
	}
	return false
}

// tableElem: v is (a field of) an element of one of the XSS name tables.
func tableElem(v ssa.Value, t *tables.Tables, depth int) (string, bool) {
	if depth > 8 {
		return "", false
	}
	switch x := v.(type) {
	case *ssa.UnOp:
		if x.Op != token.MUL {
			return "", false
		}
		return tableElem(x.X, t, depth+1)
	case *ssa.IndexAddr:
		return tableElem(x.X, t, depth+1)
	case *ssa.Index:
		return tableElem(x.X, t, depth+1)
	case *ssa.FieldAddr:
		return tableElem(x.X, t, depth+1)
	case *ssa.Field:
		return tableElem(x.X, t, depth+1)
	case *ssa.Global:
		n := x.Name()
		if n == t.BlackTagsVar || n == t.BlacksVar || n == t.BlackEventsVar {
			return n, true
		}
	case *ssa.Parameter:
		// a table handed to a look-up helper: every call site of the helper passes one of the tables
		fn := x.Parent()
		if fn == nil || fn.Pkg == nil || depth > 7 {
			return "", false
		}
		idx := -1
		for i, prm := range fn.Params {
			if prm == x {
				idx = i
			}
		}
		var names []string
		for _, m := range fn.Pkg.Members {
			g, ok := m.(*ssa.Function)
			if !ok {
				continue
			}
			for _, ci := range ssax.Calls(g) {
				if ci.Common().StaticCallee() != fn || idx >= len(ci.Common().Args) {
					continue
				}
				n, ok := tableElem(ci.Common().Args[idx], t, depth+1)
				if !ok {
					return "", false
				}
				names = append(names, n)
			}
		}
		if len(names) == 0 {
			return "", false
		}
		sort.Strings(names)
		return strings.Join(names, "|"), true
	case *ssa.Alloc:
		// local copy of an element (range value variable): find the store into it
		for _, ref := range *x.Referrers() {
			if st, ok := ref.(*ssa.Store); ok && st.Addr == ssa.Value(x) {
				if n, ok := tableElem(st.Val, t, depth+1); ok {
					return n, true
				}
			}
		}
	}
	return "", false
}

// nameComparisonRule (N-a / O3): every string equality in fn whose other side
// is a table element or a constant with letters must have a NUL-stripped,
// case-folded left side that matches the constant's case.  exemptConst lists
// constants exempted by the property statement.
// helperGroup: fn plus the library helpers it calls (two levels) that take or
// return text — the name predicates may delegate their comparisons to them.
func helperGroup(p *core.Program, fn *ssa.Function) []*ssa.Function {
	group := []*ssa.Function{fn}
	seen := map[*ssa.Function]bool{fn: true}
	for depth, frontier := 0, []*ssa.Function{fn}; depth < 2 && len(frontier) > 0; depth++ {
		var next []*ssa.Function
		for _, g := range frontier {
			for _, ci := range ssax.Calls(g) {
				h := ci.Common().StaticCallee()
				if h == nil || seen[h] || !p.InModule(h) || len(h.Blocks) == 0 {
					continue
				}
				text := false
				for _, prm := range h.Params {
					if isStringType(prm.Type()) {
						text = true
					}
				}
				if !text {
					continue
				}
				seen[h] = true
				group = append(group, h)
				next = append(next, h)
			}
		}
		frontier = next
	}
	return group
}

// paramNormForms: for every function of the group, the normal form its string
// parameters have at every call site inside the group.
func paramNormForms(group []*ssa.Function) map[*ssa.Function]map[*ssa.Parameter]normPair {
	envs := map[*ssa.Function]map[*ssa.Parameter]normPair{}
	inGroup := map[*ssa.Function]bool{}
	for _, g := range group {
		inGroup[g] = true
	}
	for _, h := range group[1:] {
		env := map[*ssa.Parameter]normPair{}
		first := true
		for _, g := range group {
			for _, ci := range ssax.Calls(g) {
				if ci.Common().StaticCallee() != h {
					continue
				}
				for i, prm := range h.Params {
					if i >= len(ci.Common().Args) || !isStringType(prm.Type()) {
						continue
					}
					c, n := normFormEnv(ci.Common().Args[i], envs[g], 0)
					if first {
						env[prm] = normPair{c, n}
					} else {
						old := env[prm]
						if old.cf != c {
							old.cf = ""
						}
						old.nf = old.nf && n
						env[prm] = old
					}
				}
				first = false
			}
		}
		envs[h] = env
	}
	return envs
}

func nameComparisonRule(p *core.Program, r *core.Result, root *ssa.Function, t *tables.Tables, rule string, needNul bool, exemptConst map[string]string) int {
	n := 0
	group := helperGroup(p, root)
	envs := paramNormForms(group)
	for _, fn := range group {
		n += nameComparisonRuleIn(p, r, fn, envs[fn], t, rule, needNul, exemptConst)
	}
	return n
}

func nameComparisonRuleIn(p *core.Program, r *core.Result, fn *ssa.Function, env map[*ssa.Parameter]normPair, t *tables.Tables, rule string, needNul bool, exemptConst map[string]string) int {
	n := 0
	for _, b := range fn.Blocks {
		for _, ins := range b.Instrs {
			// a look-up in a table index compares the key with every name of the table
			if lk, isLk := ins.(*ssa.Lookup); isLk {
				if tn, _, ok := tableIndexOf(p, t, lk.X); ok {
					n++
					cf, nf := normFormEnv(lk.Index, env, 0)
					expr := "look up " + lk.Index.Name() + " in the index of " + tn
					switch {
					case cf != "U":
						r.Fail(rule, core.QualName(fn), expr, p.Pos(lk.Pos()), fmt.Sprintf("the key is not case-folded to match (strings.ToUpper needed, found %q): letter case changes the outcome", cf))
					case needNul && !nf:
						r.Fail(rule, core.QualName(fn), expr, p.Pos(lk.Pos()), "the key is not NUL-stripped (strings.ReplaceAll(x, \"\\x00\", \"\")): a NUL byte inside the name changes the outcome")
					default:
						r.OK(rule, core.QualName(fn), expr, p.Pos(lk.Pos()), "case-folded"+map[bool]string{true: " and NUL-stripped", false: ""}[nf])
					}
				}
				continue
			}
			bo, ok := ins.(*ssa.BinOp)
			if !ok || (bo.Op != token.EQL && bo.Op != token.NEQ) {
				continue
			}
			if bt, ok := bo.X.Type().Underlying().(*types.Basic); !ok || bt.Info()&types.IsString == 0 {
				continue
			}
			for _, pair := range [][2]ssa.Value{{bo.X, bo.Y}, {bo.Y, bo.X}} {
				probe, other := pair[0], pair[1]
				var wantCase string
				what := ""
				if cs, ok := ssax.ConstString(other); ok {
					if !hasLetters(cs) {
						continue
					}
					if _, isConstProbe := ssax.ConstString(probe); isConstProbe {
						continue
					}
					what = fmt.Sprintf("%q", cs)
					switch {
					case strings.ToUpper(cs) == cs:
						wantCase = "U"
					case strings.ToLower(cs) == cs:
						wantCase = "L"
					default:
						wantCase = "mixed"
					}
					if why, ok := exemptConst[cs]; ok {
						n++
						r.Exempt(rule, core.QualName(fn), "compare with "+what, p.Pos(bo.Pos()), why)
						continue
					}
				} else if tn, ok := tableElem(other, t, 0); ok {
					what = "element of " + tn
					wantCase = "U"
				} else {
					continue
				}
				n++
				cf, nf := normFormEnv(probe, env, 0)
				expr := "compare " + probe.Name() + " with " + what
				switch {
				case wantCase == "mixed":
					r.Fail(rule, core.QualName(fn), expr, p.Pos(bo.Pos()), "comparison with a mixed-case constant can never be case-insensitive")
				case cf != wantCase:
					r.Fail(rule, core.QualName(fn), expr, p.Pos(bo.Pos()), fmt.Sprintf("the compared value is not case-folded to match (%s needed, found %q): letter case changes the outcome", map[string]string{"U": "strings.ToUpper", "L": "strings.ToLower"}[wantCase], cf))
				case needNul && !nf:
					r.Fail(rule, core.QualName(fn), expr, p.Pos(bo.Pos()), "the compared name is not NUL-stripped (strings.ReplaceAll(x, \"\\x00\", \"\")): a NUL byte inside the name changes the outcome")
				default:
					r.OK(rule, core.QualName(fn), expr, p.Pos(bo.Pos()), "case-folded"+map[bool]string{true: " and NUL-stripped", false: ""}[nf])
				}
			}
		}
	}
	return n
}

// rawLengthRule (N-b): a branch on the raw (un-normalised) length of the
// parameter that rejects the name must be a lower bound ≤ minLen; an upper
// bound on the normalised length must be ≥ maxLen.
func rawLengthRule(p *core.Program, r *core.Result, fn *ssa.Function, minLen, maxLen int, rule string) {
	if len(fn.Params) == 0 {
		return
	}
	isRawLen := func(v ssa.Value) bool {
		c, ok := v.(*ssa.Call)
		if !ok {
			return false
		}
		b, ok := c.Common().Value.(*ssa.Builtin)
		if !ok || b.Name() != "len" {
			return false
		}
		_, isParam := c.Common().Args[0].(*ssa.Parameter)
		return isParam || normalisedOfParam(c.Common().Args[0], 0)
	}
	// the length of the normalised name (ToUpper / ReplaceAll of the parameter): a lower
	// bound must not exceed the shortest listed name either; upper bounds are not judged
	isNormLen := func(v ssa.Value) bool {
		c, ok := v.(*ssa.Call)
		return ok && len(c.Common().Args) == 1 && normalisedOfParam(c.Common().Args[0], 0)
	}
	rejects := func(b *ssa.BasicBlock) bool {
		// the block (after optional jumps) returns the negative constant immediately
		for i := 0; i < 3; i++ {
			if len(b.Instrs) == 0 {
				return false
			}
			switch x := b.Instrs[len(b.Instrs)-1].(type) {
			case *ssa.Return:
				if len(b.Instrs) != 1 || len(x.Results) != 1 {
					return false
				}
				if bv, ok := ssax.ConstBool(x.Results[0]); ok {
					return !bv
				}
				if k, ok := ssax.ConstInt(x.Results[0]); ok {
					return k == 0
				}
				return false
			case *ssa.Jump:
				if len(b.Instrs) != 1 {
					return false
				}
				b = b.Succs[0]
			default:
				return false
			}
		}
		return false
	}
	for _, b := range fn.Blocks {
		if len(b.Instrs) == 0 {
			continue
		}
		iff, ok := b.Instrs[len(b.Instrs)-1].(*ssa.If)
		if !ok {
			continue
		}
		for _, f := range ssax.ExpandCond(iff.Cond, true) {
			bo, ok := f.Cond.(*ssa.BinOp)
			if !ok || !isRawLen(bo.X) {
				continue
			}
			k, ok := ssax.ConstInt(bo.Y)
			if !ok {
				// a bound that is not a constant: any rejection on the raw length is undecided
				// for a lower bound and wrong for an upper bound
				for succ := 0; succ < 2; succ++ {
					if rejects(b.Succs[succ]) {
						r.Fail(rule, core.QualName(fn), "reject on len(raw) compared with "+core.Short(ssax.Canon(bo.Y)), p.Pos(iff.Pos()), "a name is rejected because of its RAW length (measured before NUL bytes are stripped) compared with a non-constant bound: inserting NULs inside a listed name changes the verdict")
					}
				}
				continue
			}
			// which successor rejects?
			for succ := 0; succ < 2; succ++ {
				if !rejects(b.Succs[succ]) {
					continue
				}
				// condition under which this successor is taken, as an interval on len
				truth := (succ == 0) == f.True
				op := bo.Op
				if !truth {
					switch op {
					case token.LSS:
						op = token.GEQ
					case token.LEQ:
						op = token.GTR
					case token.GTR:
						op = token.LEQ
					case token.GEQ:
						op = token.LSS
					case token.EQL:
						op = token.NEQ
					case token.NEQ:
						op = token.EQL
					}
				}
				what := "raw"
				if isNormLen(bo.X) {
					what = "normalised"
				}
				expr := fmt.Sprintf("reject when len(%s) %s %d", what, op, k)
				switch op {
				case token.LSS:
					if int(k) <= minLen {
						r.OK(rule, core.QualName(fn), expr, p.Pos(iff.Pos()), fmt.Sprintf("lower bound ≤ shortest listed name (%d): the stripped name is at most as long as the raw one", minLen))
					} else {
						r.Fail(rule, core.QualName(fn), expr, p.Pos(iff.Pos()), fmt.Sprintf("the raw-length shortcut rejects names shorter than %d but the shortest listed name has %d characters", k, minLen))
					}
				case token.LEQ:
					if int(k)+1 <= minLen {
						r.OK(rule, core.QualName(fn), expr, p.Pos(iff.Pos()), "lower bound ≤ shortest listed name")
					} else {
						r.Fail(rule, core.QualName(fn), expr, p.Pos(iff.Pos()), fmt.Sprintf("the raw-length shortcut rejects names of length ≤ %d but the shortest listed name has %d characters", k, minLen))
					}
				default:
					if isNormLen(bo.X) {
						// an upper bound on the normalised length must not cut off the longest
						// listed name (for attributes: "ON" + the longest listed event)
						switch {
						case op == token.GTR && int(k) < maxLen, op == token.GEQ && int(k) <= maxLen:
							r.Fail(rule, core.QualName(fn), expr, p.Pos(iff.Pos()), fmt.Sprintf("the length shortcut rejects normalised names longer than the bound, but the longest name that must be recognised has %d characters", maxLen))
						case op == token.GTR || op == token.GEQ:
							r.OK(rule, core.QualName(fn), expr, p.Pos(iff.Pos()), fmt.Sprintf("upper bound ≥ longest listed name (%d)", maxLen))
						}
						continue // exact values of the normalised length: not judged
					}
					r.Fail(rule, core.QualName(fn), expr, p.Pos(iff.Pos()), "a name is rejected because of an upper bound (or exact value) of its RAW length, measured before NUL bytes are stripped: inserting NULs inside a listed name changes the verdict")
				}
			}
		}
	}
}

// fullScanRule (N3): loops over a name table visit every element: index
// starts at 0 (or -1 with pre-increment), steps by one, bound is len(table).
func fullScanRule(p *core.Program, r *core.Result, root *ssa.Function, t *tables.Tables, rule string) int {
	n := 0
	for _, fn := range helperGroup(p, root) {
		n += fullScanRuleIn(p, r, fn, t, rule)
	}
	return n
}

func fullScanRuleIn(p *core.Program, r *core.Result, fn *ssa.Function, t *tables.Tables, rule string) int {
	n := 0
	for _, b := range fn.Blocks {
		for _, ins := range b.Instrs {
			// a look-up in an index built from the table stands for the scan of that table
			if lk, isLk := ins.(*ssa.Lookup); isLk {
				if tn, builder, ok := tableIndexOf(p, t, lk.X); ok {
					n++
					r.OK(rule, core.QualName(fn), "look-up in the index of "+tn, p.Pos(lk.Pos()), "index built by "+builder.Name())
					indexBuilderRule(p, r, builder, t, rule, tn)
				}
				continue
			}
			ia, ok := ins.(*ssa.IndexAddr)
			if !ok {
				continue
			}
			tn, ok := tableElem(ia.X, t, 0)
			if !ok {
				continue
			}
			n += len(strings.Split(tn, "|"))
			expr := "scan of " + tn
			// index = phi [c0, phi+1] or (phi [-1, idx]) + 1
			idx := ia.Index
			var ph *ssa.Phi
			pre := false
			if bo, ok := idx.(*ssa.BinOp); ok && bo.Op == token.ADD {
				if k, ok := ssax.ConstInt(bo.Y); ok && k == 1 {
					ph, _ = bo.X.(*ssa.Phi)
					pre = true
				}
			} else {
				ph, _ = idx.(*ssa.Phi)
			}
			if ph == nil || len(ph.Edges) < 2 {
				r.Fail(rule, core.QualName(fn), expr, p.Pos(ia.Pos()), "table is indexed by something other than a simple loop counter (undecided whether every entry is visited)")
				continue
			}
			// one start constant; every other edge (several `continue`s give several) is counter + 1
			start, stepOK, nStart := int64(-99), true, 0
			for _, e := range ph.Edges {
				if k, ok := ssax.ConstInt(e); ok {
					start = k
					nStart++
					continue
				}
				bo, ok := e.(*ssa.BinOp)
				if !ok || bo.Op != token.ADD || bo.X != ssa.Value(ph) {
					stepOK = false
					continue
				}
				if k, ok := ssax.ConstInt(bo.Y); !ok || k != 1 {
					stepOK = false
				}
			}
			if nStart != 1 {
				stepOK = false
			}
			wantStart := int64(0)
			if pre {
				wantStart = -1
			}
			// bound: a comparison idx < len(table) controlling the loop
			boundOK := false
			for _, ref := range *idx.Referrers() {
				cmp, ok := ref.(*ssa.BinOp)
				if !ok || cmp.Op != token.LSS || cmp.X != idx {
					continue
				}
				if c, ok := cmp.Y.(*ssa.Call); ok {
					if bi, ok := c.Common().Value.(*ssa.Builtin); ok && bi.Name() == "len" {
						if tn2, ok := tableElem(c.Common().Args[0], t, 0); ok && tn2 == tn {
							boundOK = true
						}
					}
				}
			}
			if !pre {
				for _, ref := range *ph.Referrers() {
					cmp, ok := ref.(*ssa.BinOp)
					if !ok || cmp.Op != token.LSS || cmp.X != ssa.Value(ph) {
						continue
					}
					if c, ok := cmp.Y.(*ssa.Call); ok {
						if bi, ok := c.Common().Value.(*ssa.Builtin); ok && bi.Name() == "len" {
							if tn2, ok := tableElem(c.Common().Args[0], t, 0); ok && tn2 == tn {
								boundOK = true
							}
						}
					}
				}
			}
			scanExitRule(p, r, fn, t, rule, tn, ph, idx)
			switch {
			case start != wantStart:
				r.Fail(rule, core.QualName(fn), expr, p.Pos(ia.Pos()), fmt.Sprintf("the scan starts at index %d, not at the first entry", start+map[bool]int64{true: 1, false: 0}[pre]))
			case !stepOK:
				r.Fail(rule, core.QualName(fn), expr, p.Pos(ia.Pos()), "the scan does not step by one entry")
			case !boundOK:
				r.Fail(rule, core.QualName(fn), expr, p.Pos(ia.Pos()), "the scan is not bounded by len(table): some listed names may never be compared")
			default:
				r.OK(rule, core.QualName(fn), expr, p.Pos(ia.Pos()), "0 .. len(table)-1, step 1")
			}
		}
	}
	return n
}

// nulSkipRule (N-c): in a name scanner, the decision for byte 0 goes back to
// the loop head without reaching a return or a store to the token fields.
func nulSkipRule(p *core.Program, a *Anchors, r *core.Result, fn *ssa.Function, rule string) {
	var idx *ssa.Index
	for _, b := range fn.Blocks {
		for _, ins := range b.Instrs {
			if x, ok := ins.(*ssa.Index); ok {
				if a.loadsField(x.X, "xss.state.s") && idx == nil {
					// the byte read inside the scanning loop
					inLoop := false
					for _, s := range b.Succs {
						if ssax.Reachable(s, b) {
							inLoop = true
						}
					}
					if inLoop {
						idx = x
					}
				}
			}
		}
	}
	if idx == nil {
		r.Fail(rule, core.QualName(fn), "scanned byte", p.Pos(fn.Pos()), "no input byte read inside a loop found in the name scanner (undecided)")
		return
	}
	ev := ssax.NewAbsEval(ssax.AbsHooks{InModule: p.InModule, Value: func(v ssa.Value) (ssax.AVal, bool) {
		if v == ssa.Value(idx) {
			return ssax.ASet(ssax.SetOf(0)), true
		}
		return ssax.AUnknown, false
	}})
	res := ev.Run(fn)
	// walk from the byte's block along executable edges until a block that dominates it (loop head)
	seen := map[*ssa.BasicBlock]bool{}
	bad := ""
	var walk func(b *ssa.BasicBlock, first bool)
	walk = func(b *ssa.BasicBlock, first bool) {
		if bad != "" || seen[b] {
			return
		}
		if !first && b != idx.Block() && b.Dominates(idx.Block()) {
			return // back at the loop head
		}
		seen[b] = true
		for _, ins := range b.Instrs {
			if first && ssax.InstrIndex(ins) <= ssax.InstrIndex(idx) {
				continue
			}
			switch x := ins.(type) {
			case *ssa.Return:
				bad = "a NUL byte inside the name ends the scan (return at " + p.Pos(x.Pos()) + ")"
			case *ssa.Store:
				if fr, ok := ssax.AsFieldAddr(x.Addr); ok && (fr.Field == a.Fields["xss.state.tokenStart"] || fr.Field == a.Fields["xss.state.tokenLen"] || fr.Field == a.Fields["xss.state.tokenType"] || fr.Field == a.Fields["xss.state.state"]) {
					bad = "a NUL byte inside the name emits a token / changes state (store " + fr.Field + " at " + p.Pos(x.Pos()) + ")"
				}
			}
		}
		for _, s := range b.Succs {
			if res.ExecBlock[s] && edgeExec(res, b, s) {
				walk(s, false)
			}
		}
	}
	walk(idx.Block(), true)
	if bad != "" {
		r.Fail(rule, core.QualName(fn), "decision for byte 0x00", p.Pos(idx.Pos()), bad)
	} else {
		r.OK(rule, core.QualName(fn), "decision for byte 0x00", p.Pos(idx.Pos()), "continues the scan (returns to the loop head, no token emitted)")
	}
}

func edgeExec(res *ssax.AbsResult, a, b *ssa.BasicBlock) bool { return res.EdgeExecutable(a, b) }

// scanExitRule (part of N3): a scan of a name table may leave its loop only (a) by
// its bound test, (b) under a string equality that involves the current entry
// (the positive verdict), or (c) under `entry > name` when the table is strictly
// ascending.  Any other early exit can stop the scan before a listed name was compared.
func scanExitRule(p *core.Program, r *core.Result, fn *ssa.Function, t *tables.Tables, rule, tn string, ph *ssa.Phi, idx ssa.Value) {
	hb := ph.Block()
	inLoop := map[*ssa.BasicBlock]bool{}
	for _, b := range fn.Blocks {
		if b == hb || (ssax.Reachable(hb, b) && ssax.Reachable(b, hb)) {
			inLoop[b] = true
		}
	}
	sorted := func() bool {
		for _, name := range strings.Split(tn, "|") {
			var es []tables.Named
			switch name {
			case t.BlackTagsVar:
				es = t.BlackTags
			case t.BlacksVar:
				es = t.Blacks
			case t.BlackEventsVar:
				es = t.BlackEvents
			default:
				return false
			}
			for i := 1; i < len(es); i++ {
				if !(es[i-1].Name < es[i].Name) {
					return false
				}
			}
		}
		return true
	}
	isEntry := func(v ssa.Value) bool {
		_, ok := tableElem(v, t, 0)
		return ok
	}
	for b := range inLoop {
		iff, ok := b.Instrs[len(b.Instrs)-1].(*ssa.If)
		if !ok {
			// a jump or return leaving the loop from inside: judged by the facts of its block
			exits := false
			for _, sc := range b.Succs {
				if !inLoop[sc] {
					exits = true
				}
			}
			_, isRet := b.Instrs[len(b.Instrs)-1].(*ssa.Return)
			if !exits && !isRet {
				continue
			}
			if !scanExitJustified(ssax.Facts(b), isEntry, sorted, ph, idx, t, tn) {
				r.Fail(rule, core.QualName(fn), "early exit from the scan of "+tn, p.Pos(b.Instrs[len(b.Instrs)-1].Pos()), "the scan of a name table is left before its end without a match of the current entry: listed names behind this point are never compared")
			}
			continue
		}
		for i, sc := range b.Succs {
			if inLoop[sc] {
				continue
			}
			facts := append(append([]ssax.Fact{}, ssax.Facts(b)...), ssax.ExpandCond(iff.Cond, i == 0)...)
			if !scanExitJustified(facts, isEntry, sorted, ph, idx, t, tn) {
				r.Fail(rule, core.QualName(fn), "early exit from the scan of "+tn, p.Pos(iff.Pos()), "the scan of a name table is left before its end without a match of the current entry: listed names behind this point are never compared")
			}
		}
	}
}

func scanExitJustified(facts []ssax.Fact, isEntry func(ssa.Value) bool, sorted func() bool, ph *ssa.Phi, idx ssa.Value, t *tables.Tables, tn string) bool {
	for _, f := range facts {
		switch c := f.Cond.(type) {
		case *ssa.BinOp:
			// (a) the bound test failed: idx < len(table) is false
			if c.Op == token.LSS && !f.True && (c.X == idx || c.X == ssa.Value(ph)) {
				if call, ok := c.Y.(*ssa.Call); ok {
					if bi, ok := call.Common().Value.(*ssa.Builtin); ok && bi.Name() == "len" {
						if tn2, ok := tableElem(call.Common().Args[0], t, 0); ok && tn2 == tn {
							return true
						}
					}
				}
				if _, ok := ssax.ConstInt(c.Y); ok {
					return true // a range over an array: constant bound
				}
			}
			if !isStringType(c.X.Type()) {
				continue
			}
			// (b) a match of the current entry
			if ((c.Op == token.EQL && f.True) || (c.Op == token.NEQ && !f.True)) && (isEntry(c.X) || isEntry(c.Y)) {
				return true
			}
			// (c) entry > name in a strictly ascending table
			gt := (c.Op == token.GTR && f.True && isEntry(c.X)) || (c.Op == token.LSS && f.True && isEntry(c.Y)) ||
				(c.Op == token.LEQ && !f.True && isEntry(c.X)) || (c.Op == token.GEQ && !f.True && isEntry(c.Y))
			if gt && sorted() {
				return true
			}
		case *ssa.Call:
			if cf := c.Common().StaticCallee(); cf != nil && f.True && cf.Pkg != nil && cf.Pkg.Pkg.Path() == "strings" && cf.Name() == "EqualFold" {
				if isEntry(c.Common().Args[0]) || isEntry(c.Common().Args[1]) {
					return true
				}
			}
		}
	}
	return false
}

// ---- name tables reached through an index (a map built once from the table)

// tableIndexOf: v is (a load of) a package-level map whose initialiser is
// `builder(table)` with table one of the three name tables; returns the table's name
// and the builder.
func tableIndexOf(p *core.Program, t *tables.Tables, v ssa.Value) (string, *ssa.Function, bool) {
	ld, ok := v.(*ssa.UnOp)
	if !ok || ld.Op != token.MUL {
		return "", nil, false
	}
	g, ok := ld.X.(*ssa.Global)
	if !ok {
		return "", nil, false
	}
	mt, ok := g.Type().(*types.Pointer).Elem().Underlying().(*types.Map)
	if !ok {
		return "", nil, false
	}
	if kb, ok := mt.Key().Underlying().(*types.Basic); !ok || kb.Kind() != types.String {
		return "", nil, false
	}
	init := tables.PackageVars(p)[g.Name()]
	call, ok := init.(*ast.CallExpr)
	if !ok || len(call.Args) != 1 {
		return "", nil, false
	}
	fid, ok := call.Fun.(*ast.Ident)
	if !ok {
		return "", nil, false
	}
	fobj, ok := p.Info.Uses[fid].(*types.Func)
	if !ok {
		return "", nil, false
	}
	builder := p.SSA.FuncValue(fobj)
	aid, ok := call.Args[0].(*ast.Ident)
	if !ok || builder == nil {
		return "", nil, false
	}
	if aid.Name != t.BlackTagsVar && aid.Name != t.BlacksVar && aid.Name != t.BlackEventsVar {
		return "", nil, false
	}
	return aid.Name, builder, true
}

// indexBuilderRule: the builder of a table index visits every entry of its table
// parameter (fullScanRule on its loop) and files each entry under its own name.
func indexBuilderRule(p *core.Program, r *core.Result, builder *ssa.Function, t *tables.Tables, rule, tn string) {
	n := fullScanRuleIn(p, r, builder, t, rule)
	if n == 0 {
		r.Fail(rule, core.QualName(builder), "index of "+tn+": scan of the table", p.Pos(builder.Pos()), "the index builder does not scan its table with a simple counting loop (undecided whether every name is filed)")
	}
	keyed := false
	for _, b := range builder.Blocks {
		for _, ins := range b.Instrs {
			mu, ok := ins.(*ssa.MapUpdate)
			if !ok {
				continue
			}
			if _, isElem := tableElem(mu.Key, t, 0); isElem {
				keyed = true
			} else {
				r.Fail(rule, core.QualName(builder), "index of "+tn+": key "+ssax.Canon(mu.Key), p.Pos(mu.Pos()), "an index entry is filed under something other than the table entry's own name")
			}
		}
	}
	if keyed {
		r.OK(rule, core.QualName(builder), "index of "+tn+": every entry is filed under its own name", p.Pos(builder.Pos()), "")
	} else {
		r.Fail(rule, core.QualName(builder), "index of "+tn+": entries filed", p.Pos(builder.Pos()), "the index builder files no table entry")
	}
}

// normalisedOfParam: v is the parameter passed through strings.ToUpper / ToLower /
// ReplaceAll (the normal form of a name), possibly via a φ of such values.
func normalisedOfParam(v ssa.Value, depth int) bool {
	if depth > 6 {
		return false
	}
	switch x := v.(type) {
	case *ssa.Call:
		f := x.Common().StaticCallee()
		if f == nil || f.Pkg == nil || f.Pkg.Pkg.Path() != "strings" {
			return false
		}
		switch f.Name() {
		case "ToUpper", "ToLower", "ReplaceAll":
			a0 := x.Common().Args[0]
			if _, isParam := a0.(*ssa.Parameter); isParam {
				return true
			}
			return normalisedOfParam(a0, depth+1)
		}
	}
	return false
}

// maxNameLens: the longest element name (listed tags and the literal names the
// tag predicate compares with) and the longest attribute name ("ON" + longest
// listed event, longest listed attribute) that the name predicates must accept.
func maxNameLens(t *tables.Tables, isTag *ssa.Function) (maxTag, maxAttr int) {
	for _, n := range t.BlackTags {
		if len(n.Name) > maxTag {
			maxTag = len(n.Name)
		}
	}
	for _, b := range isTag.Blocks {
		for _, ins := range b.Instrs {
			if bo, ok := ins.(*ssa.BinOp); ok && bo.Op == token.EQL {
				if cs, ok := ssax.ConstString(bo.Y); ok && len(cs) > maxTag {
					maxTag = len(cs)
				}
			}
		}
	}
	for _, n := range t.Blacks {
		if len(n.Name) > maxAttr {
			maxAttr = len(n.Name)
		}
	}
	for _, n := range t.BlackEvents {
		if len(n.Name)+2 > maxAttr {
			maxAttr = len(n.Name) + 2
		}
	}
	return
}
