package checks

import "verif/tools/internal/tables"

// The token classes the properties speak about are fixed by the fingerprint
// alphabet (a fingerprint such as `s&1` is made of these characters), so the
// checks refer to them by value, not by the name of a constant.
const (
	classString      = 's'
	classComment     = 'c'
	classFingerprint = 'F'
	classEvil        = 'X'
	classBareWord    = 'n'
	classNumber      = '1'
	classFunction    = 'f'
)

// classValue: the class character, and whether the tree declares a class constant with that value.
func classValue(t *tables.Tables, c byte) (byte, bool) {
	for _, v := range t.ClassConsts {
		if int64(v) == int64(c) {
			return c, true
		}
	}
	return c, false
}
