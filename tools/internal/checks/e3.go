package checks

import (
	"fmt"
	"go/types"
	"os"
	"strconv"
	"strings"
	"sync"
	"time"

	"verif/tools/internal/ssax"

	"golang.org/x/tools/go/ssa"

	"verif/tools/internal/absint"
	"verif/tools/internal/core"
	"verif/tools/internal/tables"
)

// e3Env bundles what the E3 roots need.
type e3Env struct {
	start    time.Time
	c        *Ctx
	p        *core.Program
	a        *Anchors
	tabs     *tables.Tables
	disp     *tables.Dispatch
	closedMu sync.Mutex
	closed   map[string]closedVal
	stT      types.Type // SQL state struct
	tokT     types.Type
	h5T      types.Type
	k        int
	trace    bool
	resid    map[string]bool // rule|function|construct of the listed residuals
}

// unlistedFailures counts the undischarged obligations of an engine that are not listed residuals.
func (env *e3Env) unlistedFailures(e *absint.Engine) int {
	n := 0
	for _, o := range e.Obs {
		if o.Bad == 0 || env.resid[o.Rule+"|"+o.Fn+"|"+o.Expr] {
			continue
		}
		listed := false
		for k := range env.resid {
			parts := strings.SplitN(k, "|", 3)
			if len(parts) == 3 && parts[0] == o.Rule && parts[2] == o.Expr && residualScope != nil && residualScope(parts[1], o.Fn) {
				listed = true
			}
		}
		if !listed {
			n++
		}
	}
	return n
}

// runEscalating analyses a root; when obligations stay undischarged (beyond the
// listed residuals) it repeats the analysis with more disjuncts (K×2, K×4) and a
// larger budget, and keeps the most precise run.  The analysis is sound for any K;
// more disjuncts only remove imprecision introduced by merging paths.
func (env *e3Env) runEscalating(cfg absint.Config, fn *ssa.Function, setup func(e *absint.Engine, st *absint.State, fr *absint.Frame)) (*absint.Engine, int) {
	e := absint.NewEngine(env.p, cfg)
	e.RunRoot(fn, setup)
	bad := env.unlistedFailures(e)
	level := 0
	// Escalation is bounded in time (it only happens on a tree that already fails at the
	// normal precision, so the bound cannot turn a passing run into a failing one; it
	// keeps a failing tree from costing tens of minutes): no new attempt once the check
	// has run for escLimit, and each attempt has its own deadline, after which it counts
	// as not better than the run before.
	escLimit, escRun := 120*time.Second, 120*time.Second
	if env.c.Tier == "thorough" {
		escLimit, escRun = 1200*time.Second, 900*time.Second
	}
	for attempt := 1; attempt <= 2 && bad > 0; attempt++ {
		if time.Since(env.start) > escLimit {
			break
		}
		c2 := cfg
		c2.Deadline = time.Now().Add(escRun)
		c2.K = cfg.K << uint(attempt)
		if cfg.ResultCap > 0 {
			c2.ResultCap = cfg.ResultCap << uint(attempt)
		}
		c2.MaxLP = 450000
		c2.MaxInline = 80000 // code cut into many small helpers needs more inlinings for the same paths
		e2 := absint.NewEngine(env.p, c2)
		e2.RunRoot(fn, setup)
		if b2 := env.unlistedFailures(e2); b2 < bad {
			e, bad, level = e2, b2, attempt
		}
	}
	return e, level
}

func newE3Env(c *Ctx, r *core.Result) *e3Env {
	env := &e3Env{c: c, p: c.P, k: 8, start: time.Now()}
	if c.Tier == "thorough" {
		env.k = 12
	}
	if v, err := strconv.Atoi(os.Getenv("VERIF_K")); err == nil && v > 0 {
		env.k = v // debugging
	}
	env.a = loadAnchors(c, r) // (also detects pure renames, which the residual list follows)
	residualScope = func(listed, actual string) bool {
		lf, af := c.P.FuncByQualName(listed), c.P.FuncByQualName(actual)
		if lf == nil || af == nil || lf == af {
			return false
		}
		level := map[*ssa.Function]bool{lf: true}
		for depth := 0; depth < 2; depth++ {
			next := map[*ssa.Function]bool{}
			for f := range level {
				for _, ci := range ssax.Calls(f) {
					if h := ci.Common().StaticCallee(); h != nil && c.P.InModule(h) {
						if h == af {
							return true
						}
						next[h] = true
					}
				}
			}
			level = next
		}
		return false
	}
	env.resid = map[string]bool{}
	for _, re := range loadResiduals(c, r) {
		env.resid[re.Rule+"|"+re.Func+"|"+re.Expr] = true
	}
	t, errs := tables.Extract(c.P)
	for _, e := range errs {
		r.Fail("T1", "-", "table extraction", "-", e.Error())
	}
	env.tabs = t
	d, err := tables.EvalDispatch(c.P)
	if err != nil {
		r.Fail("E2", "-", "dispatch table", "-", err.Error())
	}
	env.disp = d
	look := func(role string) types.Type {
		name := env.a.TypeName(role)
		if obj := c.P.Types.Scope().Lookup(name); obj != nil {
			return obj.Type()
		}
		anchorFail(r, role, "type "+name+" not found")
		return nil
	}
	env.stT, env.tokT, env.h5T = look("sql.state"), look("sql.token"), look("xss.state")
	return env
}

func (env *e3Env) config() absint.Config {
	cfg := absint.Config{K: env.k, MaxDepth: 14, TableLens: map[string]int64{}, TableRng: map[string][2]int64{}, TableVals: map[string][]int64{}, Dispatch: map[int]*ssa.Function{}, Summaries: map[*ssa.Function]absint.Summary{}}
	cfg.GhostDefault = func(obj, field string) (absint.AVal, bool) {
		switch {
		case obj == "GHOST:cost" && (strings.HasPrefix(field, "M:") || strings.HasPrefix(field, "X:")):
			return absint.IntV{L: absint.K(-1)}, true // nothing read yet
		case obj == "GHOST:url" && field == "next":
			return absint.IntV{L: absint.K(0)}, true // no list entry tried yet
		}
		return nil, false
	}
	cfg.Closed = env.closedVar
	p := env.p
	if env.disp != nil {
		cfg.DispVar = env.disp.Var
		cfg.TableLens[env.disp.Var] = int64(len(env.disp.Table))
		for i, f := range env.disp.Table {
			cfg.Dispatch[i] = f
		}
	}
	if env.tabs != nil {
		if env.tabs.HexMapVar != "" {
			cfg.TableLens[env.tabs.HexMapVar] = int64(len(env.tabs.HexMap))
			lo, hi := int64(1<<40), int64(-1<<40)
			for _, v := range env.tabs.HexMap {
				if v < lo {
					lo = v
				}
				if v > hi {
					hi = v
				}
			}
			cfg.TableRng[env.tabs.HexMapVar] = [2]int64{lo, hi}
			cfg.TableVals[env.tabs.HexMapVar] = env.tabs.HexMap
		}
		cfg.TableLens[env.tabs.BlackTagsVar] = int64(len(env.tabs.BlackTags))
		cfg.TableLens[env.tabs.BlacksVar] = int64(len(env.tabs.Blacks))
		cfg.TableLens[env.tabs.BlackEventsVar] = int64(len(env.tabs.BlackEvents))
	}
	// byte tables built by closed initialisers
	for name, init := range tables.PackageVars(p) {
		if init == nil {
			continue
		}
		if _, have := cfg.TableLens[name]; have {
			continue
		}
		g := p.GlobalVar(name)
		if g == nil {
			continue
		}
		var elT types.Type
		switch u := g.Type().Underlying().(*types.Pointer).Elem().Underlying().(type) {
		case *types.Slice:
			elT = u.Elem()
		case *types.Array:
			elT = u.Elem()
		}
		if elT != nil {
			if b, ok := elT.Underlying().(*types.Basic); ok && b.Kind() == types.Uint8 {
				if vals, err := tables.EvalByteTable(p, name); err == nil {
					cfg.TableLens[name] = int64(len(vals))
					cfg.TableVals[name] = vals
				}
			}
		}
	}
	tokName := env.a.TypeName("sql.token")
	cfg.Inv = []absint.StructInv{{Type: tokName, LenField: env.a.Fields["sql.token.len"], ValField: env.a.Fields["sql.token.val"], Max: 31}}
	if ts, ok := p.ConstInt(env.a.Consts["sql.tokenSize"]); ok {
		cfg.Inv[0].Max = ts - 1
	}
	return cfg
}

// sqlStateSetup prepares the scanner interface invariant:
// length = len(input) ∧ 0 ≤ pos ≤ length ∧ current = &tokenVec[k], 0 ≤ k ≤ 7.
func (env *e3Env) sqlStateSetup(e *absint.Engine, st *absint.State, fr *absint.Frame, recv *ssa.Parameter) (absint.PtrV, absint.StrV) {
	a := env.a
	S := absint.ObjPtr("S", env.stT)
	e.Bind(st, fr, recv, S)
	in := e.NewInput(st, "INPUT")
	e.SetCell(st, S, a.Fields["sql.state.input"], in)
	e.SetCell(st, S, a.Fields["sql.state.length"], absint.IntV{L: absint.StrLenOf(in)})
	pos := e.NewInt(st, "pos0")
	e.AssumeLE(st, absint.K(0), pos)
	e.AssumeLE(st, pos, absint.StrLenOf(in))
	e.SetCell(st, S, a.Fields["sql.state.pos"], absint.IntV{L: pos})
	k := e.NewInt(st, "cur0")
	e.AssumeLE(st, absint.K(0), k)
	e.AssumeLE(st, k, absint.K(7))
	e.SetCell(st, S, a.Fields["sql.state.current"], absint.ElemPtr("S."+a.Fields["sql.state.tokens"], k, env.tokT))
	return S, in
}

func obsToResult(p *core.Program, r *core.Result, e *absint.Engine, residual func(o *absint.Ob) (string, bool), want func(o *absint.Ob) bool) {
	for _, o := range e.SortedObs() {
		if want != nil && !want(o) {
			continue
		}
		if o.Bad == 0 {
			r.OK(o.Rule, o.Fn, o.Expr, o.Pos, fmt.Sprintf("discharged in %d context(s)", o.OK))
			continue
		}
		if residual != nil {
			if why, ok := residual(o); ok {
				r.Residual(o.Rule, o.Fn, o.Expr, o.Pos, why)
				continue
			}
		}
		r.Fail(o.Rule, o.Fn, o.Expr, o.Pos, o.Why+fmt.Sprintf(" (undischarged in %d of %d contexts)", o.Bad, o.OK+o.Bad))
	}
}

func isPtrTo(t types.Type, name string) bool {
	pt, ok := t.Underlying().(*types.Pointer)
	if !ok {
		return false
	}
	n, ok := pt.Elem().(*types.Named)
	return ok && n.Obj().Name() == name
}

func isStringType(t types.Type) bool {
	b, ok := t.Underlying().(*types.Basic)
	return ok && b.Info()&types.IsString != 0
}

func isIntType(t types.Type) bool {
	b, ok := t.Underlying().(*types.Basic)
	return ok && b.Info()&types.IsInteger != 0
}

// h5StateSetup prepares the tokenizer interface invariant len = len(s) ∧ 0 ≤ pos ≤ len,
// plus optional entry facts.
func (env *e3Env) h5StateSetup(e *absint.Engine, st *absint.State, fr *absint.Frame, recv *ssa.Parameter, facts func(pos, length absint.Lin)) (absint.PtrV, absint.StrV) {
	a := env.a
	H := absint.ObjPtr("H", env.h5T)
	e.Bind(st, fr, recv, H)
	in := e.NewInput(st, "INPUT")
	e.SetCell(st, H, a.Fields["xss.state.s"], in)
	e.SetCell(st, H, a.Fields["xss.state.len"], absint.IntV{L: absint.StrLenOf(in)})
	pos := e.NewInt(st, "pos0")
	e.AssumeLE(st, absint.K(0), pos)
	e.AssumeLE(st, pos, absint.StrLenOf(in))
	e.SetCell(st, H, a.Fields["xss.state.pos"], absint.IntV{L: pos})
	if facts != nil {
		facts(pos, absint.StrLenOf(in))
	}
	return H, in
}

// retLabel names a return site: the SSA text, plus an ordinal among the
// function's textually identical returns (several `return true`).
func retLabel(ret *ssa.Return) string {
	txt := core.Short(ret.String())
	fn := ret.Parent()
	if fn == nil {
		return txt
	}
	n, idx := 0, 0
	for _, b := range fn.Blocks {
		for _, ins := range b.Instrs {
			if r2, ok := ins.(*ssa.Return); ok && core.Short(r2.String()) == txt {
				n++
				if r2 == ret {
					idx = n
				}
			}
		}
	}
	if n > 1 {
		return fmt.Sprintf("%s #%d", txt, idx)
	}
	return txt
}

func levelNote(level int) string {
	if level == 0 {
		return ""
	}
	return fmt.Sprintf(" (needed K×%d)", 1<<uint(level))
}

// closedVar: the value of a package-level variable with a closed initialiser (cached per check run).
func (env *e3Env) closedVar(name string) (tables.Val, bool) {
	env.closedMu.Lock()
	defer env.closedMu.Unlock()
	if env.closed == nil {
		env.closed = map[string]closedVal{}
	}
	if c, ok := env.closed[name]; ok {
		return c.v, c.ok
	}
	var v tables.Val
	ok := false
	// maps and large tables are not what the row split is for
	if g := env.p.GlobalVar(name); g != nil {
		switch u := g.Type().(*types.Pointer).Elem().Underlying().(type) {
		case *types.Array, *types.Slice:
			_ = u
			if val, err := tables.ClosedValue(env.p, name); err == nil {
				v, ok = val, true
			} else if os.Getenv("VERIF_DBGCLOSED") != "" {
				fmt.Fprintf(os.Stderr, "closed %s: %v\n", name, err)
			}
		}
	}
	env.closed[name] = closedVal{v, ok}
	return v, ok
}

type closedVal struct {
	v  tables.Val
	ok bool
}
