package checks

import (
	"fmt"
	"os"
	"strings"

	"golang.org/x/tools/go/ssa"

	"verif/tools/internal/absint"
	"verif/tools/internal/core"
	"verif/tools/internal/ssax"
)

func init() { register("C16", "other", checkC16) }

// c16Hooks adds the token-faithfulness obligations to a lexer / tokenize root.
func c16Hooks(sr *sqlRoots, name string, hooks *absint.Hooks) {
	env := sr.env
	a := env.a
	assign := a.Fn("sql.assign")
	prevBefore, prevAfter, prevRet := hooks.BeforeCall, hooks.AfterCall, hooks.OnReturn
	isScan := strings.HasPrefix(name, "lexer:") || name == "tokenize"
	hooks.BeforeCall = func(e *absint.Engine, st *absint.State, fr *absint.Frame, call *ssa.Call, callee *ssa.Function, args []absint.AVal) {
		if prevBefore != nil {
			prevBefore(e, st, fr, call, callee, args)
		}
		rc := sr.getCtx(name)
		if callee != assign || !isScan || rc == nil || len(args) != 5 {
			return
		}
		P, okP := e.AsInt(st, args[2])
		L, okL := e.AsInt(st, args[3])
		V, okV := args[4].(absint.StrV)
		expr := "assign at " + core.QualName(fr.Fn()) + ": " + core.Short(ssax.Canon(call.Common().Args[4]))
		if !okP || !okL || !okV {
			e.Check(st, fr, call.Pos(), "A-val", expr, false, "offset / length / value of the token are not tracked")
			return
		}
		e.Check(st, fr, call.Pos(), "A-val", expr+" — 0 ≤ length ≤ len(value)", e.ProveLE(st, absint.K(0), L) && e.ProveLE(st, L, absint.StrLenOf(V)), "the token length may exceed the value handed to assign")
		if V.Const == nil {
			good := V.Root == rc.In.Root && e.ProveEQ(st, V.Lo, rc.In.Lo.Add(P))
			e.Check(st, fr, call.Pos(), "A-val", expr+" — value starts at the recorded offset", good, fmt.Sprintf("the value is not input[offset:]: value starts at %s, offset is %s", e.LinStr(V.Lo), e.LinStr(P)))
			return
		}
		// constant value: its bytes must be the bytes known to sit at input[P..]
		cs := *V.Const
		good := true
		for i := 0; i < len(cs); i++ {
			m := e.MaskOf(st, absint.ByteV{Root: rc.In.Root, Idx: rc.In.Lo.Add(P).AddK(int64(i))})
			if m.Count() != 1 || !m.Has(int(cs[i])) {
				good = false
			}
		}
		if !good && os.Getenv("VERIF_DBGAVAL") != "" {
			fmt.Fprintf(os.Stderr, "AVAL %s P=%s\n", expr, e.LinStr(P))
			for _, bf := range e.ByteFacts(st, rc.In.Root) {
				fmt.Fprintf(os.Stderr, "   mask idx=%s %s eq=%v\n", e.LinStr(bf.Idx), bf.M, e.ProveEQ(st, bf.Idx, rc.In.Lo.Add(P)))
			}
			e.DumpCons(st, os.Stderr)
		}
		e.Check(st, fr, call.Pos(), "A-val", expr+fmt.Sprintf(" — constant %q equals the input bytes at the offset", cs), good, "a constant token value that is not provably the text at the recorded offset")
	}
	hooks.AfterCall = func(e *absint.Engine, st *absint.State, fr *absint.Frame, call *ssa.Call, callee *ssa.Function, args []absint.AVal, ret absint.AVal) {
		if prevAfter != nil {
			prevAfter(e, st, fr, call, callee, args, ret)
		}
		if callee != assign || !isScan || len(args) != 5 {
			return
		}
		t, okT := args[0].(absint.PtrV)
		P, okP := e.AsInt(st, args[2])
		L, okL := e.AsInt(st, args[3])
		V, okV := args[4].(absint.StrV)
		if !okT || !okP || !okL || !okV {
			return
		}
		expr := "assign result at " + core.QualName(fr.Fn())
		tp, ok1 := e.CellOf(st, t, a.Fields["sql.token.pos"])
		tl, ok2 := e.CellOf(st, t, a.Fields["sql.token.len"])
		tv, ok3 := e.CellOf(st, t, a.Fields["sql.token.val"])
		tpI, okA := tp.(absint.IntV)
		tlI, okB := tl.(absint.IntV)
		tvS, okC := tv.(absint.StrV)
		if !ok1 || !ok2 || !ok3 || !okA || !okB || !okC {
			e.Check(st, fr, call.Pos(), "A-clip", expr, false, "token pos/len/val not written by assign")
			return
		}
		max := int64(31)
		if ts, ok := env.p.ConstInt(a.Consts["sql.tokenSize"]); ok {
			max = ts - 1
		}
		clip := e.ProveEQ(st, tpI.L, P) && e.ProveLE(st, tlI.L, L) && e.ProveLE(st, tlI.L, absint.K(max)) &&
			(e.ProveEQ(st, tlI.L, L) || e.ProveEQ(st, tlI.L, absint.K(max)))
		e.Check(st, fr, call.Pos(), "A-clip", expr+" — pos = offset ∧ len = min(length, max)", clip, "the stored offset/length are not (offset, min(length, 31))")
		if V.Const == nil {
			e.Check(st, fr, call.Pos(), "A-clip", expr+" — val = value[:len]", tvS.Const == nil && tvS.Root == V.Root && e.ProveEQ(st, tvS.Lo, V.Lo) && e.ProveEQ(st, tvS.Hi, V.Lo.Add(tlI.L)), "the stored value is not the first len bytes of the value handed in")
		}
	}
	hooks.OnReturn = func(e *absint.Engine, st *absint.State, fr *absint.Frame, ret *ssa.Return, val absint.AVal) {
		if prevRet != nil {
			prevRet(e, st, fr, ret, val)
		}
		rc := sr.getCtx(name)
		if fr.Depth() != 0 || rc == nil {
			return
		}
		where := retLabel(ret)
		if strings.HasPrefix(name, "lexer:") {
			// A-span: a token written by this step lies inside the consumed span
			if e.IsFreshCell(st, rc.Cur, a.Fields["sql.token.pos"]) && e.IsFreshCell(st, rc.Cur, a.Fields["sql.token.len"]) {
				return // no token in this step (white space)
			}
			tp, ok1 := e.CellOf(st, rc.Cur, a.Fields["sql.token.pos"])
			tl, ok2 := e.CellOf(st, rc.Cur, a.Fields["sql.token.len"])
			tpI, okA := tp.(absint.IntV)
			tlI, okB := tl.(absint.IntV)
			rv, okR := val.(absint.IntV)
			good := ok1 && ok2 && okA && okB && okR && e.ProveLE(st, rc.Pos0, tpI.L) && e.ProveLE(st, tpI.L.Add(tlI.L), rv.L)
			e.Check(st, fr, ret.Pos(), "A-span", "token inside the span consumed by its scan step at "+where, good, "cannot show pos@entry ≤ token.pos ∧ token.pos + token.len ≤ returned cursor: tokens would overlap or run backwards")
		}
		if name == "tokenize" {
			if b, ok := val.(absint.BoolV); ok && b.Known == 2 {
				ps, okp := e.CellOf(st, rc.S, a.Fields["sql.state.pos"])
				psI, okI := ps.(absint.IntV)
				e.Check(st, fr, ret.Pos(), "A-end", "scan ends exactly at end of input at "+where, okp && okI && e.ProveEQ(st, psI.L, absint.StrLenOf(rc.In)), "tokenize reports `no more tokens` although the cursor is not at the end of the input")
			}
		}
	}
}

func checkC16(c *Ctx) *core.Result {
	p := c.P
	r := c.newResult()
	env := newE3Env(c, r)
	if len(r.Violations) > 0 {
		return r
	}
	a := env.a
	sr := &sqlRoots{env: env}
	sr.runAll(func(name string, hooks *absint.Hooks) { c16Hooks(sr, name, hooks) })
	residuals := loadResiduals(c, r)
	obs := mergeObs(sr.runs)
	// C16 owns the token rules and scan progress; the bounds obligations are reported by C01
	own := map[string]bool{"A-val": true, "A-clip": true, "A-span": true, "A-end": true, "P-step": true, "I-inv": true, "I-pre": true, "I-post": true}
	n := emitObs(r, obs, residuals, "C16", func(o *absint.Ob) bool { return own[o.Rule] })
	if n < 80 {
		r.Fail("vacuity", "-", "token obligations", "-", fmt.Sprintf("only %d token obligations generated (expected ≥ 80)", n))
	}

	// ---- field-writer audit: token pos/len only in assign; val only in assign and the pass function
	assign, pass := a.Fn("sql.assign"), a.Fn("sql.pass")
	tokName := a.TypeName("sql.token")
	assignOnly, valWriters := calledOnlyFrom(p, assign), calledOnlyFrom(p, assign, pass)
	for _, fn := range p.SourceFuncs(nil) {
		for _, b := range fn.Blocks {
			for _, ins := range b.Instrs {
				st, ok := ins.(*ssa.Store)
				if !ok {
					continue
				}
				fr, ok := ssax.AsFieldAddr(st.Addr)
				if !ok || fr.Struct != tokName {
					continue
				}
				switch fr.Field {
				case a.Fields["sql.token.pos"], a.Fields["sql.token.len"]:
					if assignOnly[fn] {
						r.OK("A-writer", core.QualName(fn), "store token."+fr.Field, p.Pos(st.Pos()), "assign")
					} else {
						r.Fail("A-writer", core.QualName(fn), "store token."+fr.Field, p.Pos(st.Pos()), "token offset/length written outside assign: value and offset can drift apart")
					}
				case a.Fields["sql.token.val"]:
					if valWriters[fn] {
						r.OK("A-writer", core.QualName(fn), "store token.val", p.Pos(st.Pos()), "")
					} else {
						r.Fail("A-writer", core.QualName(fn), "store token.val", p.Pos(st.Pos()), "token value written outside assign")
					}
				}
			}
		}
	}

	// ---- class alphabet: every class handed to assign / stored into category
	alpha := env.tabs.ClassAlphabet
	lookup, search, isKw := a.Fn("sql.lookup"), a.Fn("sql.searchKeyword"), a.Fn("sql.isKeyword")
	var leafOK func(v ssa.Value, seen map[ssa.Value]bool) (bool, string)
	leafOK = func(v ssa.Value, seen map[ssa.Value]bool) (bool, string) {
		if seen[v] {
			return true, ""
		}
		seen[v] = true
		if k, ok := ssax.ConstInt(v); ok {
			if _, in := alpha[byte(k)]; in || k == 0 {
				return true, ""
			}
			return false, fmt.Sprintf("constant class %q is not in the documented alphabet", byte(k))
		}
		switch x := v.(type) {
		case *ssa.Phi:
			for _, e := range x.Edges {
				if ok, why := leafOK(e, seen); !ok {
					return false, why
				}
			}
			return true, ""
		case *ssa.Call:
			f := x.Common().StaticCallee()
			if f == lookup || f == search || f == isKw {
				return true, ""
			}
			return false, "class computed by " + x.String()
		case *ssa.Parameter:
			// class parameter of assign itself / helpers: decided at their call sites
			return true, ""
		case *ssa.Index, *ssa.Lookup:
			return true, "input-byte" // decided by the mask rule below
		case *ssa.Extract:
			return true, ""
		case *ssa.UnOp:
			if fr, ok := ssax.LoadedField(v); ok && fr.Struct == tokName && fr.Field == a.Fields["sql.token.category"] {
				return true, ""
			}
		}
		return false, "class of unknown origin: " + v.String()
	}
	for _, fn := range p.SourceFuncs(p.ReachFrom["IsSQLi"]) {
		for _, ci := range ssax.Calls(fn) {
			if ci.Common().StaticCallee() != assign {
				continue
			}
			cls := ci.Common().Args[1]
			ok, why := leafOK(cls, map[ssa.Value]bool{})
			expr := "class argument " + core.Short(ssax.Canon(cls))
			if !ok {
				r.Fail("A-class", core.QualName(fn), expr, p.Pos(ci.Pos()), why)
				continue
			}
			if why == "input-byte" {
				// the input byte's dispatch pre-image must lie in the alphabet
				bad := ""
				if env.disp != nil {
					for ch, f := range env.disp.Table {
						if f == fn {
							if _, in := alpha[byte(ch)]; !in {
								bad = fmt.Sprintf("byte %q is dispatched to %s, which uses it as the token class", byte(ch), fn.Name())
							}
						}
					}
				}
				if bad != "" {
					r.Fail("A-class", core.QualName(fn), expr, p.Pos(ci.Pos()), bad)
				} else {
					r.OK("A-class", core.QualName(fn), expr, p.Pos(ci.Pos()), "every byte dispatched here is a class character")
				}
				continue
			}
			r.OK("A-class", core.QualName(fn), expr, p.Pos(ci.Pos()), "constant in the alphabet or keyword-table value")
		}
		for _, b := range fn.Blocks {
			for _, ins := range b.Instrs {
				st, ok := ins.(*ssa.Store)
				if !ok {
					continue
				}
				if fr, ok := ssax.AsFieldAddr(st.Addr); ok && fr.Struct == tokName && fr.Field == a.Fields["sql.token.category"] {
					ok, why := leafOK(st.Val, map[ssa.Value]bool{})
					expr := "store category = " + core.Short(ssax.Canon(st.Val))
					if ok {
						r.OK("A-class", core.QualName(fn), expr, p.Pos(st.Pos()), "")
					} else {
						r.Fail("A-class", core.QualName(fn), expr, p.Pos(st.Pos()), why)
					}
				}
			}
		}
	}
	r.Extra["roots"] = sr.describe()
	r.Explanation = e3Explain + " C16 adds, at every assign reachable from tokenize: A-val (0 ≤ length ≤ len(value); the value is input[offset:], or a constant whose bytes are exactly the bytes the masks place at the offset), A-clip (assign stores pos = offset, len = min(length, 31), val = value[:len]), at every lexer return A-span (token.pos ≥ pos@entry ∧ token.pos + token.len ≤ returned cursor), P-step (≥ 1 byte per scan step, cursor ≤ length), A-end (tokenize says `done` only with pos = length), the token invariant I-inv, the interface invariants, the field-writer audit (pos/len written by assign only) and the class alphabet rule (every class is a constant of the alphabet, a keyword-table value — well-formed by C20 — or an input byte whose dispatch pre-image lies in the alphabet). Order and non-overlap follow from A-span and the monotone cursor. NOT decided: the offset convention of the virtual-quote token relative to the reference; the token count bound."
	r.Trusted = []string{"go/ssa", "E3 transfer functions and library models", "in-checker simplex", "closed-initialiser evaluation of the dispatch table", "C20 for the alphabet of table values"}
	return r
}
