package checks

import (
	"encoding/json"
	"fmt"
	"os"
	"path/filepath"
	"regexp"
	"sort"

	"verif/tools/internal/absint"
	"verif/tools/internal/core"
	"verif/tools/internal/tables"
)

func init() {
	register("C01", "other", checkC01)
	register("C02", "other", checkC02)
}

type residualEntry struct {
	Property string `json:"property"`
	Rule     string `json:"rule"`
	Func     string `json:"function"`
	Expr     string `json:"construct"`
	Reason   string `json:"reason"`
	// Alt: the obligation stated over the abstract objects ("cannot show 0 ≤
	// tokenVec[0].len < INPUT"), with symbol numbers and allocation prefixes
	// removed — the same obligation is recognised when the expression that states
	// it in the source changes shape (a token handed to a helper as a parameter)
	Alt      string `json:"alt,omitempty"`
	used     bool
	normUsed bool // already absorbed one obligation through its normalised construct
}

var (
	reSymNo  = regexp.MustCompile(`#\d+`)
	reAlloc  = regexp.MustCompile(`A\d+:t\d+\.`)
	rePhiReg = regexp.MustCompile(`(φ\w+)\.t\d+`)
)

// normalizeWhy strips what is particular to one analysis run or one shape of the
// source from an obligation's statement.
var (
	reIdxVar  = regexp.MustCompile(`(φ\w+|\*&\w+|\*\$\w+)([+\-\]\)])`)
	reLoopTag = regexp.MustCompile(`^loop #\d+ of (\w+) \(.*\)$`)
	reInFunc  = regexp.MustCompile(` in \w+$`)
)

// normalizeConstruct removes what a restructuring changes without changing the obligation:
// how an index variable is held (a φ, a local, a pointer parameter), the ordinal and the
// variable list of a loop, the name of the function an invariant is re-proved in.
func normalizeConstruct(e string) string {
	e = reIdxVar.ReplaceAllString(e, "#$2")
	if m := reLoopTag.FindStringSubmatch(e); m != nil {
		e = "loop of " + m[1]
	}
	e = reInFunc.ReplaceAllString(e, "")
	return e
}

func normalizeWhy(w string) string {
	w = reSymNo.ReplaceAllString(w, "")
	w = reAlloc.ReplaceAllString(w, "")
	w = rePhiReg.ReplaceAllString(w, "$1")
	return w
}

func loadResiduals(c *Ctx, r *core.Result) []*residualEntry {
	var cfg struct {
		Residuals []*residualEntry `json:"residuals"`
	}
	b, err := os.ReadFile(filepath.Join(c.VerifDir, "config", "residuals.json"))
	if err == nil {
		err = json.Unmarshal(b, &cfg)
	}
	if err != nil {
		r.Fail("framework", "-", "config/residuals.json", "-", err.Error())
	}
	// residuals speak about functions by the names of the pinned tree: follow pure renames
	for _, re := range cfg.Residuals {
		re.Func = renameIn(re.Func)
		re.Expr = renameIn(re.Expr)
	}
	return cfg.Residuals
}

// mergeObs aggregates obligations with the same key over several engines.
func mergeObs(runs []*e3Run) []*absint.Ob {
	m := map[string]*absint.Ob{}
	for _, run := range runs {
		for _, o := range run.eng.Obs {
			k := o.Key()
			if x, ok := m[k]; ok {
				x.OK += o.OK
				x.Bad += o.Bad
				if x.Why == "" {
					x.Why = o.Why
				}
			} else {
				c := *o
				m[k] = &c
			}
		}
	}
	var out []*absint.Ob
	for _, o := range m {
		out = append(out, o)
	}
	sort.Slice(out, func(i, j int) bool { return out[i].Key() < out[j].Key() })
	return out
}

// residualScope(listed, actual): the obligation's function is a helper split off
// the function a residual is listed for (reachable from it by at most two static
// calls) — a reviewed residual stays the same residual when the code it sits in is
// moved into a helper of the same function.  Set by newE3Env.
var residualScope func(listed, actual string) bool

// emitObs turns engine obligations into result obligations, applying the residual list.
func emitObs(r *core.Result, obs []*absint.Ob, residuals []*residualEntry, prop string, want func(o *absint.Ob) bool) int {
	n := 0
	for _, o := range obs {
		if want != nil && !want(o) {
			continue
		}
		n++
		if o.Bad == 0 {
			r.OK(o.Rule, o.Fn, o.Expr, o.Pos, fmt.Sprintf("discharged in %d context(s)", o.OK))
			continue
		}
		matched := false
		for pass := 0; pass < 2 && !matched; pass++ {
			for _, re := range residuals {
				sameOb := re.Expr == o.Expr || (re.Alt != "" && re.Alt == normalizeWhy(o.Why))
				viaNorm := false
				if !sameOb && pass == 1 && !re.normUsed && !re.used && normalizeConstruct(re.Expr) == normalizeConstruct(o.Expr) {
					// the same construct after a restructuring: one obligation per listed entry
					sameOb, viaNorm = true, true
				}
				if re.Rule == o.Rule && sameOb && (re.Func == o.Fn || (residualScope != nil && residualScope(re.Func, o.Fn))) {
					if viaNorm {
						re.normUsed = true
					}
					if os.Getenv("VERIF_DBGRESID") != "" {
						fmt.Fprintf(os.Stderr, "RESID %s | %s | %s | alt=%q\n", o.Rule, o.Fn, o.Expr, normalizeWhy(o.Why))
					}
					re.used = true
					matched = true
					r.Residual(o.Rule, o.Fn, o.Expr, o.Pos, re.Reason)
					break
				}
			}
		}
		if !matched {
			r.Fail(o.Rule, o.Fn, o.Expr, o.Pos, fmt.Sprintf("%s (undischarged in %d of %d contexts)", o.Why, o.Bad, o.OK+o.Bad))
		}
	}
	return n
}

func noteUnusedResiduals(r *core.Result, residuals []*residualEntry, props ...string) {
	for _, re := range residuals {
		for _, p := range props {
			if re.Property == p && !re.used {
				r.Note("residual %s / %s / %s is discharged or gone on this tree (noted only)", re.Rule, re.Func, re.Expr)
			}
		}
	}
}

const e3Explain = "E3: forward relational abstract interpretation of go/ssa (linear-inequality domain with entailment by an exact rational simplex written in the checker, byte masks, string descriptors, field-sensitive heap with the declared token invariant, K-bounded disjunctions, loop fixpoints with delayed widening, static calls inlined). The code is cut at checked interface invariants (pre proved at every call site, post proved at every return of the summarised function's own root)."

func checkC01(c *Ctx) *core.Result {
	r := c.newResult()
	env := newE3Env(c, r)
	if len(r.Violations) > 0 {
		return r
	}
	sr := &sqlRoots{env: env}
	sr.runAll(nil)
	residuals := loadResiduals(c, r)
	obs := mergeObs(sr.runs)
	n := emitObs(r, obs, residuals, "C01", nil)
	noteUnusedResiduals(r, residuals, "C01")
	if n < 200 {
		r.Fail("vacuity", "-", "E3 obligations", "-", fmt.Sprintf("only %d obligations generated for the SQL side (expected ≥ 200): the analysis is blind", n))
	}
	if len(sr.runs) < 20 {
		r.Fail("vacuity", "-", "E3 roots", "-", fmt.Sprintf("only %d roots analysed", len(sr.runs)))
	}
	// E2 table facts
	if env.disp != nil {
		nilEntries := 0
		for _, f := range env.disp.Table {
			if f == nil {
				nilEntries++
			}
		}
		if len(env.disp.Table) == 256 && nilEntries == 0 {
			r.OK("E2-table", env.disp.Var, "dispatch table has 256 non-nil entries", "-", "closed-initialiser evaluation")
		} else {
			r.Fail("E2-table", env.disp.Var, "dispatch table has 256 non-nil entries", "-", fmt.Sprintf("%d entries, %d nil", len(env.disp.Table), nilEntries))
		}
	}
	for name := range tables.PackageVars(c.P) {
		if vals, err := tables.EvalByteTable(c.P, name); err == nil {
			if len(vals) == 256 {
				r.OK("E2-table", name, "byte table has 256 entries", "-", "closed-initialiser evaluation")
			} else {
				r.Fail("E2-table", name, "byte table has 256 entries", "-", fmt.Sprintf("%d entries: an input byte can index past the end", len(vals)))
			}
		}
	}
	r.Extra["roots"] = sr.describe()
	for _, run := range sr.runs {
		r.Analysed = append(r.Analysed, run.name)
	}
	r.Explanation = e3Explain + " C01: every index / slice / nil / library-precondition obligation reachable from IsSQLi (B-idx, B-slice, B-nil, B-lib), the interface invariants (I-pre, I-post, I-inv: token invariant 0 ≤ len ≤ 31 ∧ len ≤ len(val) re-proved after every write), scan progress of every one of the 22 dispatch targets (P-step: pos+1 ≤ ret ≤ length — with table agreement: no byte dispatched to the word lexer is in its stop set), a ranking function for every loop (P-rank), no search of a string for its own substring (S-self), inlining depth (R-depth) and fixpoint convergence. Undischarged obligations are violations unless listed, with a reviewed reason, in config/residuals.json."
	r.Trusted = []string{"go/ssa", "the abstract transfer functions and library models (IndexByte/Index result ranges, Builder)", "the in-checker exact simplex (cross-checked against math/big in its unit test)", "reasons of the listed residuals"}
	r.Assumptions = []string{"memory exhaustion is out of scope", "int arithmetic does not overflow for inputs < 2^62 bytes"}
	return r
}

func checkC02(c *Ctx) *core.Result {
	r := c.newResult()
	env := newE3Env(c, r)
	if len(r.Violations) > 0 {
		return r
	}
	g := buildStateGraph(c.P, env.a, r)
	xr := &xssRoots{env: env, g: g}
	xr.runAll(nil)
	residuals := loadResiduals(c, r)
	obs := mergeObs(xr.runs)
	n := emitObs(r, obs, residuals, "C02", nil)
	noteUnusedResiduals(r, residuals, "C02")
	if n < 120 {
		r.Fail("vacuity", "-", "E3 obligations", "-", fmt.Sprintf("only %d obligations generated for the XSS side (expected ≥ 120)", n))
	}
	if env.tabs != nil && env.tabs.HexMapVar != "" {
		if len(env.tabs.HexMap) == 256 {
			r.OK("E2-table", env.tabs.HexMapVar, "hex decode table has 256 entries", "-", "literal extraction")
		} else {
			r.Fail("E2-table", env.tabs.HexMapVar, "hex decode table has 256 entries", "-", fmt.Sprintf("%d entries: indexed by an input byte", len(env.tabs.HexMap)))
		}
	}
	r.Extra["roots"] = xr.describe()
	for _, run := range xr.runs {
		r.Analysed = append(r.Analysed, run.name)
	}
	r.Explanation = e3Explain + " C02: the same obligation kinds over IsXSS, the per-context classifier, the string predicates and every state function that is entered through the state variable (the others are analysed inlined into their callers). Per-state entry facts (pos ≥ 1, pos < len, pos = 0) are inferred Houdini-style and checked on every transition. The dynamic call h.state() is cut by the tokenizer interface invariant (I-pre/I-post, T-span: token inside the input, all three token fields written). h.state is never nil where next() is called (B-nil; context flags proven within the range init handles). Bounded recursion: the direct-call cycles between state functions die out under inlining in the refined contexts; reaching the depth cap is reported as R-depth. Ranking functions for all scanning loops (P-rank)."
	r.Trusted = []string{"go/ssa", "the abstract transfer functions and library models", "the in-checker exact simplex", "state-graph extraction for the set of state functions and start states", "reasons of the listed residuals"}
	return r
}
