package checks

import (
	"fmt"
	"go/token"
	"go/types"
	"strings"

	"golang.org/x/tools/go/ssa"

	"verif/tools/internal/core"
	"verif/tools/internal/ssax"
	"verif/tools/internal/tables"
)

func init() { register("C12", "other", checkC12) }

type cascadeEv struct {
	kind  string // pass | F | R | Q | empty | ret | other
	n     int64  // flags for pass, byte for Q
	b     bool   // outcome
	pos   token.Pos
	descr string
}

func (e cascadeEv) String() string {
	switch e.kind {
	case "pass":
		return fmt.Sprintf("pass(flags=%d)", e.n)
	case "F":
		return fmt.Sprintf("fingerprint-test=%v", e.b)
	case "R":
		return fmt.Sprintf("mysql-gate=%v", e.b)
	case "Q":
		return fmt.Sprintf("contains(%q)=%v", byte(e.n), e.b)
	case "empty":
		return fmt.Sprintf("empty-input=%v", e.b)
	case "ret":
		return fmt.Sprintf("return %v", e.b)
	}
	return "unrecognised(" + e.descr + ")"
}

// leavesOf walks the def chain of v through pure value operators and returns
// the leaves (loads, params, consts, calls).
func leavesOf(v ssa.Value, seen map[ssa.Value]bool, out *[]ssa.Value) {
	if seen[v] {
		return
	}
	seen[v] = true
	switch x := v.(type) {
	case *ssa.Phi:
		for _, e := range x.Edges {
			leavesOf(e, seen, out)
		}
	case *ssa.BinOp:
		leavesOf(x.X, seen, out)
		leavesOf(x.Y, seen, out)
	case *ssa.Convert:
		leavesOf(x.X, seen, out)
	case *ssa.ChangeType:
		leavesOf(x.X, seen, out)
	case *ssa.UnOp:
		if x.Op == token.MUL {
			*out = append(*out, v)
		} else {
			leavesOf(x.X, seen, out)
		}
	default:
		*out = append(*out, v)
	}
}

func checkC12(c *Ctx) *core.Result {
	p := c.P
	r := c.newResult()
	a := loadAnchors(c, r)
	chk := a.Fn("sql.check")
	pass := a.Fn("sql.pass")
	lookup := a.Fn("sql.lookup")
	gate := a.Fn("sql.gate")
	fold := a.Fn("sql.fold")
	initFn := a.Fn("sql.init")
	tokenize := a.Fn("sql.tokenize")
	strCore := a.Fn("sql.stringCore")
	f2d := a.Fn("sql.flag2delim")
	kFP := a.Const("sql.lookupFingerprint")
	qNone, qS, qD := a.Const("sql.flagQuoteNone"), a.Const("sql.flagQuoteSingle"), a.Const("sql.flagQuoteDouble")
	ansi, mysql := a.Const("sql.flagAnsi"), a.Const("sql.flagMysql")
	stName := a.TypeName("sql.state")
	for _, f := range []string{"sql.state.input", "sql.state.length", "sql.state.flags", "sql.state.pos", "sql.state.statsDDX", "sql.state.statsHash", "sql.state.statsTokens"} {
		a.Field(f)
	}
	if len(r.Violations) > 0 {
		return r
	}

	// ---------------- K1: the cascade of check()
	// paths are enumerated with helper functions expanded in place (everything that is
	// not one of the anchored roles), so moving parts of the cascade into helpers is
	// not a deviation
	anchored := map[*ssa.Function]bool{pass: true, lookup: true, gate: true, fold: true, initFn: true, tokenize: true, strCore: true, f2d: true}
	inlineHelper := func(callee *ssa.Function, depth int) bool {
		return p.InModule(callee) && !anchored[callee] && depth <= 3 && len(callee.Blocks) <= 60
	}
	paths, err := ssax.EnumerateTracesWith(chk, inlineHelper, 2000, traceConsts(p))
	if err != nil {
		r.Fail("K1", core.QualName(chk), "path enumeration", p.Pos(chk.Pos()), err.Error())
	}
	classify := func(tr *ssax.Trace, it ssax.TItem) cascadeEv {
		ev := cascadeEv{kind: "other", pos: it.Ins.Pos(), descr: it.Cond.String()}
		if _, firedWhenTrue, ok := lookupTestOf(tr, it.Cond, it.CondFr, lookup, kFP); ok {
			return cascadeEv{kind: "F", b: it.True == firedWhenTrue, pos: it.Ins.Pos()}
		}
		if call, ok := it.Cond.(*ssa.Call); ok && call.Common().StaticCallee() == gate {
			return cascadeEv{kind: "R", b: it.True, pos: it.Ins.Pos()}
		}
		bo, ok := it.Cond.(*ssa.BinOp)
		if !ok {
			return ev
		}
		edge := 1
		if it.True {
			edge = 0
		}
		// strings.IndexByte(input, c) != -1
		bx, bxfr := tr.Resolve(bo.X, it.CondFr)
		if call, ok := bx.(*ssa.Call); ok {
			if f := call.Common().StaticCallee(); f != nil && (f.String() == "strings.IndexByte" || f.String() == "strings.ContainsRune" || f.String() == "strings.Contains") {
				args := call.Common().Args
				arg0, _ := tr.Resolve(args[0], bxfr)
				if len(args) == 2 && a.loadsField(arg0, "sql.state.input") {
					var ch int64 = -1
					if k, ok := tr.ConstInt(args[1], bxfr); ok {
						ch = k
					} else if s, ok := ssax.ConstString(args[1]); ok && len(s) == 1 {
						ch = int64(s[0])
					}
					if k, ok := tr.ConstInt(bo.Y, it.CondFr); ok && ch >= 0 && f.String() == "strings.IndexByte" {
						found := false
						okShape := true
						switch {
						case bo.Op == token.NEQ && k == -1:
							found = edge == 0
						case bo.Op == token.EQL && k == -1:
							found = edge == 1
						case bo.Op == token.GEQ && k == 0:
							found = edge == 0
						case bo.Op == token.LSS && k == 0:
							found = edge == 1
						case bo.Op == token.GTR && k == -1:
							found = edge == 0
						default:
							okShape = false
						}
						if okShape {
							return cascadeEv{kind: "Q", n: ch, b: found, pos: it.Ins.Pos()}
						}
					}
				}
			}
		}
		// s.length == 0 / len(s.input) == 0
		if k, ok := tr.ConstInt(bo.Y, it.CondFr); ok && k == 0 && (a.loadsField(bx, "sql.state.length") || isLenOfField(a, bx, "sql.state.input")) {
			switch bo.Op {
			case token.EQL:
				return cascadeEv{kind: "empty", b: edge == 0, pos: it.Ins.Pos()}
			case token.NEQ, token.GTR:
				return cascadeEv{kind: "empty", b: edge == 1, pos: it.Ins.Pos()}
			}
		}
		return ev
	}
	// also accept the gate inlined by SCCP? no: an inlined gate is "other" ⇒ reported.
	f1, f2, f3, f4, f5 := qNone|ansi, qNone|mysql, qS|ansi, qS|mysql, qD|mysql
	nOK := 0
	for pi := range paths {
		path := &paths[pi]
		var evs []cascadeEv
		for _, it := range path.Items {
			switch {
			case it.Branch:
				evs = append(evs, classify(path, it))
			case it.Call != nil && it.Call.Common().StaticCallee() == pass:
				fl := int64(-1)
				for _, arg := range it.Call.Common().Args {
					if k, ok := path.ConstInt(arg, it.Fr); ok {
						fl = k
					}
				}
				evs = append(evs, cascadeEv{kind: "pass", n: fl, pos: it.Call.Pos()})
			}
		}
		if path.RetKnown {
			evs = append(evs, cascadeEv{kind: "ret", b: path.Ret, pos: path.RetPos})
		} else {
			evs = append(evs, cascadeEv{kind: "other", pos: path.RetPos, descr: "non-constant return"})
		}
		// simulate the specification automaton against the events
		i := 0
		var mismatch string
		next := func(want string) (cascadeEv, bool) {
			if i >= len(evs) {
				mismatch = fmt.Sprintf("path ends where the specification expects %s", want)
				return cascadeEv{}, false
			}
			e := evs[i]
			i++
			return e, true
		}
		expect := func(kind string, n int64, what string) (cascadeEv, bool) {
			e, ok := next(what)
			if !ok {
				return e, false
			}
			if e.kind != kind || (kind == "pass" && e.n != n) || (kind == "Q" && e.n != n) {
				mismatch = fmt.Sprintf("specification expects %s, code does %s (at %s)", what, e, p.Pos(e.pos))
				return e, false
			}
			return e, true
		}
		expectRet := func(v bool) {
			e, ok := next(fmt.Sprintf("return %v", v))
			if ok && (e.kind != "ret" || e.b != v) {
				mismatch = fmt.Sprintf("specification expects return %v, code does %s (at %s)", v, e, p.Pos(e.pos))
			}
			if ok && mismatch == "" && i != len(evs) {
				mismatch = "events after return"
			}
		}
		runPass := func(flags int64, name string) (fired bool, ok bool) {
			if _, ok := expect("pass", flags, fmt.Sprintf("%s (flags %d)", name, flags)); !ok {
				return false, false
			}
			e, ok := expect("F", 0, "the black-list test of "+name)
			if !ok {
				return false, false
			}
			return e.b, true
		}
		func() {
			// optional empty-input test first
			if len(evs) > 0 && evs[0].kind == "empty" {
				i = 1
				if evs[0].b {
					expectRet(false)
					return
				}
			}
			fired, ok := runPass(f1, "as-is/ANSI pass")
			if !ok {
				return
			}
			if fired {
				expectRet(true)
				return
			}
			g, ok := expect("R", 0, "the MySQL re-parse gate after the as-is/ANSI pass")
			if !ok {
				return
			}
			if g.b {
				fired, ok = runPass(f2, "as-is/MySQL pass")
				if !ok {
					return
				}
				if fired {
					expectRet(true)
					return
				}
			}
			q, ok := expect("Q", '\'', "the test `input contains '`")
			if !ok {
				return
			}
			if q.b {
				fired, ok = runPass(f3, "single-quote/ANSI pass")
				if !ok {
					return
				}
				if fired {
					expectRet(true)
					return
				}
				g, ok := expect("R", 0, "the MySQL re-parse gate after the single-quote/ANSI pass")
				if !ok {
					return
				}
				if g.b {
					fired, ok = runPass(f4, "single-quote/MySQL pass")
					if !ok {
						return
					}
					if fired {
						expectRet(true)
						return
					}
				}
			}
			q, ok = expect("Q", '"', "the test `input contains \"`")
			if !ok {
				return
			}
			if q.b {
				fired, ok = runPass(f5, "double-quote/MySQL pass")
				if !ok {
					return
				}
				if fired {
					expectRet(true)
					return
				}
			}
			expectRet(false)
		}()
		var names []string
		for _, e := range evs {
			names = append(names, e.String())
		}
		expr := fmt.Sprintf("cascade path #%d", pi)
		if mismatch != "" {
			r.Fail("K1", core.QualName(chk), "cascade deviates: "+mismatch, p.Pos(path.RetPos), fmt.Sprintf("%s [%s]: %s", expr, strings.Join(names, " → "), mismatch))
		} else {
			nOK++
			r.OK("K1", core.QualName(chk), expr+": "+strings.Join(names, " → "), "-", "matches the specification automaton")
		}
	}
	if len(paths) < 10 {
		r.Fail("vacuity", core.QualName(chk), "cascade paths", p.Pos(chk.Pos()), fmt.Sprintf("only %d paths through the cascade (expected ≥ 10)", len(paths)))
	}

	// ---------------- K2: gate counters are live
	gateFields := map[string]bool{}
	for _, b := range gate.Blocks {
		for _, ins := range b.Instrs {
			if fr, ok := ssax.LoadedField(valueOf(ins)); ok && fr.Struct == stName {
				gateFields[fr.Field] = true
			}
		}
	}
	ddx, hash, ntok := a.Fields["sql.state.statsDDX"], a.Fields["sql.state.statsHash"], a.Fields["sql.state.statsTokens"]
	for _, f := range []string{ddx, hash} {
		if !gateFields[f] {
			r.Fail("K2", core.QualName(gate), "gate reads "+f, p.Pos(gate.Pos()), fmt.Sprintf("the MySQL re-parse gate does not read counter %s", f))
		} else {
			r.OK("K2", core.QualName(gate), "gate reads "+f, p.Pos(gate.Pos()), "")
		}
	}
	for f := range gateFields {
		if f != ddx && f != hash {
			r.Fail("K2", core.QualName(gate), "gate reads "+f, p.Pos(gate.Pos()), "the gate depends on a field other than the `--x` and `#` counters")
		}
	}
	// the gate opens exactly when a counter is non-zero: every way it answers true holds a
	// fact "counter ≠ 0" (and the ways together test both counters)
	{
		nonZero := func(f ssax.Fact) (string, bool) {
			bo, ok := f.Cond.(*ssa.BinOp)
			if !ok {
				return "", false
			}
			lf, ok := ssax.LoadedField(f.Arg(bo.X))
			if !ok || lf.Struct != stName {
				return "", false
			}
			k, isK := ssax.ConstInt(bo.Y)
			if !isK || k != 0 {
				return "", false
			}
			switch {
			case bo.Op == token.NEQ && f.True, bo.Op == token.EQL && !f.True, bo.Op == token.GTR && f.True, bo.Op == token.LEQ && !f.True:
				return lf.Field, true
			}
			return "", false
		}
		ways := ssax.TrueWays(gate, nil, 0)
		tested := map[string]bool{}
		okAll := len(ways) > 0
		for _, w := range ways {
			has := false
			for _, f := range w.Facts {
				if fld, ok := nonZero(f); ok && (fld == ddx || fld == hash) {
					has = true
					tested[fld] = true
				}
			}
			if !has {
				okAll = false
			}
		}
		if okAll && tested[ddx] && tested[hash] {
			r.OK("K2", core.QualName(gate), "gate opens iff a comment counter is non-zero", p.Pos(gate.Pos()), fmt.Sprintf("%d way(s) of answering true, each under counter ≠ 0", len(ways)))
		} else {
			r.Fail("K2", core.QualName(gate), "gate opens iff a comment counter is non-zero", p.Pos(gate.Pos()), "the MySQL re-parse gate can answer true without a comment counter being non-zero, or does not test both counters for ≠ 0: the second dialect would be tried (or skipped) for the wrong inputs")
		}
	}
	// reachability from tokenize (dispatch goes through the table)
	fromTok := map[*ssa.Function]bool{}
	var walk func(fn *ssa.Function)
	walk = func(fn *ssa.Function) {
		if fn == nil || fromTok[fn] {
			return
		}
		fromTok[fn] = true
		if n := p.Graph.Nodes[fn]; n != nil {
			for _, e := range n.Out {
				walk(e.Callee.Func)
			}
		}
	}
	walk(tokenize)
	disp, derr := tables.EvalDispatch(p)
	if derr != nil {
		r.Fail("K2", "-", "dispatch table", "-", derr.Error())
	}
	incSites := map[string][]*ssa.Store{}
	for _, fn := range p.SourceFuncs(nil) {
		for _, b := range fn.Blocks {
			for _, ins := range b.Instrs {
				st, ok := ins.(*ssa.Store)
				if !ok {
					continue
				}
				fr, ok := ssax.AsFieldAddr(st.Addr)
				if !ok || fr.Struct != stName || (fr.Field != ddx && fr.Field != hash && fr.Field != ntok) {
					continue
				}
				// must be field = field + positive const
				bo, ok := st.Val.(*ssa.BinOp)
				good := false
				if ok && bo.Op == token.ADD {
					if lf, ok := ssax.LoadedField(bo.X); ok && lf.Field == fr.Field {
						if k, ok := ssax.ConstInt(bo.Y); ok && k > 0 {
							good = true
						}
					}
				}
				expr := fmt.Sprintf("store %s = %s", fr.Field, st.Val)
				if !good {
					r.Fail("K2", core.QualName(fn), expr, p.Pos(st.Pos()), "a gate/whitelist counter is written with something other than `counter + positive constant`")
					continue
				}
				if !fromTok[fn] {
					r.Note("%s: increment of %s is not reachable from tokenize", core.QualName(fn), fr.Field)
					continue
				}
				incSites[fr.Field] = append(incSites[fr.Field], st)
			}
		}
	}
	for _, f := range []string{ddx, hash, ntok} {
		if len(incSites[f]) == 0 {
			r.Fail("K2", "-", "increment of "+f, "-", fmt.Sprintf("no increment of %s is reachable from the tokenizer: the gate/whitelist input is dead", f))
		}
	}
	// every token-producing return of the tokenizer counts the token: the whitelist reads
	// the token counter, and the virtual-quote step produces a token like any other
	{
		ntokWriters := mayWriteField(p, stName, ntok)
		countsHere := func(b *ssa.BasicBlock) bool {
			for d := 0; d < 6 && b != nil; d++ {
				for _, ins := range b.Instrs {
					switch x := ins.(type) {
					case *ssa.Store:
						if fr, ok := ssax.AsFieldAddr(x.Addr); ok && fr.Struct == stName && fr.Field == ntok {
							return true
						}
					case *ssa.Call:
						if cal := x.Call.StaticCallee(); cal != nil && p.InModule(cal) && cal != tokenize && ntokWriters[cal] && len(cal.Blocks) <= 3 {
							return true // a small helper that bumps the counter
						}
					}
				}
				// walk up through straight-line predecessors only
				if len(b.Preds) != 1 || len(b.Preds[0].Succs) != 1 {
					return false
				}
				b = b.Preds[0]
			}
			return false
		}
		nTrue := 0
		for _, ret := range ssax.Returns(tokenize) {
			if len(ret.Results) != 1 {
				continue
			}
			type way struct {
				b    *ssa.BasicBlock
				desc string
			}
			var ways []way
			undecided := false
			switch v := ret.Results[0].(type) {
			case *ssa.Const:
				if b, _ := ssax.ConstBool(v); b {
					ways = append(ways, way{ret.Block(), "return true"})
				}
			case *ssa.Phi:
				for i, e := range v.Edges {
					if b, isC := ssax.ConstBool(e); isC {
						if b {
							ways = append(ways, way{v.Block().Preds[i], fmt.Sprintf("return true (edge %d)", i)})
						}
					} else {
						undecided = true
					}
				}
			default:
				undecided = true
			}
			if undecided {
				r.Fail("K2", core.QualName(tokenize), "token counter at "+retLabel(ret), p.Pos(ret.Pos()), "the tokenizer returns a computed verdict: whether every produced token is counted is undecided")
				continue
			}
			for _, w := range ways {
				nTrue++
				expr := "token counter incremented before " + w.desc + " at " + retLabel(ret)
				if countsHere(w.b) {
					r.OK("K2", core.QualName(tokenize), expr, p.Pos(ret.Pos()), "")
				} else {
					r.Fail("K2", core.QualName(tokenize), expr, p.Pos(ret.Pos()), "the tokenizer reports a token without counting it: the whitelist rules that read the token count see one token fewer in this reading than when the same text is read as-is")
				}
			}
		}
		if nTrue == 0 {
			r.Fail("vacuity", core.QualName(tokenize), "token-producing returns", p.Pos(tokenize.Pos()), "no `return true` found in the tokenizer")
		}
	}
	for _, st := range incSites[ddx] {
		fn := st.Parent()
		hasAnsi, hasDash, white := false, false, false
		for _, f := range ssax.Facts(st.Block()) {
			if bo, ok := f.Cond.(*ssa.BinOp); ok {
				if and, ok := bo.X.(*ssa.BinOp); ok && and.Op == token.AND && a.loadsField(and.X, "sql.state.flags") {
					if k, ok := ssax.ConstInt(and.Y); ok && k == ansi {
						if z, ok := ssax.ConstInt(bo.Y); ok && z == 0 && ((bo.Op == token.NEQ && f.True) || (bo.Op == token.EQL && !f.True)) {
							hasAnsi = true
						}
					}
				}
				if k, ok := ssax.ConstInt(bo.Y); ok && k == '-' && ((bo.Op == token.EQL && f.True) || (bo.Op == token.NEQ && !f.True)) {
					if isInputByte(a, bo.X) {
						hasDash = true
					}
				}
			}
			if cl, ok := f.Cond.(*ssa.Call); ok && f.True {
				if fw := cl.Common().StaticCallee(); fw != nil && fw == a.FnOpt("sql.isWhite") {
					white = true
				}
			}
		}
		expr := "increment of " + ddx
		switch {
		case !hasAnsi:
			r.Fail("K2", core.QualName(fn), expr, p.Pos(st.Pos()), "the `--x` counter is not incremented under `flags & ANSI != 0`")
		case !hasDash:
			r.Fail("K2", core.QualName(fn), expr, p.Pos(st.Pos()), "the `--x` counter is not incremented under `input[pos+1] == '-'`")
		case white:
			r.Fail("K2", core.QualName(fn), expr, p.Pos(st.Pos()), "the `--x` counter is incremented only when white space follows (that is the `-- ` comment, not `--x`)")
		default:
			r.OK("K2", core.QualName(fn), expr, p.Pos(st.Pos()), "under ANSI flag and second dash")
		}
		if disp != nil && len(disp.Table) == 256 && disp.Table['-'] != fn {
			r.Fail("K2", core.QualName(fn), expr, p.Pos(st.Pos()), "the function that counts `--x` is not the lexer dispatched for '-'")
		}
	}
	// K2 (third byte): with the ANSI flag set, a second dash and at least one more byte,
	// the `--x` counter is incremented exactly for the bytes x the white-space predicate
	// rejects (`-- ` is a comment in every dialect and must not open the MySQL re-parse;
	// `--x` with any other x must).  Decided by constant propagation of the dash lexer with
	// pos = 0, length = 3, input[1] = '-', flags&ANSI = ANSI and input[2] pinned to each of
	// the 256 bytes; one-byte predicates called on input[2] are tabulated.
	if isW := a.FnOpt("sql.isWhite"); isW != nil {
		if wtab, err := tables.TabulateBytePred(p, isW); err == nil {
			for _, st := range incSites[ddx] {
				ddxThirdByteRule(p, a, r, st, ansi, wtab)
			}
		}
	}
	for _, st := range incSites[hash] {
		fn := st.Parent()
		if disp != nil && len(disp.Table) == 256 {
			if disp.Table['#'] == fn {
				// unconditional: the store's block dominates every return
				dom := true
				for _, ret := range ssax.Returns(fn) {
					if !(st.Block() == ret.Block() || st.Block().Dominates(ret.Block())) {
						dom = false
					}
				}
				if dom {
					r.OK("K2", core.QualName(fn), "increment of "+hash, p.Pos(st.Pos()), "unconditional in the lexer dispatched for '#'")
				}
			}
		}
	}
	if disp != nil && len(disp.Table) == 256 {
		okHash := false
		for _, st := range incSites[hash] {
			fn := st.Parent()
			if disp.Table['#'] != fn {
				continue
			}
			dom := true
			for _, ret := range ssax.Returns(fn) {
				if !(st.Block() == ret.Block() || st.Block().Dominates(ret.Block())) {
					dom = false
				}
			}
			if dom {
				okHash = true
			}
		}
		if !okHash {
			r.Fail("K2", "-", "increment of "+hash, "-", "no unconditional increment of the `#` counter in the lexer dispatched for '#'")
		}
	}

	// ---------------- K3: per-pass reset
	// a call in pass that reaches init dominates the call of fold
	reachInit := map[*ssa.Function]bool{initFn: true}
	for changed := true; changed; {
		changed = false
		for fn, n := range p.Graph.Nodes {
			if reachInit[fn] || !p.InModule(fn) {
				continue
			}
			for _, e := range n.Out {
				if reachInit[e.Callee.Func] {
					reachInit[fn] = true
					changed = true
					break
				}
			}
		}
	}
	var foldCall, resetCall ssa.CallInstruction
	for _, ci := range ssax.Calls(pass) {
		f := ci.Common().StaticCallee()
		if f == fold {
			foldCall = ci
		}
		if f != nil && reachInit[f] && f != fold && resetCall == nil {
			resetCall = ci
		}
	}
	switch {
	case foldCall == nil:
		r.Fail("K3", core.QualName(pass), "call of fold", p.Pos(pass.Pos()), "the pass function does not call fold()")
	case resetCall == nil:
		r.Fail("K3", core.QualName(pass), "reset before fold", p.Pos(pass.Pos()), "the pass function does not re-initialise the state before folding: a reading would depend on the readings tried before it")
	case !ssax.Dominates(resetCall, foldCall):
		r.Fail("K3", core.QualName(pass), "reset before fold", p.Pos(resetCall.Pos()), "the state re-initialisation does not dominate the call of fold()")
	default:
		// the reset must be unconditional and the only thing before fold that matters
		r.OK("K3", core.QualName(pass), "reset dominates fold", p.Pos(resetCall.Pos()), resetCall.String())
	}
	// init zeroes the whole struct first
	var zeroStore *ssa.Store
	for _, b := range initFn.Blocks {
		for _, ins := range b.Instrs {
			st, ok := ins.(*ssa.Store)
			if !ok {
				continue
			}
			if _, isParam := st.Addr.(*ssa.Parameter); !isParam {
				continue
			}
			isZero := false
			if cst, ok := st.Val.(*ssa.Const); ok && cst.Value == nil {
				isZero = true
			}
			if u, ok := st.Val.(*ssa.UnOp); ok && u.Op == token.MUL {
				if al, ok := u.X.(*ssa.Alloc); ok {
					isZero = true
					for _, ref := range *al.Referrers() {
						if s2, ok := ref.(*ssa.Store); ok && s2.Addr == ssa.Value(al) {
							isZero = false
						}
						if _, ok := ref.(*ssa.FieldAddr); ok {
							isZero = false
						}
					}
				}
			}
			if isZero {
				zeroStore = st
			}
		}
	}
	stStruct := a.Struct("sql.state")
	if zeroStore != nil {
		domAll := true
		for _, b := range initFn.Blocks {
			for _, ins := range b.Instrs {
				if st, ok := ins.(*ssa.Store); ok && st != zeroStore && !ssax.Dominates(zeroStore, st) {
					domAll = false
				}
			}
		}
		for _, ret := range ssax.Returns(initFn) {
			if !(zeroStore.Block() == ret.Block() || zeroStore.Block().Dominates(ret.Block())) {
				domAll = false
			}
		}
		if domAll {
			r.OK("K3", core.QualName(initFn), "whole-state zero store", p.Pos(zeroStore.Pos()), "dominates every other store and every return")
		} else {
			r.Fail("K3", core.QualName(initFn), "whole-state zero store", p.Pos(zeroStore.Pos()), "the zeroing store does not dominate all other stores/returns of the initialiser")
		}
	} else if stStruct != nil {
		// accept per-field assignment iff every field is stored on every path
		stored := map[string]bool{}
		for _, b := range initFn.Blocks {
			for _, ins := range b.Instrs {
				if st, ok := ins.(*ssa.Store); ok {
					if fr, ok := ssax.AsFieldAddr(st.Addr); ok && fr.Struct == stName {
						if _, isParam := fr.Base.(*ssa.Parameter); isParam {
							dom := true
							for _, ret := range ssax.Returns(initFn) {
								if !(st.Block() == ret.Block() || st.Block().Dominates(ret.Block())) {
									dom = false
								}
							}
							if dom {
								stored[fr.Field] = true
							}
						}
					}
				}
			}
		}
		var missing []string
		for i := 0; i < stStruct.NumFields(); i++ {
			f := stStruct.Field(i).Name()
			if !stored[f] && f != a.Fields["sql.state.tokens"] {
				missing = append(missing, f)
			}
		}
		if len(missing) > 0 {
			r.Fail("K3", core.QualName(initFn), "per-field reset", p.Pos(initFn.Pos()), fmt.Sprintf("the initialiser neither zeroes the whole state nor assigns every field; fields surviving from the previous reading: %v", missing))
		} else {
			r.OK("K3", core.QualName(initFn), "per-field reset", p.Pos(initFn.Pos()), "every field assigned on every path")
		}
	}
	// what flows from the old state into the new one: only the input
	for _, fn := range p.SourceFuncs(nil) {
		for _, ci := range ssax.Calls(fn) {
			if ci.Common().StaticCallee() != initFn || !reachesFrom(p, pass, fn) {
				continue
			}
			for ai, arg := range ci.Common().Args {
				if ai == 0 {
					continue
				}
				var leaves []ssa.Value
				leavesOf(arg, map[ssa.Value]bool{}, &leaves)
				for _, lf := range leaves {
					if fr, ok := ssax.LoadedField(lf); ok && fr.Struct == stName {
						if fr.Field == a.Fields["sql.state.input"] {
							r.OK("K3", core.QualName(fn), fmt.Sprintf("init arg %d ← %s", ai, fr.Field), p.Pos(ci.Pos()), "only the input survives a reset")
						} else {
							r.Fail("K3", core.QualName(fn), fmt.Sprintf("init arg %d ← %s", ai, fr.Field), p.Pos(ci.Pos()), fmt.Sprintf("field %s of the previous reading flows into the re-initialised state", fr.Field))
						}
					}
				}
			}
		}
	}
	// immutable fields: input / length / flags are written by the initialiser only
	for _, role := range []string{"sql.state.input", "sql.state.length", "sql.state.flags"} {
		f := a.Fields[role]
		for _, fn := range p.SourceFuncs(nil) {
			if fn == initFn {
				continue
			}
			for _, b := range fn.Blocks {
				for _, ins := range b.Instrs {
					if st, ok := ins.(*ssa.Store); ok && a.isField(st.Addr, role) {
						r.Fail("K3", core.QualName(fn), "store "+f, p.Pos(st.Pos()), fmt.Sprintf("field %s is written outside the initialiser: readings are no longer over the same input/mode", f))
					}
				}
			}
		}
		r.OK("K3", "-", "writers of "+f, "-", "initialiser only")
	}

	// ---------------- K5: virtual opening quote
	var vq *ssa.Call
	for _, ci := range ssax.Calls(tokenize) {
		if call, ok := ci.(*ssa.Call); ok && call.Common().StaticCallee() == strCore {
			vq = call
		}
	}
	if vq == nil {
		r.Fail("K5", core.QualName(tokenize), "virtual-quote call", p.Pos(tokenize.Pos()), "tokenize no longer calls the string lexer for the virtual opening quote")
	} else {
		args := vq.Common().Args
		// the roles of the lexer's integer parameters are read off its call sites
		posP, offP, lenP, rwhy := strCoreRoles(p, a, strCore)
		var delim ssa.Value
		inputOK, lenOK := false, lenP == nil
		ints := map[string]string{}
		for i, arg := range args {
			if cl, ok := arg.(*ssa.Call); ok && cl.Common().StaticCallee() == f2d {
				delim = cl
			}
			if a.loadsField(arg, "sql.state.input") {
				inputOK = true
			}
			if i >= len(strCore.Params) {
				continue
			}
			switch prm := strCore.Params[i]; {
			case prm == lenP && lenP != nil:
				lenOK = a.loadsField(arg, "sql.state.length") || isLenOfField(a, arg, "sql.state.input")
			case prm == posP && posP != nil, prm == offP && offP != nil:
				if k, ok := ssax.ConstInt(arg); ok {
					ints[prm.Name()] = fmt.Sprint(k)
				} else {
					ints[prm.Name()] = "non-constant"
				}
			}
		}
		switch {
		case rwhy != "":
			r.Fail("K5", core.QualName(tokenize), "virtual-quote call arguments", p.Pos(vq.Pos()), "roles of the string lexer's integer parameters: "+rwhy+" (undecided)")
		case ints[posP.Name()] == "0" && ints[offP.Name()] == "0" && inputOK && lenOK:
			r.OK("K5", core.QualName(tokenize), "virtual-quote call (pos,offset)=(0,0)", p.Pos(vq.Pos()), "whole input, no byte skipped")
		default:
			r.Fail("K5", core.QualName(tokenize), "virtual-quote call arguments", p.Pos(vq.Pos()), fmt.Sprintf("the virtual-quote string lexer call must scan the whole input from (pos,offset)=(0,0); got %s=%s %s=%s input=%v length=%v", posP.Name(), ints[posP.Name()], offP.Name(), ints[offP.Name()], inputOK, lenOK))
		}
		if delim == nil {
			r.Fail("K5", core.QualName(tokenize), "virtual-quote delimiter", p.Pos(vq.Pos()), "delimiter is not flag2Delimiter(flags)")
		} else if !a.loadsField(delim.(*ssa.Call).Common().Args[0], "sql.state.flags") {
			r.Fail("K5", core.QualName(tokenize), "virtual-quote delimiter", p.Pos(vq.Pos()), "delimiter is not computed from the state's flags")
		}
		hasPos0, hasQuote := false, false
		guardFacts := ssax.Facts(vq.Block())
		// a guard that is a boolean helper (`if s.startInQuote()`): the facts of its one way of answering true
		for _, f := range ssax.Facts(vq.Block()) {
			if call, ok := f.Cond.(*ssa.Call); ok && f.True {
				if h := call.Common().StaticCallee(); h != nil && p.InModule(h) && len(h.Blocks) <= 8 {
					// the facts that hold on every way the helper answers true
					ways := ssax.TrueWays(h, nil, 0)
					if len(ways) > 0 {
						type fk struct {
							c ssa.Value
							t bool
						}
						count := map[fk]int{}
						for _, w := range ways {
							seen := map[fk]bool{}
							for _, wf := range w.Facts {
								k := fk{wf.Cond, wf.True}
								if !seen[k] {
									seen[k] = true
									count[k]++
								}
							}
						}
						for _, wf := range ways[0].Facts {
							if count[fk{wf.Cond, wf.True}] == len(ways) {
								guardFacts = append(guardFacts, wf)
							}
						}
					}
				}
			}
		}
		for _, f := range guardFacts {
			bo, ok := f.Cond.(*ssa.BinOp)
			if !ok {
				continue
			}
			if k, ok := ssax.ConstInt(bo.Y); ok && k == 0 && a.loadsField(bo.X, "sql.state.pos") && ((bo.Op == token.EQL && f.True) || (bo.Op == token.NEQ && !f.True)) {
				hasPos0 = true
			}
			if and, ok := bo.X.(*ssa.BinOp); ok && and.Op == token.AND && a.loadsField(and.X, "sql.state.flags") {
				if m, ok := ssax.ConstInt(and.Y); ok && m == qS|qD {
					if z, ok := ssax.ConstInt(bo.Y); ok && z == 0 && ((bo.Op == token.NEQ && f.True) || (bo.Op == token.EQL && !f.True)) {
						hasQuote = true
					}
				}
			}
		}
		if hasPos0 && hasQuote {
			r.OK("K5", core.QualName(tokenize), "virtual-quote guard", p.Pos(vq.Pos()), "pos == 0 ∧ flags & (single|double) != 0")
		} else {
			r.Fail("K5", core.QualName(tokenize), "virtual-quote guard", p.Pos(vq.Pos()), fmt.Sprintf("the virtual-quote branch must be taken exactly at pos == 0 (%v) in a quoted mode (%v)", hasPos0, hasQuote))
		}
	}
	// ---------------- K6: content-start uniformity of the string lexer
	checkContentStartUniform(p, a, r, strCore)

	// flag2Delimiter by SCCP
	if len(f2d.Params) == 1 {
		for _, tc := range []struct {
			flags, want int64
		}{{f1, 0}, {f2, 0}, {f3, '\''}, {f4, '\''}, {f5, '"'}} {
			sc := ssax.RunSCCP(f2d, map[*ssa.Parameter]interface{}{f2d.Params[0]: tc.flags}, p.Pkg.TypesSizes)
			got, ok := sc.ReturnConst(0)
			expr := fmt.Sprintf("%s(%d)", f2d.Name(), tc.flags)
			if !ok {
				r.Fail("K5", core.QualName(f2d), expr, p.Pos(f2d.Pos()), "result is not a constant under constant propagation (undecided)")
			} else if got.(int64) != tc.want {
				r.Fail("K5", core.QualName(f2d), expr, p.Pos(f2d.Pos()), fmt.Sprintf("delimiter for flags %d is %q, specification says %q", tc.flags, byte(got.(int64)), byte(tc.want)))
			} else {
				r.OK("K5", core.QualName(f2d), expr, p.Pos(f2d.Pos()), fmt.Sprintf("= %q", byte(tc.want)))
			}
		}
	} else {
		anchorFail(r, "sql.flag2delim", "expected one parameter")
	}

	r.Analysed = append(r.Analysed, core.QualName(chk), core.QualName(pass), core.QualName(gate), core.QualName(initFn), core.QualName(tokenize), core.QualName(f2d))
	r.Explanation = "E5 path rules. K1: every entry→return path of check() is replayed against the specification automaton [as-is/ANSI always; as-is/MySQL iff not fired and gate; '/ANSI iff input contains '; '/MySQL iff not fired and gate; \"/MySQL iff input contains \"; stop at first fire; false otherwise], comparing the constant flag of every pass call, the polarity of every black-list test, gate test and quote-presence test. K2: the gate reads exactly the `--x` and `#` counters; each counter (and the token counter read by the whitelist) is written only as counter+positive constant, at a site reachable from the tokenizer; the `--x` increment is under `flags&ANSI != 0` and `input[pos+1]=='-'` and not under the white-space case; the `#` increment is unconditional in the lexer dispatched for '#'. K3: in the pass function a call that reaches the initialiser dominates fold(); the initialiser zeroes the whole state before any other store (or assigns every field on every path); only the input field of the old state flows into the new one; input/length/flags are written by the initialiser only. K5: the virtual-quote branch of tokenize is guarded by pos==0 ∧ flags&(single|double)≠0, scans from (pos,offset)=(0,0) over the whole input with delimiter flag2Delimiter(flags), and constant propagation gives flag2Delimiter(10)=flag2Delimiter(18)='\\'', (20)='\"', (9)=(17)=0. NOT decided: that fingerprint(x inside q) equals fingerprint(q+x as-is) — token-stream equality is input→output behaviour."
	r.Trusted = []string{"go/ssa", "acyclic path enumeration of check()", "edge-dominance", "closed-initialiser evaluation of the dispatch table"}
	return r
}

// isInputByte: v is input[...] (string index of the state's input field).
func isInputByte(a *Anchors, v ssa.Value) bool {
	// the input itself or a slice of it (`rest := s.input[s.pos:]; rest[1]`)
	isInput := func(x ssa.Value) bool {
		for d := 0; d < 4; d++ {
			sl, ok := x.(*ssa.Slice)
			if !ok {
				break
			}
			x = sl.X
		}
		return a.loadsField(x, "sql.state.input")
	}
	switch x := v.(type) {
	case *ssa.Index:
		return isInput(x.X)
	case *ssa.Lookup:
		return isInput(x.X)
	case *ssa.Call:
		// an accessor such as s.peekAt(k)
		if f := x.Common().StaticCallee(); f != nil {
			if ret, ok := ssax.PureExprFunc(f); ok {
				return isInputByte(a, ret)
			}
		}
	}
	return false
}

func valueOf(ins ssa.Instruction) ssa.Value {
	if v, ok := ins.(ssa.Value); ok {
		return v
	}
	return nil
}

// reachesFrom: is target reachable from root in the call graph (or equal)?
func reachesFrom(p *core.Program, root, target *ssa.Function) bool {
	seen := map[*ssa.Function]bool{}
	var walk func(fn *ssa.Function) bool
	walk = func(fn *ssa.Function) bool {
		if fn == target {
			return true
		}
		if fn == nil || seen[fn] {
			return false
		}
		seen[fn] = true
		if n := p.Graph.Nodes[fn]; n != nil {
			for _, e := range n.Out {
				if walk(e.Callee.Func) {
					return true
				}
			}
		}
		return false
	}
	return walk(root)
}

var _ = types.Typ

// linForm is a linear form over SSA values: const + Σ coeff·sym.
type linForm struct {
	k    int64
	coef map[ssa.Value]int64
}

func linOf(v ssa.Value, memo map[ssa.Value]*linForm, depth int) *linForm {
	if f, ok := memo[v]; ok {
		return f
	}
	mk := func() *linForm { return &linForm{coef: map[ssa.Value]int64{}} }
	f := mk()
	memo[v] = f // cycle guard (phis): treated as symbol below
	if k, ok := ssax.ConstInt(v); ok {
		f.k = k
		return f
	}
	if bo, ok := v.(*ssa.BinOp); ok && depth < 30 && (bo.Op == token.ADD || bo.Op == token.SUB) {
		x, y := linOf(bo.X, memo, depth+1), linOf(bo.Y, memo, depth+1)
		g := mk()
		sign := int64(1)
		if bo.Op == token.SUB {
			sign = -1
		}
		g.k = x.k + sign*y.k
		for s, c := range x.coef {
			g.coef[s] += c
		}
		for s, c := range y.coef {
			g.coef[s] += sign * c
		}
		memo[v] = g
		return g
	}
	f.coef[v] = 1
	return f
}

// checkContentStartUniform: in the string lexer (t, s, length, pos, offset,
// delimiter), every *consumed* integer value (compared, used as index/slice
// bound, passed to a call, returned, stored) must depend on `pos` and
// `offset` only through their sum, except the test of `offset` against a
// constant that decides real vs. simulated opening quote.  This is a
// necessary condition of "reading x inside a quote equals reading quote+x
// as-is": both readings differ exactly in (pos,offset) = (0,0) vs (0,1).
func checkContentStartUniform(p *core.Program, a *Anchors, r *core.Result, fn *ssa.Function) {
	posP, offP, _, why := strCoreRoles(p, a, fn)
	if why != "" {
		anchorFail(r, "sql.stringCore int parameters", why)
		return
	}
	memo := map[ssa.Value]*linForm{}
	n := 0
	consume := func(v ssa.Value, ins ssa.Instruction, how string) {
		if v == nil {
			return
		}
		if b, ok := v.Type().Underlying().(*types.Basic); !ok || b.Info()&types.IsInteger == 0 {
			return
		}
		f := linOf(v, memo, 0)
		cp, co := f.coef[posP], f.coef[offP]
		if cp == 0 && co == 0 {
			return
		}
		n++
		expr := fmt.Sprintf("%s of %s (pos·%d + offset·%d)", how, v.Name(), cp, co)
		if cp == co {
			r.OK("K6", core.QualName(fn), expr, p.Pos(ins.Pos()), "depends on pos+offset only")
			return
		}
		r.Fail("K6", core.QualName(fn), expr, p.Pos(ins.Pos()), fmt.Sprintf("the string lexer uses `pos` and `offset` separately here (coefficients %d and %d): a real opening quote (offset 1) and the simulated one (pos 0, offset 0) are no longer treated alike", cp, co))
	}
	for _, b := range fn.Blocks {
		for _, ins := range b.Instrs {
			switch x := ins.(type) {
			case *ssa.BinOp:
				switch x.Op {
				case token.EQL, token.NEQ, token.LSS, token.LEQ, token.GTR, token.GEQ:
					// comparison: consume the difference X−Y
					fx, fy := linOf(x.X, memo, 0), linOf(x.Y, memo, 0)
					cp := fx.coef[posP] - fy.coef[posP]
					co := fx.coef[offP] - fy.coef[offP]
					if cp == 0 && co == 0 {
						continue
					}
					n++
					expr := fmt.Sprintf("comparison %s %s %s (pos·%d + offset·%d)", x.X.Name(), x.Op, x.Y.Name(), cp, co)
					_, yConst := ssax.ConstInt(x.Y)
					_, xConst := ssax.ConstInt(x.X)
					switch {
					case cp == co:
						r.OK("K6", core.QualName(fn), expr, p.Pos(x.Pos()), "depends on pos+offset only")
					case cp == 0 && (x.X == ssa.Value(offP) && yConst || x.Y == ssa.Value(offP) && xConst):
						r.OK("K6", core.QualName(fn), expr, p.Pos(x.Pos()), "the real-vs-simulated opening quote test")
					default:
						r.Fail("K6", core.QualName(fn), expr, p.Pos(x.Pos()), fmt.Sprintf("comparison depends on `pos` and `offset` separately (coefficients %d and %d): reading x inside a quote no longer equals reading quote+x", cp, co))
					}
				case token.ADD, token.SUB:
					// arithmetic: not a consumer
				default:
					consume(x.X, ins, "operand")
					consume(x.Y, ins, "operand")
				}
			case *ssa.Index:
				consume(x.Index, ins, "index")
			case *ssa.IndexAddr:
				consume(x.Index, ins, "index")
			case *ssa.Lookup:
				consume(x.Index, ins, "index")
			case *ssa.Slice:
				consume(x.Low, ins, "slice low bound")
				consume(x.High, ins, "slice high bound")
			case *ssa.Return:
				for _, res := range x.Results {
					consume(res, ins, "returned value")
				}
			case *ssa.Store:
				consume(x.Val, ins, "stored value")
			case *ssa.Phi:
				for _, e := range x.Edges {
					consume(e, ins, "phi operand")
				}
			case ssa.CallInstruction:
				for _, arg := range x.Common().Args {
					consume(arg, ins, "call argument")
				}
			}
		}
	}
	if n < 5 {
		r.Fail("vacuity", core.QualName(fn), "K6 sites", p.Pos(fn.Pos()), fmt.Sprintf("only %d uses of pos/offset found in the string lexer", n))
	}
}

// lookupTestOf recognises `lookup(…, K, …) != 0` / `== 0` on a trace (operands
// resolved through helpers) and reports whether the test fires on its true side.
func lookupTestOf(tr *ssax.Trace, cond ssa.Value, cfr *ssax.TFrame, lookup *ssa.Function, k int64) (*ssa.Call, bool, bool) {
	bo, ok := cond.(*ssa.BinOp)
	if !ok {
		return nil, false, false
	}
	x, xfr := tr.Resolve(bo.X, cfr)
	y, yfr := tr.Resolve(bo.Y, cfr)
	call, isCall := x.(*ssa.Call)
	callFr := xfr
	other, otherFr := y, yfr
	if !isCall || call.Common().StaticCallee() != lookup {
		call, isCall = y.(*ssa.Call)
		callFr = yfr
		other, otherFr = x, xfr
	}
	if !isCall || call.Common().StaticCallee() != lookup {
		return nil, false, false
	}
	if z, ok := tr.ConstInt(other, otherFr); !ok || z != 0 {
		return nil, false, false
	}
	hasK := false
	for _, a := range call.Common().Args {
		if v, ok := tr.ConstInt(a, callFr); ok && v == k {
			hasK = true
		}
	}
	if !hasK {
		return nil, false, false
	}
	switch bo.Op {
	case token.NEQ:
		return call, true, true
	case token.EQL:
		return call, false, true
	}
	return nil, false, false
}

// strCoreRoles reads the roles of the string lexer's integer parameters off its
// call sites: `pos` receives the state's cursor at a real-quote site, `offset`
// receives constants only (some of them positive: the opening quote(s) that
// are skipped), the optional `length` receives the input length at every site.
func strCoreRoles(p *core.Program, a *Anchors, fn *ssa.Function) (posP, offP, lenP *ssa.Parameter, why string) {
	type kinds struct{ cursor, constOnly, positive, length, n int }
	ks := map[*ssa.Parameter]*kinds{}
	for _, prm := range fn.Params {
		if b, ok := prm.Type().Underlying().(*types.Basic); ok && b.Kind() == types.Int {
			ks[prm] = &kinds{}
		}
	}
	for _, caller := range p.SourceFuncs(nil) {
		for _, ci := range ssax.Calls(caller) {
			if ci.Common().StaticCallee() != fn {
				continue
			}
			for i, arg := range ci.Common().Args {
				if i >= len(fn.Params) || ks[fn.Params[i]] == nil {
					continue
				}
				k := ks[fn.Params[i]]
				k.n++
				if a.loadsField(arg, "sql.state.pos") {
					k.cursor++
				}
				if c, ok := ssax.ConstInt(arg); ok {
					k.constOnly++
					if c > 0 {
						k.positive++
					}
				}
				if a.loadsField(arg, "sql.state.length") || isLenOfField(a, arg, "sql.state.input") {
					k.length++
				}
			}
		}
	}
	for _, prm := range fn.Params {
		k := ks[prm]
		if k == nil || k.n == 0 {
			continue
		}
		switch {
		case k.length == k.n && lenP == nil:
			lenP = prm
		case k.cursor > 0 && posP == nil:
			posP = prm
		case k.constOnly == k.n && k.positive > 0 && offP == nil:
			offP = prm
		default:
			return nil, nil, nil, fmt.Sprintf("integer parameter %s of %s is neither the cursor, a constant offset nor the input length at its call sites", prm.Name(), fn.Name())
		}
	}
	if posP == nil || offP == nil {
		return nil, nil, nil, fmt.Sprintf("%s: no (pos, offset) parameter pair recognised at its call sites", fn.Name())
	}
	return posP, offP, lenP, ""
}

// ddxThirdByteRule: see the K2 (third byte) comment in checkC12.
func ddxThirdByteRule(p *core.Program, a *Anchors, r *core.Result, st *ssa.Store, ansi int64, wtab [256]tables.Val) {
	fn := st.Parent()
	base := map[ssa.Value]interface{}{}
	var third []ssa.Value
	type predCall struct {
		call *ssa.Call
		tab  [256]tables.Val
	}
	var preds []predCall
	offsetOf := func(ix ssa.Value) (int64, bool) {
		bo, ok := ix.(*ssa.BinOp)
		if !ok || bo.Op != token.ADD || !a.loadsField(bo.X, "sql.state.pos") {
			return 0, false
		}
		return ssax.ConstInt(bo.Y)
	}
	isThird := func(v ssa.Value) bool {
		if cv, ok := v.(*ssa.Convert); ok {
			v = cv.X
		}
		for _, t := range third {
			if t == v {
				return true
			}
		}
		return false
	}
	for _, b := range fn.Blocks {
		for _, ins := range b.Instrs {
			switch x := ins.(type) {
			case *ssa.UnOp:
				if a.loadsField(x, "sql.state.pos") {
					base[x] = int64(0)
				} else if a.loadsField(x, "sql.state.length") {
					base[x] = int64(3)
				}
			case *ssa.Index:
				if !a.loadsField(x.X, "sql.state.input") {
					continue
				}
				if k, ok := offsetOf(x.Index); ok && k == 1 {
					base[x] = int64('-')
				} else if ok && k == 2 {
					third = append(third, x)
				}
			case *ssa.BinOp:
				if x.Op == token.AND && a.loadsField(x.X, "sql.state.flags") {
					if k, ok := ssax.ConstInt(x.Y); ok && k == ansi {
						base[x] = ansi
					}
				}
			}
		}
	}
	for _, b := range fn.Blocks {
		for _, ins := range b.Instrs {
			if c, ok := ins.(*ssa.Call); ok {
				if f := c.Common().StaticCallee(); f != nil && p.InModule(f) && len(c.Common().Args) == 1 && isThird(c.Common().Args[0]) {
					if tab, err := tables.TabulateBytePred(p, f); err == nil {
						preds = append(preds, predCall{c, tab})
					}
				}
			}
		}
	}
	expr := "`--x` counter as a function of x"
	if len(third) == 0 {
		r.Note("K2 third byte: the dash lexer does not read input[pos+2] directly (rule not evaluated)")
		return
	}
	var wrong []string
	for x := 0; x < 256; x++ {
		pins := map[ssa.Value]interface{}{}
		for v, c := range base {
			pins[v] = c
		}
		for _, t := range third {
			pins[t] = int64(x)
		}
		for _, pc := range preds {
			pins[pc.call] = pc.tab[x]
		}
		sc := ssax.RunSCCPPinned(fn, pins, p.Pkg.TypesSizes)
		// decided only when every executable branch has a known condition
		for _, b := range fn.Blocks {
			if !sc.ExecBlock[b] || len(b.Instrs) == 0 {
				continue
			}
			if iff, ok := b.Instrs[len(b.Instrs)-1].(*ssa.If); ok {
				if _, known := sc.ValueOf(iff.Cond); !known {
					r.Note(fmt.Sprintf("K2 third byte: branch %s of %s is not decided by the pinned values (rule not evaluated)", core.Short(ssax.Canon(iff.Cond)), fn.Name()))
					return
				}
			}
		}
		white, _ := wtab[x].(bool)
		if counted := sc.ExecBlock[st.Block()]; counted == white {
			wrong = append(wrong, fmt.Sprintf("%#02x(counted=%v, white=%v)", x, counted, white))
		}
	}
	if len(wrong) == 0 {
		r.OK("K2", core.QualName(fn), expr, p.Pos(st.Pos()), "counted for exactly the 256 − |white| bytes the white-space predicate rejects")
		return
	}
	if len(wrong) > 6 {
		wrong = append(wrong[:6], fmt.Sprintf("… %d bytes in all", len(wrong)))
	}
	r.Fail("K2", core.QualName(fn), expr, p.Pos(st.Pos()), "the MySQL re-parse gate disagrees with the white-space predicate on the byte after `--`: "+strings.Join(wrong, ", ")+": `--`+white space must be a comment in every dialect (no re-parse), `--`+anything else must request the MySQL reading")
}
