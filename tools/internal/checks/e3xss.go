package checks

import (
	"fmt"
	"os"
	"sort"
	"strings"
	"sync"
	"time"

	"golang.org/x/tools/go/ssa"

	"verif/tools/internal/absint"
)

// The XSS side: the API root (IsXSS → isXSS ×5 → init, classifier) with the
// dynamic call h.state() inside next() summarised by the tokenizer interface
// invariant, and one root per state function.
//
//   pre  (checked where next() is called):  len = len(s) ∧ 0 ≤ pos ≤ len ∧ state ≠ nil
//   post (checked at every return of every state function, assumed after next()):
//        0 ≤ pos ≤ len; on a `true` return all three token fields were written,
//        tokenStart = s[a:], 0 ≤ tokenLen, a + tokenLen ≤ len(s); state is a bound state method
//
// Per-state entry facts (pos ≥ 1, pos < len) are found Houdini-style: assumed
// for every state, checked on every transition into the state, dropped when a
// transition cannot establish them, until nothing changes.

type xssRoots struct {
	env  *e3Env
	g    *stateGraph
	runs []*e3Run
	mu   sync.Mutex
	// entry facts currently assumed per state function
	posGE1 map[*ssa.Function]bool
	posLT  map[*ssa.Function]bool
	posEQ0 map[*ssa.Function]bool
	// prevEnd (end of the previously emitted token) ≤ pos / ≤ pos-1 at entry
	gap0, gap1 map[*ssa.Function]bool
	// shortest accepted terminator length per search call (refined across rounds)
	cmin   map[termKey]int
	cseen  map[termKey]int
	trans  []transition // of the last round
	ctx    map[string]*xssCtx
	rounds int
	peel   bool // peel loops in the state roots (C17: "first search" vs "search after a rejected candidate")
}

// xssCtx is what rule hooks need to know about a state root.
type xssCtx struct {
	H       absint.PtrV
	In      absint.StrV
	Pos0    absint.Lin
	PrevEnd absint.Lin
}

func (xr *xssRoots) setCtx(name string, c *xssCtx) {
	xr.mu.Lock()
	defer xr.mu.Unlock()
	if xr.ctx == nil {
		xr.ctx = map[string]*xssCtx{}
	}
	xr.ctx[name] = c
}

func (xr *xssRoots) getCtx(name string) *xssCtx {
	xr.mu.Lock()
	defer xr.mu.Unlock()
	return xr.ctx[name]
}

// noteAccepted records that a terminator found by search call org was accepted
// with the cursor moved at least c bytes past its first byte.
// termKey: a terminator search of one state function (a search made through a shared
// helper — h.find(c) — is one search per state that uses it).
type termKey struct {
	state *ssa.Function
	org   ssa.Instruction
}

func (xr *xssRoots) noteAccepted(state *ssa.Function, org ssa.Instruction, c int) {
	xr.mu.Lock()
	defer xr.mu.Unlock()
	k := termKey{state, org}
	if old, ok := xr.cseen[k]; !ok || c < old {
		xr.cseen[k] = c
	}
}

func (xr *xssRoots) minTerminator(state *ssa.Function, org ssa.Instruction) int {
	xr.mu.Lock()
	defer xr.mu.Unlock()
	return xr.minTerminatorLocked(termKey{state, org})
}

func (xr *xssRoots) minTerminatorLocked(k termKey) int {
	if c, ok := xr.cmin[k]; ok {
		return c
	}
	return 4
}

func (xr *xssRoots) field(role string) string { return xr.env.a.Fields[role] }

func (xr *xssRoots) run(name string, cfg absint.Config, fn *ssa.Function, setup func(e *absint.Engine, st *absint.State, fr *absint.Frame)) *e3Run {
	if only := os.Getenv("VERIF_ROOTS"); only != "" && !strings.Contains(","+only+",", ","+name+",") {
		return nil
	}
	if os.Getenv("VERIF_TRACE") != "" {
		cfg.Trace = true
	}
	t0 := time.Now()
	e, level := xr.env.runEscalating(cfg, fn, setup)
	r := &e3Run{name: name, eng: e, dur: time.Since(t0), level: level}
	if os.Getenv("VERIF_PROGRESS") != "" {
		fmt.Fprintf(os.Stderr, "root %s done in %v\n", name, r.dur)
	}
	xr.mu.Lock()
	xr.runs = append(xr.runs, r)
	xr.mu.Unlock()
	return r
}

// nextSummary replaces h.next() in the classifier root.
func (xr *xssRoots) nextSummary(e *absint.Engine, st *absint.State, fr *absint.Frame, call *ssa.Call, callee *ssa.Function, args []absint.AVal) ([]*absint.State, bool) {
	H, ok := args[0].(absint.PtrV)
	if !ok {
		return nil, false
	}
	in, ok1 := e.CellOf(st, H, xr.field("xss.state.s"))
	ln, ok2 := e.CellOf(st, H, xr.field("xss.state.len"))
	ps, ok3 := e.CellOf(st, H, xr.field("xss.state.pos"))
	inS, okS := in.(absint.StrV)
	lnI, okL := ln.(absint.IntV)
	psI, okP := ps.(absint.IntV)
	good := ok1 && ok2 && ok3 && okS && okL && okP && e.ProveEQ(st, lnI.L, absint.StrLenOf(inS)) && e.ProveLE(st, absint.K(0), psI.L) && e.ProveLE(st, psI.L, lnI.L)
	e.Check(st, fr, call.Pos(), "I-pre", "tokenizer interface at next()", good, "cannot show len = len(s) ∧ 0 ≤ pos ≤ len where the tokenizer is stepped")
	// the state variable must hold a function
	sv, okc := e.CellOf(st, H, xr.field("xss.state.state"))
	if okc {
		if f, isF := sv.(absint.FuncV); isF {
			e.Check(st, fr, call.Pos(), "B-nil", "h.state at next()", f.Fn != nil, "the tokenizer is stepped with a nil state function (unhandled context flag?)")
		}
	}
	for _, f := range []string{"xss.state.pos", "xss.state.state", "xss.state.tokenStart", "xss.state.tokenLen", "xss.state.tokenType", "xss.state.isClose"} {
		e.Havoc(st, H, xr.field(f))
	}
	if okS {
		pos := e.NewInt(st, "pos'")
		e.AssumeLE(st, absint.K(0), pos)
		e.AssumeLE(st, pos, absint.StrLenOf(inS))
		e.SetCell(st, H, xr.field("xss.state.pos"), absint.IntV{L: pos})
		a := e.NewInt(st, "tokOff'")
		tl := e.NewInt(st, "tokLen'")
		e.AssumeLE(st, absint.K(0), a)
		e.AssumeLE(st, absint.K(0), tl)
		e.AssumeLE(st, a.Add(tl), absint.StrLenOf(inS))
		e.SetCell(st, H, xr.field("xss.state.tokenStart"), absint.StrV{Root: inS.Root, Lo: inS.Lo.Add(a), Hi: inS.Hi})
		e.SetCell(st, H, xr.field("xss.state.tokenLen"), absint.IntV{L: tl})
	}
	e.SetResult(st, fr, call, absint.BoolV{})
	return []*absint.State{st}, true
}

type transition struct {
	from  *ssa.Function
	to    *ssa.Function
	ge1   bool
	lt    bool
	eq0   bool
	gap0  bool // end of the last emitted token ≤ new cursor
	gap1  bool // … ≤ new cursor - 1
	adv   bool // the cursor moved forward by at least one byte
	emit  bool // may emit a token
	where string
}

// stateRoot analyses one state function and returns the transitions it can make.
func (xr *xssRoots) stateRoot(fn *ssa.Function, extra func(name string, hooks *absint.Hooks)) []transition {
	env := xr.env
	var trans []transition
	var mu sync.Mutex
	var H absint.PtrV
	var in absint.StrV
	var pos0, prevEnd absint.Lin
	cfg := env.config()
	cfg.Peel = xr.peel
	if xr.peel {
		cfg.ResultCap = 3 * cfg.K
	}
	stateFld := xr.field("xss.state.state")
	cfg.Hooks.OnReturn = func(e *absint.Engine, st *absint.State, fr *absint.Frame, ret *ssa.Return, val absint.AVal) {
		if fr.Depth() != 0 {
			return
		}
		where := retLabel(ret)
		ps, okp := e.CellOf(st, H, xr.field("xss.state.pos"))
		psI, okP := ps.(absint.IntV)
		e.Check(st, fr, ret.Pos(), "I-post", "0 ≤ pos ≤ len at "+where, okp && okP && e.ProveLE(st, absint.K(0), psI.L) && e.ProveLE(st, psI.L, absint.StrLenOf(in)), "the cursor may leave the input")
		b, _ := val.(absint.BoolV)
		newPrevEnd := prevEnd
		if b.Known != 2 {
			// a token is emitted: T-span
			ts, ok1 := e.CellOf(st, H, xr.field("xss.state.tokenStart"))
			tl, ok2 := e.CellOf(st, H, xr.field("xss.state.tokenLen"))
			_, ok3 := e.CellOf(st, H, xr.field("xss.state.tokenType"))
			tsS, okS := ts.(absint.StrV)
			tlI, okL := tl.(absint.IntV)
			switch {
			case !ok1 || !ok2 || !ok3 || !okS || !okL || e.IsFreshCell(st, H, xr.field("xss.state.tokenStart")) || e.IsFreshCell(st, H, xr.field("xss.state.tokenLen")) || e.IsFreshCell(st, H, xr.field("xss.state.tokenType")):
				e.Check(st, fr, ret.Pos(), "T-span", "token fields written at "+where, false, "a token is reported but tokenStart / tokenLen / tokenType were not all written in this step")
			default:
				e.Check(st, fr, ret.Pos(), "T-span", "token fields written at "+where, true, "")
				inside := tsS.Const == nil && tsS.Root == in.Root && e.ProveLE(st, in.Lo, tsS.Lo) && e.ProveLE(st, tsS.Lo, in.Hi)
				e.Check(st, fr, ret.Pos(), "T-span", "tokenStart is a suffix of the input at "+where, inside, "token does not start inside the input")
				e.Check(st, fr, ret.Pos(), "T-span", "0 ≤ tokenLen ∧ offset+tokenLen ≤ len(s) at "+where, inside && e.ProveLE(st, absint.K(0), tlI.L) && e.ProveLE(st, tsS.Lo.Add(tlI.L), in.Hi), "token length may exceed what is left of the input")
				if inside {
					newPrevEnd = tsS.Lo.Sub(in.Lo).Add(tlI.L)
				}
			}
		}
		if !e.Logging() {
			return
		}
		// where does the machine go next?
		sv, okc := e.CellOf(st, H, stateFld)
		var target *ssa.Function
		if okc && !e.IsFreshCell(st, H, stateFld) {
			f, isF := sv.(absint.FuncV)
			e.Check(st, fr, ret.Pos(), "B-nil", "state stored at "+where, isF && f.Fn != nil, "the state variable may be nil or is not a bound state method")
			if isF && f.Fn != nil {
				target = f.Fn
				if obj := target.Object(); obj != nil {
					if m := env.p.FuncByQualName(env.a.TypeName("xss.state") + "." + obj.Name()); m != nil {
						target = m
					}
				}
			}
		} else if okc {
			target = fn // the state variable was not written: the machine stays where it is
		}
		if target != nil && b.Known != 2 {
			// (a step that reports no token ends the token loop: no transition)
			tr := transition{from: fn, to: target, where: fn.Name() + ": " + where, emit: true}
			if okp && okP {
				tr.ge1 = e.ProveLE(st, absint.K(1), psI.L)
				tr.lt = e.ProveLE(st, psI.L.AddK(1), absint.StrLenOf(in))
				tr.eq0 = e.ProveEQ(st, psI.L, absint.K(0))
				tr.gap0 = e.ProveLE(st, newPrevEnd, psI.L)
				tr.gap1 = e.ProveLE(st, newPrevEnd.AddK(1), psI.L)
				tr.adv = e.ProveLE(st, pos0.AddK(1), psI.L)
			}
			mu.Lock()
			trans = append(trans, tr)
			mu.Unlock()
		}
	}
	// the relations the return-site rules ask about are offered to every join
	cfg.Hooks.Templates = func(e *absint.Engine, j *absint.State, jfr *absint.Frame) []absint.Lin {
		ps, ok0 := e.CellOf(j, H, xr.field("xss.state.pos"))
		psI, okP := ps.(absint.IntV)
		if !ok0 || !okP {
			return nil
		}
		length := absint.StrLenOf(in)
		out := []absint.Lin{pos0.AddK(1).Sub(psI.L), absint.K(1).Sub(psI.L), psI.L.AddK(1).Sub(length), psI.L.Sub(length), prevEnd.Sub(psI.L), prevEnd.AddK(1).Sub(psI.L)}
		ts, ok1 := e.CellOf(j, H, xr.field("xss.state.tokenStart"))
		tl, ok2 := e.CellOf(j, H, xr.field("xss.state.tokenLen"))
		tsS, okS := ts.(absint.StrV)
		tlI, okL := tl.(absint.IntV)
		if ok1 && ok2 && okS && okL && tsS.Const == nil && tsS.Root == in.Root {
			off := tsS.Lo.Sub(in.Lo)
			end := off.Add(tlI.L)
			out = append(out, end.Sub(psI.L), end.AddK(1).Sub(psI.L), prevEnd.Sub(off), end.Sub(length), tlI.L.Neg())
		}
		return out
	}
	if extra != nil {
		extra("state:"+fn.Name(), &cfg.Hooks)
	}
	xr.run("state:"+fn.Name(), cfg, fn, func(e *absint.Engine, st *absint.State, fr *absint.Frame) {
		H, in = env.h5StateSetup(e, st, fr, fn.Params[0], func(pos, length absint.Lin) {})
		ps, _ := e.CellOf(st, H, xr.field("xss.state.pos"))
		pos := ps.(absint.IntV).L
		pos0 = pos
		prevEnd = e.NewInt(st, "prevEnd")
		e.AssumeLE(st, absint.K(0), prevEnd)
		e.AssumeLE(st, prevEnd, absint.StrLenOf(in))
		if xr.gap0[fn] {
			e.AssumeLE(st, prevEnd, pos)
		}
		if xr.gap1[fn] {
			e.AssumeLE(st, prevEnd.AddK(1), pos)
		}
		xr.setCtx("state:"+fn.Name(), &xssCtx{H: H, In: in, Pos0: pos0, PrevEnd: prevEnd})
		if xr.posGE1[fn] {
			e.AssumeLE(st, absint.K(1), pos)
		}
		if xr.posLT[fn] {
			e.AssumeLE(st, pos.AddK(1), absint.StrLenOf(in))
		}
		if xr.posEQ0[fn] {
			e.AssumeEQ(st, pos, absint.K(0))
		}
		for _, prm := range fn.Params[1:] {
			if isIntType(prm.Type()) {
				// the quote byte of the value lexer: one of the three quote characters
				e.Bind(st, fr, prm, e.FreshOfType(st, prm.Type(), prm.Name()))
			}
		}
		e.MarkFresh(st, H, []string{xr.field("xss.state.tokenStart"), xr.field("xss.state.tokenLen"), xr.field("xss.state.tokenType"), stateFld})
	})
	return trans
}

// runAll: Houdini over the per-state entry facts, then the API root.
func (xr *xssRoots) runAll(extra func(name string, hooks *absint.Hooks)) {
	env := xr.env
	a := env.a
	g := xr.g
	var states []*ssa.Function
	entered := map[*ssa.Function]bool{}
	for _, s := range g.Starts {
		entered[s] = true
	}
	for _, n := range g.Nodes {
		for _, ed := range n.Out {
			if ed.Deferred {
				entered[ed.To] = true
			}
		}
	}
	// only states entered through the state variable get a root of their own;
	// the others are analysed inlined into their callers with the real contexts
	for fn := range g.Nodes {
		if entered[fn] {
			states = append(states, fn)
		}
	}
	sort.Slice(states, func(i, j int) bool { return states[i].Name() < states[j].Name() })
	xr.posGE1, xr.posLT, xr.posEQ0 = map[*ssa.Function]bool{}, map[*ssa.Function]bool{}, map[*ssa.Function]bool{}
	xr.gap0, xr.gap1 = map[*ssa.Function]bool{}, map[*ssa.Function]bool{}
	xr.cmin = map[termKey]int{}
	isStart := map[*ssa.Function]bool{}
	for _, s := range g.Starts {
		isStart[s] = true
	}
	// only states entered through the state variable (deferred transitions) or directly from a start need entry facts;
	// states that are only called directly are analysed inlined in their callers, but also get a generic root.
	for _, fn := range states {
		xr.posGE1[fn] = !isStart[fn]
		xr.posLT[fn] = !isStart[fn]
		xr.posEQ0[fn] = isStart[fn] // init enters a start state with the cursor at 0
		xr.gap0[fn] = true          // nothing emitted yet: prevEnd = 0 ≤ pos
		xr.gap1[fn] = !isStart[fn]
	}
	for round := 0; round < 8; round++ {
		xr.rounds = round + 1
		xr.mu.Lock()
		xr.runs = nil
		xr.cseen = map[termKey]int{}
		xr.mu.Unlock()
		var wg sync.WaitGroup
		sem := make(chan struct{}, 14)
		all := make([][]transition, len(states))
		for i, fn := range states {
			i, fn := i, fn
			wg.Add(1)
			go func() {
				sem <- struct{}{}
				defer func() { <-sem; wg.Done() }()
				all[i] = xr.stateRoot(fn, extra)
			}()
		}
		wg.Wait()
		changed := false
		xr.trans = nil
		for k, c := range xr.cseen {
			if xr.minTerminatorLocked(k) != c {
				xr.cmin[k] = c
				changed = true
			}
		}
		for _, trs := range all {
			xr.trans = append(xr.trans, trs...)
			for _, tr := range trs {
				if xr.gap0[tr.to] && !tr.gap0 {
					xr.gap0[tr.to] = false
					changed = true
					if os.Getenv("VERIF_DBGTRANS") != "" {
						fmt.Fprintf(os.Stderr, "TRANS drops prevEnd≤pos of %s: %s\n", tr.to.Name(), tr.where)
					}
				}
				if xr.gap1[tr.to] && !tr.gap1 {
					xr.gap1[tr.to] = false
					changed = true
				}
				if xr.posGE1[tr.to] && !tr.ge1 {
					xr.posGE1[tr.to] = false
					changed = true
				}
				if xr.posLT[tr.to] && !tr.lt {
					xr.posLT[tr.to] = false
					changed = true
				}
				if xr.posEQ0[tr.to] && !tr.eq0 {
					xr.posEQ0[tr.to] = false
					changed = true
				}
			}
		}
		if !changed {
			break
		}
	}
	// ---- the per-context classifier with the context flag in the range init handles
	root := a.Fn("xss.root")
	ctxFn := a.Fn("xss.ctx")
	next := a.Fn("xss.next")
	var flagLo, flagHi int64 = 1 << 40, -(1 << 40)
	for fl := range g.Starts {
		if fl < flagLo {
			flagLo = fl
		}
		if fl > flagHi {
			flagHi = fl
		}
	}
	contiguous := int64(len(g.Starts)) == flagHi-flagLo+1
	if root != nil && next != nil && ctxFn != nil {
		var wg sync.WaitGroup
		wg.Add(2)
		// pure string predicates: own roots from an arbitrary string, result unknown at call sites
		var preds []*ssa.Function
		for _, role := range []string{"xss.isBlackTag", "xss.isBlackAttr", "xss.isBlackURL"} {
			if f := a.FnOpt(role); f != nil {
				preds = append(preds, f)
			}
		}
		predSummary := func(e *absint.Engine, st *absint.State, fr *absint.Frame, call *ssa.Call, callee *ssa.Function, args []absint.AVal) ([]*absint.State, bool) {
			e.SetResult(st, fr, call, e.FreshOfType(st, call.Type(), callee.Name()))
			return []*absint.State{st}, true
		}
		for _, f := range preds {
			f := f
			wg.Add(1)
			go func() {
				defer wg.Done()
				cfg := env.config()
				if extra != nil {
					extra("pred:"+f.Name(), &cfg.Hooks)
				}
				xr.run("pred:"+f.Name(), cfg, f, func(e *absint.Engine, st *absint.State, fr *absint.Frame) {
					env.genericSetup(e, st, fr, f)
				})
			}()
		}
		go func() {
			defer wg.Done()
			cfg := env.config()
			cfg.Summaries[next] = xr.nextSummary
			for _, f := range preds {
				cfg.Summaries[f] = predSummary
			}
			if extra != nil {
				extra("ctx", &cfg.Hooks)
			}
			xr.run("ctx", cfg, ctxFn, func(e *absint.Engine, st *absint.State, fr *absint.Frame) {
				for _, prm := range ctxFn.Params {
					switch {
					case isStringType(prm.Type()):
						e.Bind(st, fr, prm, e.NewInput(st, "INPUT"))
					case isIntType(prm.Type()):
						fl := e.NewInt(st, "flags")
						e.AssumeLE(st, absint.K(flagLo), fl)
						e.AssumeLE(st, fl, absint.K(flagHi))
						e.Bind(st, fr, prm, absint.IntV{L: fl})
					}
				}
			})
		}()
		go func() {
			defer wg.Done()
			cfg := env.config()
			cfg.Summaries[ctxFn] = func(e *absint.Engine, st *absint.State, fr *absint.Frame, call *ssa.Call, callee *ssa.Function, args []absint.AVal) ([]*absint.State, bool) {
				ok := false
				for _, arg := range args {
					if iv, isInt := arg.(absint.IntV); isInt {
						ok = contiguous && e.ProveLE(st, absint.K(flagLo), iv.L) && e.ProveLE(st, iv.L, absint.K(flagHi))
					}
				}
				e.Check(st, fr, call.Pos(), "I-pre", "context flag is one init handles at call of "+callee.Name(), ok, fmt.Sprintf("the context flag is not provably within the %d flags for which init sets a start state: the tokenizer would be stepped with a nil state", len(g.Starts)))
				e.SetResult(st, fr, call, absint.BoolV{})
				return []*absint.State{st}, true
			}
			if extra != nil {
				extra("api", &cfg.Hooks)
			}
			xr.run("api", cfg, root, func(e *absint.Engine, st *absint.State, fr *absint.Frame) {
				e.Bind(st, fr, root.Params[0], e.NewInput(st, "INPUT"))
			})
		}()
		wg.Wait()
	}
	sort.Slice(xr.runs, func(i, j int) bool { return xr.runs[i].name < xr.runs[j].name })
}

func (xr *xssRoots) describe() []string {
	var out []string
	for _, r := range xr.runs {
		n, bad := 0, 0
		for _, o := range r.eng.Obs {
			n++
			if o.Bad > 0 {
				bad++
			}
		}
		out = append(out, fmt.Sprintf("%s: %d obligations, %d undischarged, %d inlinings, %d LPs, %.1fs%s", r.name, n, bad, r.eng.Inlined, r.eng.LP.Calls, r.dur.Seconds(), levelNote(r.level)))
	}
	var facts []string
	for fn, v := range xr.posGE1 {
		if v || xr.posLT[fn] || xr.posEQ0[fn] {
			facts = append(facts, fmt.Sprintf("%s[pos≥1:%v pos<len:%v pos=0:%v prevEnd≤pos:%v prevEnd<pos:%v]", fn.Name(), v, xr.posLT[fn], xr.posEQ0[fn], xr.gap0[fn], xr.gap1[fn]))
		}
	}
	sort.Strings(facts)
	out = append(out, fmt.Sprintf("entry facts after %d Houdini round(s): %s", xr.rounds, strings.Join(facts, " ")))
	return out
}
