package checks

import (
	"fmt"
	"go/ast"
	"path/filepath"
	"sort"

	"golang.org/x/tools/go/ssa"

	"verif/tools/internal/core"
	"verif/tools/internal/effects"
)

func init() { register("C05", "proof", checkC05) }

// runEffects turns E1's findings into obligations of r and returns the analysis.
func runEffects(p *core.Program, r *core.Result) *effects.Analysis {
	a := effects.Run(p)
	for _, s := range a.Sites {
		pos := "-"
		if s.Ins != nil {
			pos = p.Pos(s.Ins.Pos())
		}
		r.OK(s.Rule, core.QualName(s.Fn), s.Expr, pos, s.Why)
	}
	for _, f := range a.Findings {
		pos := "-"
		if f.Ins != nil {
			pos = p.Pos(f.Ins.Pos())
		}
		r.Fail(f.Rule, core.QualName(f.Fn), f.Expr, pos, f.Msg)
	}
	return a
}

// exportedReach: functions reachable from any exported function or method.
func exportedReach(p *core.Program) map[*ssa.Function]bool {
	set := map[*ssa.Function]bool{}
	var walk func(fn *ssa.Function)
	walk = func(fn *ssa.Function) {
		if fn == nil || set[fn] {
			return
		}
		set[fn] = true
		if n := p.Graph.Nodes[fn]; n != nil {
			for _, e := range n.Out {
				walk(e.Callee.Func)
			}
		}
		for _, an := range fn.AnonFuncs {
			walk(an)
		}
	}
	for _, fn := range p.SourceFuncs(nil) {
		if ast.IsExported(fn.Name()) && fn.Parent() == nil {
			walk(fn)
		}
	}
	return set
}

func checkC05(c *Ctx) *core.Result {
	p := c.P
	r := c.newResult()
	a := runEffects(p, r)

	// Vacuity floor: the reachable graph must not be trivially small.
	n := 0
	for fn := range p.Reach {
		if p.InModule(fn) {
			n++
		}
	}
	if n < 60 {
		r.Fail("vacuity", "-", "reachable functions", "-", fmt.Sprintf("only %d API-reachable module functions (expected ≥ 60): call graph looks vacuous", n))
	} else {
		r.OK("vacuity", "-", fmt.Sprintf("%d API-reachable module functions", n), "-", "≥ 60")
	}

	// Writers outside init of globals that API-reachable code reads, when the
	// writer is itself reachable from an exported entry point.
	exp := exportedReach(p)
	globals := map[string]interface{}{}
	for _, g := range p.Globals() {
		readers := a.GlobalReaders[g]
		writers := a.GlobalWriters[g]
		sort.Strings(readers)
		sort.Strings(writers)
		globals[g.Name()] = map[string]interface{}{"type": g.Type().String(), "api_reachable_users": readers, "writers": writers}
		if len(readers) == 0 {
			continue
		}
		bad := false
		for _, w := range writers {
			if w == "init" {
				continue
			}
			wf := p.FuncByQualName(w)
			if wf != nil && (exp[wf] || p.Reach[wf]) {
				bad = true
				r.Fail("R1", w, "writer of "+g.Name(), p.Pos(wf.Pos()), fmt.Sprintf("package variable %s is used by API-reachable code and written by %s, which is reachable from an exported entry point", g.Name(), w))
			}
		}
		if !bad {
			r.OK("R1-global", "-", "package variable "+g.Name(), p.Pos(g.Pos()), fmt.Sprintf("writers: %v (initialiser only)", writers))
		}
	}
	r.Extra["package_variables"] = globals
	ext := map[string]int{}
	for k, v := range a.ExternalCalls {
		ext[k] = len(v)
	}
	r.Extra["external_callees"] = ext
	r.Extra["per_call_allocations"] = a.Allocs
	r.Extra["api_reachable_functions"] = n

	// Positive fixture: the zero-instance rules must fire on a known-bad package.
	fixture := filepath.Join(c.VerifDir, "tools", "selftest", "fixtures", "globalwrite")
	fp, err := core.Load(fixture, "", nil)
	if err != nil {
		r.Fail("fixture", "-", "globalwrite fixture", "-", "cannot load positive fixture: "+err.Error())
	} else {
		fa := effects.Run(fp)
		want := map[string]bool{"R1:cache": false, "R3:pool": false, "R1:lazy": false, "R4:maprange": false, "R2:go": false}
		for _, f := range fa.Findings {
			fn := core.QualName(f.Fn)
			switch {
			case f.Rule == "R1" && fn == "remember":
				want["R1:cache"] = true
			case f.Rule == "R3" && fn == "pooled":
				want["R3:pool"] = true
			case f.Rule == "R1" && (fn == "lazyTable" || fn == "lazyRead"):
				want["R1:lazy"] = true
			case f.Rule == "R4" && fn == "anyKey":
				want["R4:maprange"] = true
			case f.Rule == "R2" && fn == "spawn":
				want["R2:go"] = true
			}
			if fn == "onceGood" || fn == "onceGood$1" || fn == "useOnceGood" {
				r.Fail("fixture", fn, "negative control", "-", "rule "+f.Rule+" fired on the accepted sync.Once idiom: "+f.Msg)
			}
		}
		for k, fired := range want {
			if fired {
				r.OK("fixture", "-", "positive fixture "+k, "-", "rule fires on the known-bad fixture")
			} else {
				r.Fail("fixture", "-", "positive fixture "+k, "-", "rule did not fire on the known-bad fixture: the analysis is blind")
			}
		}
	}

	for _, fn := range p.SourceFuncs(p.Reach) {
		r.Analysed = append(r.Analysed, core.QualName(fn))
	}
	r.Explanation = "E1 effect/escape analysis over the SSA of every function reachable (VTA call graph) from IsSQLi and IsXSS. " +
		"Obligations: every store / map update / delete / copy / append destination is not derived from package-level state (R1); no goroutine, channel or pointer-like API result (R2); every external callee is on the pure list and receives no package-state-derived mutable argument (R3); no range over a map, no select (R4); sync.Once lazy initialisation only when every read is dominated by Do (R5); every package variable used by API-reachable code is written by its initialiser only. " +
		"Two concurrent calls therefore share only the immutable input string and package state that no reachable instruction writes after init ⇒ no data race, and no nondeterministic primitive is reachable ⇒ result is a function of the input."
	r.Trusted = []string{"go/ssa construction and VTA call-graph soundness (no reflect/unsafe reachable: enforced by R3)", "the pure-package list (strings, bytes, unicode, utf8, strconv, math, bits, sort, slices, errors, fmt.Sprint*)", "field-based heap abstraction for pointer values stored into structs"}
	r.Assumptions = []string{"Go memory model: concurrent reads of never-written memory are race-free", "strings are immutable"}
	return r
}

var effectsCache = map[*core.Program]*effects.Analysis{}

// runEffectsQuiet runs E1 (memoised per loaded program) without recording obligations.
func runEffectsQuiet(p *core.Program) *effects.Analysis {
	if a, ok := effectsCache[p]; ok {
		return a
	}
	a := effects.Run(p)
	effectsCache[p] = a
	return a
}
