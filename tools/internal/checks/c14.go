package checks

import (
	"fmt"
	"go/token"
	"go/types"

	"golang.org/x/tools/go/ssa"

	"verif/tools/internal/core"
	"verif/tools/internal/ssax"
	"verif/tools/internal/tables"
)

func init() { register("C14", "other", checkC14) }

func callsTransitively(p *core.Program, from, to *ssa.Function, depth int) bool {
	if from == to {
		return true
	}
	if depth <= 0 || from == nil || from.Blocks == nil {
		return false
	}
	for _, ci := range ssax.Calls(from) {
		if f := ci.Common().StaticCallee(); f != nil && p.InModule(f) && callsTransitively(p, f, to, depth-1) {
			return true
		}
	}
	return false
}

func checkC14(c *Ctx) *core.Result {
	p := c.P
	r := c.newResult()
	a := loadAnchors(c, r)
	fold := a.Fn("sql.fold")
	merge := a.Fn("sql.merge")
	pass := a.Fn("sql.pass")
	lookup := a.Fn("sql.lookup")
	search := a.Fn("sql.searchKeyword")
	word := a.Fn("sql.word")
	number := a.Fn("sql.number")
	assign := a.Fn("sql.assign")
	stName, tokName := a.TypeName("sql.state"), a.TypeName("sql.token")
	catF := a.Field("sql.token.category")
	t, errs := tables.Extract(p)
	for _, e := range errs {
		r.Fail("T1", "-", "table extraction", "-", e.Error())
	}
	if len(r.Violations) > 0 {
		return r
	}
	nW, okW := classValue(t, classBareWord)
	n1, ok1 := classValue(t, classNumber)
	fpV, okF := classValue(t, classFingerprint)
	if !okW || !ok1 || !okF {
		anchorFail(r, "class constants", "BareWord/Number/Fingerprint not found")
		return r
	}
	up := func(b byte) byte {
		if b >= 'a' && b <= 'z' {
			return b - 0x20
		}
		return b
	}

	// ---- A1: no fingerprint made only of bareword / number classes is black-listed
	var gen func(prefix string, n int)
	count := 0
	gen = func(prefix string, n int) {
		if len(prefix) > 1 {
			count++
			if v, ok := t.KeywordMap[prefix]; ok && v == fpV {
				r.Fail("A1", t.KeywordsVar, fmt.Sprintf("key %q", prefix), "-", "a fingerprint consisting only of bareword/number classes is black-listed: plain words and numbers would be reported as SQLi")
			} else {
				r.OK("A1", t.KeywordsVar, fmt.Sprintf("key %q", prefix), "-", "absent")
			}
		}
		if n == 0 {
			return
		}
		gen(prefix+string(up(nW)), n-1)
		gen(prefix+string(up(n1)), n-1)
	}
	gen("0", 5)

	// ---- A2: no folding rule fires on {n,1} token streams
	base := ssax.SetOf(0, nW, n1)
	isTokField := func(u *ssa.UnOp, field string) bool {
		fr, ok := ssax.AsFieldAddr(u.X)
		return ok && fr.Struct == tokName && fr.Field == field
	}
	hooks := ssax.AbsHooks{
		InModule: p.InModule,
		Load: func(u *ssa.UnOp) (ssax.AVal, bool) {
			if isTokField(u, catF) {
				return ssax.ASet(base), true
			}
			if isTokField(u, "strOpen") || isTokField(u, "strClose") {
				return ssax.ASet(ssax.SetOf(0)), true
			}
			return ssax.AUnknown, false
		},
		Call: func(cl *ssa.Call) (ssax.AVal, bool) {
			f := cl.Common().StaticCallee()
			// family definition: no word (pair) is a component of a keyword-table entry,
			// so the phrase look-up inside merge misses.
			if cl.Parent() == merge && (f == lookup || f == search) {
				return ssax.ASet(ssax.SetOf(0)), true
			}
			return ssax.AUnknown, false
		},
	}
	ev := ssax.NewAbsEval(hooks)
	res := ev.Run(fold)
	nReach, nDead := 0, 0
	for _, b := range fold.Blocks {
		if !res.ExecBlock[b] {
			nDead++
			continue
		}
		nReach++
		for _, ins := range b.Instrs {
			switch x := ins.(type) {
			case *ssa.Store:
				if fr, ok := ssax.AsFieldAddr(x.Addr); ok {
					if fr.Struct == tokName && fr.Field == catF {
						// lastComment.category = 0 is bookkeeping on the local copy
						if k, ok := ssax.ConstInt(x.Val); ok && k == 0 {
							if _, isLocal := fr.Base.(*ssa.Alloc); isLocal {
								continue
							}
						}
						r.Fail("A2", core.QualName(fold), "store category = "+x.Val.String(), p.Pos(x.Pos()), "a rule that rewrites a token class is reachable for token streams made only of barewords and numbers")
					}
					if fr.Struct == stName && fr.Field == a.Fields["sql.state.statsFolds"] {
						r.Fail("A2", core.QualName(fold), "statsFolds update", p.Pos(x.Pos()), "a folding rule (statsFolds++) is reachable for token streams made only of barewords and numbers")
					}
					continue
				}
				// whole-token copy tokenVec[i] = …
				if pt, ok := x.Addr.Type().Underlying().(*types.Pointer); ok {
					if n, ok := pt.Elem().(*types.Named); ok && n.Obj().Name() == tokName {
						if _, isIdx := x.Addr.(*ssa.IndexAddr); isIdx {
							r.Fail("A2", core.QualName(fold), "token copy "+x.String(), p.Pos(x.Pos()), "a rule that moves tokens is reachable for token streams made only of barewords and numbers")
						}
					}
				}
			case *ssa.BinOp:
				if x.Op == token.SUB {
					if k, ok := ssax.ConstInt(x.Y); ok && k > 0 {
						if bt, ok := x.Type().Underlying().(*types.Basic); ok && bt.Kind() == types.Int {
							r.Fail("A2", core.QualName(fold), "decrement "+x.String(), p.Pos(x.Pos()), "a rule that drops tokens (pos/left decrement) is reachable for token streams made only of barewords and numbers")
						}
					}
				}
			}
		}
	}
	if nDead < 40 {
		r.Fail("A2", core.QualName(fold), "rule bodies unreachable", p.Pos(fold.Pos()), fmt.Sprintf("abstract evaluation with classes ∈ {n,1} leaves only %d of %d blocks of fold unreachable (expected ≥ 40): the abstraction is not deciding the rule guards", nDead, nDead+nReach))
	} else {
		r.OK("A2", core.QualName(fold), fmt.Sprintf("%d of %d blocks unreachable under classes ∈ {n,1}", nDead, nDead+nReach), p.Pos(fold.Pos()), "no class rewrite, token move, fold counter update or decrement is reachable")
	}
	// the pass function: the back-tick→comment conversion and the Evil reset are unreachable too
	pres := ssax.NewAbsEval(hooks).Run(pass)
	for _, b := range pass.Blocks {
		if !pres.ExecBlock[b] {
			continue
		}
		for _, ins := range b.Instrs {
			if st, ok := ins.(*ssa.Store); ok {
				if fr, ok := ssax.AsFieldAddr(st.Addr); ok && fr.Struct == tokName && fr.Field == catF {
					r.Fail("A2", core.QualName(pass), "store category = "+st.Val.String(), p.Pos(st.Pos()), "the pass function rewrites a token class for plain words/numbers")
				}
			}
		}
	}
	r.OK("A2", core.QualName(pass), "no class rewrite in the pass function", p.Pos(pass.Pos()), "back-tick and Evil branches unreachable")

	// ---- A3: dispatch of identifier bytes and digits
	disp, err := tables.EvalDispatch(p)
	if err != nil || len(disp.Table) != 256 {
		r.Fail("A3", "-", "dispatch table", "-", fmt.Sprintf("cannot evaluate the dispatch table: %v", err))
	} else {
		for ch := 0; ch < 256; ch++ {
			f := disp.Table[ch]
			isIdent := (ch >= 'a' && ch <= 'z') || (ch >= 'A' && ch <= 'Z') || ch == '_' || (ch >= 0x80 && ch != 0xA0)
			isDigit := ch >= '0' && ch <= '9'
			expr := fmt.Sprintf("dispatch[%#02x]", ch)
			switch {
			case isIdent:
				if f != nil && callsTransitively(p, f, word, 2) {
					r.OK("A3", disp.Var, expr, "-", "→ "+f.Name()+" (word lexer or falls back to it)")
				} else {
					r.Fail("A3", disp.Var, expr, "-", fmt.Sprintf("identifier byte %q is dispatched to %v, which never reaches the word lexer", byte(ch), f))
				}
			case isDigit:
				if f == number {
					r.OK("A3", disp.Var, expr, "-", "→ number lexer")
				} else {
					r.Fail("A3", disp.Var, expr, "-", fmt.Sprintf("digit %q is not dispatched to the number lexer (%v)", byte(ch), f))
				}
			}
		}
	}
	// the word lexer classifies as table value or bareword
	for _, ci := range ssax.Calls(word) {
		if ci.Common().StaticCallee() != assign {
			continue
		}
		cls := ci.Common().Args[1]
		expr := "assign class " + cls.String()
		if k, ok := ssax.ConstInt(cls); ok {
			if byte(k) == nW {
				r.OK("A3", core.QualName(word), expr, p.Pos(ci.Pos()), "bareword")
			} else {
				r.Fail("A3", core.QualName(word), expr, p.Pos(ci.Pos()), "the word lexer assigns a constant class other than bareword")
			}
			continue
		}
		if cl, ok := cls.(*ssa.Call); ok && (cl.Common().StaticCallee() == lookup || cl.Common().StaticCallee() == search) {
			r.OK("A3", core.QualName(word), expr, p.Pos(ci.Pos()), "keyword-table value")
		} else {
			r.Fail("A3", core.QualName(word), expr, p.Pos(ci.Pos()), "the word lexer assigns a class that is neither bareword nor a keyword-table value")
		}
	}
	for _, b := range word.Blocks {
		for _, ins := range b.Instrs {
			st, ok := ins.(*ssa.Store)
			if !ok {
				continue
			}
			fr, ok := ssax.AsFieldAddr(st.Addr)
			if !ok || fr.Struct != tokName || fr.Field != catF {
				continue
			}
			var leaves []ssa.Value
			leavesOf(st.Val, map[ssa.Value]bool{}, &leaves)
			good := true
			for _, lf := range leaves {
				if k, ok := ssax.ConstInt(lf); ok && (byte(k) == nW || k == 0) {
					continue
				}
				if cl, ok := lf.(*ssa.Call); ok && (cl.Common().StaticCallee() == lookup || cl.Common().StaticCallee() == search) {
					continue
				}
				good = false
			}
			if good {
				r.OK("A3", core.QualName(word), "store category = "+st.Val.String(), p.Pos(st.Pos()), "bareword or keyword-table value")
			} else {
				r.Fail("A3", core.QualName(word), "store category = "+st.Val.String(), p.Pos(st.Pos()), "the word lexer stores a class that is neither bareword nor a keyword-table value")
			}
		}
	}

	// ---- A4: the look-up chain of the word lexer is an exact match
	{
		// every call in the word lexer and in merge that turns a string into a class
		seen := map[*ssa.Function]bool{}
		isClass := func(t types.Type) bool {
			b, ok := t.Underlying().(*types.Basic)
			return ok && b.Kind() == types.Uint8
		}
		nA4 := 0
		for _, user := range []*ssa.Function{word, merge} {
			for _, ci := range ssax.Calls(user) {
				callee := ci.Common().StaticCallee()
				if callee == nil || !p.InModule(callee) || callee == assign || callee.Signature.Results().Len() != 1 || !isClass(callee.Signature.Results().At(0).Type()) {
					continue
				}
				hasStr := false
				pins := map[ssa.Value]interface{}{}
				for i, arg := range ci.Common().Args {
					if isStringType(arg.Type()) {
						hasStr = true
					}
					if k, ok := ssax.ConstInt(arg); ok && i < len(callee.Params) && isIntType(callee.Params[i].Type()) {
						pins[callee.Params[i]] = k
					}
				}
				if !hasStr {
					continue
				}
				nA4++
				if seen[callee] {
					continue
				}
				// the mode constant must be the same at every call from the word lexer / merge
				for _, user2 := range []*ssa.Function{word, merge} {
					for _, cj := range ssax.Calls(user2) {
						if cj.Common().StaticCallee() != callee {
							continue
						}
						for i, arg := range cj.Common().Args {
							if i < len(callee.Params) {
								if old, has := pins[callee.Params[i]]; has {
									if k, ok := ssax.ConstInt(arg); !ok || interface{}(k) != old {
										delete(pins, callee.Params[i])
									}
								}
							}
						}
					}
				}
				exactMatchRule(p, r, callee, pins, 0, seen)
			}
		}
		if nA4 < 2 {
			r.Fail("vacuity", "-", "A4 look-up calls", "-", fmt.Sprintf("only %d string → class calls found in the word lexer and merge (expected ≥ 2)", nA4))
		}
		if !seen[search] {
			exactMatchRule(p, r, search, nil, 0, seen)
		}
	}

	r.Extra["a1_candidates"] = count
	r.Extra["fold_blocks"] = map[string]int{"reachable_under_{n,1}": nReach, "unreachable": nDead}
	r.Explanation = "A1 (E2, exhaustive): none of the 62 strings 0+{N,1}^{1..5} is an 'F' key of the keyword table. A2 (abstract guard evaluation of fold and of the pass function: every load of a token class yields the set {0,n,1}, strOpen/strClose {0}; helper predicates are evaluated the same way; the phrase look-up in merge misses by the family's definition): no reachable instruction rewrites a class, copies a token, bumps the fold counter or decrements pos/left — i.e. no folding rule fires on bareword/number streams, so the fingerprint is the class string of the first ≤5 tokens, which A1 shows is not black-listed. A3 (E2 dispatch evaluation): letters, '_', 0x80–0xFF except 0xA0 dispatch to the word lexer or to a lexer that falls back to it; digits dispatch to the number lexer; the word lexer only assigns bareword or a keyword-table value. A4: every string → class look-up called by the word lexer and by merge (mode parameter pinned to the constant they pass), and the functions it delegates to, returns only 0, the next look-up of the chain on the same word, a string-keyed map look-up keyed by a string function of the word, or a value guarded by a string equality on the word — a table value is never handed out on a hash or cache slot alone. NOT decided: the exact class of every word (needs lexing); the e-mail / decimal / sentence shapes."
	r.Trusted = []string{"go/ssa", "abstract guard evaluation (finite byte sets, three-valued bools)", "go/types constants of the table literal", "closed-initialiser evaluation of the dispatch table"}
	r.Assumptions = []string{"family definition: no word or adjacent word pair is (a component of) a keyword-table key"}
	return r
}

// ---- A4: a keyword-table value is handed out only on an exact match of the word
//
// The word lexer classifies a word by the value its look-up returns; "not a
// keyword" therefore rests on the look-up comparing the word itself with the
// table key.  exactMatchRule walks the look-up chain (the look-up with its
// mode parameter pinned to what the word lexer passes, then the search
// function): every value a return can yield is the constant 0, the result of
// the next function of the chain on the same word, a string-keyed map look-up
// whose key is derived from the word, or a value returned under a string
// equality that involves the word.  Anything else (a hash-keyed table, a memo
// slot decided by a hash alone) is reported.
func exactMatchRule(p *core.Program, r *core.Result, fn *ssa.Function, pins map[ssa.Value]interface{}, depth int, seen map[*ssa.Function]bool) {
	if fn == nil || seen[fn] || depth > 3 {
		return
	}
	seen[fn] = true
	qn := core.QualName(fn)
	words := map[*ssa.Parameter]bool{}
	for _, prm := range fn.Params {
		if isStringType(prm.Type()) {
			words[prm] = true
		}
	}
	if len(words) == 0 {
		r.Fail("A4", qn, "word parameter", p.Pos(fn.Pos()), "the look-up has no string parameter (undecided)")
		return
	}
	var derived func(v ssa.Value, d int) bool
	derived = func(v ssa.Value, d int) bool {
		if d > 8 || v == nil {
			return false
		}
		switch x := v.(type) {
		case *ssa.Parameter:
			return words[x]
		case *ssa.Const:
			return true
		case *ssa.Slice:
			return derived(x.X, d+1)
		case *ssa.BinOp:
			// concatenation of (parts of) the word(s) and constants: "A" + " " + "B"
			return x.Op == token.ADD && isStringType(x.Type()) && derived(x.X, d+1) && derived(x.Y, d+1)
		case *ssa.ChangeType:
			return derived(x.X, d+1)
		case *ssa.Convert:
			return derived(x.X, d+1)
		case *ssa.Phi:
			for _, e := range x.Edges {
				if !derived(e, d+1) {
					return false
				}
			}
			return true
		case *ssa.Call:
			// a string function of the word (ToUpper, TrimSpace, a module helper …)
			if !isStringType(x.Type()) {
				return false
			}
			usesWord := false
			for _, arg := range x.Common().Args {
				if !isStringType(arg.Type()) {
					continue
				}
				if !derived(arg, d+1) {
					return false
				}
				if _, isC := arg.(*ssa.Const); !isC {
					usesWord = true
				}
			}
			return usesWord
		}
		return false
	}
	nonConst := func(v ssa.Value) bool { _, c := v.(*ssa.Const); return !c }
	// a string equality on the word that holds at block b
	eqFact := func(b *ssa.BasicBlock) bool {
		for _, f := range ssax.Facts(b) {
			switch c := f.Cond.(type) {
			case *ssa.BinOp:
				if !isStringType(c.X.Type()) {
					// strings.Compare(a, b) == 0
					if call, ok := c.X.(*ssa.Call); ok && c.Op == token.EQL && f.True {
						if cf := call.Common().StaticCallee(); cf != nil && cf.Pkg != nil && cf.Pkg.Pkg.Path() == "strings" && cf.Name() == "Compare" {
							if z, ok := ssax.ConstInt(c.Y); ok && z == 0 {
								a0, a1 := call.Common().Args[0], call.Common().Args[1]
								if (derived(a0, 0) && nonConst(a0)) || (derived(a1, 0) && nonConst(a1)) {
									return true
								}
							}
						}
					}
					continue
				}
				if (c.Op == token.EQL && f.True) || (c.Op == token.NEQ && !f.True) {
					if (derived(c.X, 0) && nonConst(c.X)) || (derived(c.Y, 0) && nonConst(c.Y)) {
						return true
					}
				}
			case *ssa.Call:
				if cf := c.Common().StaticCallee(); cf != nil && f.True && cf.Pkg != nil && cf.Pkg.Pkg.Path() == "strings" && cf.Name() == "EqualFold" {
					a0, a1 := c.Common().Args[0], c.Common().Args[1]
					if (derived(a0, 0) && nonConst(a0)) || (derived(a1, 0) && nonConst(a1)) {
						return true
					}
				}
			}
		}
		return false
	}
	sc := ssax.RunSCCPPinned(fn, pins, p.Pkg.TypesSizes)
	n := 0
	for _, ret := range ssax.Returns(fn) {
		if !sc.ExecBlock[ret.Block()] || len(ret.Results) == 0 {
			continue
		}
		var leaves []ssa.Value
		leavesOf(ret.Results[0], map[ssa.Value]bool{}, &leaves)
		for _, lf := range leaves {
			n++
			expr := "returned value " + ssax.Canon(lf) + " at " + retLabel(ret)
			if ins, ok := lf.(ssa.Instruction); ok && ins.Block() != nil && !sc.ExecBlock[ins.Block()] {
				continue
			}
			if k, ok := sc.ValueOf(lf); ok {
				if iv, isInt := k.(int64); isInt && iv == 0 {
					r.OK("A4", qn, expr, p.Pos(ret.Pos()), "no class")
					continue
				}
				if _, isConst := lf.(*ssa.Const); isConst {
					r.Fail("A4", qn, expr, p.Pos(ret.Pos()), "the look-up used by the word lexer hands out a constant class whatever the word is")
					continue
				}
			}
			switch x := lf.(type) {
			case *ssa.Call:
				callee := x.Common().StaticCallee()
				okArg := false
				for _, arg := range x.Common().Args {
					if isStringType(arg.Type()) && derived(arg, 0) && nonConst(arg) {
						okArg = true
					}
				}
				if callee != nil && p.InModule(callee) && okArg {
					r.OK("A4", qn, expr, p.Pos(ret.Pos()), "delegated to "+callee.Name()+" on the same word")
					exactMatchRule(p, r, callee, nil, depth+1, seen)
					continue
				}
			case *ssa.Extract:
				if lk, ok := x.Tuple.(*ssa.Lookup); ok && x.Index == 0 {
					if mt, ok := lk.X.Type().Underlying().(*types.Map); ok && isStringType(mt.Key()) && derived(lk.Index, 0) && nonConst(lk.Index) {
						r.OK("A4", qn, expr, p.Pos(ret.Pos()), "string-keyed map look-up of the word")
						continue
					}
				}
			case *ssa.Lookup:
				if mt, ok := x.X.Type().Underlying().(*types.Map); ok && isStringType(mt.Key()) && derived(x.Index, 0) && nonConst(x.Index) {
					r.OK("A4", qn, expr, p.Pos(ret.Pos()), "string-keyed map look-up of the word")
					continue
				}
			}
			// any other table value: only under a string equality on the word
			good := eqFact(ret.Block())
			if ins, ok := lf.(ssa.Instruction); ok && !good && ins.Block() != nil {
				good = eqFact(ins.Block())
			}
			if good {
				r.OK("A4", qn, expr, p.Pos(ret.Pos()), "returned under a string equality on the word")
			} else {
				r.Fail("A4", qn, expr, p.Pos(ret.Pos()), "a class is handed out without comparing the word itself with a table key (hash, cache slot or positional match): a plain word can inherit a keyword's class")
			}
		}
	}
	if n == 0 {
		r.Fail("vacuity", qn, "A4 returned values", p.Pos(fn.Pos()), "no returned value analysed")
	}
}
