package checks

import (
	"encoding/json"
	"fmt"
	"go/constant"
	"go/types"
	"os"
	"path/filepath"
	"sort"
	"strings"
	"sync"

	"golang.org/x/tools/go/ssa"

	"verif/tools/internal/core"
)

// Symbols is a snapshot of the library's declarations at the pinned tree, used
// only to recognise pure renames of anchored identifiers: a name that is gone
// is matched against the declarations that are new, by signature / type /
// value and — for functions — by size.
type Symbols struct {
	Funcs   map[string]SymFunc    `json:"funcs"`   // qualified name → shape
	Structs map[string][]SymField `json:"structs"` // type name → fields in order
	Consts  map[string]SymConst   `json:"consts"`
}

type SymFunc struct {
	Sig    string `json:"sig"`
	Instrs int    `json:"instrs"`
	Blocks int    `json:"blocks"`
}
type SymField struct {
	Name string `json:"name"`
	Type string `json:"type"`
}
type SymConst struct {
	Type  string `json:"type"`
	Value string `json:"value"`
}

// sigOf: the signature with the receiver written as the first parameter, so
// that a method and the function it is turned into (or back) look alike.
func sigOf(fn *ssa.Function) string {
	q := func(p *types.Package) string { return "" }
	sig := fn.Signature
	var parts []string
	if r := sig.Recv(); r != nil {
		parts = append(parts, types.TypeString(r.Type(), q))
	}
	for i := 0; i < sig.Params().Len(); i++ {
		parts = append(parts, types.TypeString(sig.Params().At(i).Type(), q))
	}
	var res []string
	for i := 0; i < sig.Results().Len(); i++ {
		res = append(res, types.TypeString(sig.Results().At(i).Type(), q))
	}
	return "(" + strings.Join(parts, ", ") + ") (" + strings.Join(res, ", ") + ")"
}

func currentSymbols(p *core.Program) *Symbols {
	s := &Symbols{Funcs: map[string]SymFunc{}, Structs: map[string][]SymField{}, Consts: map[string]SymConst{}}
	for _, fn := range p.SourceFuncs(nil) {
		n := 0
		for _, b := range fn.Blocks {
			n += len(b.Instrs)
		}
		s.Funcs[core.QualName(fn)] = SymFunc{Sig: sigOf(fn), Instrs: n, Blocks: len(fn.Blocks)}
	}
	scope := p.Types.Scope()
	q := func(*types.Package) string { return "" }
	for _, name := range scope.Names() {
		switch obj := scope.Lookup(name).(type) {
		case *types.TypeName:
			if st, ok := obj.Type().Underlying().(*types.Struct); ok {
				var fs []SymField
				for i := 0; i < st.NumFields(); i++ {
					fs = append(fs, SymField{st.Field(i).Name(), types.TypeString(st.Field(i).Type(), q)})
				}
				s.Structs[name] = fs
			}
		case *types.Const:
			if obj.Val().Kind() == constant.Int || obj.Val().Kind() == constant.String {
				s.Consts[name] = SymConst{types.TypeString(obj.Type(), q), obj.Val().ExactString()}
			}
		}
	}
	return s
}

// WriteSymbols records the snapshot (done once at the pinned tree).
func WriteSymbols(p *core.Program, verifDir string) error {
	out, _ := json.MarshalIndent(currentSymbols(p), "", " ")
	return os.WriteFile(filepath.Join(verifDir, "baseline", "symbols.json"), append(out, '\n'), 0o644)
}

var (
	renamedFuncsMu sync.Mutex
	renamedFuncs   map[string]string // qualified name at the pinned tree → name now
	renamedTypes   map[string]string // struct type name at the pinned tree → name now
)

// renameIn translates a function name, or a text that mentions functions by
// their short name, from the pinned tree's names to today's.
func renameIn(s string) string {
	renamedFuncsMu.Lock()
	defer renamedFuncsMu.Unlock()
	for old, nw := range renamedFuncs {
		if s == old {
			return nw
		}
	}
	for old, nw := range renamedTypes {
		s = strings.ReplaceAll(s, old, nw)
	}
	for old, nw := range renamedFuncs {
		so, sn := old, nw
		if i := strings.LastIndex(old, "."); i >= 0 {
			so = old[i+1:]
		}
		if i := strings.LastIndex(nw, "."); i >= 0 {
			sn = nw[i+1:]
		}
		s = strings.ReplaceAll(s, so, sn)
	}
	return s
}

// detectRenames rewrites the anchor tables for identifiers that no longer exist
// but have exactly one plausible successor among the declarations that are new.
func (a *Anchors) detectRenames(verifDir string) {
	raw, err := os.ReadFile(filepath.Join(verifDir, "baseline", "symbols.json"))
	if err != nil {
		return
	}
	base := &Symbols{}
	if json.Unmarshal(raw, base) != nil {
		return
	}
	cur := currentSymbols(a.p)
	note := func(kind, role, old, nw string) {
		if a.r != nil {
			a.r.Note("anchor %s: %s %q is gone; resolved to %q (the only new declaration of the same shape)", role, kind, old, nw)
		}
	}
	// ---- struct types (rare): same field types in order
	typeMap := map[string]string{}
	for role, name := range a.Types {
		if _, ok := cur.Structs[name]; ok {
			continue
		}
		want, ok := base.Structs[name]
		if !ok {
			continue
		}
		var cands []string
		for n, fs := range cur.Structs {
			if _, old := base.Structs[n]; old || len(fs) != len(want) {
				continue
			}
			same := true
			for i := range fs {
				if fs[i].Type != want[i].Type {
					same = false
				}
			}
			if same {
				cands = append(cands, n)
			}
		}
		if len(cands) == 1 {
			note("type", role, name, cands[0])
			typeMap[name] = cands[0]
			a.Types[role] = cands[0]
		}
	}
	mapType := func(s string) string {
		for o, n := range typeMap {
			s = strings.ReplaceAll(s, o, n)
		}
		return s
	}
	// ---- fields: same position and type in the (possibly renamed) struct
	for role, name := range a.Fields {
		tyRole := "sql.state"
		switch {
		case strings.HasPrefix(role, "sql.token"):
			tyRole = "sql.token"
		case strings.HasPrefix(role, "xss.state"):
			tyRole = "xss.state"
		}
		curName := a.Types[tyRole]
		var baseName string
		for o, n := range typeMap {
			if n == curName {
				baseName = o
			}
		}
		if baseName == "" {
			baseName = curName
		}
		bf, cf := base.Structs[baseName], cur.Structs[curName]
		has := false
		for _, f := range cf {
			if f.Name == name {
				has = true
			}
		}
		if has || len(bf) != len(cf) {
			continue
		}
		for i, f := range bf {
			if f.Name != name {
				continue
			}
			inBase := false
			for _, g := range bf {
				if g.Name == cf[i].Name {
					inBase = true
				}
			}
			if !inBase && cf[i].Type == mapType(f.Type) {
				note("field", role, name, cf[i].Name)
				a.Fields[role] = cf[i].Name
			}
		}
	}
	// ---- constants: same type and value, new name
	for role, name := range a.Consts {
		if _, ok := cur.Consts[name]; ok {
			continue
		}
		want, ok := base.Consts[name]
		if !ok {
			continue
		}
		var cands []string
		for n, c := range cur.Consts {
			if _, old := base.Consts[n]; !old && c.Type == mapType(want.Type) && c.Value == want.Value {
				cands = append(cands, n)
			}
		}
		if len(cands) == 1 {
			note("constant", role, name, cands[0])
			a.Consts[role] = cands[0]
		}
	}
	// ---- functions: same signature (receiver included), new name, nearest in size
	qualWith := func(q string) string {
		// a method's qualified name starts with its receiver type
		for o, n := range typeMap {
			if strings.HasPrefix(q, o+".") {
				return n + q[len(o):]
			}
		}
		return q
	}
	// every function of the snapshot that is gone is matched (anchored or not): the
	// residual list and the evidence speak about functions by name too
	var gone []string
	for name := range base.Funcs {
		if _, ok := cur.Funcs[qualWith(name)]; !ok {
			gone = append(gone, name)
		}
	}
	sort.Strings(gone)
	taken := map[string]bool{}
	renamed := map[string]string{}
	// first: a function that became a method (or the reverse) under the same base
	// name and the same receiver-inclusive signature
	baseName := func(q string) string {
		if i := strings.LastIndex(q, "."); i >= 0 {
			return q[i+1:]
		}
		return q
	}
	for _, name := range gone {
		var same []string
		for n, f := range cur.Funcs {
			if _, old := base.Funcs[n]; !old && !taken[n] && baseName(n) == baseName(name) && f.Sig == mapType(base.Funcs[name].Sig) {
				same = append(same, n)
			}
		}
		if len(same) == 1 {
			renamed[name] = same[0]
			taken[same[0]] = true
		}
	}
	for _, name := range gone {
		if _, done := renamed[name]; done {
			continue
		}
		role := "(function " + name + ")"
		for r, n := range a.Funcs {
			if n == name {
				role = r
			}
		}
		want := base.Funcs[name]
		recv := ""
		if i := strings.LastIndex(name, "."); i >= 0 {
			recv = qualWith(name[:i+1])
		}
		type cand struct {
			n    string
			diff float64
		}
		var cands []cand
		for n, f := range cur.Funcs {
			if _, old := base.Funcs[n]; old || taken[n] || f.Sig != mapType(want.Sig) {
				continue
			}
			r2 := ""
			if i := strings.LastIndex(n, "."); i >= 0 {
				r2 = n[:i+1]
			}
			if r2 != recv && r2 != "" && recv != "" {
				continue // a method of another type
			}
			d := float64(f.Instrs-want.Instrs) / float64(want.Instrs+1)
			if d < 0 {
				d = -d
			}
			if d <= 0.35 {
				cands = append(cands, cand{n, d})
			}
		}
		sort.Slice(cands, func(i, j int) bool {
			if cands[i].diff != cands[j].diff {
				return cands[i].diff < cands[j].diff
			}
			return cands[i].n < cands[j].n
		})
		if len(cands) == 1 || (len(cands) > 1 && cands[0].diff+0.1 < cands[1].diff) {
			note("function", role, name, cands[0].n)
			renamed[name] = cands[0].n
			taken[cands[0].n] = true
		}
	}
	for role, name := range a.Funcs {
		if nw, ok := renamed[name]; ok {
			a.Funcs[role] = nw
		} else if qualWith(name) != name {
			if _, ok := cur.Funcs[qualWith(name)]; ok {
				a.Funcs[role] = qualWith(name)
			}
		}
	}
	renamedFuncsMu.Lock()
	renamedFuncs = renamed
	renamedTypes = typeMap
	renamedFuncsMu.Unlock()
	_ = fmt.Sprintf
}
