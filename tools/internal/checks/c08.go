package checks

import (
	"fmt"
	"go/token"
	"go/types"

	"golang.org/x/tools/go/ssa"

	"verif/tools/internal/core"
	"verif/tools/internal/ssax"
)

func init() { register("C08", "other", checkC08) }

// mayWriteField: the set of module functions that (transitively) may store
// to field `field` of struct `structName` (a whole-struct store counts).
func mayWriteField(p *core.Program, structName, field string) map[*ssa.Function]bool {
	direct := map[*ssa.Function]bool{}
	for _, fn := range p.SourceFuncs(nil) {
		for _, b := range fn.Blocks {
			for _, ins := range b.Instrs {
				st, ok := ins.(*ssa.Store)
				if !ok {
					continue
				}
				if fr, ok := ssax.AsFieldAddr(st.Addr); ok {
					if fr.Struct == structName && fr.Field == field {
						direct[fn] = true
					}
					continue
				}
				if pt, ok := st.Addr.Type().Underlying().(*types.Pointer); ok {
					if n, ok := pt.Elem().(*types.Named); ok && n.Obj().Name() == structName {
						direct[fn] = true
					}
				}
			}
		}
	}
	// transitive closure over the call graph
	w := map[*ssa.Function]bool{}
	for f := range direct {
		w[f] = true
	}
	for changed := true; changed; {
		changed = false
		for fn, n := range p.Graph.Nodes {
			if w[fn] || !p.InModule(fn) {
				continue
			}
			for _, e := range n.Out {
				if w[e.Callee.Func] {
					w[fn] = true
					changed = true
					break
				}
			}
		}
	}
	return w
}

// isLookupTest recognises `lookup(s, K, …) != 0` / `== 0` and returns the
// call, and which successor (0 true / 1 false) means "fired".
func isLookupTest(iff *ssa.If, lookup *ssa.Function, k int64) (*ssa.Call, int, bool) {
	bo, ok := iff.Cond.(*ssa.BinOp)
	if !ok {
		return nil, 0, false
	}
	call, ok := bo.X.(*ssa.Call)
	other := bo.Y
	if !ok {
		call, ok = bo.Y.(*ssa.Call)
		other = bo.X
	}
	if !ok || call.Common().StaticCallee() != lookup {
		return nil, 0, false
	}
	if z, ok := ssax.ConstInt(other); !ok || z != 0 {
		return nil, 0, false
	}
	hasK := false
	for _, a := range call.Common().Args {
		if v, ok := ssax.ConstInt(a); ok && v == k {
			hasK = true
		}
	}
	if !hasK {
		return nil, 0, false
	}
	switch bo.Op {
	case token.NEQ:
		return call, 0, true
	case token.EQL:
		return call, 1, true
	}
	return nil, 0, false
}

// trueOnlyIf checks: value v (in return/phi position at block at) can be true
// only if `callee` returned true.  Accepted shapes: constant false; the call
// result itself; a block edge-dominated by the true edge of If(call); phi of
// such.
func trueOnlyIf(v ssa.Value, at *ssa.BasicBlock, callee *ssa.Function, depth int) (bool, string) {
	if depth > 6 {
		return false, "phi nesting too deep"
	}
	if b, ok := ssax.ConstBool(v); ok {
		if !b {
			return true, "constant false"
		}
	}
	if c, ok := v.(*ssa.Call); ok && c.Common().StaticCallee() == callee {
		return true, "is the call result"
	}
	for _, f := range ssax.Facts(at) {
		if c, ok := f.Cond.(*ssa.Call); ok && c.Common().StaticCallee() == callee && f.True {
			return true, "dominated by true edge of " + callee.Name() + "()"
		}
	}
	if ph, ok := v.(*ssa.Phi); ok {
		for i, e := range ph.Edges {
			if ok, why := trueOnlyIf(e, ph.Block().Preds[i], callee, depth+1); !ok {
				return false, fmt.Sprintf("phi edge %d: %s", i, why)
			}
		}
		return true, "every phi edge is false or gated"
	}
	return false, fmt.Sprintf("value %s can be true on a path not gated by %s()", v.Name(), callee.Name())
}

func checkC08(c *Ctx) *core.Result {
	p := c.P
	r := c.newResult()
	a := loadAnchors(c, r)
	root := a.Fn("sql.root")
	chk := a.Fn("sql.check")
	pass := a.Fn("sql.pass")
	lookup := a.Fn("sql.lookup")
	cfp := a.Fn("sql.checkFingerprint")
	bl := a.Fn("sql.blacklist")
	isKw := a.Fn("sql.isKeyword")
	search := a.Fn("sql.searchKeyword")
	kFP := a.Const("sql.lookupFingerprint")
	stName := a.TypeName("sql.state")
	fpField := a.Field("sql.state.fingerprint")
	if len(r.Violations) > 0 {
		return r
	}
	W := mayWriteField(p, stName, fpField)

	// ---- V1: IsSQLi returns (true, fingerprint) / (false, "") only.
	for _, ret := range ssax.Returns(root) {
		if len(ret.Results) != 2 {
			r.Fail("V1", core.QualName(root), "return arity", p.Pos(ret.Pos()), "API no longer returns (verdict, fingerprint)")
			continue
		}
		verdict, fp := ret.Results[0], ret.Results[1]
		// polarity of the verdict on this return
		pol := 0 // 1 = true, -1 = false
		if b, ok := ssax.ConstBool(verdict); ok {
			if b {
				pol = 1
			} else {
				pol = -1
			}
		} else {
			for _, f := range ssax.Facts(ret.Block()) {
				if f.Cond == verdict {
					if f.True {
						pol = 1
					} else {
						pol = -1
					}
				}
			}
		}
		expr := "return " + verdict.Name() + ", " + fp.String()
		if s, ok := ssax.ConstString(fp); ok {
			if s != "" {
				r.Fail("V1", core.QualName(root), expr, p.Pos(ret.Pos()), "constant non-empty fingerprint returned")
			} else if pol != -1 {
				r.Fail("V1", core.QualName(root), expr, p.Pos(ret.Pos()), "empty fingerprint returned on a path where the verdict is not known to be false (true verdict must carry its fingerprint)")
			} else {
				r.OK("V1", core.QualName(root), expr, p.Pos(ret.Pos()), "verdict false on this path, fingerprint \"\"")
			}
			continue
		}
		if pol != 1 {
			r.Fail("V1", core.QualName(root), expr, p.Pos(ret.Pos()), "a fingerprint value is returned on a path where the verdict is not known to be true (false verdict must come with \"\")")
			continue
		}
		// the value must be a load of the state's fingerprint field, after check()
		if !a.loadsField(fp, "sql.state.fingerprint") {
			r.Fail("V1", core.QualName(root), expr, p.Pos(ret.Pos()), "returned string is not the state's fingerprint field")
			continue
		}
		// no fingerprint writer is called between check() and the load
		var chkCall ssa.Instruction
		for _, ci := range ssax.Calls(root) {
			if ci.Common().StaticCallee() == chk {
				chkCall = ci
			}
		}
		ok := chkCall != nil && ssax.Dominates(chkCall, fp.(ssa.Instruction))
		if ok {
			for _, ci := range ssax.Calls(root) {
				if ci == chkCall {
					continue
				}
				f := ci.Common().StaticCallee()
				if (f == nil || W[f]) && ssax.Dominates(chkCall, ci) && ssax.Reachable(ci.Block(), ret.Block()) {
					ok = false
				}
			}
		}
		if ok {
			r.OK("V1", core.QualName(root), expr, p.Pos(ret.Pos()), "verdict true on this path; fingerprint field loaded after check() with no intervening writer")
		} else {
			r.Fail("V1", core.QualName(root), expr, p.Pos(ret.Pos()), "the fingerprint field may be rewritten between the verdict and the load")
		}
	}

	// ---- V2: in check, every path to `return true` passes a fired lookup test,
	// and no fingerprint writer runs after that test's lookup call.
	// (helpers of check are expanded in place: a cascade moved into helper functions is the same cascade)
	anchored := map[*ssa.Function]bool{pass: true, lookup: true}
	for f := range W {
		if f == pass {
			anchored[f] = true
		}
	}
	inlineHelper := func(callee *ssa.Function, depth int) bool {
		return p.InModule(callee) && !anchored[callee] && depth <= 3 && len(callee.Blocks) <= 60 && reachesFrom(p, callee, lookup)
	}
	paths, err := ssax.EnumerateTracesWith(chk, inlineHelper, 2000, traceConsts(p))
	if err != nil {
		r.Fail("V2", core.QualName(chk), "path enumeration", p.Pos(chk.Pos()), err.Error())
	}
	nTrue := 0
	for pi := range paths {
		path := &paths[pi]
		if path.RetKnown && !path.Ret {
			continue // false verdict: IsSQLi returns "" (V1)
		}
		nTrue++
		expr := fmt.Sprintf("path #%d to return at %s", pi, p.Pos(path.RetPos))
		// find the last fired test on the path
		firedAt := -1
		var firedCall *ssa.Call
		for i, it := range path.Items {
			if !it.Branch {
				continue
			}
			if call, firedWhenTrue, ok := lookupTestOf(path, it.Cond, it.CondFr, lookup, kFP); ok && it.True == firedWhenTrue {
				firedAt = i
				firedCall = call
			}
		}
		if firedAt < 0 {
			r.Fail("V2", core.QualName(chk), "return reachable without a fired fingerprint test", p.Pos(path.RetPos), fmt.Sprintf("%s: a non-false verdict is returned on a path that passes no `%s(…,%d,…) != 0` test on its fired edge", expr, lookup.Name(), kFP))
			continue
		}
		// writers after the fired lookup call: every call item behind the lookup call itself
		bad := ""
		seenLookup := false
		lookupAt := -1
		for j := firedAt; j >= 0; j-- {
			if path.Items[j].Call == firedCall {
				lookupAt = j
				break
			}
		}
		for j, it := range path.Items {
			if j == lookupAt {
				seenLookup = true
				continue
			}
			if !seenLookup || it.Call == nil {
				continue
			}
			f := it.Call.Common().StaticCallee()
			if f == nil || W[f] {
				bad = it.Call.String()
			}
		}
		if !seenLookup {
			bad = "the fired test's lookup call is not on the path (undecided)"
		}
		if bad != "" {
			r.Fail("V2", core.QualName(chk), "fingerprint rewritten after the fired test", p.Pos(path.RetPos), fmt.Sprintf("%s: %s runs after the test that fired, so the fingerprint handed back is not the one that was black-listed", expr, bad))
			continue
		}
		// the lookup probe is the fingerprint field, and a pass precedes it
		probeOK := false
		for _, arg := range firedCall.Common().Args {
			if a.loadsField(arg, "sql.state.fingerprint") {
				probeOK = true
			}
		}
		_ = pass
		if !probeOK {
			// lookup in fingerprint mode ignores its word argument; accept but note
			r.Note("%s: lookup probe argument is not a load of the fingerprint field (fingerprint mode ignores it)", expr)
		}
		r.OK("V2", core.QualName(chk), fmt.Sprintf("true-path #%d via the test at %s", pi, p.Pos(path.Items[firedAt].Ins.Pos())), p.Pos(path.RetPos), "passes a fired fingerprint test; no fingerprint writer afterwards")
	}
	if nTrue == 0 {
		r.Fail("vacuity", core.QualName(chk), "no path returns a non-false verdict", p.Pos(chk.Pos()), "V2 matched zero paths")
	}

	// ---- V3: lookup(K=fingerprint) ≠ 0 only if checkFingerprint(); which is
	// true only if blacklist() is.
	var kParam *ssa.Parameter
	for _, prm := range lookup.Params {
		if b, ok := prm.Type().Underlying().(*types.Basic); ok && b.Kind() == types.Int {
			kParam = prm
			break
		}
	}
	if kParam == nil {
		anchorFail(r, "sql.lookup int parameter", "lookup has no int parameter")
	} else {
		sc := ssax.RunSCCP(lookup, map[*ssa.Parameter]interface{}{kParam: kFP}, p.Pkg.TypesSizes)
		n := 0
		for _, ret := range ssax.Returns(lookup) {
			if !sc.ExecBlock[ret.Block()] {
				continue
			}
			n++
			expr := "return " + ret.Results[0].String()
			if z, ok := ssax.ConstInt(ret.Results[0]); ok && z == 0 {
				r.OK("V3", core.QualName(lookup), expr, p.Pos(ret.Pos()), "returns 0 (not fired)")
				continue
			}
			gated := false
			for _, f := range ssax.Facts(ret.Block()) {
				if cl, ok := f.Cond.(*ssa.Call); ok && cl.Common().StaticCallee() == cfp && f.True {
					gated = true
				}
			}
			if gated {
				r.OK("V3", core.QualName(lookup), expr, p.Pos(ret.Pos()), "non-zero only on the true edge of "+cfp.Name()+"()")
			} else {
				r.Fail("V3", core.QualName(lookup), expr, p.Pos(ret.Pos()), fmt.Sprintf("in fingerprint mode (lookupType=%d) a possibly non-zero result is returned without %s() having returned true", kFP, cfp.Name()))
			}
		}
		if n == 0 {
			r.Fail("vacuity", core.QualName(lookup), "no executable return in fingerprint mode", p.Pos(lookup.Pos()), "V3 matched nothing")
		}
	}
	for _, ret := range ssax.Returns(cfp) {
		ok, why := trueOnlyIf(ret.Results[0], ret.Block(), bl, 0)
		expr := "return " + ret.Results[0].String()
		if ok {
			r.OK("V3", core.QualName(cfp), expr, p.Pos(ret.Pos()), why)
		} else {
			r.Fail("V3", core.QualName(cfp), expr, p.Pos(ret.Pos()), "the whitelist/blacklist conjunction is broken: "+why)
		}
	}

	// ---- V4: blacklist() is true only as `tableLookup(k) == 'F'`, false when
	// the fingerprint is empty.
	fpClass, okF := int64(classFingerprint), true
	if !okF {
		anchorFail(r, "sqliTokenTypeFingerprint", "constant not found")
	}
	for _, ret := range ssax.Returns(bl) {
		v := ret.Results[0]
		expr := "return " + v.String()
		if b, ok := ssax.ConstBool(v); ok {
			if !b {
				r.OK("V4", core.QualName(bl), expr, p.Pos(ret.Pos()), "constant false")
			} else {
				r.Fail("V4", core.QualName(bl), expr, p.Pos(ret.Pos()), "blacklist returns constant true")
			}
			continue
		}
		bo, ok := v.(*ssa.BinOp)
		good := false
		if ok && bo.Op == token.EQL {
			call, okc := bo.X.(*ssa.Call)
			k, okk := ssax.ConstInt(bo.Y)
			if !okc {
				call, okc = bo.Y.(*ssa.Call)
				k, okk = ssax.ConstInt(bo.X)
			}
			if okc && okk && k == fpClass {
				f := call.Common().StaticCallee()
				if f == isKw || f == search {
					good = true
				}
			}
		}
		if !good {
			r.Fail("V4", core.QualName(bl), expr, p.Pos(ret.Pos()), "blacklist result is not `keywordLookup(probe) == 'F'`")
			continue
		}
		// must be on the len(fingerprint) ≥ 1 side
		nonEmpty := false
		for _, f := range ssax.Facts(ret.Block()) {
			cb, ok := f.Cond.(*ssa.BinOp)
			if !ok {
				continue
			}
			// s.fingerprint == "" / != ""
			if cs, isStr := ssax.ConstString(cb.Y); isStr && cs == "" && a.loadsField(cb.X, "sql.state.fingerprint") {
				if (cb.Op == token.EQL && !f.True) || (cb.Op == token.NEQ && f.True) {
					nonEmpty = true
				}
			}
			if cs, isStr := ssax.ConstString(cb.X); isStr && cs == "" && a.loadsField(cb.Y, "sql.state.fingerprint") {
				if (cb.Op == token.EQL && !f.True) || (cb.Op == token.NEQ && f.True) {
					nonEmpty = true
				}
			}
			if isLenOfField(a, cb.X, "sql.state.fingerprint") {
				k, okk := ssax.ConstInt(cb.Y)
				if okk && ((cb.Op == token.LSS && k == 1 && !f.True) || (cb.Op == token.LEQ && k == 0 && !f.True) || (cb.Op == token.EQL && k == 0 && !f.True) ||
					(cb.Op == token.GEQ && k == 1 && f.True) || (cb.Op == token.GTR && k == 0 && f.True) || (cb.Op == token.NEQ && k == 0 && f.True)) {
					nonEmpty = true
				}
			}
		}
		if nonEmpty {
			r.OK("V4", core.QualName(bl), expr, p.Pos(ret.Pos()), "table lookup == 'F', reached only with a non-empty fingerprint")
		} else {
			r.Fail("V4", core.QualName(bl), expr, p.Pos(ret.Pos()), "the table test is reachable with an empty fingerprint (probe \"0\")")
		}
	}
	// ---- V5: the text that is analysed is the API argument itself
	apiInputUnchangedRule(p, r, "V5", root)

	// isKeyword → searchKeyword(key, keyword table) → map lookup
	kwOK := false
	for _, ci := range ssax.Calls(isKw) {
		if ci.Common().StaticCallee() == search {
			for _, arg := range ci.Common().Args {
				if u, ok := arg.(*ssa.UnOp); ok {
					if g, ok := u.X.(*ssa.Global); ok && g.Name() == "sqlKeywords" {
						kwOK = true
					}
				}
			}
		}
	}
	if kwOK {
		r.OK("V4", core.QualName(isKw), "lookup table", p.Pos(isKw.Pos()), "probes the shipped keyword/fingerprint table")
	} else {
		r.Fail("V4", core.QualName(isKw), "lookup table", p.Pos(isKw.Pos()), "the blacklist probe does not look up the shipped keyword table")
	}

	// ---- V6: the fingerprint field is written only in the pass function, from
	// a Builder fed with token classes, or the constant "X".
	evil := int64(classEvil)
	// helpers that are called from the pass function only (directly or through each other)
	passOnly := calledOnlyFrom(p, pass)
	for _, fn := range p.SourceFuncs(nil) {
		for _, b := range fn.Blocks {
			for _, ins := range b.Instrs {
				st, ok := ins.(*ssa.Store)
				if !ok || !a.isField(st.Addr, "sql.state.fingerprint") {
					continue
				}
				expr := "store fingerprint = " + st.Val.String()
				if !passOnly[fn] {
					r.Fail("V6", core.QualName(fn), expr, p.Pos(st.Pos()), "fingerprint written outside the per-context pass function")
					continue
				}
				switch v := st.Val.(type) {
				case *ssa.Call:
					if f := v.Common().StaticCallee(); f != nil && f.String() == "(*strings.Builder).String" {
						r.OK("V6", core.QualName(fn), expr, p.Pos(st.Pos()), "built by the class-byte builder")
						continue
					}
				case *ssa.Convert:
					if k, ok := ssax.ConstInt(v.X); ok && k == evil {
						r.OK("V6", core.QualName(fn), expr, p.Pos(st.Pos()), "constant \"X\"")
						continue
					}
					// string(buf[:n]) of a local byte array that only ever receives token classes
					if sl, ok := v.X.(*ssa.Slice); ok {
						if al, ok := sl.X.(*ssa.Alloc); ok && al.Referrers() != nil {
							good, n := true, 0
							for _, ref := range *al.Referrers() {
								ia, ok := ref.(*ssa.IndexAddr)
								if !ok || ia.Referrers() == nil {
									continue
								}
								for _, r2 := range *ia.Referrers() {
									if w, ok := r2.(*ssa.Store); ok && w.Addr == ssa.Value(ia) {
										n++
										if !a.loadsField(w.Val, "sql.token.category") {
											good = false
										}
									}
								}
							}
							if good && n > 0 {
								r.OK("V6", core.QualName(fn), expr, p.Pos(st.Pos()), "built from a local byte array that only receives token classes")
								continue
							}
						}
					}
				case *ssa.Const:
					if s, ok := ssax.ConstString(v); ok && (s == "" || s == string(rune(evil))) {
						r.OK("V6", core.QualName(fn), expr, p.Pos(st.Pos()), "constant")
						continue
					}
				}
				r.Fail("V6", core.QualName(fn), expr, p.Pos(st.Pos()), "fingerprint is stored from a value that is neither the class-byte builder nor the constant \"X\"")
			}
		}
	}
	// every WriteByte into the builder of the pass function writes a token category
	for _, ci := range ssax.Calls(pass) {
		f := ci.Common().StaticCallee()
		if f == nil || f.String() != "(*strings.Builder).WriteByte" {
			continue
		}
		arg := ci.Common().Args[1]
		expr := "WriteByte(" + arg.String() + ")"
		if a.loadsField(arg, "sql.token.category") {
			r.OK("V6", core.QualName(pass), expr, p.Pos(ci.Pos()), "token class byte")
		} else {
			r.Fail("V6", core.QualName(pass), expr, p.Pos(ci.Pos()), "a byte that is not a token class is appended to the fingerprint")
		}
	}

	r.Analysed = append(r.Analysed, core.QualName(root), core.QualName(chk), core.QualName(lookup), core.QualName(cfp), core.QualName(bl), core.QualName(pass), core.QualName(isKw))
	r.Explanation = "E5 path rules on the SSA/CFG of the decision layer. V5: every string the API function hands to a module function or stores is its own argument, unchanged (a trimmed, converted or sliced copy would make verdict and fingerprint those of another string). V1: each return of IsSQLi is (verdict known false, \"\") or (verdict known true, load of the state's fingerprint field after check() with no intervening writer). V2: every path of check() to a non-false return takes the fired edge of a `lookup(fingerprint-mode) != 0` test and calls no (transitive) writer of the fingerprint field afterwards. V3: in fingerprint mode lookup is non-zero only on the true edge of checkFingerprint(), which is true only if blacklist() is. V4: blacklist() is `keywordTable(probe) == 'F'`, reached only with len(fingerprint) ≥ 1. V5 (shape of every 'F' key: 0+1..5 class characters, comment class only last) is decided by C20/T2-fp on the same tree. V6: the fingerprint field is stored only in the pass function, from a builder fed with token category bytes, or the constant \"X\". NOT decided: that the probe built in blacklist() is exactly \"0\"+upper(fingerprint) (flow through strings.Builder), and that fold() computes the right tokens (input→output behaviour)."
	r.Trusted = []string{"go/ssa", "edge-dominance by reachability with the edge removed", "field-writer closure over the VTA call graph", "C20/T2-fp for the shape of black-listed keys"}
	return r
}

// isLenOfField: v == len(load of field role)
func isLenOfField(a *Anchors, v ssa.Value, role string) bool {
	c, ok := v.(*ssa.Call)
	if !ok {
		return false
	}
	b, ok := c.Common().Value.(*ssa.Builtin)
	if !ok || b.Name() != "len" {
		return false
	}
	return a.loadsField(c.Common().Args[0], role)
}

// apiInputUnchangedRule: every string the API function passes on (to a module
// function, or into a field) is its string parameter itself.
func apiInputUnchangedRule(p *core.Program, r *core.Result, rule string, root *ssa.Function) {
	if root == nil {
		return
	}
	prm := apiStringParam(root)
	if prm == nil {
		r.Fail(rule, core.QualName(root), "API input parameter", p.Pos(root.Pos()), "no string parameter (undecided)")
		return
	}
	same := func(v ssa.Value) bool {
		for d := 0; d < 4; d++ {
			if ct, ok := v.(*ssa.ChangeType); ok {
				v = ct.X
				continue
			}
			break
		}
		return v == ssa.Value(prm)
	}
	n := 0
	for _, b := range root.Blocks {
		for _, ins := range b.Instrs {
			switch x := ins.(type) {
			case ssa.CallInstruction:
				callee := x.Common().StaticCallee()
				if callee == nil || !p.InModule(callee) {
					continue
				}
				for _, arg := range x.Common().Args {
					if !isStringType(arg.Type()) {
						continue
					}
					if _, isConst := arg.(*ssa.Const); isConst {
						continue
					}
					n++
					expr := "text handed to " + callee.Name()
					if same(arg) {
						r.OK(rule, core.QualName(root), expr, p.Pos(x.Pos()), "the API argument itself")
					} else {
						r.Fail(rule, core.QualName(root), expr, p.Pos(x.Pos()), "the API function analyses "+ssax.Canon(arg)+", not its argument: verdict and fingerprint are those of another string")
					}
				}
			case *ssa.Store:
				if !isStringType(x.Val.Type()) {
					continue
				}
				if _, isConst := x.Val.(*ssa.Const); isConst {
					continue
				}
				if _, isField := x.Addr.(*ssa.FieldAddr); !isField {
					continue
				}
				n++
				expr := "text stored into " + ssax.Canon(x.Addr)
				if same(x.Val) {
					r.OK(rule, core.QualName(root), expr, p.Pos(x.Pos()), "the API argument itself")
				} else if lf, ok := ssax.LoadedField(x.Val); ok && lf.Field != "" {
					// copying a result field (the fingerprint) is not the analysed text
					n--
				} else {
					r.Fail(rule, core.QualName(root), expr, p.Pos(x.Pos()), "the API function stores "+ssax.Canon(x.Val)+", not its argument, as the text to analyse")
				}
			}
		}
	}
	if n == 0 {
		r.Fail("vacuity", core.QualName(root), rule+" text hand-over", p.Pos(root.Pos()), "the API function hands its argument to no module function (undecided)")
	}
}

// calledOnlyFrom: the given functions plus every module function all of whose callers
// are in that set (helpers that exist only to serve them).
func calledOnlyFrom(p *core.Program, roots ...*ssa.Function) map[*ssa.Function]bool {
	set := map[*ssa.Function]bool{}
	for _, f := range roots {
		if f != nil {
			set[f] = true
		}
	}
	for changed := true; changed; {
		changed = false
		for _, fn := range p.SourceFuncs(nil) {
			if set[fn] {
				continue
			}
			n := p.Graph.Nodes[fn]
			if n == nil || len(n.In) == 0 {
				continue
			}
			all := true
			for _, e := range n.In {
				if !set[e.Caller.Func] {
					all = false
				}
			}
			if all {
				set[fn] = true
				changed = true
			}
		}
	}
	return set
}
