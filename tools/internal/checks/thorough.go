package checks

import (
	"fmt"
	"os"
	"path/filepath"
	"regexp"
	"sort"

	"verif/tools/internal/core"
)

// buildTags lists the build tags that occur in //go:build lines of dir/*.go.
func buildTags(dir string) []string {
	files, _ := filepath.Glob(filepath.Join(dir, "*.go"))
	re := regexp.MustCompile(`(?m)^//go:build (.*)$`)
	word := regexp.MustCompile(`[A-Za-z_][A-Za-z0-9_.]*`)
	known := map[string]bool{"linux": true, "darwin": true, "windows": true, "amd64": true, "arm64": true, "386": true, "arm": true, "cgo": true, "ignore": true, "go1": true, "unix": true, "gc": true, "race": true}
	set := map[string]bool{}
	for _, f := range files {
		b, err := os.ReadFile(f)
		if err != nil {
			continue
		}
		for _, m := range re.FindAllStringSubmatch(string(b), -1) {
			for _, w := range word.FindAllString(m[1], -1) {
				if !known[w] && len(w) > 0 && !(len(w) > 2 && w[:2] == "go") {
					set[w] = true
				}
			}
		}
	}
	var out []string
	for k := range set {
		out = append(out, k)
	}
	sort.Strings(out)
	return out
}

// Thorough repeats the analysis under GOARCH=386 (32-bit int) and with every
// build tag that occurs in the repository, merging violations.
func Thorough(c *Ctx, fn CheckFunc, res *core.Result) {
	type cfg struct {
		arch string
		tags []string
	}
	cfgs := []cfg{{"386", nil}}
	for _, t := range buildTags(c.P.Dir) {
		cfgs = append(cfgs, cfg{"", []string{t}})
	}
	var ran []string
	for _, k := range cfgs {
		p, err := core.Load(c.P.Dir, k.arch, k.tags)
		name := fmt.Sprintf("GOARCH=%s tags=%v", k.arch, k.tags)
		if err != nil {
			res.Fail("load", "-", "configuration "+name, "-", err.Error())
			continue
		}
		c2 := &Ctx{P: p, Tier: c.Tier, VerifDir: c.VerifDir, Property: c.Property}
		r2 := fn(c2)
		for _, v := range r2.Violations {
			v.Msg = "[" + name + "] " + v.Msg
			res.Violations = append(res.Violations, v)
		}
		ran = append(ran, fmt.Sprintf("%s: %d obligations, %d violations", name, len(r2.Obligations), len(r2.Violations)))
	}
	res.Extra["thorough_configurations"] = ran
}

// WriteExtraBaselines is extended by other checks that keep frozen baselines.
func WriteExtraBaselines(p *core.Program, verifDir string) error { return nil }
