package checks

import (
	"encoding/json"
	"fmt"
	"os"
	"path/filepath"
	"sort"
	"strings"

	"go/types"

	"golang.org/x/tools/go/ssa"

	"verif/tools/internal/core"
	"verif/tools/internal/tables"
)

func init() { register("C20", "proof", checkC20) }

// Baseline is the committed snapshot of the tables at the pinned commit.
type Baseline struct {
	Keywords    map[string]int   `json:"keywords"`
	BlackTags   []string         `json:"black_tags"`
	Blacks      map[string]int64 `json:"blacks"`
	BlackEvents map[string]int64 `json:"black_events"`
	HexMap      []int64          `json:"hex_map"`
}

// WriteBaseline extracts the tables and writes baseline/tables.json.
func WriteBaseline(p *core.Program, path string) error {
	t, errs := tables.Extract(p)
	if len(errs) > 0 {
		return fmt.Errorf("extract: %v", errs)
	}
	b := Baseline{Keywords: map[string]int{}, Blacks: map[string]int64{}, BlackEvents: map[string]int64{}}
	for _, kv := range t.Keywords {
		b.Keywords[kv.Key] = int(kv.Val)
	}
	for _, n := range t.BlackTags {
		b.BlackTags = append(b.BlackTags, n.Name)
	}
	for _, n := range t.Blacks {
		b.Blacks[n.Name] = n.Type
	}
	for _, n := range t.BlackEvents {
		b.BlackEvents[n.Name] = n.Type
	}
	b.HexMap = t.HexMap
	out, _ := json.MarshalIndent(b, "", " ")
	os.MkdirAll(filepath.Dir(path), 0o755)
	return os.WriteFile(path, append(out, '\n'), 0o644)
}

func loadBaseline(verifDir string) (*Baseline, error) {
	b := &Baseline{}
	raw, err := os.ReadFile(filepath.Join(verifDir, "baseline", "tables.json"))
	if err != nil {
		return nil, err
	}
	if err := json.Unmarshal(raw, b); err != nil {
		return nil, err
	}
	return b, nil
}

func printable(s string) string { return fmt.Sprintf("%q", s) }

func checkC20(c *Ctx) *core.Result {
	p := c.P
	r := c.newResult()
	t, errs := tables.Extract(p)
	for _, e := range errs {
		r.Fail("T1", "-", "table extraction", "-", e.Error())
	}
	if len(errs) > 0 {
		return r
	}
	r.OK("T1", "-", fmt.Sprintf("extracted %d keyword entries, %d tags, %d attributes, %d events, %d hex entries", len(t.Keywords), len(t.BlackTags), len(t.Blacks), len(t.BlackEvents), len(t.HexMap)), "-", "all keys and elements are compile-time constants")

	// upper-cased class alphabet as it appears in fingerprint keys
	upperClass := map[byte]bool{}
	for b := range t.ClassAlphabet {
		u := b
		if u >= 'a' && u <= 'z' {
			u -= 0x20
		}
		upperClass[u] = true
	}
	fpVal, okF := classValue(t, classFingerprint)
	fnVal, okf := classValue(t, classFunction)
	cmVal, okc := classValue(t, classComment)
	if !okF || !okf || !okc {
		anchorFail(r, "class constants", "sqliTokenTypeFingerprint / Function / Comment not found in the class const block")
		return r
	}
	cmUpper := cmVal
	if cmUpper >= 'a' && cmUpper <= 'z' {
		cmUpper -= 0x20
	}

	// T2 keyword table
	dup := map[string]bool{}
	nF := 0
	for _, kv := range t.Keywords {
		k := kv.Key
		pos := p.Pos(kv.Pos)
		name := "key " + printable(k)
		if dup[k] {
			r.Fail("T2-dup", t.KeywordsVar, name, pos, "duplicate key")
		}
		dup[k] = true
		if strings.ToUpper(k) != k {
			r.Fail("T2-upper", t.KeywordsVar, name, pos, "key is not upper-case: the case-folding look-up (ToUpper of the probe) can never reach it")
		} else {
			r.OK("T2-upper", t.KeywordsVar, name, pos, "ToUpper(k)==k")
		}
		if len(k) > 31 || len(k) == 0 {
			r.Fail("T2-len", t.KeywordsVar, name, pos, fmt.Sprintf("key length %d is outside 1..31: token values are clipped to 31 bytes, the key is unreachable", len(k)))
		} else {
			r.OK("T2-len", t.KeywordsVar, name, pos, "1 ≤ len ≤ 31")
		}
		if _, ok := t.ClassAlphabet[kv.Val]; !ok {
			r.Fail("T2-class", t.KeywordsVar, name, pos, fmt.Sprintf("value %q is not a declared token-class character", kv.Val))
		} else {
			r.OK("T2-class", t.KeywordsVar, name, pos, fmt.Sprintf("value %q ∈ class alphabet", kv.Val))
		}
		switch kv.Val {
		case fpVal:
			nF++
			ok := len(k) >= 2 && len(k) <= 6 && k[0] == '0'
			why := ""
			if !ok {
				why = "fingerprint key is not `0` followed by 1..5 class characters"
			}
			for i := 1; ok && i < len(k); i++ {
				if !upperClass[k[i]] {
					ok = false
					why = fmt.Sprintf("character %q at offset %d is not an (upper-cased) token class", k[i], i)
				}
				if k[i] == cmUpper && i != len(k)-1 {
					ok = false
					why = "comment class appears in a non-final position"
				}
			}
			if ok {
				r.OK("T2-fp", t.KeywordsVar, name, pos, "^0[class]{1,5}$, comment class only last")
			} else {
				r.Fail("T2-fp", t.KeywordsVar, name, pos, why)
			}
		case fnVal:
			if len(k) < 2 {
				r.Fail("T2-fn", t.KeywordsVar, name, pos, "function name shorter than 2 characters: the IF-after-semicolon fold rule reads val[0] and val[1]")
			} else {
				r.OK("T2-fn", t.KeywordsVar, name, pos, "function key has ≥ 2 characters")
			}
		}
	}

	// T2 XSS lists
	checkName := func(rule, fn string, n tables.Named) {
		pos := p.Pos(n.Pos)
		name := "name " + printable(n.Name)
		if n.Name == "" || strings.ToUpper(n.Name) != n.Name || strings.IndexByte(n.Name, 0) >= 0 {
			r.Fail(rule, fn, name, pos, "name must be non-empty, upper-case and NUL-free (probes are NUL-stripped and upper-cased before comparison)")
		} else {
			r.OK(rule, fn, name, pos, "upper-case, NUL-free")
		}
	}
	for _, n := range t.BlackTags {
		checkName("T2-tag", t.BlackTagsVar, n)
	}
	for _, lst := range []struct {
		v  string
		ns []tables.Named
	}{{t.BlacksVar, t.Blacks}, {t.BlackEventsVar, t.BlackEvents}} {
		for _, n := range lst.ns {
			checkName("T2-attr", lst.v, n)
			if _, ok := t.AttrTypes[n.Type]; !ok {
				r.Fail("T2-attrtype", lst.v, "type of "+printable(n.Name), p.Pos(n.Pos), fmt.Sprintf("attribute type %d is not a declared attributeType constant", n.Type))
			} else if n.Type == 0 {
				r.Fail("T2-attrtype", lst.v, "type of "+printable(n.Name), p.Pos(n.Pos), "listed name classified as attributeTypeNone: the entry can never fire")
			} else {
				r.OK("T2-attrtype", lst.v, "type of "+printable(n.Name), p.Pos(n.Pos), t.AttrTypes[n.Type])
			}
		}
	}

	// T3 baseline retention
	bl, err := loadBaseline(c.VerifDir)
	if err != nil {
		r.Fail("T3", "-", "baseline/tables.json", "-", "cannot read committed baseline: "+err.Error())
	} else {
		keys := make([]string, 0, len(bl.Keywords))
		for k := range bl.Keywords {
			keys = append(keys, k)
		}
		sort.Strings(keys)
		for _, k := range keys {
			v, ok := t.KeywordMap[k]
			name := "baseline key " + printable(k)
			switch {
			case !ok:
				r.Fail("T3-kw", t.KeywordsVar, name, "-", fmt.Sprintf("baseline entry %s:%q has been removed", printable(k), byte(bl.Keywords[k])))
			case int(v) != bl.Keywords[k]:
				r.Fail("T3-kw", t.KeywordsVar, name, "-", fmt.Sprintf("classification changed from %q to %q", byte(bl.Keywords[k]), v))
			default:
				r.OK("T3-kw", t.KeywordsVar, name, "-", "present with equal value")
			}
		}
		have := map[string]bool{}
		for _, n := range t.BlackTags {
			have[n.Name] = true
		}
		for _, n := range bl.BlackTags {
			if have[n] {
				r.OK("T3-tag", t.BlackTagsVar, "baseline tag "+printable(n), "-", "present")
			} else {
				r.Fail("T3-tag", t.BlackTagsVar, "baseline tag "+printable(n), "-", "baseline black tag has been removed")
			}
		}
		cmp := func(rule, v string, base map[string]int64, cur []tables.Named) {
			m := map[string]int64{}
			for _, n := range cur {
				if _, dupd := m[n.Name]; !dupd { // first match wins at run time
					m[n.Name] = n.Type
				}
			}
			ks := make([]string, 0, len(base))
			for k := range base {
				ks = append(ks, k)
			}
			sort.Strings(ks)
			for _, k := range ks {
				tv, ok := m[k]
				switch {
				case !ok:
					r.Fail(rule, v, "baseline name "+printable(k), "-", "baseline entry has been removed")
				case tv != base[k]:
					r.Fail(rule, v, "baseline name "+printable(k), "-", fmt.Sprintf("classification changed from %d to %d", base[k], tv))
				default:
					r.OK(rule, v, "baseline name "+printable(k), "-", "present with equal type")
				}
			}
		}
		cmp("T3-attr", t.BlacksVar, bl.Blacks, t.Blacks)
		cmp("T3-event", t.BlackEventsVar, bl.BlackEvents, t.BlackEvents)
	}

	// T4 no writer besides the initialiser (E1 audit).
	a := runEffectsQuiet(p)
	if t.HexMapVar == "" {
		r.Note("no hex decode table literal on this tree (digit values are computed): T4 covers the four remaining tables")
	}
	for _, gname := range []string{t.KeywordsVar, t.BlackTagsVar, t.BlacksVar, t.BlackEventsVar, t.HexMapVar} {
		if gname == "" {
			continue
		}
		g := p.GlobalVar(gname)
		if g == nil {
			anchorFail(r, "table global "+gname, "no SSA global")
			continue
		}
		ws := a.GlobalWriters[g]
		bad := false
		for _, w := range ws {
			if w != "init" {
				bad = true
				r.Fail("T4", w, "writer of "+gname, "-", fmt.Sprintf("detection table %s is written outside its initialiser (by %s)", gname, w))
			}
		}
		if !bad {
			r.OK("T4", "-", "writers of "+gname, p.Pos(g.Pos()), fmt.Sprintf("%v", ws))
		}
	}
	// package-level variables whose initial value shares storage with a table (an
	// index of sub-slices, a copy of the slice header …) are the table under another name
	tableNames := []string{t.KeywordsVar, t.BlackTagsVar, t.BlacksVar, t.BlackEventsVar, t.HexMapVar}
	aliases := tableAliases(p, tableNames)
	for al, of := range aliases {
		r.Note("package variable %s shares storage with table %s (initialiser): writes through it are writes to the table", al, of)
	}
	for _, f := range a.Findings {
		if f.Rule == "R1" {
			pos := "-"
			if f.Ins != nil {
				pos = p.Pos(f.Ins.Pos())
			}
			hit := false
			for _, gname := range tableNames {
				if gname != "" && strings.Contains(f.Expr, gname) {
					hit = true
				}
			}
			for al, of := range aliases {
				if strings.Contains(f.Expr, al) {
					hit = true
					f.Msg += " (" + al + " shares storage with table " + of + ")"
				}
			}
			if hit {
				r.Fail("T4", core.QualName(f.Fn), f.Expr, pos, f.Msg)
			}
		}
	}

	r.Extra["entries"] = map[string]int{"keywords": len(t.Keywords), "fingerprints": nF, "black_tags": len(t.BlackTags), "blacks": len(t.Blacks), "black_events": len(t.BlackEvents), "hex_map": len(t.HexMap)}
	if len(t.Keywords) < 5000 || nF < 5000 {
		r.Fail("vacuity", "-", "keyword table size", "-", fmt.Sprintf("only %d keyword entries / %d fingerprints extracted (expected thousands)", len(t.Keywords), nF))
	}
	r.Explanation = "E2 literal extraction: every key and element of the five shipped table literals is read with go/constant from the type-checked AST (a non-constant entry fails the check). Per entry: well-formedness rules T2 (upper-case, ≤31 bytes, value in the declared class alphabet, fingerprint keys ^0[class]{1,5}$ with the comment class only last, function names ≥2 chars, XSS names upper-case and NUL-free, attribute types declared and non-None); per baseline entry (baseline/tables.json, produced once from the pinned commit by the same extractor): still present with the same classification (T3); no store to the table variables outside their initialiser (T4, from E1), including stores and appends through package-level variables that the initialiser fills with a value sharing storage with a table (an index of sub-slices of it, the pointer-like result of a function that received it). Finite and enumerated completely."
	r.Trusted = []string{"go/types constant evaluation", "the literal extractor (AST CompositeLit walk)", "baseline/tables.json as committed"}
	return r
}

// tableAliases: package-level variables that the package initialiser fills with a
// value derived from one of the tables (a slice of it, or the pointer-like result of
// a function that received it).
func tableAliases(p *core.Program, tables []string) map[string]string {
	isTable := map[string]bool{}
	for _, n := range tables {
		if n != "" {
			isTable[n] = true
		}
	}
	out := map[string]string{}
	var from func(v ssa.Value, depth int) string
	from = func(v ssa.Value, depth int) string {
		if depth > 8 || v == nil {
			return ""
		}
		switch x := v.(type) {
		case *ssa.Global:
			if isTable[x.Name()] {
				return x.Name()
			}
			if t, ok := out[x.Name()]; ok {
				return t
			}
		case *ssa.UnOp:
			return from(x.X, depth+1)
		case *ssa.Slice:
			return from(x.X, depth+1)
		case *ssa.IndexAddr:
			return from(x.X, depth+1)
		case *ssa.FieldAddr:
			return from(x.X, depth+1)
		case *ssa.ChangeType:
			return from(x.X, depth+1)
		case *ssa.MakeInterface:
			return from(x.X, depth+1)
		case *ssa.Phi:
			for _, e := range x.Edges {
				if t := from(e, depth+1); t != "" {
					return t
				}
			}
		case *ssa.Call:
			if !pointerish(x.Type()) {
				return ""
			}
			for _, arg := range x.Common().Args {
				if t := from(arg, depth+1); t != "" {
					return t
				}
			}
		}
		return ""
	}
	for round := 0; round < 3; round++ {
		for _, fn := range []*ssa.Function{p.SSAPkg.Func("init")} {
			if fn == nil {
				continue
			}
			for _, b := range fn.Blocks {
				for _, ins := range b.Instrs {
					st, ok := ins.(*ssa.Store)
					if !ok {
						continue
					}
					addr := st.Addr
					for d := 0; d < 6; d++ {
						switch x := addr.(type) {
						case *ssa.IndexAddr:
							addr = x.X
						case *ssa.FieldAddr:
							addr = x.X
						}
					}
					g, ok := addr.(*ssa.Global)
					if !ok || isTable[g.Name()] {
						continue
					}
					if t := from(st.Val, 0); t != "" {
						out[g.Name()] = t
					}
				}
			}
		}
	}
	return out
}

// pointerish: values of this type can share storage with their source.
func pointerish(t types.Type) bool {
	switch u := t.Underlying().(type) {
	case *types.Slice, *types.Pointer, *types.Map:
		return true
	case *types.Array:
		return pointerish(u.Elem())
	case *types.Struct:
		for i := 0; i < u.NumFields(); i++ {
			if pointerish(u.Field(i).Type()) {
				return true
			}
		}
	}
	return false
}
