// Package tables extracts the shipped detection tables from composite
// literals (go/constant evaluation of every key and element) and evaluates
// closed initialisers (functions of constants only) by interpreting their SSA.
package tables

import (
	"fmt"
	"go/ast"
	"go/constant"
	"go/token"
	"go/types"
	"sort"

	"verif/tools/internal/core"
)

// KV is one entry of the keyword table.
type KV struct {
	Key string
	Val byte
	Pos token.Pos
}

// Named is one entry of an XSS name/type list.
type Named struct {
	Name string
	Type int64
	Pos  token.Pos
}

// Tables is everything extracted from the literals.
type Tables struct {
	KeywordsVar string
	Keywords    []KV
	KeywordMap  map[string]byte

	BlackTagsVar string
	BlackTags    []Named // Type unused

	BlacksVar string
	Blacks    []Named

	BlackEventsVar string
	BlackEvents    []Named

	HexMapVar string
	HexMap    []int64

	ClassAlphabet map[byte]string // byte → constant name (0 excluded)
	ClassConsts   map[string]byte // constant name → byte (0 included)
	AttrTypes     map[int64]string
}

// varInit finds `var name = <expr>` at package level.
func varInit(p *core.Program, name string) (ast.Expr, *types.Var) {
	for _, f := range p.Files {
		for _, d := range f.Decls {
			gd, ok := d.(*ast.GenDecl)
			if !ok || gd.Tok != token.VAR {
				continue
			}
			for _, s := range gd.Specs {
				vs := s.(*ast.ValueSpec)
				for i, n := range vs.Names {
					if n.Name == name && i < len(vs.Values) {
						v, _ := p.Info.Defs[n].(*types.Var)
						return vs.Values[i], v
					}
				}
			}
		}
	}
	return nil, nil
}

// PackageVars lists all package-level vars with their initialiser expr.
func PackageVars(p *core.Program) map[string]ast.Expr {
	out := map[string]ast.Expr{}
	for _, f := range p.Files {
		for _, d := range f.Decls {
			gd, ok := d.(*ast.GenDecl)
			if !ok || gd.Tok != token.VAR {
				continue
			}
			for _, s := range gd.Specs {
				vs := s.(*ast.ValueSpec)
				for i, n := range vs.Names {
					if i < len(vs.Values) {
						out[n.Name] = vs.Values[i]
					} else {
						out[n.Name] = nil
					}
				}
			}
		}
	}
	return out
}

// findVarByType returns the unique package-level var whose type string is ts
// (role fallback when the pinned name is gone).
func findVarByType(p *core.Program, pred func(types.Type) bool, exclude map[string]bool) []string {
	var names []string
	sc := p.Types.Scope()
	for _, n := range sc.Names() {
		if v, ok := sc.Lookup(n).(*types.Var); ok && pred(v.Type()) && !exclude[n] {
			names = append(names, n)
		}
	}
	sort.Strings(names)
	return names
}

func constOf(p *core.Program, e ast.Expr) (constant.Value, bool) {
	tv, ok := p.Info.Types[e]
	if !ok || tv.Value == nil {
		return nil, false
	}
	return tv.Value, true
}

func isMapStringByte(t types.Type) bool {
	m, ok := t.Underlying().(*types.Map)
	if !ok {
		return false
	}
	k, ok1 := m.Key().Underlying().(*types.Basic)
	v, ok2 := m.Elem().Underlying().(*types.Basic)
	return ok1 && ok2 && k.Kind() == types.String && (v.Kind() == types.Uint8 || v.Kind() == types.Byte)
}

// seqElem: the element type of a slice or an array.
func seqElem(t types.Type) (types.Type, bool) {
	switch u := t.Underlying().(type) {
	case *types.Slice:
		return u.Elem(), true
	case *types.Array:
		return u.Elem(), true
	}
	return nil, false
}

func isSliceOfString(t types.Type) bool {
	el, ok := seqElem(t)
	if !ok {
		return false
	}
	b, ok := el.Underlying().(*types.Basic)
	return ok && b.Kind() == types.String
}

func isSliceOfInt(t types.Type) bool {
	el, ok := seqElem(t)
	if !ok {
		return false
	}
	b, ok := el.Underlying().(*types.Basic)
	return ok && b.Kind() == types.Int
}

func isSliceOfNameType(t types.Type) bool {
	el, ok := seqElem(t)
	if !ok {
		return false
	}
	st, ok := el.Underlying().(*types.Struct)
	if !ok || st.NumFields() != 2 {
		return false
	}
	b0, ok0 := st.Field(0).Type().Underlying().(*types.Basic)
	b1, ok1 := st.Field(1).Type().Underlying().(*types.Basic)
	return ok0 && ok1 && b0.Kind() == types.String && b1.Kind() == types.Int
}

// Extract reads the five literals plus the constant alphabets.  Errors name
// the construct that could not be decided.
func Extract(p *core.Program) (*Tables, []error) {
	t := &Tables{KeywordMap: map[string]byte{}, ClassAlphabet: map[byte]string{}, ClassConsts: map[string]byte{}, AttrTypes: map[int64]string{}}
	var errs []error
	resolve := func(name, role string, pred func(types.Type) bool, exclude map[string]bool) (string, ast.Expr) {
		if e, v := varInit(p, name); e != nil && v != nil && pred(v.Type()) {
			return name, e
		}
		c := findVarByType(p, pred, exclude)
		if len(c) == 1 {
			e, _ := varInit(p, c[0])
			if e != nil {
				return c[0], e
			}
		}
		errs = append(errs, fmt.Errorf("anchor %s: no package-level variable %q and no unique variable of the expected type (candidates %v)", role, name, c))
		return "", nil
	}

	// keyword table
	if name, e := resolve("sqlKeywords", "keyword table", isMapStringByte, nil); e != nil {
		t.KeywordsVar = name
		cl, ok := e.(*ast.CompositeLit)
		if !ok {
			errs = append(errs, fmt.Errorf("%s: keyword table initialiser is not a composite literal", p.Pos(e.Pos())))
		} else {
			for _, el := range cl.Elts {
				kv, ok := el.(*ast.KeyValueExpr)
				if !ok {
					errs = append(errs, fmt.Errorf("%s: keyword table element is not key:value", p.Pos(el.Pos())))
					continue
				}
				kc, ok1 := constOf(p, kv.Key)
				vc, ok2 := constOf(p, kv.Value)
				if !ok1 || !ok2 || kc.Kind() != constant.String {
					errs = append(errs, fmt.Errorf("%s: keyword table entry is not constant", p.Pos(el.Pos())))
					continue
				}
				iv, ok := constant.Int64Val(constant.ToInt(vc))
				if !ok || iv < 0 || iv > 255 {
					errs = append(errs, fmt.Errorf("%s: keyword table value out of byte range", p.Pos(el.Pos())))
					continue
				}
				k := constant.StringVal(kc)
				t.Keywords = append(t.Keywords, KV{k, byte(iv), el.Pos()})
				t.KeywordMap[k] = byte(iv)
			}
		}
	}

	// black tags
	if name, e := resolve("blackTags", "black tag list", isSliceOfString, nil); e != nil {
		t.BlackTagsVar = name
		if cl, ok := e.(*ast.CompositeLit); ok {
			for _, el := range cl.Elts {
				c, ok := constOf(p, el)
				if !ok || c.Kind() != constant.String {
					errs = append(errs, fmt.Errorf("%s: black tag is not a constant string", p.Pos(el.Pos())))
					continue
				}
				t.BlackTags = append(t.BlackTags, Named{constant.StringVal(c), 0, el.Pos()})
			}
		} else {
			errs = append(errs, fmt.Errorf("%s: black tag list is not a composite literal", p.Pos(e.Pos())))
		}
	}

	readNamed := func(e ast.Expr, what string) []Named {
		var out []Named
		cl, ok := e.(*ast.CompositeLit)
		if !ok {
			errs = append(errs, fmt.Errorf("%s: %s is not a composite literal", p.Pos(e.Pos()), what))
			return nil
		}
		for _, el := range cl.Elts {
			ecl, ok := el.(*ast.CompositeLit)
			if !ok || len(ecl.Elts) != 2 {
				errs = append(errs, fmt.Errorf("%s: %s element is not {name, type}", p.Pos(el.Pos()), what))
				continue
			}
			a, b := ecl.Elts[0], ecl.Elts[1]
			if kv, ok := a.(*ast.KeyValueExpr); ok {
				a = kv.Value
			}
			if kv, ok := b.(*ast.KeyValueExpr); ok {
				b = kv.Value
			}
			// keyed literals may swap order: decide by constant kind
			ca, ok1 := constOf(p, a)
			cb, ok2 := constOf(p, b)
			if !ok1 || !ok2 {
				errs = append(errs, fmt.Errorf("%s: %s element is not constant", p.Pos(el.Pos()), what))
				continue
			}
			if ca.Kind() != constant.String {
				ca, cb = cb, ca
			}
			if ca.Kind() != constant.String {
				errs = append(errs, fmt.Errorf("%s: %s element has no string name", p.Pos(el.Pos()), what))
				continue
			}
			iv, _ := constant.Int64Val(constant.ToInt(cb))
			out = append(out, Named{constant.StringVal(ca), iv, el.Pos()})
		}
		return out
	}
	if name, e := resolve("blacks", "black attribute list", isSliceOfNameType, map[string]bool{"blackEvents": true}); e != nil {
		t.BlacksVar = name
		t.Blacks = readNamed(e, "black attribute list")
	}
	if name, e := resolve("blackEvents", "event list", isSliceOfNameType, map[string]bool{t.BlacksVar: true}); e != nil {
		t.BlackEventsVar = name
		t.BlackEvents = readNamed(e, "event list")
	}
	// the hex decode table is optional (a tree may compute digit values instead);
	// checks that need it test HexMapVar themselves.
	nErr := len(errs)
	hexName, hexInit := resolve("gsHexDecodeMap", "hex decode table", isSliceOfInt, nil)
	if hexInit == nil {
		errs = errs[:nErr]
	}
	if name, e := hexName, hexInit; e != nil {
		t.HexMapVar = name
		if cl, ok := e.(*ast.CompositeLit); ok {
			for _, el := range cl.Elts {
				if _, keyed := el.(*ast.KeyValueExpr); keyed {
					errs = append(errs, fmt.Errorf("%s: keyed hex table element not supported (undecided)", p.Pos(el.Pos())))
					continue
				}
				c, ok := constOf(p, el)
				if !ok {
					errs = append(errs, fmt.Errorf("%s: hex table element is not constant", p.Pos(el.Pos())))
					continue
				}
				iv, _ := constant.Int64Val(constant.ToInt(c))
				t.HexMap = append(t.HexMap, iv)
			}
		} else if vals, err := EvalByteTable(p, name); err == nil {
			// built by a closed initialiser (a function of no input): evaluated like the compiler could
			t.HexMap = vals
		} else {
			// neither a literal nor evaluable: the table stays unknown; checks that need it report that themselves
			t.HexMap = nil
		}
	}

	// class alphabet: the const block holding ≥ 20 byte-typed constants.
	// attribute types: the const block whose names the XSS lists use.
	usedAttr := map[int64]bool{}
	for _, n := range append(append([]Named{}, t.Blacks...), t.BlackEvents...) {
		usedAttr[n.Type] = true
	}
	for _, f := range p.Files {
		for _, d := range f.Decls {
			gd, ok := d.(*ast.GenDecl)
			if !ok || gd.Tok != token.CONST {
				continue
			}
			type cdef struct {
				name string
				c    *types.Const
			}
			var cs []cdef
			allByte, allUntypedInt := true, true
			for _, s := range gd.Specs {
				for _, n := range s.(*ast.ValueSpec).Names {
					c, ok := p.Info.Defs[n].(*types.Const)
					if !ok {
						continue
					}
					cs = append(cs, cdef{n.Name, c})
					b, isBasic := c.Type().Underlying().(*types.Basic)
					if !isBasic || !(b.Kind() == types.Uint8) {
						allByte = false
					}
					if !isBasic || (b.Kind() != types.UntypedInt && b.Kind() != types.Int) {
						allUntypedInt = false
					}
				}
			}
			if allByte && len(cs) >= 20 {
				for _, c := range cs {
					iv, _ := constant.Int64Val(constant.ToInt(c.c.Val()))
					t.ClassConsts[c.name] = byte(iv)
					if iv != 0 {
						t.ClassAlphabet[byte(iv)] = c.name
					}
				}
			}
			if allUntypedInt && len(cs) >= 2 && len(cs) <= 12 {
				// candidate attribute-type block: names share the prefix of a
				// constant used in the lists; decide by name prefix "attributeType"
				// first, else by covering all used values with iota values 0..n-1.
				isAttr := true
				for _, c := range cs {
					if len(c.name) < 13 || c.name[:13] != "attributeType" {
						isAttr = false
					}
				}
				if isAttr {
					for _, c := range cs {
						iv, _ := constant.Int64Val(constant.ToInt(c.c.Val()))
						t.AttrTypes[iv] = c.name
					}
				}
			}
		}
	}
	if len(t.ClassAlphabet) == 0 {
		errs = append(errs, fmt.Errorf("anchor class alphabet: no const block of ≥20 byte constants found"))
	}
	if len(t.AttrTypes) == 0 {
		errs = append(errs, fmt.Errorf("anchor attribute types: no attributeType* const block found"))
	}
	return t, errs
}
