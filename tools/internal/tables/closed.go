package tables

import (
	"fmt"
	"go/ast"
	"go/constant"
	"go/types"

	"golang.org/x/tools/go/ssa"

	"verif/tools/internal/core"
)

// EvalVarInit evaluates `var name = f(const...)` by interpreting f's SSA.
func EvalVarInit(p *core.Program, name string) (Val, *ssa.Function, error) {
	e, _ := varInit(p, name)
	if e == nil {
		return nil, nil, fmt.Errorf("no initialiser for package variable %s", name)
	}
	call, ok := e.(*ast.CallExpr)
	if !ok {
		return nil, nil, fmt.Errorf("%s: initialiser of %s is not a call of a table builder", p.Pos(e.Pos()), name)
	}
	id, ok := call.Fun.(*ast.Ident)
	if !ok {
		return nil, nil, fmt.Errorf("%s: initialiser of %s calls a non-identifier", p.Pos(e.Pos()), name)
	}
	fobj, ok := p.Info.Uses[id].(*types.Func)
	if !ok {
		return nil, nil, fmt.Errorf("%s: %s is not a function", p.Pos(e.Pos()), id.Name)
	}
	fn := p.SSA.FuncValue(fobj)
	if fn == nil {
		return nil, nil, fmt.Errorf("no SSA for %s", id.Name)
	}
	var args []Val
	for _, a := range call.Args {
		c, ok := constOf(p, a)
		if !ok {
			return nil, fn, fmt.Errorf("%s: argument of %s is not constant (initialiser not closed)", p.Pos(a.Pos()), id.Name)
		}
		switch c.Kind() {
		case constant.String:
			args = append(args, constant.StringVal(c))
		case constant.Int:
			iv, _ := constant.Int64Val(c)
			args = append(args, iv)
		case constant.Bool:
			args = append(args, constant.BoolVal(c))
		default:
			return nil, fn, fmt.Errorf("unsupported constant argument kind")
		}
	}
	ev := NewEvaluator(p.Pkg.TypesSizes)
	res, err := ev.Call(fn, args...)
	if err != nil {
		return nil, fn, fmt.Errorf("evaluating %s(...): %w", id.Name, err)
	}
	if len(res) != 1 {
		return nil, fn, fmt.Errorf("%s returns %d values", id.Name, len(res))
	}
	return res[0], fn, nil
}

// Dispatch is the byte → lexer table.
type Dispatch struct {
	Var     string
	Builder *ssa.Function
	Table   []*ssa.Function // len must be 256
}

// FindDispatchVar resolves the dispatch table variable: by name, else the
// unique package-level slice of func(*T) int.
func FindDispatchVar(p *core.Program) (string, error) {
	isDisp := func(t types.Type) bool {
		s, ok := t.Underlying().(*types.Slice)
		if !ok {
			return false
		}
		sig, ok := s.Elem().Underlying().(*types.Signature)
		return ok && sig.Params().Len() == 1 && sig.Results().Len() == 1
	}
	if e, v := varInit(p, "byteParsers"); e != nil && v != nil && isDisp(v.Type()) {
		return "byteParsers", nil
	}
	c := findVarByType(p, isDisp, nil)
	if len(c) == 1 {
		return c[0], nil
	}
	return "", fmt.Errorf("anchor dispatch table: candidates %v", c)
}

// EvalDispatch evaluates the dispatch table initialiser.
func EvalDispatch(p *core.Program) (*Dispatch, error) {
	name, err := FindDispatchVar(p)
	if err != nil {
		return nil, err
	}
	v, b, err := EvalVarInit(p, name)
	if err != nil {
		return nil, err
	}
	s, ok := v.(*Slice)
	if !ok || s == nil {
		return nil, fmt.Errorf("dispatch initialiser did not yield a slice")
	}
	d := &Dispatch{Var: name, Builder: b}
	for _, e := range s.Elems {
		f, _ := e.(*ssa.Function)
		d.Table = append(d.Table, f)
	}
	return d, nil
}

// EvalByteTable evaluates `var name = builder("...")` into a byte slice.
func EvalByteTable(p *core.Program, name string) ([]int64, error) {
	v, _, err := EvalVarInit(p, name)
	if err != nil {
		return nil, err
	}
	s, ok := v.(*Slice)
	if !ok || s == nil {
		return nil, fmt.Errorf("%s initialiser did not yield a slice", name)
	}
	var out []int64
	for _, e := range s.Elems {
		iv, ok := e.(int64)
		if !ok {
			return nil, fmt.Errorf("%s has a non-integer element", name)
		}
		out = append(out, iv)
	}
	return out, nil
}

// TabulateBytePred evaluates a one-byte function for all 256 values.
// The function must take exactly one integer parameter.
func TabulateBytePred(p *core.Program, fn *ssa.Function) ([256]Val, error) {
	var out [256]Val
	if fn == nil || len(fn.Params) != 1 {
		return out, fmt.Errorf("not a one-parameter function")
	}
	for i := 0; i < 256; i++ {
		ev := NewEvaluator(p.Pkg.TypesSizes)
		r, err := ev.Call(fn, int64(i))
		if err != nil {
			return out, err
		}
		if len(r) != 1 {
			return out, fmt.Errorf("%s returns %d values", fn.Name(), len(r))
		}
		out[i] = r[0]
	}
	return out, nil
}
