package tables

import (
	"fmt"
	"go/ast"
	"go/constant"
	"go/token"
	"go/types"

	"golang.org/x/tools/go/ssa"

	"verif/tools/internal/core"
	"verif/tools/internal/ssax"
)

// EvalVarInit evaluates `var name = f(const...)` by interpreting f's SSA.
func EvalVarInit(p *core.Program, name string) (Val, *ssa.Function, error) {
	return evalVarInitDepth(p, name, 0)
}

func evalVarInitDepth(p *core.Program, name string, depth int) (Val, *ssa.Function, error) {
	e, _ := varInit(p, name)
	if e == nil {
		return nil, nil, fmt.Errorf("no initialiser for package variable %s", name)
	}
	call, ok := e.(*ast.CallExpr)
	if !ok {
		return nil, nil, fmt.Errorf("%s: initialiser of %s is not a call of a table builder", p.Pos(e.Pos()), name)
	}
	id, ok := call.Fun.(*ast.Ident)
	if !ok {
		return nil, nil, fmt.Errorf("%s: initialiser of %s calls a non-identifier", p.Pos(e.Pos()), name)
	}
	fobj, ok := p.Info.Uses[id].(*types.Func)
	if !ok {
		return nil, nil, fmt.Errorf("%s: %s is not a function", p.Pos(e.Pos()), id.Name)
	}
	fn := p.SSA.FuncValue(fobj)
	if fn == nil {
		return nil, nil, fmt.Errorf("no SSA for %s", id.Name)
	}
	var args []Val
	for _, a := range call.Args {
		c, ok := constOf(p, a)
		if !ok {
			return nil, fn, fmt.Errorf("%s: argument of %s is not constant (initialiser not closed)", p.Pos(a.Pos()), id.Name)
		}
		switch c.Kind() {
		case constant.String:
			args = append(args, constant.StringVal(c))
		case constant.Int:
			iv, _ := constant.Int64Val(c)
			args = append(args, iv)
		case constant.Bool:
			args = append(args, constant.BoolVal(c))
		default:
			return nil, fn, fmt.Errorf("unsupported constant argument kind")
		}
	}
	ev := NewEvaluator(p.Pkg.TypesSizes)
	ev.LoadGlobal = globalLoader(p, depth)
	res, err := ev.Call(fn, args...)
	if err != nil {
		return nil, fn, fmt.Errorf("evaluating %s(...): %w", id.Name, err)
	}
	if len(res) != 1 {
		return nil, fn, fmt.Errorf("%s returns %d values", id.Name, len(res))
	}
	return res[0], fn, nil
}

// Dispatch is the byte → lexer table.
type Dispatch struct {
	Var     string
	Builder *ssa.Function
	Table   []*ssa.Function // len must be 256
}

// FindDispatchVar resolves the dispatch table variable: by name, else the
// unique package-level slice of func(*T) int.
func FindDispatchVar(p *core.Program) (string, error) {
	isDisp := func(t types.Type) bool {
		el, ok := seqElem(t)
		if !ok {
			return false
		}
		sig, ok := el.Underlying().(*types.Signature)
		return ok && sig.Params().Len() == 1 && sig.Results().Len() == 1
	}
	if e, v := varInit(p, "byteParsers"); e != nil && v != nil && isDisp(v.Type()) {
		return "byteParsers", nil
	}
	c := findVarByType(p, isDisp, nil)
	if len(c) == 1 {
		return c[0], nil
	}
	return "", fmt.Errorf("anchor dispatch table: candidates %v", c)
}

// EvalDispatch evaluates the dispatch table initialiser.
func EvalDispatch(p *core.Program) (*Dispatch, error) {
	name, err := FindDispatchVar(p)
	if err != nil {
		return nil, err
	}
	v, b, err := EvalVarInit(p, name)
	if err != nil {
		return nil, err
	}
	s, ok := v.(*Slice)
	if !ok || s == nil {
		return nil, fmt.Errorf("dispatch initialiser did not yield a slice")
	}
	d := &Dispatch{Var: name, Builder: b}
	for _, e := range s.Elems {
		f, _ := e.(*ssa.Function)
		// a method expression (*T).lex is stored as its thunk: same lexer
		d.Table = append(d.Table, ssax.Unwrap(f))
	}
	return d, nil
}

// EvalByteTable evaluates `var name = builder("...")` into a byte slice.
func EvalByteTable(p *core.Program, name string) ([]int64, error) {
	v, _, err := EvalVarInit(p, name)
	if err != nil {
		return nil, err
	}
	s, ok := v.(*Slice)
	if !ok || s == nil {
		return nil, fmt.Errorf("%s initialiser did not yield a slice", name)
	}
	var out []int64
	for _, e := range s.Elems {
		iv, ok := e.(int64)
		if !ok {
			return nil, fmt.Errorf("%s has a non-integer element", name)
		}
		out = append(out, iv)
	}
	return out, nil
}

// TabulateBytePred evaluates a one-byte function for all 256 values.
// The function must take exactly one integer parameter.
func TabulateBytePred(p *core.Program, fn *ssa.Function) ([256]Val, error) {
	var out [256]Val
	if fn == nil || len(fn.Params) != 1 {
		return out, fmt.Errorf("not a one-parameter function")
	}
	for i := 0; i < 256; i++ {
		ev := NewEvaluator(p.Pkg.TypesSizes)
		r, err := ev.Call(fn, int64(i))
		if err != nil {
			return out, err
		}
		if len(r) != 1 {
			return out, fmt.Errorf("%s returns %d values", fn.Name(), len(r))
		}
		out[i] = r[0]
	}
	return out, nil
}

// literalVal evaluates a package-level initialiser that is a literal made of
// constants, function names and nested composite literals (slices, arrays,
// structs) — what a table of ranges / names looks like.  Anything else fails.
func literalVal(p *core.Program, e ast.Expr) (Val, error) {
	if c, ok := constOf(p, e); ok {
		switch c.Kind() {
		case constant.String:
			return constant.StringVal(c), nil
		case constant.Int:
			iv, _ := constant.Int64Val(constant.ToInt(c))
			return iv, nil
		case constant.Bool:
			return constant.BoolVal(c), nil
		}
		return nil, fmt.Errorf("%s: unsupported constant", p.Pos(e.Pos()))
	}
	switch x := e.(type) {
	case *ast.ParenExpr:
		return literalVal(p, x.X)
	case *ast.Ident:
		if f, ok := p.Info.Uses[x].(*types.Func); ok {
			if fn := p.SSA.FuncValue(f); fn != nil {
				return fn, nil
			}
		}
		if _, isNil := p.Info.Uses[x].(*types.Nil); isNil {
			return nil, nil
		}
		return nil, fmt.Errorf("%s: identifier %s is not a constant or a function", p.Pos(e.Pos()), x.Name)
	case *ast.UnaryExpr:
		if x.Op == token.AND {
			return literalVal(p, x.X)
		}
	case *ast.SelectorExpr:
		// a method expression (*T).m / T.m: the method itself
		if sel, ok := p.Info.Selections[x]; ok && sel.Kind() == types.MethodExpr {
			if f, ok := sel.Obj().(*types.Func); ok {
				if fn := p.SSA.FuncValue(f); fn != nil {
					return fn, nil
				}
			}
		}
	case *ast.FuncLit:
		// a function literal of a package-level initialiser without captured variables
		if init := p.SSAPkg.Func("init"); init != nil {
			for _, an := range init.AnonFuncs {
				if an.Syntax() == ast.Node(x) && len(an.FreeVars) == 0 {
					return an, nil
				}
			}
		}
		return nil, fmt.Errorf("%s: function literal not resolved", p.Pos(e.Pos()))
	case *ast.CompositeLit:
		tv, ok := p.Info.Types[x]
		if !ok {
			return nil, fmt.Errorf("%s: untyped literal", p.Pos(e.Pos()))
		}
		switch ut := tv.Type.Underlying().(type) {
		case *types.Slice, *types.Array:
			sl := &Slice{}
			idx := 0
			put := func(i int, v Val) {
				for len(sl.Elems) <= i {
					sl.Elems = append(sl.Elems, nil)
				}
				sl.Elems[i] = v
			}
			for _, el := range x.Elts {
				ve := el
				if kv, isKV := el.(*ast.KeyValueExpr); isKV {
					kc, ok := constOf(p, kv.Key)
					if !ok {
						return nil, fmt.Errorf("%s: non-constant index", p.Pos(kv.Pos()))
					}
					ki, _ := constant.Int64Val(constant.ToInt(kc))
					idx = int(ki)
					ve = kv.Value
				}
				v, err := literalVal(p, ve)
				if err != nil {
					return nil, err
				}
				put(idx, v)
				idx++
			}
			if arr, isArr := ut.(*types.Array); isArr {
				for int64(len(sl.Elems)) < arr.Len() {
					sl.Elems = append(sl.Elems, nil)
				}
			}
			return sl, nil
		case *types.Struct:
			st := &Struct{F: make([]Val, ut.NumFields())}
			for i, el := range x.Elts {
				fi, ve := i, el
				if kv, isKV := el.(*ast.KeyValueExpr); isKV {
					id, ok := kv.Key.(*ast.Ident)
					if !ok {
						return nil, fmt.Errorf("%s: struct key", p.Pos(kv.Pos()))
					}
					fi = -1
					for j := 0; j < ut.NumFields(); j++ {
						if ut.Field(j).Name() == id.Name {
							fi = j
						}
					}
					if fi < 0 {
						return nil, fmt.Errorf("%s: unknown field %s", p.Pos(kv.Pos()), id.Name)
					}
					ve = kv.Value
				}
				v, err := literalVal(p, ve)
				if err != nil {
					return nil, err
				}
				st.F[fi] = v
			}
			// zero values for the fields not mentioned
			for j := 0; j < ut.NumFields(); j++ {
				if st.F[j] == nil {
					if b, ok := ut.Field(j).Type().Underlying().(*types.Basic); ok {
						switch {
						case b.Info()&types.IsInteger != 0:
							st.F[j] = int64(0)
						case b.Info()&types.IsString != 0:
							st.F[j] = ""
						case b.Info()&types.IsBoolean != 0:
							st.F[j] = false
						}
					}
				}
			}
			return st, nil
		}
	}
	return nil, fmt.Errorf("%s: initialiser is not a literal of constants and function names", p.Pos(e.Pos()))
}

// globalLoader lets the evaluator read other package-level variables whose
// initialisers are closed: a literal (evaluated from the syntax) or a call of a
// table builder with constant arguments (evaluated recursively).
func globalLoader(p *core.Program, depth int) func(g *ssa.Global) (Val, error) {
	return func(g *ssa.Global) (Val, error) {
		if depth > 3 {
			return nil, fmt.Errorf("initialiser chain too deep at %s", g.Name())
		}
		e, _ := varInit(p, g.Name())
		if e == nil {
			return nil, fmt.Errorf("package variable %s has no initialiser (it may be written at run time)", g.Name())
		}
		if v, err := literalVal(p, e); err == nil {
			return &Cell{V: v}, nil
		}
		v, _, err := evalVarInitDepth(p, g.Name(), depth+1)
		if err != nil {
			return nil, err
		}
		return &Cell{V: v}, nil
	}
}

// ClosedValue: the value of a package-level variable whose initialiser is a
// literal of constants / function values, or a call of a table builder.
func ClosedValue(p *core.Program, name string) (Val, error) {
	e, _ := varInit(p, name)
	if e == nil {
		return nil, fmt.Errorf("no initialiser for package variable %s", name)
	}
	if v, err := literalVal(p, e); err == nil {
		return v, nil
	}
	v, _, err := evalVarInitDepth(p, name, 0)
	return v, err
}

// ColumnValues: v reads a place inside a package-level table whose initialiser is
// closed — `table[i].field`, `table[i].list[j]` — with constant or variable indices;
// returns every value the read can yield (all rows for a variable index).
func ColumnValues(p *core.Program, v ssa.Value) ([]Val, bool) {
	if root, path, ok := ssax.TableRead(v); ok {
		if al, isAl := root.(*ssa.Alloc); isAl {
			vals, _, ok := localColumnVals(al, path)
			return vals, ok
		}
	}
	type step struct {
		kind  byte // 'i' index, 'f' field
		idx   int
		known bool
	}
	var steps []step
	cur := v
	var root *ssa.Global
	for d := 0; d < 14 && root == nil; d++ {
		switch x := cur.(type) {
		case *ssa.UnOp:
			if x.Op != token.MUL {
				return nil, false
			}
			cur = x.X
		case *ssa.IndexAddr:
			k, ok := ssaConstInt(x.Index)
			steps = append(steps, step{'i', int(k), ok})
			cur = x.X
		case *ssa.Index:
			k, ok := ssaConstInt(x.Index)
			steps = append(steps, step{'i', int(k), ok})
			cur = x.X
		case *ssa.FieldAddr:
			steps = append(steps, step{'f', x.Field, true})
			cur = x.X
		case *ssa.Field:
			steps = append(steps, step{'f', x.Field, true})
			cur = x.X
		case *ssa.Slice:
			if x.Low != nil || x.High != nil {
				return nil, false
			}
			cur = x.X
		case *ssa.ChangeType:
			cur = x.X
		case *ssa.Alloc:
			// a local copy of a row: the unique whole-value store into it
			var val ssa.Value
			n := 0
			if x.Referrers() == nil {
				return nil, false
			}
			for _, ref := range *x.Referrers() {
				if st, ok := ref.(*ssa.Store); ok && st.Addr == ssa.Value(x) {
					n++
					val = st.Val
				}
			}
			if n != 1 {
				return nil, false
			}
			cur = val
		case *ssa.Global:
			root = x
		default:
			return nil, false
		}
	}
	if root == nil || len(steps) == 0 {
		return nil, false
	}
	val, err := ClosedValue(p, root.Name())
	if err != nil {
		return nil, false
	}
	vals := []Val{val}
	for i := len(steps) - 1; i >= 0; i-- {
		st := steps[i]
		var next []Val
		for _, c := range vals {
			switch x := c.(type) {
			case *Slice:
				if st.kind != 'i' || x == nil {
					return nil, false
				}
				if st.known {
					if st.idx < 0 || st.idx >= len(x.Elems) {
						return nil, false
					}
					next = append(next, x.Elems[st.idx])
				} else {
					next = append(next, x.Elems...)
				}
			case *Struct:
				if st.kind != 'f' || x == nil || st.idx >= len(x.F) {
					return nil, false
				}
				next = append(next, x.F[st.idx])
			default:
				return nil, false
			}
		}
		vals = next
	}
	return vals, true
}

func ssaConstInt(v ssa.Value) (int64, bool) {
	c, ok := v.(*ssa.Const)
	if !ok || c.Value == nil || c.Value.Kind() != constant.Int {
		return 0, false
	}
	k, ok := constant.Int64Val(c.Value)
	return k, ok
}

// RowColumn: v reads a scalar place inside a closed package-level table through
// exactly one variable index (the row): `table[i].field`, also through a local copy
// of the row (`row := table[i]; row.field`).  Returns the index value and the value
// of that place for every row, in row order.
func RowColumn(p *core.Program, v ssa.Value) (ssa.Value, []Val, bool) {
	if root, path, ok := ssax.TableRead(v); ok {
		if al, isAl := root.(*ssa.Alloc); isAl {
			vals, rowVar, ok := localColumnVals(al, path)
			return rowVar, vals, ok && rowVar != nil
		}
	}
	type step struct {
		kind  byte
		idx   int
		known bool
		iv    ssa.Value
	}
	var steps []step
	cur := v
	var root *ssa.Global
	for d := 0; d < 14 && root == nil; d++ {
		switch x := cur.(type) {
		case *ssa.UnOp:
			if x.Op != token.MUL {
				return nil, nil, false
			}
			cur = x.X
		case *ssa.IndexAddr:
			k, ok := ssaConstInt(x.Index)
			steps = append(steps, step{'i', int(k), ok, x.Index})
			cur = x.X
		case *ssa.Index:
			k, ok := ssaConstInt(x.Index)
			steps = append(steps, step{'i', int(k), ok, x.Index})
			cur = x.X
		case *ssa.FieldAddr:
			steps = append(steps, step{'f', x.Field, true, nil})
			cur = x.X
		case *ssa.Field:
			steps = append(steps, step{'f', x.Field, true, nil})
			cur = x.X
		case *ssa.Slice:
			if x.Low != nil || x.High != nil {
				return nil, nil, false
			}
			cur = x.X
		case *ssa.ChangeType:
			cur = x.X
		case *ssa.Alloc:
			// a local copy of a row: the unique whole-value store into it
			var val ssa.Value
			n := 0
			if x.Referrers() == nil {
				return nil, nil, false
			}
			for _, ref := range *x.Referrers() {
				if st, ok := ref.(*ssa.Store); ok && st.Addr == ssa.Value(x) {
					n++
					val = st.Val
				}
			}
			if n != 1 {
				return nil, nil, false
			}
			cur = val
		case *ssa.Global:
			root = x
		default:
			return nil, nil, false
		}
	}
	if root == nil {
		return nil, nil, false
	}
	val, err := ClosedValue(p, root.Name())
	if err != nil {
		return nil, nil, false
	}
	var rowIdx ssa.Value
	nvar := 0
	for _, st := range steps {
		if st.kind == 'i' && !st.known {
			nvar++
			rowIdx = st.iv
		}
	}
	if nvar != 1 {
		return nil, nil, false
	}
	// walk from the root; at the variable index fan out into rows
	cursors := []Val{val}
	fanned := false
	for i := len(steps) - 1; i >= 0; i-- {
		st := steps[i]
		var next []Val
		for _, c := range cursors {
			switch x := c.(type) {
			case *Slice:
				if st.kind != 'i' || x == nil {
					return nil, nil, false
				}
				if st.known {
					if st.idx < 0 || st.idx >= len(x.Elems) {
						return nil, nil, false
					}
					next = append(next, x.Elems[st.idx])
				} else {
					if fanned {
						return nil, nil, false
					}
					fanned = true
					next = append(next, x.Elems...)
				}
			case *Struct:
				if st.kind != 'f' || x == nil || st.idx >= len(x.F) {
					return nil, nil, false
				}
				next = append(next, x.F[st.idx])
			default:
				return nil, nil, false
			}
		}
		cursors = next
	}
	return rowIdx, cursors, fanned
}

// localColumnVals: the constant values of a place of a local table literal (per row).
func localColumnVals(al *ssa.Alloc, path []ssax.PathElem) ([]Val, ssa.Value, bool) {
	svals, rowVar, ok := ssax.LocalColumn(al, path)
	if !ok {
		return nil, nil, false
	}
	var out []Val
	for _, sv := range svals {
		if ct, isCT := sv.(*ssa.ChangeType); isCT {
			sv = ct.X
		}
		switch x := sv.(type) {
		case *ssa.Const:
			if x.Value == nil {
				out = append(out, nil)
				continue
			}
			switch x.Value.Kind() {
			case constant.Int:
				k, _ := constant.Int64Val(constant.ToInt(x.Value))
				out = append(out, k)
			case constant.String:
				out = append(out, constant.StringVal(x.Value))
			case constant.Bool:
				out = append(out, constant.BoolVal(x.Value))
			default:
				return nil, nil, false
			}
		case *ssa.Function:
			out = append(out, ssax.Unwrap(x))
		case *ssa.MakeClosure:
			f, isF := x.Fn.(*ssa.Function)
			if !isF {
				return nil, nil, false
			}
			out = append(out, ssax.Unwrap(f))
		default:
			return nil, nil, false
		}
	}
	return out, rowVar, true
}
