package tables

import (
	"fmt"
	"go/constant"
	"go/token"
	"go/types"
	"strings"

	"golang.org/x/tools/go/ssa"
)

// Closed-initialiser evaluator: a small interpreter over go/ssa for functions
// that take only constants (table builders) or one scalar (single-byte
// predicates).  Anything it does not model yields an error (undecided ⇒ the
// caller fails).  It never receives program input.

type Slice struct{ Elems []Val }
type Ptr struct {
	S *Slice
	I int
}
type Cell struct{ V Val }

// Struct is a struct value (fields in declaration order).
type Struct struct{ F []Val }

// FieldPtr addresses one field of a struct.
type FieldPtr struct {
	S *Struct
	I int
}

func copyVal(v Val) Val {
	switch x := v.(type) {
	case *Struct:
		if x == nil {
			return x
		}
		n := &Struct{F: make([]Val, len(x.F))}
		for i, f := range x.F {
			n.F[i] = copyVal(f)
		}
		return n
	}
	return v
}

type Val interface{}

type Evaluator struct {
	Sizes   types.Sizes
	Steps   int
	MaxStep int
	Globals map[*ssa.Global]Val // optional known global values (pointer cells)
	// LoadGlobal evaluates the closed initialiser of a package variable on first use
	LoadGlobal func(g *ssa.Global) (Val, error)
}

func NewEvaluator(sizes types.Sizes) *Evaluator {
	return &Evaluator{Sizes: sizes, MaxStep: 20_000_000, Globals: map[*ssa.Global]Val{}}
}

type evalErr struct{ msg string }

func (e evalErr) Error() string { return e.msg }

func fail(format string, a ...interface{}) { panic(evalErr{fmt.Sprintf(format, a...)}) }

// Call evaluates fn(args...) and returns its results.
func (ev *Evaluator) Call(fn *ssa.Function, args ...Val) (res []Val, err error) {
	defer func() {
		if r := recover(); r != nil {
			if ee, ok := r.(evalErr); ok {
				err = ee
				return
			}
			panic(r)
		}
	}()
	return ev.call(fn, args, 0), nil
}

func (ev *Evaluator) trunc(v int64, t types.Type) int64 {
	b, ok := t.Underlying().(*types.Basic)
	if !ok {
		return v
	}
	switch b.Kind() {
	case types.Uint8:
		return int64(uint8(v))
	case types.Int8:
		return int64(int8(v))
	case types.Uint16:
		return int64(uint16(v))
	case types.Int16:
		return int64(int16(v))
	case types.Uint32:
		return int64(uint32(v))
	case types.Int32:
		return int64(int32(v))
	case types.Int, types.Uint, types.Uintptr:
		if ev.Sizes != nil && ev.Sizes.Sizeof(b) == 4 {
			if b.Kind() == types.Int {
				return int64(int32(v))
			}
			return int64(uint32(v))
		}
	}
	return v
}

func (ev *Evaluator) constVal(c *ssa.Const) Val {
	if c.Value == nil {
		// zero value / nil
		switch t := c.Type().Underlying().(type) {
		case *types.Basic:
			switch {
			case t.Info()&types.IsBoolean != 0:
				return false
			case t.Info()&types.IsString != 0:
				return ""
			case t.Info()&types.IsNumeric != 0:
				return int64(0)
			}
		case *types.Signature:
			return (*ssa.Function)(nil)
		case *types.Slice:
			return (*Slice)(nil)
		case *types.Struct, *types.Array:
			return ev.zero(c.Type())
		}
		fail("unsupported nil constant of type %s", c.Type())
	}
	switch c.Value.Kind() {
	case constant.Bool:
		return constant.BoolVal(c.Value)
	case constant.String:
		return constant.StringVal(c.Value)
	case constant.Int:
		iv, ok := constant.Int64Val(c.Value)
		if !ok {
			u, ok2 := constant.Uint64Val(c.Value)
			if !ok2 {
				fail("constant too large")
			}
			iv = int64(u)
		}
		return ev.trunc(iv, c.Type())
	}
	fail("unsupported constant kind %v", c.Value.Kind())
	return nil
}

type frame struct {
	fn   *ssa.Function
	vals map[ssa.Value]Val
}

func (ev *Evaluator) get(fr *frame, v ssa.Value) Val {
	switch x := v.(type) {
	case *ssa.Const:
		return ev.constVal(x)
	case *ssa.Function:
		return x
	case *ssa.Global:
		if c, ok := ev.Globals[x]; ok {
			return c
		}
		if ev.LoadGlobal != nil {
			c, err := ev.LoadGlobal(x)
			if err != nil {
				fail("read of global %s: %v", x.Name(), err)
			}
			ev.Globals[x] = c
			return c
		}
		fail("read of global %s not modelled", x.Name())
	}
	val, ok := fr.vals[v]
	if !ok {
		fail("%s: value %s has no binding", fr.fn.Name(), v.Name())
	}
	return val
}

func (ev *Evaluator) call(fn *ssa.Function, args []Val, depth int) []Val {
	if depth > 40 {
		fail("call depth exceeded in %s", fn.Name())
	}
	switch fn.String() {
	case "bytes.IndexByte", "strings.IndexByte", "strings.ToUpper", "strings.ToLower":
		return ev.external(fn, args)
	}
	if fn.Blocks == nil {
		return ev.external(fn, args)
	}
	fr := &frame{fn: fn, vals: map[ssa.Value]Val{}}
	if len(args) != len(fn.Params) {
		fail("%s: %d args for %d params", fn.Name(), len(args), len(fn.Params))
	}
	for i, p := range fn.Params {
		fr.vals[p] = args[i]
	}
	var prev *ssa.BasicBlock
	b := fn.Blocks[0]
	for {
		var next *ssa.BasicBlock
		// phis first, evaluated simultaneously
		var phiVals []Val
		var phis []*ssa.Phi
		for _, ins := range b.Instrs {
			ph, ok := ins.(*ssa.Phi)
			if !ok {
				break
			}
			idx := -1
			for i, pb := range b.Preds {
				if pb == prev {
					idx = i
					break
				}
			}
			if idx < 0 {
				fail("phi without predecessor")
			}
			phis = append(phis, ph)
			phiVals = append(phiVals, ev.get(fr, ph.Edges[idx]))
		}
		for i, ph := range phis {
			fr.vals[ph] = phiVals[i]
		}
		for _, ins := range b.Instrs[len(phis):] {
			ev.Steps++
			if ev.Steps > ev.MaxStep {
				fail("step cap exceeded in %s", fn.Name())
			}
			switch x := ins.(type) {
			case *ssa.DebugRef:
			case *ssa.Jump:
				next = b.Succs[0]
			case *ssa.If:
				c, ok := ev.get(fr, x.Cond).(bool)
				if !ok {
					fail("non-bool condition")
				}
				if c {
					next = b.Succs[0]
				} else {
					next = b.Succs[1]
				}
			case *ssa.Return:
				var out []Val
				for _, r := range x.Results {
					out = append(out, ev.get(fr, r))
				}
				return out
			case *ssa.Store:
				ev.store(ev.get(fr, x.Addr), ev.get(fr, x.Val))
			case *ssa.Panic:
				fail("panic reached in %s", fn.Name())
			case ssa.Value:
				fr.vals[x] = ev.evalValue(fr, x, depth)
			default:
				fail("%s: unsupported instruction %T", fn.Name(), ins)
			}
		}
		if next == nil {
			fail("%s: block %d has no terminator", fn.Name(), b.Index)
		}
		prev, b = b, next
	}
}

func (ev *Evaluator) store(addr, val Val) {
	switch a := addr.(type) {
	case *Ptr:
		if a.I < 0 || a.I >= len(a.S.Elems) {
			fail("store out of range")
		}
		a.S.Elems[a.I] = copyVal(val)
	case *Cell:
		a.V = copyVal(val)
	case *FieldPtr:
		a.S.F[a.I] = copyVal(val)
	default:
		fail("unsupported store target %T", addr)
	}
}

func (ev *Evaluator) load(addr Val) Val {
	switch a := addr.(type) {
	case *Ptr:
		if a.I < 0 || a.I >= len(a.S.Elems) {
			fail("load out of range")
		}
		return copyVal(a.S.Elems[a.I])
	case *Cell:
		return copyVal(a.V)
	case *FieldPtr:
		return copyVal(a.S.F[a.I])
	}
	fail("unsupported load from %T", addr)
	return nil
}

func (ev *Evaluator) zero(t types.Type) Val {
	switch u := t.Underlying().(type) {
	case *types.Basic:
		switch {
		case u.Info()&types.IsBoolean != 0:
			return false
		case u.Info()&types.IsString != 0:
			return ""
		case u.Info()&types.IsNumeric != 0:
			return int64(0)
		}
	case *types.Signature:
		return (*ssa.Function)(nil)
	case *types.Slice:
		return (*Slice)(nil)
	case *types.Struct:
		st := &Struct{F: make([]Val, u.NumFields())}
		for i := range st.F {
			st.F[i] = ev.zero(u.Field(i).Type())
		}
		return st
	case *types.Pointer:
		return (*Cell)(nil)
	case *types.Array:
		s := &Slice{Elems: make([]Val, u.Len())}
		for i := range s.Elems {
			s.Elems[i] = ev.zero(u.Elem())
		}
		return s
	}
	fail("unsupported zero value of %s", t)
	return nil
}

func (ev *Evaluator) evalValue(fr *frame, v ssa.Value, depth int) Val {
	switch x := v.(type) {
	case *ssa.Alloc:
		return &Cell{V: ev.zero(x.Type().Underlying().(*types.Pointer).Elem())}
	case *ssa.MakeSlice:
		n, ok := ev.get(fr, x.Len).(int64)
		if !ok || n < 0 || n > 1<<20 {
			fail("bad MakeSlice length")
		}
		s := &Slice{Elems: make([]Val, n)}
		et := x.Type().Underlying().(*types.Slice).Elem()
		for i := range s.Elems {
			s.Elems[i] = ev.zero(et)
		}
		return s
	case *ssa.IndexAddr:
		base := ev.get(fr, x.X)
		switch c := base.(type) { // pointer to array
		case *Cell:
			base = c.V
		case *FieldPtr:
			base = c.S.F[c.I]
		case *Ptr:
			if inner, ok := c.S.Elems[c.I].(*Slice); ok {
				base = inner
			}
		}
		s, ok := base.(*Slice)
		if !ok || s == nil {
			fail("IndexAddr on %T", base)
		}
		i, _ := ev.get(fr, x.Index).(int64)
		if i < 0 || int(i) >= len(s.Elems) {
			fail("%s: index %d out of range [0,%d) — evaluator refuses", fr.fn.Name(), i, len(s.Elems))
		}
		return &Ptr{s, int(i)}
	case *ssa.Index:
		base := ev.get(fr, x.X)
		i, _ := ev.get(fr, x.Index).(int64)
		switch b := base.(type) {
		case string:
			if i < 0 || int(i) >= len(b) {
				fail("string index out of range in %s", fr.fn.Name())
			}
			return int64(b[i])
		case *Slice:
			if i < 0 || int(i) >= len(b.Elems) {
				fail("index out of range in %s", fr.fn.Name())
			}
			return b.Elems[i]
		}
		fail("Index on %T", base)
	case *ssa.Lookup:
		base := ev.get(fr, x.X)
		if s, ok := base.(string); ok {
			i, _ := ev.get(fr, x.Index).(int64)
			if i < 0 || int(i) >= len(s) {
				fail("string index out of range in %s", fr.fn.Name())
			}
			return int64(s[i])
		}
		fail("Lookup on %T not modelled", base)
	case *ssa.UnOp:
		a := ev.get(fr, x.X)
		switch x.Op {
		case token.MUL:
			return ev.load(a)
		case token.NOT:
			return !a.(bool)
		case token.SUB:
			return ev.trunc(-a.(int64), x.Type())
		case token.XOR:
			return ev.trunc(^a.(int64), x.Type())
		}
		fail("unsupported unary op %s", x.Op)
	case *ssa.BinOp:
		return ev.binop(x, ev.get(fr, x.X), ev.get(fr, x.Y))
	case *ssa.Phi:
		fail("phi in body")
	case *ssa.Convert:
		a := ev.get(fr, x.X)
		switch t := x.Type().Underlying().(type) {
		case *types.Basic:
			if t.Info()&types.IsInteger != 0 {
				if iv, ok := a.(int64); ok {
					return ev.trunc(iv, x.Type())
				}
			}
			if t.Info()&types.IsString != 0 {
				switch s := a.(type) {
				case *Slice:
					var sb strings.Builder
					for _, e := range s.Elems {
						sb.WriteByte(byte(e.(int64)))
					}
					return sb.String()
				case int64:
					return string(rune(s))
				}
			}
		case *types.Slice:
			if s, ok := a.(string); ok {
				out := &Slice{Elems: make([]Val, len(s))}
				for i := 0; i < len(s); i++ {
					out.Elems[i] = int64(s[i])
				}
				return out
			}
		}
		fail("unsupported conversion to %s", x.Type())
	case *ssa.ChangeType:
		return ev.get(fr, x.X)
	case *ssa.Slice:
		base := ev.get(fr, x.X)
		lo, hi := int64(0), int64(-1)
		if x.Low != nil {
			lo = ev.get(fr, x.Low).(int64)
		}
		if x.High != nil {
			hi = ev.get(fr, x.High).(int64)
		}
		if c, ok := base.(*Cell); ok { // slice of *[N]T
			base = c.V
		}
		switch b := base.(type) {
		case string:
			if hi < 0 {
				hi = int64(len(b))
			}
			if lo < 0 || lo > hi || hi > int64(len(b)) {
				fail("slice bounds out of range")
			}
			return b[lo:hi]
		case *Slice:
			if hi < 0 {
				hi = int64(len(b.Elems))
			}
			if lo < 0 || lo > hi || hi > int64(len(b.Elems)) {
				fail("slice bounds out of range")
			}
			return &Slice{Elems: b.Elems[lo:hi]}
		}
		fail("Slice on %T", base)
	case *ssa.Extract:
		t, ok := ev.get(fr, x.Tuple).([]Val)
		if !ok {
			fail("extract from non-tuple")
		}
		return t[x.Index]
	case *ssa.Call:
		return ev.evalCall(fr, x, depth)
	case *ssa.FieldAddr:
		base := ev.get(fr, x.X)
		var st *Struct
		switch b := base.(type) {
		case *Cell:
			st, _ = b.V.(*Struct)
		case *Ptr:
			st, _ = b.S.Elems[b.I].(*Struct)
		case *FieldPtr:
			st, _ = b.S.F[b.I].(*Struct)
		}
		if st == nil {
			fail("FieldAddr on %T", base)
		}
		return &FieldPtr{st, x.Field}
	case *ssa.Field:
		st, ok := ev.get(fr, x.X).(*Struct)
		if !ok || st == nil {
			fail("Field on non-struct")
		}
		return copyVal(st.F[x.Field])
	case *ssa.MakeInterface, *ssa.MakeClosure, *ssa.MakeMap, *ssa.MakeChan, *ssa.TypeAssert, *ssa.Range, *ssa.Next, *ssa.Select:
		fail("%s: instruction %T not modelled", fr.fn.Name(), v)
	}
	fail("%s: unsupported value %T", fr.fn.Name(), v)
	return nil
}

func (ev *Evaluator) evalCall(fr *frame, c *ssa.Call, depth int) Val {
	com := c.Common()
	if com.IsInvoke() {
		fail("interface call not modelled")
	}
	var args []Val
	for _, a := range com.Args {
		args = append(args, ev.get(fr, a))
	}
	var res []Val
	switch callee := com.Value.(type) {
	case *ssa.Builtin:
		switch callee.Name() {
		case "len":
			switch a := args[0].(type) {
			case string:
				return int64(len(a))
			case *Slice:
				if a == nil {
					return int64(0)
				}
				return int64(len(a.Elems))
			}
		}
		fail("builtin %s not modelled", callee.Name())
	case *ssa.Function:
		res = ev.call(callee, args, depth+1)
	default:
		f, ok := ev.get(fr, com.Value).(*ssa.Function)
		if !ok || f == nil {
			fail("dynamic call on %T", com.Value)
		}
		res = ev.call(f, args, depth+1)
	}
	switch len(res) {
	case 0:
		return nil
	case 1:
		return res[0]
	}
	return res
}

func (ev *Evaluator) external(fn *ssa.Function, args []Val) []Val {
	name := fn.String()
	switch name {
	case "bytes.IndexByte":
		s := args[0].(*Slice)
		c := args[1].(int64)
		if s != nil {
			for i, e := range s.Elems {
				if e.(int64) == c {
					return []Val{int64(i)}
				}
			}
		}
		return []Val{int64(-1)}
	case "strings.IndexByte":
		return []Val{int64(strings.IndexByte(args[0].(string), byte(args[1].(int64))))}
	case "strings.ToUpper":
		return []Val{strings.ToUpper(args[0].(string))}
	case "strings.ToLower":
		return []Val{strings.ToLower(args[0].(string))}
	}
	fail("external function %s not modelled", name)
	return nil
}

func (ev *Evaluator) binop(x *ssa.BinOp, a, b Val) Val {
	switch av := a.(type) {
	case bool:
		bv := b.(bool)
		switch x.Op {
		case token.EQL:
			return av == bv
		case token.NEQ:
			return av != bv
		}
	case string:
		bv, ok := b.(string)
		if !ok {
			fail("string op with %T", b)
		}
		switch x.Op {
		case token.EQL:
			return av == bv
		case token.NEQ:
			return av != bv
		case token.ADD:
			return av + bv
		case token.LSS:
			return av < bv
		case token.GTR:
			return av > bv
		case token.LEQ:
			return av <= bv
		case token.GEQ:
			return av >= bv
		}
	case int64:
		bv, ok := b.(int64)
		if !ok {
			fail("int op with %T", b)
		}
		unsigned := false
		if bt, ok := x.X.Type().Underlying().(*types.Basic); ok && bt.Info()&types.IsUnsigned != 0 {
			unsigned = true
		}
		switch x.Op {
		case token.ADD:
			return ev.trunc(av+bv, x.Type())
		case token.SUB:
			return ev.trunc(av-bv, x.Type())
		case token.MUL:
			return ev.trunc(av*bv, x.Type())
		case token.QUO:
			if bv == 0 {
				fail("division by zero")
			}
			return ev.trunc(av/bv, x.Type())
		case token.REM:
			if bv == 0 {
				fail("division by zero")
			}
			return ev.trunc(av%bv, x.Type())
		case token.AND:
			return ev.trunc(av&bv, x.Type())
		case token.OR:
			return ev.trunc(av|bv, x.Type())
		case token.XOR:
			return ev.trunc(av^bv, x.Type())
		case token.AND_NOT:
			return ev.trunc(av&^bv, x.Type())
		case token.SHL:
			if bv < 0 || bv > 63 {
				return int64(0)
			}
			return ev.trunc(av<<uint(bv), x.Type())
		case token.SHR:
			if bv < 0 || bv > 63 {
				bv = 63
			}
			return ev.trunc(av>>uint(bv), x.Type())
		case token.EQL:
			return av == bv
		case token.NEQ:
			return av != bv
		case token.LSS:
			if unsigned {
				return uint64(av) < uint64(bv)
			}
			return av < bv
		case token.LEQ:
			if unsigned {
				return uint64(av) <= uint64(bv)
			}
			return av <= bv
		case token.GTR:
			if unsigned {
				return uint64(av) > uint64(bv)
			}
			return av > bv
		case token.GEQ:
			if unsigned {
				return uint64(av) >= uint64(bv)
			}
			return av >= bv
		}
	case *ssa.Function:
		bf, _ := b.(*ssa.Function)
		switch x.Op {
		case token.EQL:
			return av == bf
		case token.NEQ:
			return av != bf
		}
	}
	fail("unsupported binary op %s on %T", x.Op, a)
	return nil
}
