#!/usr/bin/env python3
"""Generates single-site mutants of /repo's non-test Go files: one line per mutant
id|file|lineno|description|newline(base64)"""
import re, os, base64, sys
files = ['sqli.go','sqli_parse.go','sqli_token.go','sqli_helpers.go','sqli_data.go','html5.go','xss.go','xss_helpers.go']
out = []
def strip(line):
    # remove // comments (naive: not inside strings)
    res = ''; i = 0; instr = None
    while i < len(line):
        c = line[i]
        if instr:
            res += c
            if c == '\\' and i+1 < len(line):
                res += line[i+1]; i += 2; continue
            if c == instr: instr = None
        else:
            if c in '"`\'':
                instr = c; res += c
            elif line.startswith('//', i):
                break
            else:
                res += c
        i += 1
    return res
ops = [
 (r'(?<![<>=!:+\-*/&|^])<=(?![=])', '<'), (r'(?<![<>=!:\-])<(?![<=\-])', '<='),
 (r'(?<![<>=!:\-])>=(?![=])', '>'), (r'(?<![<>=!:\-])>(?![>=])', '>='),
 (r'==', '!='), (r'!=', '=='),
 (r'&&', '||'), (r'\|\|', '&&'),
 (r'\+ 1\b', '+ 2'), (r'\+ 1\b', ''), (r'- 1\b', ''), (r'\+ 2\b', '+ 1'), (r'\+ 3\b', '+ 2'),
 (r'\breturn true\b', 'return false'), (r'\breturn false\b', 'return true'),
 (r'\+\+$', '--'),
]
mid = 0
for f in files:
    lines = open('/repo/'+f).read().split('\n')
    in_data = False
    for ln, line in enumerate(lines, 1):
        code = strip(line)
        if f == 'sqli_data.go' and re.match(r'^var sqlKeywords', line): in_data = True
        if in_data:
            if line.startswith('}'): in_data = False
            continue
        if not code.strip() or code.strip().startswith(('import','package','case sqliTokenType')):
            pass
        # skip pure data lines (table entries)
        if re.match(r'^\s*\{?"[^"]*"', code) or re.match(r'^\s*"', code): continue
        # mask string/char literals so operators inside them are not mutated
        masked = re.sub(r'"(\\.|[^"\\])*"|\'(\\.|[^\'\\])*\'|`[^`]*`', lambda m: '_'*len(m.group(0)), code)
        for pat, rep in ops:
            for m in re.finditer(pat, masked):
                new = line[:m.start()] + rep + line[m.end():]
                if new == line: continue
                mid += 1
                desc = f"{line[m.start():m.end()].strip()}→{rep or '∅'} @col{m.start()}"
                out.append(f"{mid}|{f}|{ln}|{desc}|{base64.b64encode(new.encode()).decode()}")
        # statement deletion: simple assignment / increment / call statements
        s = code.strip()
        if re.match(r'^[A-Za-z_][\w\.\[\]]*(\+\+|--)$', s) or re.match(r'^[a-z]\w*\.[A-Za-z_][\w\.]* (=|\+=|-=) [^=].*$', s):
            mid += 1
            indent = line[:len(line)-len(line.lstrip())]
            enc = base64.b64encode((indent+'_ = 0').encode()).decode()
            out.append(f"{mid}|{f}|{ln}|delete `{s[:40]}`|{enc}")
print('\n'.join(out))
