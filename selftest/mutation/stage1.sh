#!/bin/bash
# usage: stage1.sh "<mutant line>" -> appends "id|file|line|desc|status" to /tmp/mut/stage1.out ; status: NOBUILD | KILLED | SAME | DIFF
export GOFLAGS=-mod=mod GOPROXY=off GOSUMDB=off GOTOOLCHAIN=local
line="$1"
id=$(echo "$line" | cut -d'|' -f1); f=$(echo "$line" | cut -d'|' -f2); ln=$(echo "$line" | cut -d'|' -f3); desc=$(echo "$line" | cut -d'|' -f4); b64=$(echo "$line" | cut -d'|' -f5)
wt=/tmp/mut/w$id
rm -rf $wt; mkdir -p $wt; (cd /repo && git archive HEAD | tar -x -C $wt)
python3 - "$wt/$f" "$ln" "$b64" <<'PY'
import sys, base64
p, ln, b64 = sys.argv[1], int(sys.argv[2]), sys.argv[3]
L = open(p).read().split('\n')
L[ln-1] = base64.b64decode(b64).decode()
open(p, 'w').write('\n'.join(L))
PY
cd $wt
status=""
if ! go build ./... >/dev/null 2>&1; then status=NOBUILD; fi
if [ -z "$status" ]; then
  if ! timeout 120 go test -vet=off -count=1 ./... >/dev/null 2>&1; then status=KILLED; fi
fi
if [ -z "$status" ]; then
  cp /tmp/benign/14/zz_diff_test.go .
  if DIFF_MODE=check DIFF_FILE=/tmp/benign/14/golden.txt timeout 300 go test -vet=off -count=1 -run TestZZDiff . >/dev/null 2>&1; then status=SAME; else status=DIFF; fi
  rm -f zz_diff_test.go
fi
echo "$id|$f|$ln|$desc|$status" >> /tmp/mut/stage1.out
if [ "$status" = "NOBUILD" ] || [ "$status" = "KILLED" ]; then rm -rf $wt; fi
