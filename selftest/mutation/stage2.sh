#!/bin/bash
# usage: stage2.sh "<stage1 line>"  (status SAME or DIFF) -> appends "id|file|line|desc|status|checks" to /tmp/mut/stage2.out
export GOFLAGS=-mod=mod GOPROXY=off GOSUMDB=off GOTOOLCHAIN=local
line="$1"
id=$(echo "$line" | cut -d'|' -f1); f=$(echo "$line" | cut -d'|' -f2); st=$(echo "$line" | cut -d'|' -f5)
wt=/tmp/mut/w$id
[ -d $wt ] || exit 0
ev=$(mktemp -d /tmp/mut/ev.XXXXXX)
hit=""
for p in C04 C05 C08 C10 C11 C12 C13 C14 C15 C19 C20; do
  /tmp/mut/verif check --property $p --tier quick --repo $wt --evidence $ev >/dev/null 2>&1 || hit="$hit $p"
done
if [ -z "$hit" ]; then
  case $f in
    sqli_parse.go|sqli_token.go|sqli_data.go|sqli_helpers.go) e3="C01 C16 C18 C03";;
    sqli.go) e3="C01 C16 C03";;
    html5.go) e3="C02 C17";;
    xss.go|xss_helpers.go) e3="C02 C19";;
  esac
  for p in $e3; do
    /tmp/mut/verif check --property $p --tier quick --repo $wt --evidence $ev >/dev/null 2>&1 || hit="$hit $p"
  done
fi
echo "$line|${hit:- NONE}" >> /tmp/mut/stage2.out
rm -rf $ev
