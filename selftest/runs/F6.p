b11-r3.diff: NONE
b17-r1.diff: NONE
