C17-treport.diff: C17
C17-tnext.diff: C17
C12-gate.diff: C12
C04-backtick.diff: C04
C04-nb.diff: C04
C19-d9c.diff: C19
C19-d9a.diff: C19
C19-d9b.diff: C19
