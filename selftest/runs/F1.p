b10-r1.diff: NONE
b10-r5.diff: NONE
b1-r1.diff: NONE
b1-r3.diff: NONE
b1-r2.diff: NONE
b10-r3.diff: NONE
b1-r5.diff: NONE
b1-r4.diff: NONE
b10-r2.diff: NONE
b10-r4.diff: NONE
b11-r1.diff: NONE
b11-r2.diff: C14
b12-r1.diff: NONE
b11-r3.diff: NONE
b12-r5.diff: NONE
b13-r1.diff: NONE
b12-r2.diff: NONE
b11-r5.diff: NONE
b12-r3.diff: NONE
b12-r4.diff: NONE
b13-r4.diff: NONE
b13-r2.diff: NONE
b13-r3.diff: NONE
b11-r4.diff: NONE
b14-r2.diff: NONE
b13-r5.diff: NONE
b14-r4.diff: NONE
b14-r5.diff: NONE
b15-r1.diff: NONE
b14-r3.diff: NONE
b15-r2.diff: NONE
b14-r1.diff: NONE
b15-r3.diff: NONE
b15-r5.diff: NONE
b15-r4.diff: NONE
b16-r1.diff: NONE
b16-r3.diff: NONE
b16-r2.diff: NONE
b16-r4.diff: NONE
b16-r5.diff: NONE
b17-r2.diff: C04 C11 C13
b17-r5.diff: NONE
b17-r3.diff: NONE
b17-r4.diff: NONE
b18-r1.diff: NONE
b17-r1.diff: NONE
b18-r3.diff: NONE
b18-r2.diff: NONE
b18-r4.diff: NONE
b19-r1.diff: NONE
b19-r3.diff: NONE
b18-r5.diff: NONE
b19-r2.diff: NONE
b19-r4.diff: NONE
b19-r5.diff: NONE
b2-r2.diff: NONE
b2-r3.diff: NONE
b2-r5.diff: NONE
b2-r1.diff: NONE
b2-r4.diff: NONE
b20-r1.diff: NONE
b20-r4.diff: NONE
b20-r3.diff: NONE
b20-r2.diff: NONE
b20-r5.diff: NONE
b21-r1.diff: NONE
b21-r2.diff: NONE
b21-r5.diff: NONE
b21-r3.diff: NONE
b21-r4.diff: NONE
b3-r2.diff: NONE
b3-r1.diff: NONE
b3-r3.diff: NONE
b4-r1.diff: NONE
b3-r5.diff: NONE
b3-r4.diff: NONE
b4-r3.diff: NONE
b4-r2.diff: NONE
b4-r5.diff: NONE
b4-r4.diff: NONE
b5-r1.diff: NONE
b5-r3.diff: NONE
b5-r4.diff: NONE
b5-r2.diff: NONE
b6-r2.diff: NONE
b5-r5.diff: NONE
b6-r3.diff: NONE
b6-r1.diff: NONE
b6-r4.diff: NONE
b6-r5.diff: NONE
b8-r1.diff: NONE
b7-r2.diff: NONE
b7-r1.diff: NONE
b8-r3.diff: NONE
b8-r2.diff: NONE
b8-r4.diff: NONE
b8-r5.diff: NONE
b9-r1.diff: NONE
b9-r4.diff: NONE
b9-r2.diff: NONE
b9-r5.diff: NONE
b9-r3.diff: NONE
C01a: NONE
C01b: C05 C10
C01c: NONE
C01g: C10
C01d: C14
C01h: NONE
C02a: NONE
C02b: NONE
C02h: NONE
C02d: C04
C02c: NONE
C02g: NONE
C03a: NONE
C03b: C05 C08
C03c: NONE
C03d: NONE
C03g: C12
C03h: C12
C04a: C04 C05 C13 C15 C19
C04b: C04 C11
C04c: C04 C11
C04j: C04
C04d: C04 C05 C13 C15 C19
C04f: C11
C04e: C04 C11
C04i: C04 C11
C05b: C04 C05 C13 C15 C19
C05a: C05 C10
C05d: C04 C05 C13 C15 C19
C05c: C05 C08 C14
C05h: C05 C10
C05g: C04 C05 C11
C08d: C05 C08
C08a: C05 C08 C12
C08b: C08
C08e: C08 C10
C08i: C08
C08c: C08 C10
C08f: C08
C09b: NONE
C08j: C08 C10
C09a: NONE
C09d: NONE
C09c: NONE
C09h: C11
C10a: C10 C14
C09g: C14
C10e: C10
C10d: C10
C10c: C10 C14
C10b: C10
C10j: C10
C10f: C10
C10i: C10
C11b: C04 C11
C11c: C11 C19
C11g: C04 C11
C11d: C04 C11
C11h: C11
C12a: C12
C11a: C11 C19
C12b: C12
C12d: C12
C12c: C12
C12f: C12
C12e: C08 C12
C12i: C12
C13b: C13
C12j: C12
C13a: C04 C13 C15
C13d: C04 C13
C13c: C04 C05 C13 C15 C19
C13e: C04 C11 C13
C13i: C13
C13f: C13
C14a: C05 C14
C13j: C04 C13
C14b: C05
C14c: C14
C14d: C05 C08 C12 C14
C15a: C04 C13 C15
C14h: C05
C14g: C10 C14
C15c: C04 C13 C15
C15d: C11 C15
C15b: C11 C15
C15e: C11 C15
C15f: C04 C15 C19
C15i: C15
C15j: C04 C05 C13 C15
C16a: NONE
C16b: NONE
C16d: NONE
C16c: NONE
C16h: NONE
C16g: C10
C17a: NONE
C17c: NONE
C17b: NONE
C17e: NONE
C17d: C13
C17f: C04 C11 C13
C17i: NONE
C17j: NONE
C18a: NONE
C18b: C12
C18c: C10
C18e: C10
C18i: NONE
C18f: C10
C18d: NONE
C18j: NONE
C19a: C19
C19b: C19
C19c: C19
C19g: C19
C19d: C19
C19h: C19
C20d: C20
C20a: C20
C20c: C05 C10 C20
C20g: C04 C05 C20
C20b: C05 C10 C20
C20h: C20
C09-k2.diff: NONE
C09-k1.diff: NONE
C09-k3.diff: C15
C17-m1.diff: NONE
C17-m3.diff: NONE
C17-m6.diff: NONE
C17-m4.diff: NONE
C18-m4.diff: NONE
C17-m5.diff: NONE
C17-m7.diff: C04 C13
C19-h1.diff: C19
C19-h11.diff: C11 C19
C19-h10.diff: C19
C19-h2.diff: C19
C19-h3.diff: C19
C19-h6.diff: C04 C19
C19-h5.diff: C19
C19-h8.diff: C19
C19-h7.diff: C04 C19
C19-h9.diff: C04 C19
revert-5e0d7be.diff: C10
revert-c453d35.diff: NONE
revert-26cbd23.diff: NONE
revert-f278648.diff: NONE
revert-cc5da44.diff: NONE
